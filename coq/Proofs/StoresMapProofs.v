(* C13, the map keyspace of the RocksDB back-end as a map per lane: what a reader of lane [id] finds for a key
   is what the last update / remove / clear of that lane left there (operations of other lanes are the isolation
   theorems of Proofs/StoresProofs.v), and read_map lists exactly those entries in key order. *)
From SwimV Require Import Model.Stores Proofs.StoresProofs.
Open Scope N_scope.

Definition view (ks : list (bytes * bytes)) (id : N) : list (bytes * bytes) :=
  map strip (seek_prefix ks (ser_map_prefix id)).

(* well formed: every key is a map key of some lane with a 56-bit id, and no key occurs twice *)
Definition WF (ks : list (bytes * bytes)) : Prop := wf_map_ks ks /\ NoDup (map fst ks).

Lemma U56_U64 v : U56 v -> U64 v.
Proof. unfold U56, U64. intros H. eapply N.lt_trans; [exact H|]. reflexivity. Qed.

Lemma key_inj id k id' k' : U56 id -> U56 id' -> ser_map_key id k = ser_map_key id' k' -> id = id' /\ k = k'.
Proof.
  intros H1 H2 E. split.
  - unfold ser_map_key in E. apply (f_equal (@tl N)) in E. cbn [tl] in E.
    apply app_len_inj in E as [A _]; [|now rewrite !le_length]. apply le8_inj in A; auto using U56_U64.
  - pose proof (strip_returns_key id k []) as S1. pose proof (strip_returns_key id' k' []) as S2.
    rewrite E in S1. rewrite S1 in S2. now injection S2.
Qed.

Lemma key_eqb id k id' k' : U56 id -> U56 id' ->
  bytes_eqb (ser_map_key id k) (ser_map_key id' k') = true <-> id = id' /\ k = k'.
Proof.
  intros H1 H2. rewrite bytes_eqb_eq. split; [now apply key_inj|]. intros [-> ->]. reflexivity.
Qed.

Lemma scan_pred_same id k v : U56 id -> scan_pred id (ser_map_key id k, v) = true.
Proof.
  intros H. unfold scan_pred. cbn [fst]. apply (scan_selects_exactly_the_lane id id k H H). reflexivity.
Qed.

(* what the prefix scan of a lane finds for a key is what a point lookup of the full key finds *)
Theorem view_lookup_is_point_lookup ks id k : wf_map_ks ks -> U56 id ->
  bget k (view ks id) = bget (ser_map_key id k) ks.
Proof.
  intros WFk Hid. unfold view, seek_prefix. fold (scan_pred id).
  induction WFk as [|[key v] t (i & k0 & Ek & Ui) _ IH]; cbn [filter map bget]; [reflexivity|].
  cbn [fst] in Ek. subst key. destruct (N.eq_dec i id) as [->|Hne].
  - change (fun e : bytes * bytes => ble (ser_map_prefix id) (fst e) && bytes_eqb (prefix8 (fst e)) (prefix8 (ser_map_prefix id))) with (scan_pred id).
    rewrite scan_pred_same by exact Hid. cbn [map bget]. rewrite strip_returns_key. cbn [fst snd bget].
    destruct (bytes_eqb k k0) eqn:E.
    + apply bytes_eqb_eq in E. subst k0. now rewrite bytes_eqb_refl.
    + destruct (bytes_eqb (ser_map_key id k) (ser_map_key id k0)) eqn:E2; [|exact IH].
      apply key_eqb in E2 as [_ ->]; auto. rewrite bytes_eqb_refl in E. discriminate.
  - change (fun e : bytes * bytes => ble (ser_map_prefix id) (fst e) && bytes_eqb (prefix8 (fst e)) (prefix8 (ser_map_prefix id))) with (scan_pred id).
    rewrite scan_pred_other by auto.
    destruct (bytes_eqb (ser_map_key id k) (ser_map_key i k0)) eqn:E2; [|exact IH].
    apply key_eqb in E2 as [-> _]; auto. congruence.
Qed.

Lemma wf_bput ks id k v : wf_map_ks ks -> U56 id -> wf_map_ks (bput (ser_map_key id k) v ks).
Proof.
  intros H Hid. induction H as [|[key v'] t He Ht IH]; cbn [bput].
  - constructor; [|constructor]. exists id, k. now split.
  - destruct (bytes_eqb (ser_map_key id k) key).
    + constructor; [|exact Ht]. exists id, k. now split.
    + constructor; [exact He|exact IH].
Qed.

Lemma wf_bdel ks key : wf_map_ks ks -> wf_map_ks (bdel key ks).
Proof.
  intros H. induction H as [|[key' v'] t He Ht IH]; cbn [bdel]; [constructor|].
  destruct (bytes_eqb key key'); [exact Ht|]. constructor; auto.
Qed.

Lemma wf_filter P ks : wf_map_ks ks -> wf_map_ks (filter P ks).
Proof. intros H. unfold wf_map_ks in *. rewrite Forall_forall in *. intros e He. apply filter_In in He as [He _]. now apply H. Qed.

Lemma fst_bput_in {A} k (v : A) m x : In x (map fst (bput k v m)) -> x = k \/ In x (map fst m).
Proof.
  induction m as [|[k' v'] t IH]; cbn; [intros [<-|[]]; now left|]. destruct (bytes_eqb k k') eqn:E; cbn.
  - apply bytes_eqb_eq in E. subst k'. tauto.
  - intros [<-|H]; [tauto|]. destruct (IH H); tauto.
Qed.

Lemma nodup_bput {A} k (v : A) m : NoDup (map fst m) -> NoDup (map fst (bput k v m)).
Proof.
  induction m as [|[k' v'] t IH]; cbn; intros H; [constructor; [tauto|constructor]|].
  inversion H as [|? ? Hn Ht]; subst. destruct (bytes_eqb k k') eqn:E; cbn.
  - apply bytes_eqb_eq in E. subst k'. now constructor.
  - constructor; [|now apply IH]. intros Hin. apply fst_bput_in in Hin as [->|Hin]; [now rewrite bytes_eqb_refl in E|contradiction].
Qed.

Lemma fst_bdel_in {A} k (m : list (bytes * A)) x : In x (map fst (bdel k m)) -> In x (map fst m).
Proof.
  induction m as [|[k' v'] t IH]; cbn; [tauto|]. destruct (bytes_eqb k k'); cbn; [tauto|]. intros [<-|H]; [tauto|]. right. now apply IH.
Qed.

Lemma nodup_bdel {A} k (m : list (bytes * A)) : NoDup (map fst m) -> NoDup (map fst (bdel k m)).
Proof.
  induction m as [|[k' v'] t IH]; cbn; intros H; [constructor|]. inversion H as [|? ? Hn Ht]; subst.
  destruct (bytes_eqb k k'); [exact Ht|]. cbn. constructor; [|now apply IH]. intros Hin. apply Hn. now apply fst_bdel_in in Hin.
Qed.

Lemma nodup_filter {A} (P : bytes * A -> bool) m : NoDup (map fst m) -> NoDup (map fst (filter P m)).
Proof.
  induction m as [|e t IH]; cbn; intros H; [constructor|]. inversion H as [|? ? Hn Ht]; subst.
  destruct (P e); cbn; [|now apply IH]. constructor; [|now apply IH].
  intros Hin. apply Hn. apply in_map_iff in Hin as (x & Ex & Hx). apply filter_In in Hx as [Hx _]. apply in_map_iff. now exists x.
Qed.

Lemma bget_not_in {A} k (m : list (bytes * A)) : ~ In k (map fst m) -> bget k m = None.
Proof.
  induction m as [|[k' v'] t IH]; cbn; [reflexivity|]. intros H. destruct (bytes_eqb k k') eqn:E.
  - apply bytes_eqb_eq in E. subst. tauto.
  - apply IH. tauto.
Qed.

Lemma bget_bdel {A} k k' (m : list (bytes * A)) : NoDup (map fst m) ->
  bget k' (bdel k m) = if bytes_eqb k' k then None else bget k' m.
Proof.
  induction m as [|[a v] t IH]; cbn; intros H; [now destruct (bytes_eqb k' k)|]. inversion H as [|? ? Hn Ht]; subst.
  destruct (bytes_eqb k a) eqn:E.
  - apply bytes_eqb_eq in E. subst a. destruct (bytes_eqb k' k) eqn:E2; [|reflexivity].
    apply bytes_eqb_eq in E2. subst k'. now apply bget_not_in.
  - cbn [bget]. destruct (bytes_eqb k' a) eqn:E2.
    + apply bytes_eqb_eq in E2. subst a. destruct (bytes_eqb k' k) eqn:E3; [|reflexivity].
      apply bytes_eqb_eq in E3. subst k'. now rewrite bytes_eqb_refl in E.
    + now apply IH.
Qed.

(* the three operations keep the keyspace well formed *)
Theorem wf_update ks id k v : WF ks -> U56 id -> WF (bput (ser_map_key id k) v ks).
Proof. intros [H1 H2] Hid. split; [now apply wf_bput|now apply nodup_bput]. Qed.
Theorem wf_remove ks id k : WF ks -> WF (bdel (ser_map_key id k) ks).
Proof. intros [H1 H2]. split; [now apply wf_bdel|now apply nodup_bdel]. Qed.
Theorem wf_clear ks id : WF ks -> WF (delete_range ks (ser_map_prefix id) (ser_map_ubound id)).
Proof. intros [H1 H2]. unfold delete_range. split; [now apply wf_filter|now apply nodup_filter]. Qed.

(* ---- the lane as a map ---- *)
Theorem update_sets_the_key ks id k v k' : WF ks -> U56 id ->
  bget k' (view (bput (ser_map_key id k) v ks) id) = if bytes_eqb k' k then Some v else bget k' (view ks id).
Proof.
  intros [H1 H2] Hid. rewrite !view_lookup_is_point_lookup by (auto using wf_bput).
  destruct (bytes_eqb k' k) eqn:E.
  - apply bytes_eqb_eq in E. subst k'. apply bget_bput_same.
  - apply bget_bput_other. destruct (bytes_eqb (ser_map_key id k') (ser_map_key id k)) eqn:E2; [|reflexivity].
    apply key_eqb in E2 as [_ ->]; auto. now rewrite bytes_eqb_refl in E.
Qed.

Theorem remove_unsets_the_key ks id k k' : WF ks -> U56 id ->
  bget k' (view (bdel (ser_map_key id k) ks) id) = if bytes_eqb k' k then None else bget k' (view ks id).
Proof.
  intros [H1 H2] Hid. rewrite !view_lookup_is_point_lookup by (auto using wf_bdel). rewrite bget_bdel by exact H2.
  destruct (bytes_eqb k' k) eqn:E.
  - apply bytes_eqb_eq in E. subst k'. now rewrite bytes_eqb_refl.
  - destruct (bytes_eqb (ser_map_key id k') (ser_map_key id k)) eqn:E2; [|reflexivity].
    apply key_eqb in E2 as [_ ->]; auto. now rewrite bytes_eqb_refl in E.
Qed.

Theorem clear_unsets_every_key ks id k' : WF ks -> U56 id ->
  bget k' (view (delete_range ks (ser_map_prefix id) (ser_map_ubound id)) id) = None.
Proof. intros [H1 H2] Hid. unfold view. now rewrite clear_map_clears. Qed.

(* ---- read_map: exactly the lane's entries, in strictly increasing key order ---- *)
Lemma In_sorted_insert kv l x : In x (sorted_insert kv l) <-> x = kv \/ In x l.
Proof.
  induction l as [|h t IH]; cbn; [intuition congruence|]. destruct (ble (fst kv) (fst h)); cbn; [intuition congruence|]. rewrite IH. intuition congruence.
Qed.

Lemma In_sort_kv l x : In x (sort_kv l) <-> In x l.
Proof. unfold sort_kv. induction l as [|h t IH]; cbn; [tauto|]. rewrite In_sorted_insert, IH. intuition congruence. Qed.

Lemma view_nodup ks id : WF ks -> U56 id -> NoDup (map fst (view ks id)).
Proof.
  intros [H1 H2] Hid. unfold view, seek_prefix. fold (scan_pred id).
  change (fun e : bytes * bytes => ble (ser_map_prefix id) (fst e) && bytes_eqb (prefix8 (fst e)) (prefix8 (ser_map_prefix id))) with (scan_pred id).
  induction H1 as [|[key v] t (i & k0 & Ek & Ui) Ht IH]; cbn [filter map]; [constructor|].
  cbn [fst] in Ek. subst key. cbn [map fst] in H2. inversion H2 as [|? ? Hn Hd]; subst.
  destruct (scan_pred id (ser_map_key i k0, v)) eqn:Es; [|now apply IH].
  assert (i = id). { unfold scan_pred in Es. cbn [fst] in Es. now apply (scan_selects_exactly_the_lane id i k0 Hid Ui) in Es. }
  subst i. cbn [map]. rewrite strip_returns_key. cbn [fst]. constructor; [|now apply IH].
  intros Hin. apply Hn. apply in_map_iff in Hin as ([kk vv] & Ek & Hin). cbn [fst] in Ek. subst kk.
  apply in_map_iff in Hin as ([key v'] & Es' & Hin). apply filter_In in Hin as [Hin Hp].
  rewrite Forall_forall in Ht. destruct (Ht _ Hin) as (i' & k' & Ek' & Ui'). cbn [fst] in Ek'. subst key.
  assert (i' = id). { unfold scan_pred in Hp. cbn [fst] in Hp. now apply (scan_selects_exactly_the_lane id i' k' Hid Ui') in Hp. }
  subst i'. rewrite strip_returns_key in Es'. injection Es' as E1 E2. subst. apply in_map_iff. eexists. split; [|exact Hin]. reflexivity.
Qed.

Lemma bget_In_nodup {A} k (v : A) m : NoDup (map fst m) -> (In (k, v) m <-> bget k m = Some v).
Proof.
  induction m as [|[a w] t IH]; cbn; intros H; [split; [tauto|discriminate]|]. inversion H as [|? ? Hn Ht]; subst.
  destruct (bytes_eqb k a) eqn:E.
  - apply bytes_eqb_eq in E. subst a. split.
    + intros [[= ->]|Hin]; [reflexivity|]. exfalso. apply Hn. apply in_map_iff. now exists (k, v).
    + intros [= ->]. now left.
  - rewrite <- (IH Ht). split; [intros [[= -> ->]|Hin]; [now rewrite bytes_eqb_refl in E|exact Hin]|tauto].
Qed.

(* what read_map returns for the lane: (k, v) is listed exactly if the lane holds v at k *)
Theorem read_map_lists_the_lane ks id k v : WF ks -> U56 id ->
  In (k, v) (sort_kv (view ks id)) <-> bget (ser_map_key id k) ks = Some v.
Proof.
  intros HW Hid. rewrite In_sort_kv, (bget_In_nodup k v _ (view_nodup ks id HW Hid)).
  now rewrite view_lookup_is_point_lookup by (apply HW || exact Hid).
Qed.

Fixpoint sorted_keys (l : list (bytes * bytes)) : Prop :=
  match l with
  | [] => True
  | a :: t => match t with [] => True | b :: _ => ble (fst a) (fst b) = true end /\ sorted_keys t
  end.

Lemma ble_total a : forall b, ble a b = true \/ ble b a = true.
Proof.
  induction a as [|x a IH]; intros [|y b]; cbn; auto.
  destruct (x <? y) eqn:E1; [now left|]. destruct (y <? x) eqn:E2; [now right|]. apply IH.
Qed.

Lemma sorted_insert_sorted kv l : sorted_keys l -> sorted_keys (sorted_insert kv l).
Proof.
  induction l as [|h t IH]; cbn [sorted_insert sorted_keys]; [tauto|]. intros [Hh Ht].
  destruct (ble (fst kv) (fst h)) eqn:E; cbn [sorted_keys]; [tauto|].
  split; [|now apply IH]. destruct t as [|b t']; cbn [sorted_insert].
  - destruct (ble_total (fst kv) (fst h)); congruence.
  - destruct (ble (fst kv) (fst b)); [destruct (ble_total (fst kv) (fst h)); congruence|exact Hh].
Qed.

Theorem read_map_is_sorted l : sorted_keys (sort_kv l).
Proof. unfold sort_kv. induction l as [|h t IH]; cbn; [exact I|]. now apply sorted_insert_sorted. Qed.
