(* Proofs about Model/Stores.v: the byte-level facts behind the RocksDB key layout, and the
   stability / uniqueness of identifiers. *)
From SwimV Require Import Model.Stores.
From Coq Require Import ZifyN ZifyNat ZifyBool.
Open Scope N_scope.

Arguments le : simpl never.

Lemma bytes_eqb_eq a b : bytes_eqb a b = true <-> a = b.
Proof.
  revert b; induction a as [|x a IH]; intros [|y b]; simpl; split; intros H;
    try reflexivity; try discriminate.
  - apply andb_true_iff in H as [H1 H2]. apply N.eqb_eq in H1. apply IH in H2. now subst.
  - inversion H; subst. rewrite N.eqb_refl. simpl. now apply IH.
Qed.

Lemma bytes_eqb_refl a : bytes_eqb a a = true.
Proof. now apply bytes_eqb_eq. Qed.

(* ---- little-endian fixed-width integers ---- *)
Lemma le_length n v : length (le n v) = n.
Proof. revert v. induction n; intros v; unfold le; fold le; simpl; auto. Qed.

Fixpoint unle (b : bytes) : N :=
  match b with [] => 0 | x :: t => x + 256 * unle t end.

Lemma unle_le n v : unle (le n v) = v mod 256 ^ N.of_nat n.
Proof.
  revert v. induction n as [|k IH]; intros v.
  - simpl. now rewrite N.mod_1_r.
  - unfold le; fold le. cbn [unle]. rewrite IH.
    replace (N.of_nat (S k)) with (1 + N.of_nat k) by lia. rewrite N.pow_add_r, N.pow_1_r.
    rewrite (N.mod_mul_r v 256 (256 ^ N.of_nat k)); [lia|lia|]. apply N.pow_nonzero. lia.
Qed.

Lemma le_inj n a b : a < 256 ^ N.of_nat n -> b < 256 ^ N.of_nat n -> le n a = le n b -> a = b.
Proof.
  intros Ha Hb E. apply (f_equal unle) in E. rewrite !unle_le in E.
  now rewrite !N.mod_small in E by assumption.
Qed.

Definition U64 (v : N) : Prop := v < 2 ^ 64.
Lemma pow_8 : 256 ^ N.of_nat 8 = 2 ^ 64.  Proof. reflexivity. Qed.

Lemma le8_inj a b : U64 a -> U64 b -> le 8 a = le 8 b -> a = b.
Proof. unfold U64. rewrite <- pow_8. apply le_inj. Qed.

Lemma app_len_inj {A} (a b c d : list A) : length a = length c -> a ++ b = c ++ d -> a = c /\ b = d.
Proof.
  revert c. induction a as [|x a IH]; intros [|y c] L H; simpl in *; try discriminate; auto.
  inversion H; subst. destruct (IH c) as [P Q]; auto. subst. auto.
Qed.

(* (L1) the serialised store keys are injective *)
Theorem ser_map_key_injective id k id' k' :
  U64 id -> U64 id' -> U64 (len k) -> U64 (len k') ->
  ser_map_key id k = ser_map_key id' k' -> id = id' /\ k = k'.
Proof.
  intros H1 H2 H3 H4 E. unfold ser_map_key in E.
  apply (f_equal (@tl N)) in E. cbn [tl] in E.
  apply app_len_inj in E as [A B]; [|now rewrite !le_length].
  apply le8_inj in A; auto.
  apply (f_equal (@tl N)) in B. cbn [tl] in B.
  apply app_len_inj in B as [C D]; [|now rewrite !le_length]. auto.
Qed.

Theorem ser_value_injective id id' : U64 id -> U64 id' -> ser_value id = ser_value id' -> id = id'.
Proof. intros H1 H2 E. unfold ser_value in E. apply (f_equal (@tl N)) in E. cbn [tl] in E. now apply le8_inj. Qed.

(* (L4) stripping the fixed-size prefix returns the original key, for keys of every length *)
Theorem strip_returns_key id k v : strip (ser_map_key id k, v) = (k, v).
Proof.
  unfold strip, ser_map_key, MAP_KEY_PREFIX_SIZE. cbn [fst snd]. f_equal.
Qed.

(* ---- lexicographic order ---- *)
Lemma ble_refl a : ble a a = true.
Proof. induction a as [|x a IH]; simpl; auto. rewrite N.ltb_irrefl. exact IH. Qed.

Lemma ble_prefix a b : ble a (a ++ b) = true.
Proof. induction a as [|x a IH]; simpl; auto. rewrite N.ltb_irrefl. exact IH. Qed.

Lemma ble_app_common p a b : ble (p ++ a) (p ++ b) = ble a b.
Proof. induction p as [|x p IH]; simpl; auto. now rewrite N.ltb_irrefl. Qed.

Lemma bytes_eqb_app_common p a b : bytes_eqb (p ++ a) (p ++ b) = bytes_eqb a b.
Proof. induction p as [|x p IH]; simpl; auto. now rewrite N.eqb_refl. Qed.

(* two different strings of one length: whatever follows them does not change their order *)
Lemma ble_diff_same_len a b x y : length a = length b -> a <> b ->
  ble (a ++ x) (b ++ y) = ble a b /\ ble (b ++ y) (a ++ x) = ble b a /\ ble a b = negb (ble b a).
Proof.
  revert b. induction a as [|p a IH]; intros [|q b] L NE; simpl in *; try discriminate; try congruence.
  destruct (N.ltb_spec p q); destruct (N.ltb_spec q p); try lia; auto.
  assert (p = q) by lia. subst q. apply IH; [lia|congruence].
Qed.

(* (L2) the prefix scan of lane [id] sees exactly the keys of lane [id] (ids below 2^56, which the
   allocator guarantees for fewer than 2^56 allocations) *)
Definition U56 (v : N) : Prop := v < 2 ^ 56.

Lemma le_succ_snoc n : forall v, le (S n) v = le n v ++ [(v / 256 ^ N.of_nat n) mod 256].
Proof.
  induction n as [|k IH]; intros v.
  - unfold le. simpl. now rewrite N.div_1_r.
  - change (le (S (S k)) v) with (v mod 256 :: le (S k) (v / 256)). rewrite IH.
    change (le (S k) v) with (v mod 256 :: le k (v / 256)). cbn [app]. f_equal. f_equal. f_equal. f_equal.
    rewrite N.div_div by (try lia; apply N.pow_nonzero; lia).
    replace (N.of_nat (S k)) with (1 + N.of_nat k) by lia. now rewrite N.pow_add_r, N.pow_1_r.
Qed.

Lemma le8_top_zero v : U56 v -> exists l7, le 8 v = l7 ++ [0] /\ length l7 = 7%nat /\ l7 = le 7 v.
Proof.
  intros H. exists (le 7 v). split; [|split; [apply le_length|reflexivity]].
  rewrite (le_succ_snoc 7 v). f_equal. f_equal.
  unfold U56 in H. replace (256 ^ N.of_nat 7) with (2 ^ 56) by reflexivity.
  rewrite N.div_small by exact H. reflexivity.
Qed.

Lemma le7_inj a b : U56 a -> U56 b -> le 7 a = le 7 b -> a = b.
Proof. unfold U56. replace (2 ^ 56) with (256 ^ N.of_nat 7) by reflexivity. apply le_inj. Qed.

Lemma firstn8_tag_l7 x (a r : bytes) : length a = 7%nat -> firstn 8 (x :: a ++ r) = x :: a.
Proof.
  intros L. change (firstn 8 (x :: a ++ r)) with (x :: firstn 7 (a ++ r)). f_equal.
  replace 7%nat with (length a). rewrite firstn_app, Nat.sub_diag, firstn_all. simpl. apply app_nil_r.
Qed.

Theorem scan_selects_exactly_the_lane id id' k' :
  U56 id -> U56 id' ->
  let e := ser_map_key id' k' in
  (ble (ser_map_prefix id) e && bytes_eqb (prefix8 e) (prefix8 (ser_map_prefix id)) = true) <-> id' = id.
Proof.
  intros H1 H2 e. unfold e, ser_map_key, ser_map_prefix, prefix8.
  destruct (le8_top_zero id H1) as (a & Ea & La & Ea').
  destruct (le8_top_zero id' H2) as (b & Eb & Lb & Eb').
  split.
  - intros H. apply andb_true_iff in H as [_ H]. apply bytes_eqb_eq in H.
    rewrite Ea, Eb in H. rewrite <- !app_assoc in H.
    rewrite !firstn8_tag_l7 in H by assumption. apply (f_equal (@tl N)) in H. cbn [tl] in H.
    subst a b. now apply le7_inj.
  - intros ->. apply andb_true_iff. split.
    + change (MAP_TAG :: le 8 id ++ KEYB :: le 8 (len k') ++ k')
        with ((MAP_TAG :: le 8 id) ++ KEYB :: le 8 (len k') ++ k'). apply ble_prefix.
    + apply bytes_eqb_eq. rewrite Ea. rewrite <- !app_assoc.
      rewrite !firstn8_tag_l7 by assumption. reflexivity.
Qed.

(* (L3) clear_map's half-open range [prefix, ubound) contains exactly the keys of that lane *)
Theorem range_contains_exactly_the_lane id id' k' :
  U64 id -> U64 id' ->
  let e := ser_map_key id' k' in
  (ble (ser_map_prefix id) e && blt e (ser_map_ubound id) = true) <-> id' = id.
Proof.
  intros H1 H2 e. unfold e, ser_map_key, ser_map_prefix, ser_map_ubound, blt. split.
  - intros H. destruct (N.eq_dec id' id) as [|NE]; auto. exfalso.
    assert (le 8 id <> le 8 id') as NL by (intros E; apply le8_inj in E; auto).
    apply andb_true_iff in H as [A B]. apply andb_true_iff in B as [B _].
    cbn [ble] in A, B. rewrite N.ltb_irrefl in A, B.
    destruct (ble_diff_same_len (le 8 id) (le 8 id') [] (KEYB :: le 8 (len k') ++ k'))
      as (P & Q & R); [now rewrite !le_length|auto|].
    rewrite app_nil_r in P. rewrite P in A.
    destruct (ble_diff_same_len (le 8 id') (le 8 id) (KEYB :: le 8 (len k') ++ k') [UBOUND])
      as (P' & Q' & R'); [now rewrite !le_length|auto|].
    rewrite P' in B. rewrite R in A. rewrite B in A. discriminate.
  - intros ->. apply andb_true_iff. split.
    + change (MAP_TAG :: le 8 id ++ KEYB :: le 8 (len k') ++ k')
        with ((MAP_TAG :: le 8 id) ++ KEYB :: le 8 (len k') ++ k'). apply ble_prefix.
    + apply andb_true_iff. split.
      * cbn [ble]. rewrite N.ltb_irrefl. rewrite ble_app_common. reflexivity.
      * apply negb_true_iff. cbn [bytes_eqb]. rewrite N.eqb_refl. cbn [andb].
        rewrite bytes_eqb_app_common. reflexivity.
Qed.

(* ------------------------------------------------------------------------------------------ *)
(* (L5) identifiers: stable and unique, across reopen and wasted allocations *)

Definition ids_inv (r : rocks) : Prop :=
  lane_counter r = mem_count r /\
  Forall (fun e => 1 <= snd e /\ snd e <= mem_count r) (lane_ids r) /\
  NoDup (map snd (lane_ids r)).

Lemma bget_bput_same {A} k (v : A) m : bget k (bput k v m) = Some v.
Proof.
  induction m as [|[k' v'] t IH]; simpl.
  - now rewrite bytes_eqb_refl.
  - destruct (bytes_eqb k k') eqn:E; simpl; [now rewrite bytes_eqb_refl | now rewrite E].
Qed.

Lemma bget_bput_other {A} k k' (v : A) m : bytes_eqb k' k = false -> bget k' (bput k v m) = bget k' m.
Proof.
  intros NE. induction m as [|[k2 v2] t IH]; simpl.
  - now rewrite NE.
  - destruct (bytes_eqb k k2) eqn:E; simpl.
    + apply bytes_eqb_eq in E. subst k2. now rewrite NE.
    + destruct (bytes_eqb k' k2); auto.
Qed.

Lemma bput_fresh_snd {A} k (v : A) m : bget k m = None -> map snd (bput k v m) = map snd m ++ [v].
Proof.
  induction m as [|[k' v'] t IH]; simpl; auto.
  destruct (bytes_eqb k k'); [discriminate|]. intros H. simpl. now rewrite IH.
Qed.

Lemma bput_fresh_forall {A} (P : bytes * A -> Prop) k v m :
  bget k m = None -> Forall P m -> P (k, v) -> Forall P (bput k v m).
Proof.
  induction m as [|[k' v'] t IH]; simpl; intros H F Pk.
  - constructor; auto.
  - destruct (bytes_eqb k k'); [discriminate|]. inversion F; subst. constructor; auto.
Qed.

Lemma NoDup_snoc {A} (l : list A) x : NoDup l -> ~ In x l -> NoDup (l ++ [x]).
Proof.
  induction l as [|y l IH]; simpl; intros H N.
  - constructor; auto.
  - inversion H; subst. constructor.
    + intros C. apply in_app_or in C as [C|[C|[]]]; [contradiction|subst; apply N; now left].
    + apply IH; auto.
Qed.

Lemma rocks_id_for_inv r a n : ids_inv r -> ids_inv (fst (rocks_id_for r a n)).
Proof.
  intros (I1 & I2 & I3). unfold rocks_id_for. destruct (bget (lane_name a n) (lane_ids r)) eqn:E; simpl.
  - repeat split; auto.
  - repeat split; simpl.
    + lia.
    + apply bput_fresh_forall; auto.
      * eapply Forall_impl; [|exact I2]. simpl. intros e [A B]. split; lia.
      * simpl. lia.
    + rewrite bput_fresh_snd by assumption. apply NoDup_snoc; auto.
      intros C. apply in_map_iff in C as ([k v] & Ev & Ik). simpl in Ev. subst v.
      rewrite Forall_forall in I2. specialize (I2 _ Ik). simpl in I2. lia.
Qed.

Lemma rocks_step_ids_inv r o : ids_inv r -> ids_inv (fst (rocks_step r o)).
Proof.
  intros HI. pose proof HI as (I1 & I2 & I3). unfold rocks_step.
  destruct o; try (simpl;
    match goal with
    | |- context [mem_b ?a ?l] => destruct (mem_b a l); simpl; [|exact HI]
    end;
    match goal with
    | |- context [rocks_id_for ?r ?a ?n] =>
        pose proof (rocks_id_for_inv r a n HI) as H; destruct (rocks_id_for r a n) as [r1 id]; simpl in H
    end;
    destruct H as (J1 & J2 & J3); repeat split; simpl; auto; fail).
  - simpl. destruct (mem_b a (open_agents r)); simpl; [exact HI|]. repeat split; auto.
  - simpl. destruct (mem_b a (open_agents r)); simpl; [|exact HI]. repeat split; auto.
  - simpl. unfold ids_inv. simpl. rewrite I1. repeat split; auto.
Qed.

Fixpoint rocks_run_state (r : rocks) (ops : list sop) : rocks :=
  match ops with [] => r | o :: t => rocks_run_state (fst (rocks_step r o)) t end.

Lemma ids_inv0 : ids_inv rocks0.
Proof. repeat split; simpl; auto; constructor. Qed.

Theorem ids_inv_reachable ops : ids_inv (rocks_run_state rocks0 ops).
Proof.
  assert (forall r, ids_inv r -> ids_inv (rocks_run_state r ops)) as G.
  { induction ops as [|o t IH]; simpl; intros r H; auto. apply IH. now apply rocks_step_ids_inv. }
  apply G, ids_inv0.
Qed.

(* a name, once it has an id, keeps it through every later operation (including reopen) *)
Lemma rocks_id_for_keeps r a n name id :
  bget name (lane_ids r) = Some id -> bget name (lane_ids (fst (rocks_id_for r a n))) = Some id.
Proof.
  intros H. unfold rocks_id_for. destruct (bget (lane_name a n) (lane_ids r)) eqn:E; simpl; auto.
  rewrite bget_bput_other; auto.
  destruct (bytes_eqb name (lane_name a n)) eqn:EN; auto. apply bytes_eqb_eq in EN. subst. congruence.
Qed.

Lemma rocks_call_lane_ids r id o : lane_ids (fst (rocks_call r id o)) = lane_ids r.
Proof. destruct o; reflexivity. Qed.

Theorem id_is_stable r o name id :
  bget name (lane_ids r) = Some id -> bget name (lane_ids (fst (rocks_step r o))) = Some id.
Proof.
  intros H. unfold rocks_step.
  destruct o; try (simpl;
    match goal with
    | |- context [mem_b ?a ?l] => destruct (mem_b a l); simpl; [|exact H]
    end;
    match goal with
    | |- context [rocks_id_for ?r ?a ?n] =>
        pose proof (rocks_id_for_keeps r a n name id H) as K; destruct (rocks_id_for r a n) as [r1 i1]; simpl in K
    end; exact K).
  - simpl. destruct (mem_b a (open_agents r)); simpl; exact H.
  - simpl. destruct (mem_b a (open_agents r)); simpl; exact H.
  - simpl. exact H.
Qed.

(* two different names never share an id *)
Lemma bget_in {A} k (v : A) m : bget k m = Some v -> In v (map snd m).
Proof.
  induction m as [|[k' v'] t IH]; simpl; [discriminate|].
  destruct (bytes_eqb k k'); [intros E; inversion E; auto | auto].
Qed.

Lemma nodup_snd_unique {A} (m : list (bytes * A)) k1 k2 v :
  NoDup (map snd m) -> bget k1 m = Some v -> bget k2 m = Some v -> k1 = k2.
Proof.
  induction m as [|[k' v'] t IH]; simpl; intros ND H1 H2; [discriminate|].
  inversion ND; subst.
  destruct (bytes_eqb k1 k') eqn:E1; destruct (bytes_eqb k2 k') eqn:E2.
  - apply bytes_eqb_eq in E1, E2. congruence.
  - inversion H1; subst. exfalso. apply H3. eapply bget_in; eauto.
  - inversion H2; subst. exfalso. apply H3. eapply bget_in; eauto.
  - eauto.
Qed.

Theorem ids_never_collide ops name1 name2 id :
  let r := rocks_run_state rocks0 ops in
  bget name1 (lane_ids r) = Some id -> bget name2 (lane_ids r) = Some id -> name1 = name2.
Proof.
  intros r H1 H2. destruct (ids_inv_reachable ops) as (_ & _ & ND). eapply nodup_snd_unique; eauto.
Qed.

(* ------------------------------------------------------------------------------------------ *)
(* a process killed between two writes: identifiers stay unique whatever the cut *)

(* what holds of the database alone, whatever the counter in memory says *)
Definition ids_stored (r : rocks) : Prop :=
  Forall (fun e => 1 <= snd e /\ snd e <= lane_counter r) (lane_ids r) /\ NoDup (map snd (lane_ids r)).

Lemma ids_inv_stored r : ids_inv r -> ids_stored r.
Proof. intros (I1 & I2 & I3). split; [|exact I3]. rewrite I1. exact I2. Qed.

Lemma rocks_call_lane r id o :
  lane_counter (fst (rocks_call r id o)) = lane_counter r /\ lane_ids (fst (rocks_call r id o)) = lane_ids r.
Proof. destruct o; split; reflexivity. Qed.

Lemma ids_stored_call r id o : ids_stored r -> ids_stored (fst (rocks_call r id o)).
Proof. unfold ids_stored. destruct (rocks_call_lane r id o) as [-> ->]. auto. Qed.

Lemma rocks_partial_stored r k o : ids_inv r -> ids_stored (rocks_partial r k o).
Proof.
  intros HI. pose proof (ids_inv_stored r HI) as HS. destruct HI as (I1 & I2 & I3).
  unfold rocks_partial. destruct (agent_of o) as [[a n]|]; [|exact HS].
  destruct (mem_b a (open_agents r)); [|exact HS].
  destruct (bget (lane_name a n) (lane_ids r)) as [id|] eqn:E.
  - destruct (1 <=? k); [now apply ids_stored_call|exact HS].
  - (* a new name: the counter first, then the name *)
    assert (S1 : ids_stored (with_lane r (lane_counter r + 1) (lane_ids r))).
    { split; cbn [with_lane lane_counter lane_ids]; [|exact I3].
      eapply Forall_impl; [|exact I2]. cbn beta. intros e [A B]. split; lia. }
    assert (S2 : ids_stored (with_lane (with_lane r (lane_counter r + 1) (lane_ids r)) (lane_counter r + 1)
                               (bput (lane_name a n) (mem_count r + 1) (lane_ids r)))).
    { split; cbn [with_lane lane_counter lane_ids].
      - apply bput_fresh_forall; [exact E| |cbn [snd]; lia].
        eapply Forall_impl; [|exact I2]. cbn beta. intros e [A B]. split; lia.
      - rewrite bput_fresh_snd by exact E. apply NoDup_snoc; [exact I3|].
        intros C. apply in_map_iff in C as ([k0 v] & Ev & Ik). cbn [snd] in Ev. subst v.
        rewrite Forall_forall in I2. specialize (I2 _ Ik). cbn [snd] in I2. lia. }
    destruct (1 <=? k) eqn:K1.
    + destruct (2 <=? k) eqn:K2; cbn [with_lane lane_counter lane_ids].
      * destruct (3 <=? k); [now apply ids_stored_call|exact S2].
      * destruct (3 <=? k) eqn:K3; [apply N.leb_le in K3; apply N.leb_gt in K2; lia|exact S1].
    + destruct (2 <=? k) eqn:K2; [apply N.leb_le in K2; apply N.leb_gt in K1; lia|].
      destruct (3 <=? k) eqn:K3; [apply N.leb_le in K3; apply N.leb_gt in K1; lia|exact HS].
Qed.

Lemma reopen_inv r : ids_stored r -> ids_inv (fst (rocks_step r Reopen)).
Proof. intros [S1 S2]. cbn [rocks_step fst]. repeat split; cbn [lane_counter mem_count lane_ids]; auto. Qed.

Lemma rocks_kill_inv r k o : ids_inv r -> ids_inv (rocks_kill r k o).
Proof. intros H. unfold rocks_kill. apply reopen_inv. now apply rocks_partial_stored. Qed.

Lemma rocks_hstep_inv r h : ids_inv r -> ids_inv (fst (rocks_hstep r h)).
Proof. destruct h as [o|k o]; cbn [rocks_hstep fst]; [apply rocks_step_ids_inv|apply rocks_kill_inv]. Qed.

Fixpoint hrun_state (r : rocks) (hs : list hop) : rocks :=
  match hs with [] => r | h :: t => hrun_state (fst (rocks_hstep r h)) t end.

Theorem ids_inv_reachable_with_kills hs : ids_inv (hrun_state rocks0 hs).
Proof.
  assert (forall r, ids_inv r -> ids_inv (hrun_state r hs)) as G.
  { induction hs as [|h t IH]; cbn [hrun_state]; intros r H; auto. apply IH. now apply rocks_hstep_inv. }
  apply G, ids_inv0.
Qed.

(* however often and wherever the process is killed, two different names never share an identifier *)
Theorem ids_never_collide_with_kills hs name1 name2 id :
  let r := hrun_state rocks0 hs in
  bget name1 (lane_ids r) = Some id -> bget name2 (lane_ids r) = Some id -> name1 = name2.
Proof.
  intros r H1 H2. destruct (ids_inv_reachable_with_kills hs) as (_ & _ & ND). eapply nodup_snd_unique; eauto.
Qed.

(* a name that has its identifier in the database keeps it through a kill: an identifier is never reassigned *)
Theorem id_survives_a_kill r k o name id :
  bget name (lane_ids r) = Some id -> bget name (lane_ids (rocks_kill r k o)) = Some id.
Proof.
  intros H. unfold rocks_kill. cbn [rocks_step fst lane_ids].
  unfold rocks_partial. destruct (agent_of o) as [[a n]|]; [|exact H].
  destruct (mem_b a (open_agents r)); [|exact H].
  destruct (bget (lane_name a n) (lane_ids r)) as [id0|] eqn:E.
  - destruct (1 <=? k); [|exact H]. now rewrite (proj2 (rocks_call_lane r id0 o)).
  - assert (Hp : bget name (bput (lane_name a n) (mem_count r + 1) (lane_ids r)) = Some id).
    { rewrite bget_bput_other; [exact H|]. destruct (bytes_eqb name (lane_name a n)) eqn:EN; [|reflexivity].
      apply bytes_eqb_eq in EN. subst. congruence. }
    destruct (1 <=? k), (2 <=? k), (3 <=? k); cbn [with_lane lane_ids];
      rewrite ?(proj2 (rocks_call_lane _ _ _)); cbn [with_lane lane_ids]; assumption.
Qed.

(* ------------------------------------------------------------------------------------------ *)
(* isolation inside the map keyspace: an operation on lane id' leaves the scan of lane id alone *)

Definition scan_pred (id : N) (e : bytes * bytes) : bool :=
  ble (ser_map_prefix id) (fst e) && bytes_eqb (prefix8 (fst e)) (prefix8 (ser_map_prefix id)).

Definition wf_map_ks (ks : list (bytes * bytes)) : Prop :=
  Forall (fun e => exists id k, fst e = ser_map_key id k /\ U56 id) ks.

Lemma filter_bput_other {A} (P : bytes * A -> bool) k v (m : list (bytes * A)) :
  (forall v', P (k, v') = false) -> filter P (bput k v m) = filter P m.
Proof.
  intros HP. induction m as [|[k' v'] t IH]; simpl.
  - now rewrite HP.
  - destruct (bytes_eqb k k') eqn:E; simpl.
    + apply bytes_eqb_eq in E. subst k'. now rewrite !HP.
    + now rewrite IH.
Qed.

Lemma filter_bdel_other {A} (P : bytes * A -> bool) k (m : list (bytes * A)) :
  (forall v', P (k, v') = false) -> filter P (bdel k m) = filter P m.
Proof.
  intros HP. induction m as [|[k' v'] t IH]; simpl; auto.
  destruct (bytes_eqb k k') eqn:E; simpl.
  - apply bytes_eqb_eq in E. subst k'. now rewrite HP.
  - now rewrite IH.
Qed.

Lemma scan_pred_other id id' k v : U56 id -> U56 id' -> id' <> id -> scan_pred id (ser_map_key id' k, v) = false.
Proof.
  intros H1 H2 NE. unfold scan_pred. cbn [fst].
  destruct (ble (ser_map_prefix id) (ser_map_key id' k) &&
            bytes_eqb (prefix8 (ser_map_key id' k)) (prefix8 (ser_map_prefix id))) eqn:E; auto.
  apply (scan_selects_exactly_the_lane id id' k H1 H2) in E. contradiction.
Qed.

Theorem update_map_isolated ks id id' k v : U56 id -> U56 id' -> id' <> id ->
  seek_prefix (bput (ser_map_key id' k) v ks) (ser_map_prefix id) = seek_prefix ks (ser_map_prefix id).
Proof.
  intros H1 H2 NE. unfold seek_prefix. apply (filter_bput_other (scan_pred id)).
  intros v'. now apply scan_pred_other.
Qed.

Theorem remove_map_isolated ks id id' k : U56 id -> U56 id' -> id' <> id ->
  seek_prefix (bdel (ser_map_key id' k) ks) (ser_map_prefix id) = seek_prefix ks (ser_map_prefix id).
Proof.
  intros H1 H2 NE. unfold seek_prefix. apply (filter_bdel_other (scan_pred id)).
  intros v'. now apply scan_pred_other.
Qed.

Lemma filter_filter_keep {A} (P Q : A -> bool) l :
  Forall (fun e => P e = true -> Q e = true) l -> filter P (filter Q l) = filter P l.
Proof.
  induction 1 as [|e t H HT IH]; cbn [filter]; auto.
  destruct (Q e) eqn:EQ; cbn [filter].
  - now rewrite IH.
  - destruct (P e) eqn:EP; [specialize (H eq_refl); congruence|exact IH].
Qed.

Lemma filter_filter_none {A} (P Q : A -> bool) l :
  Forall (fun e => P e = true -> Q e = false) l -> filter P (filter Q l) = [].
Proof.
  induction 1 as [|e t H HT IH]; cbn [filter]; auto.
  destruct (Q e) eqn:EQ; cbn [filter]; auto.
  destruct (P e) eqn:EP; [specialize (H eq_refl); congruence|exact IH].
Qed.

Definition range_pred (id : N) (e : bytes * bytes) : bool :=
  ble (ser_map_prefix id) (fst e) && blt (fst e) (ser_map_ubound id).

Theorem clear_map_isolated ks id id' : wf_map_ks ks -> U56 id -> U56 id' -> id' <> id ->
  seek_prefix (delete_range ks (ser_map_prefix id') (ser_map_ubound id')) (ser_map_prefix id)
  = seek_prefix ks (ser_map_prefix id).
Proof.
  intros WF H1 H2 NE. unfold seek_prefix, delete_range.
  apply (filter_filter_keep (scan_pred id) (fun e => negb (range_pred id' e))).
  eapply Forall_impl; [|exact WF]. intros [key v] (i & k & Ek & Ui) HP. cbn [fst] in Ek. subst key.
  unfold scan_pred in HP. cbn [fst] in HP.
  apply (scan_selects_exactly_the_lane id i k H1 Ui) in HP. subst i.
  apply negb_true_iff. unfold range_pred. cbn [fst].
  destruct (ble (ser_map_prefix id') (ser_map_key id k) && blt (ser_map_key id k) (ser_map_ubound id')) eqn:ER; auto.
  apply (range_contains_exactly_the_lane id' id k) in ER; unfold U64, U56 in *; try lia.
Qed.

Theorem clear_map_clears ks id : wf_map_ks ks -> U56 id ->
  seek_prefix (delete_range ks (ser_map_prefix id) (ser_map_ubound id)) (ser_map_prefix id) = [].
Proof.
  intros WF H1. unfold seek_prefix, delete_range.
  apply (filter_filter_none (scan_pred id) (fun e => negb (range_pred id e))).
  eapply Forall_impl; [|exact WF]. intros [key v] (i & k & Ek & Ui) HP. cbn [fst] in Ek. subst key.
  unfold scan_pred in HP. cbn [fst] in HP.
  apply (scan_selects_exactly_the_lane id i k H1 Ui) in HP. subst i.
  apply negb_false_iff. unfold range_pred. cbn [fst].
  apply (range_contains_exactly_the_lane id id k); unfold U64, U56 in *; try lia; reflexivity.
Qed.

Example stores_nonvacuous :
  let ops := [Open [47;97]; UpdateMap [47;97] [109] [1;2] [7]; UpdateMap [47;97] [110] [] [8];
              Reopen; Open [47;97]; ClearMap [47;97] [109]; ReadMap [47;97] [110]; ReadMap [47;97] [109]] in
  run rocks_step rocks0 ops =
  [(None, RUnit); (Some 1, RUnit); (Some 2, RUnit); (None, RUnit); (None, RUnit); (Some 1, RUnit);
   (Some 2, REntries [([], [8])]); (Some 1, REntries [])].
Proof. reflexivity. Qed.

(* ---- a process killed outright ---- *)
(* killed after every operation so far has been acknowledged (nothing of the next one has been written): the database
   is what it was, and what the next process finds is what a clean reopening finds *)
Lemma partial_zero r o : rocks_partial r 0 o = r.
Proof.
  unfold rocks_partial. destruct (agent_of o) as [[a n]|]; [|reflexivity].
  destruct (mem_b a (open_agents r)); [|reflexivity].
  destruct (bget (lane_name a n) (lane_ids r)); reflexivity.
Qed.

Theorem outright_kill_is_a_reopening r o : rocks_kill r 0 o = fst (rocks_step r Reopen).
Proof. unfold rocks_kill. now rewrite partial_zero. Qed.

Theorem outright_kill_loses_nothing r o :
  let r' := rocks_kill r 0 o in
  value_ks r' = value_ks r /\ map_ks r' = map_ks r /\ lane_ids r' = lane_ids r /\ lane_counter r' = lane_counter r.
Proof. rewrite outright_kill_is_a_reopening. cbn. auto. Qed.

(* a history in which the process is only ever killed outright leaves the database as the same history with clean
   reopenings in place of the kills does *)
Theorem outright_kills_are_reopenings hs : only_outright hs = true ->
  forall r, hrun_state r hs = rocks_run_state r (map as_sop hs).
Proof.
  induction hs as [|h t IH]; intros H r; [reflexivity|].
  cbn [only_outright forallb] in H. apply andb_true_iff in H as [Hh Ht].
  cbn [hrun_state rocks_run_state map]. destruct h as [o|k o].
  - cbn [rocks_hstep as_sop]. apply IH. exact Ht.
  - destruct k as [|p]; [|discriminate]. destruct o; try discriminate.
    cbn [rocks_hstep as_sop fst]. rewrite outright_kill_is_a_reopening. apply IH. exact Ht.
Qed.
