(* Generic streaming theorem: a resumable frame decoder that (i) completes a frame as soon as the
   bytes consumed so far plus the buffer contain it and (ii) otherwise answers "need more" while
   keeping exactly the bytes of the partial frame, decodes every concatenation of encoded
   messages to exactly those messages under EVERY chunking of the byte stream. *)
From SwimV Require Import Model.Codec.
Open Scope N_scope.

Section Streaming.
  Variable step : dstate -> bytes -> dstate * bytes * dres.
  Variable enc : msg -> option bytes.
  Variable valid : msg -> Prop.
  (* the bytes of the current frame that the decoder has already taken out of the buffer *)
  Variable unread : dstate -> bytes.

  Hypothesis unread_init : unread SHeader = [].
  Hypothesis enc_nonempty : forall m e, valid m -> enc m = Some e -> e <> [].

  (* (i) whenever the virtual buffer starts with a whole frame, it is delivered, exactly its bytes
     are consumed and the decoder is back in its initial state *)
  Hypothesis H_complete : forall s b m e rest,
    valid m -> enc m = Some e -> unread s ++ b = e ++ rest ->
    step s b = (SHeader, rest, DSome m).

  (* (ii) a strict prefix of a frame gives "need more" and loses nothing *)
  Hypothesis H_partial : forall s b m p q,
    valid m -> enc m = Some (p ++ q) -> q <> [] -> unread s ++ b = p ->
    exists s' b', step s b = (s', b', DNone) /\ unread s' ++ b' = p.

  Fixpoint enc_all (ms : list msg) : option bytes :=
    match ms with
    | [] => Some []
    | m :: t => match enc m, enc_all t with
                | Some a, Some b => Some (a ++ b)
                | _, _ => None
                end
    end.

  (* decode until "need more" *)
  Fixpoint drain (fuel : nat) (s : dstate) (b : bytes) : dstate * bytes * list msg * bool :=
    match fuel with
    | O => (s, b, [], false)
    | S f =>
        match step s b with
        | (s', b', DNone) => (s', b', [], true)
        | (s', b', DSome m) =>
            match drain f s' b' with (s2, b2, ms, ok) => (s2, b2, m :: ms, ok) end
        | (s', b', _) => (s', b', [], false)
        end
    end.

  Fixpoint feed_items (s : dstate) (buf : bytes) (chunks : list bytes) : list msg * bytes * bool :=
    match chunks with
    | [] => ([], unread s ++ buf, true)
    | ch :: rest =>
        let b := buf ++ ch in
        match drain (S (length (unread s ++ b))) s b with
        | (s', b', ms, true) =>
            match feed_items s' b' rest with (ms', fin, ok) => (ms ++ ms', fin, ok) end
        | (s', b', ms, false) => (ms, unread s' ++ b', false)
        end
    end.

  Lemma app_split {A} (a b c d : list A) : a ++ b = c ++ d ->
    (exists l, a = c ++ l /\ d = l ++ b) \/ (exists l, l <> [] /\ c = a ++ l /\ b = l ++ d).
  Proof.
    revert c. induction a as [|x a IH]; intros [|y c] H; simpl in *.
    - left. exists []. auto.
    - right. exists (y :: c). repeat split; auto. discriminate.
    - left. exists (x :: a). auto.
    - inversion H; subst. destruct (IH c H2) as [[l [E1 E2]]|[l [NE [E1 E2]]]].
      + left. exists l. subst. auto.
      + right. exists l. subst. auto.
  Qed.

  (* (iii) nothing buffered and nothing arriving: "need more" *)
  Hypothesis H_empty : forall s b, unread s ++ b = [] ->
    exists s' b', step s b = (s', b', DNone) /\ unread s' ++ b' = [].

  (* what stays buffered between frames is a strict prefix of the next frame *)
  Definition pend (vb : bytes) (todo : list msg) : Prop :=
    match todo with
    | [] => vb = []
    | m :: _ => exists e q, enc m = Some e /\ e = vb ++ q /\ q <> []
    end.

  Lemma enc_all_cons m ms all : enc_all (m :: ms) = Some all ->
    exists e r, enc m = Some e /\ enc_all ms = Some r /\ all = e ++ r.
  Proof.
    simpl. destruct (enc m) as [e|]; [|discriminate]. destruct (enc_all ms) as [r|]; [|discriminate].
    intros H; inversion H; subst. eauto.
  Qed.

  Lemma drain_spec : forall fuel s b ms tail all,
    Forall valid ms -> enc_all ms = Some all -> (unread s ++ b) ++ tail = all ->
    (length (unread s ++ b) < fuel)%nat ->
    exists s' b' done todo rest,
      drain fuel s b = (s', b', done, true) /\ ms = done ++ todo /\
      enc_all todo = Some rest /\ (unread s' ++ b') ++ tail = rest /\
      pend (unread s' ++ b') todo.
  Proof.
    induction fuel as [|fuel IH]; intros s b ms tail all HV HE HB HF; [lia|].
    destruct ms as [|m ms].
    - simpl in HE. assert (EA : [] = all) by congruence. rewrite <- EA in HB.
      apply app_eq_nil in HB as [EU ET].
      destruct (H_empty s b EU) as (s' & b' & HS & HU).
      exists s', b', [], [], []. cbn [drain]. rewrite HS.
      split; [reflexivity|]. split; [reflexivity|]. split; [reflexivity|]. split; [now rewrite HU, ET|exact HU].
    - inversion_clear HV as [|? ? H1 H2]. destruct (enc_all_cons _ _ _ HE) as (e & r & Em & Er & EA).
      rewrite EA in HB.
      destruct (app_split _ _ _ _ HB) as [[l [A B]]|[l [N [A B]]]].
      + (* a whole frame is available *)
        pose proof (H_complete s b m e l H1 Em A) as HS.
        assert (length l < fuel)%nat as HL.
        { rewrite A, app_length in HF. pose proof (enc_nonempty m e H1 Em) as NE.
          destruct e; [congruence|]. simpl in HF. lia. }
        destruct (IH SHeader l ms tail r H2 Er) as (s' & b' & done & todo & rest & D & S1 & S2 & S3 & S4).
        { rewrite unread_init. simpl. now rewrite B. }
        { now rewrite unread_init. }
        exists s', b', (m :: done), todo, rest. cbn [drain]. rewrite HS, D. rewrite S1.
        split; [reflexivity|]. split; [reflexivity|]. split; [exact S2|]. split; [exact S3|exact S4].
      + (* only a strict prefix of the next frame *)
        destruct (H_partial s b m (unread s ++ b) l H1) as (s' & b' & HS & HU); auto.
        { now rewrite <- A. }
        exists s', b', [], (m :: ms), (e ++ r). cbn [drain]. rewrite HS.
        split; [reflexivity|]. split; [reflexivity|].
        split; [cbn [enc_all]; now rewrite Em, Er|].
        split; [rewrite HU, B, A; now rewrite <- !app_assoc | rewrite HU; exists e, l; auto].
  Qed.

  (* The theorem: every chunking of the encoding of [ms] decodes to exactly [ms]; no error, no
     bytes left over. *)
  Theorem feed_any_chunking : forall chunks s buf ms all,
    Forall valid ms -> enc_all ms = Some all ->
    (unread s ++ buf) ++ concat chunks = all -> pend (unread s ++ buf) ms ->
    feed_items s buf chunks = (ms, [], true).
  Proof.
    induction chunks as [|ch rest IH]; intros s buf ms all HV HE HB HP.
    - simpl in *. rewrite app_nil_r in HB. destruct ms as [|m ms].
      + simpl in HP. now rewrite HP.
      + exfalso. destruct HP as (e & q & Em & Eq & NQ).
        destruct (enc_all_cons _ _ _ HE) as (e' & r & Em' & Er & EA). rewrite Em in Em'. inversion Em'; subst e'.
        rewrite <- HB in EA. rewrite Eq in EA. rewrite <- app_assoc in EA.
        apply (f_equal (@length N)) in EA. rewrite !app_length in EA. destruct q; [congruence|]. simpl in EA. lia.
    - cbn [feed_items concat] in *.
      destruct (drain_spec (S (length (unread s ++ buf ++ ch))) s (buf ++ ch) ms (concat rest) all HV HE)
        as (s' & b' & done & todo & r & D & S1 & S2 & S3 & S4).
      { now rewrite <- !app_assoc in *. }
      { lia. }
      rewrite D. subst ms. apply Forall_app in HV as [_ HV2].
      rewrite (IH s' b' todo r HV2 S2 S3 S4). reflexivity.
  Qed.

  Corollary feed_from_start : forall chunks ms all,
    Forall valid ms -> enc_all ms = Some all -> concat chunks = all ->
    feed_items SHeader [] chunks = (ms, [], true).
  Proof.
    intros chunks ms all HV HE HC. apply (feed_any_chunking chunks SHeader [] ms all); auto.
    - now rewrite unread_init.
    - rewrite unread_init. simpl. destruct ms as [|m ms]; simpl; auto.
      inversion HV; subst. destruct (enc_all_cons _ _ _ HE) as (e & r & Em & Er & _).
      exists e, e. repeat split; auto. eapply enc_nonempty; eauto.
  Qed.
End Streaming.
