(* Proofs about the Uplinks model (Model/Uplinks.v): for every order of pushes, special actions and writer
   returns on one remote,
     - an event written for a value lane carries the value pushed last for that lane (never a stale one),
       and nothing is written when nothing is pending (no fabricated frames);
     - a supply lane's events are the oldest pushed and not yet written ones (push order, none twice);
     - a map lane's events are operations that were pushed for it. *)
From SwimV Require Import Model.Uplinks.
Open Scope N_scope.

Inductive uop := UPushSpecial (a : special) | UPush (l : N) (r : resp) | UReturn.

Definition ustep (u : uplinks) (o : uop) : uplinks * option wtask :=
  match o with
  | UPushSpecial a => push_special u a
  | UPush l r => push_resp u l r
  | UReturn => if u_writer u then (u, None) else replace_and_pop u
  end.

Definition hist_step (h : list (N * resp)) (o : uop) : list (N * resp) :=
  match o with UPush l r => h ++ [(l, r)] | _ => h end.

(* the run: after each step, the history of pushes so far and the write task it produced *)
Fixpoint urun (u : uplinks) (h : list (N * resp)) (ops : list uop) : list (list (N * resp) * option wtask) :=
  match ops with
  | [] => []
  | o :: t => let (u', tk) := ustep u o in (hist_step h o, tk) :: urun u' (hist_step h o) t
  end.

Definition kind_of_resp (r : resp) : kind :=
  match r with RSynced k => k | RValue _ => KValue | RSupply _ => KSupply | RMap _ => KMap end.

(* every lane only ever answers with responses of its own kind *)
Definition well_kinded (kf : N -> kind) (o : uop) : Prop :=
  match o with UPush l r => kind_of_resp r = kf l | _ => True end.

Fixpoint last_value (h : list (N * resp)) (l : N) (acc : option body) : option body :=
  match h with
  | [] => acc
  | (l', RValue b) :: t => if l =? l' then last_value t l (Some b) else last_value t l acc
  | _ :: t => last_value t l acc
  end.

Lemma last_value_app h l acc x : last_value (h ++ [x]) l acc =
  match x with (l', RValue b) => if l =? l' then Some b else last_value h l acc | _ => last_value h l acc end.
Proof.
  revert acc. induction h as [|[l0 r0] t IH]; intros acc; simpl.
  - destruct x as [l' [k|b|b|e]]; auto.
  - destruct r0; auto. destruct (l =? l0); apply IH.
Qed.

Fixpoint pushed_supplies (h : list (N * resp)) (l : N) : list body :=
  match h with
  | [] => []
  | (l', RSupply b) :: t => if l =? l' then b :: pushed_supplies t l else pushed_supplies t l
  | _ :: t => pushed_supplies t l
  end.

Lemma pushed_supplies_app h l x : pushed_supplies (h ++ [x]) l =
  pushed_supplies h l ++ match x with (l', RSupply b) => if l =? l' then [b] else [] | _ => [] end.
Proof.
  induction h as [|[l0 r0] t IH]; simpl.
  - destruct x as [l' [k|b|b|e]]; simpl; auto.
  - destruct r0; auto. destruct (l =? l0); simpl; now rewrite IH.
Qed.

Definition pushed_map (h : list (N * resp)) (l : N) (e : entry) : Prop := In (l, RMap e) h.

(* ---- association lists ---- *)
Lemma aget_aput_same {A} k (v : A) m : aget k (aput k v m) = Some v.
Proof.
  induction m as [|[k' v'] t IH]; simpl; [now rewrite N.eqb_refl|].
  destruct (N.eqb_spec k k'); simpl; [now rewrite N.eqb_refl|]. destruct (N.eqb_spec k k'); [congruence|exact IH].
Qed.

Lemma aget_aput_other {A} k k' (v : A) m : k <> k' -> aget k (aput k' v m) = aget k m.
Proof.
  intros NE. induction m as [|[k'' v''] t IH]; simpl.
  - destruct (N.eqb_spec k k'); [congruence|reflexivity].
  - destruct (N.eqb_spec k' k''); simpl.
    + subst. destruct (N.eqb_spec k k''); [congruence|reflexivity].
    + destruct (N.eqb_spec k k''); [reflexivity|exact IH].
Qed.

Lemma aget_aput {A} k k' (v : A) m : aget k (aput k' v m) = if k =? k' then Some v else aget k m.
Proof.
  destruct (N.eqb_spec k k') as [->|NE]; [apply aget_aput_same|now apply aget_aput_other].
Qed.

Lemma aget_adel {A} k k' (m : list (N * A)) : aget k (adel k' m) = if k =? k' then None else aget k m.
Proof.
  induction m as [|[k'' v''] t IH]; simpl; [now destruct (k =? k')|].
  destruct (N.eqb_spec k' k'') as [->|N1]; simpl.
  - rewrite IH. destruct (N.eqb_spec k k''); reflexivity.
  - destruct (N.eqb_spec k k'') as [->|N2]; [|exact IH].
    destruct (N.eqb_spec k'' k'); [congruence|reflexivity].
Qed.

(* ---- the queue of a map uplink only ever holds pushed operations ---- *)
Lemma In_set_nth {A} i (x y : A) l : In y (set_nth i x l) -> y = x \/ In y l.
Proof.
  revert i. induction l as [|h t IH]; intros [|i] H; simpl in *; auto.
  - destruct H as [H|H]; auto.
  - destruct H as [H|H]; auto. destruct (IH i H); auto.
Qed.

Lemma push_events_in q e x : In x (events (push q e false)) -> x = e \/ In x (events q).
Proof.
  unfold push. destruct e as [k v|k|].
  - destruct (em_get k (epoch_map q)) as [ep|].
    + destruct (_ <? _).
      * cbn [events]. intros H. apply In_set_nth in H. destruct H as [H|H]; auto. left. rewrite H.
        destruct (nth _ (events q) EClear); reflexivity.
      * cbn [events]. intros H. apply in_app_or in H as [H|[H|[]]]; auto.
    + cbn [events]. intros H. apply in_app_or in H as [H|[H|[]]]; auto.
  - destruct (em_get k (epoch_map q)) as [ep|].
    + destruct (_ <? _).
      * cbn [events]. intros H. apply In_set_nth in H. destruct H as [H|H]; auto.
      * cbn [events]. intros H. apply in_app_or in H as [H|[H|[]]]; auto.
    + cbn [events]. intros H. apply in_app_or in H as [H|[H|[]]]; auto.
  - simpl. intros [H|[]]; auto.
Qed.

Lemma pop_events_in q : match pop q with
                        | (q', Some e) => In e (events q) /\ (forall x, In x (events q') -> In x (events q))
                        | (q', None) => q' = q
                        end.
Proof.
  unfold pop. destruct (events q) as [|e rest] eqn:EE; [reflexivity|]. simpl. split; [now left|]. intros x H. now right.
Qed.

Lemma drain_queue_in fuel : forall q x, In x (drain_queue fuel q) -> In x (events q).
Proof.
  induction fuel as [|f IH]; intros q x H; simpl in H; [contradiction|].
  pose proof (pop_events_in q) as HP. destruct (pop q) as [q' [e|]]; [|contradiction].
  destruct HP as (He & Hq). destruct H as [->|H]; auto.
Qed.

(* ---- the invariant ---- *)
Record UInv (kf : N -> kind) (u : uplinks) (h : list (N * resp)) : Prop := {
  iv_val : forall l x b, aget l (u_values u) = Some x -> uv_cur x = Some b -> last_value h l None = Some b;
  iv_vkind : forall l x, aget l (u_values u) = Some x -> kf l = KValue;
  iv_skind : forall l x, aget l (u_supplies u) = Some x -> kf l = KSupply;
  iv_mkind : forall l x, aget l (u_maps u) = Some x -> kf l = KMap;
  iv_sup : forall l x, aget l (u_supplies u) = Some x -> exists pre, pushed_supplies h l = pre ++ us_buf x;
  iv_map : forall l x e, aget l (u_maps u) = Some x -> In e (events (um_q x)) -> pushed_map h l e;
  (* the write queue knows about everything that is pending; an idle writer means nothing is *)
  iv_w : u_writer u = true -> u_wq u = [];
  iv_vc : forall l x b, aget l (u_values u) = Some x -> uv_cur x = Some b -> uv_queued x = true;
  iv_vq : forall l x, aget l (u_values u) = Some x -> uv_queued x = true -> In (KValue, l) (u_wq u);
  iv_sc : forall l x, aget l (u_supplies u) = Some x -> us_buf x <> [] -> us_queued x = true;
  iv_sq : forall l x, aget l (u_supplies u) = Some x -> us_queued x = true -> In (KSupply, l) (u_wq u)
}.

(* what a task may be, given the history when it was created *)
Definition task_ok (kf : N -> kind) (h : list (N * resp)) (t : wtask) : Prop :=
  let l := wt_lane t in
  match wt_action t with
  | WEvent b | WValueSynced true b =>
      match kf l with
      | KValue => last_value h l None = Some b
      | KSupply => exists pre post, pushed_supplies h l = pre ++ b :: post
      | KMap => False
      end
  | WValueSynced false _ => kf l <> KMap
  | WMapEvent (Some e) => kf l = KMap /\ pushed_map h l e
  | WMapEvent None => False
  | WMapSynced None => kf l = KMap
  | WMapSynced (Some q) => kf l = KMap /\ forall e, In e (events q) -> pushed_map h l e
  | WSpecial _ => True
  end.

Lemma UInv0 kf : UInv kf uplinks0 [].
Proof. split; simpl; intros; try discriminate; auto. Qed.

Lemma push_special_inv kf u h a : UInv kf u h ->
  UInv kf (fst (push_special u a)) h /\
  match snd (push_special u a) with Some t => task_ok kf h t | None => True end.
Proof.
  intros [H1 H2 H3 H4 H5 H6 H7 H8 H9 H10 H11]. unfold push_special. destruct (u_writer u) eqn:EW.
  - simpl. split; [|exact I]. split; simpl; auto; discriminate.
  - destruct a as [l|l m|n]; simpl; (split; [|exact I]).
    + split; simpl; auto.
    + split; simpl; try discriminate; intros l0 x; rewrite ?aget_adel; destruct (l0 =? l); try discriminate; eauto.
    + split; simpl; auto.
Qed.

Lemma In_enqueue_mono q k l wq x : In x wq -> In x (enqueue q k l wq).
Proof. unfold enqueue. destruct q; auto. intros H. apply in_or_app. now left. Qed.

Lemma In_enqueue_new k l wq : In (k, l) (enqueue false k l wq).
Proof. unfold enqueue. apply in_or_app. right. now left. Qed.

Lemma aget_or_some {A} (d : A) k m x : aget k m = Some x -> aget_or d k m = x.
Proof. unfold aget_or. now intros ->. Qed.
Lemma aget_or_none {A} (d : A) k m : aget k m = None -> aget_or d k m = d.
Proof. unfold aget_or. now intros ->. Qed.

Lemma last_value_other h l l' r : l <> l' -> last_value (h ++ [(l', r)]) l None = last_value h l None.
Proof. intros NE. rewrite last_value_app. destruct r; auto. destruct (N.eqb_spec l l'); [congruence|reflexivity]. Qed.

Lemma last_value_not_value h l l' r : (forall b, r <> RValue b) -> last_value (h ++ [(l', r)]) l None = last_value h l None.
Proof. intros NV. rewrite last_value_app. destruct r; auto. exfalso. now apply (NV b). Qed.

Lemma pushed_supplies_other h l l' r : l <> l' -> pushed_supplies (h ++ [(l', r)]) l = pushed_supplies h l.
Proof.
  intros NE. rewrite pushed_supplies_app. destruct r; rewrite ?app_nil_r; auto.
  destruct (N.eqb_spec l l'); [congruence|now rewrite app_nil_r].
Qed.

Lemma pushed_supplies_not_supply h l l' r : (forall b, r <> RSupply b) -> pushed_supplies (h ++ [(l', r)]) l = pushed_supplies h l.
Proof. intros NS. rewrite pushed_supplies_app. destruct r; rewrite ?app_nil_r; auto. exfalso. now apply (NS b). Qed.

Lemma pushed_map_mono h l e x : pushed_map h l e -> pushed_map (h ++ [x]) l e.
Proof. unfold pushed_map. intros H. apply in_or_app. now left. Qed.

(* an idle writer: nothing is pending anywhere *)
Lemma idle_nothing_pending kf u h : UInv kf u h -> u_writer u = true ->
  (forall l x, aget l (u_values u) = Some x -> uv_cur x = None) /\
  (forall l x, aget l (u_supplies u) = Some x -> us_buf x = []).
Proof.
  intros [H1 H2 H3 H4 H5 H6 H7 H8 H9 H10 H11] EW. specialize (H7 EW). split.
  - intros l x Hx. destruct (uv_cur x) as [b|] eqn:EC; [|reflexivity].
    pose proof (H9 l x Hx (H8 l x b Hx EC)) as HIn. rewrite H7 in HIn. contradiction.
  - intros l x Hx. destruct (us_buf x) as [|b t] eqn:EB; [reflexivity|].
    assert (us_buf x <> []) as NE by (rewrite EB; discriminate).
    pose proof (H11 l x Hx (H10 l x Hx NE)) as HIn. rewrite H7 in HIn. contradiction.
Qed.

Lemma push_resp_inv kf u h l r : UInv kf u h -> kind_of_resp r = kf l ->
  UInv kf (fst (push_resp u l r)) (h ++ [(l, r)]) /\
  match snd (push_resp u l r) with Some t => task_ok kf (h ++ [(l, r)]) t | None => True end.
Proof.
  intros HI HK. unfold push_resp. destruct (u_writer u) eqn:EW.
  - (* written directly *)
    destruct (idle_nothing_pending kf u h HI EW) as (NV & NS).
    destruct HI as [H1 H2 H3 H4 H5 H6 H7 H8 H9 H10 H11]. cbn [fst snd]. split.
    + split; cbn [u_writer u_values u_supplies u_maps u_wq]; auto; try discriminate.
      * intros l0 x b Hx Hc. rewrite (NV l0 x Hx) in Hc. discriminate.
      * intros l0 x Hx. exists (pushed_supplies (h ++ [(l, r)]) l0). rewrite (NS l0 x Hx). now rewrite app_nil_r.
      * intros l0 x e Hx He. apply pushed_map_mono. eauto.
    + unfold task_ok. cbn [wt_lane wt_action]. destruct r as [[| |]|b|b|e]; simpl in HK; rewrite <- HK; try discriminate; auto.
      * rewrite last_value_app. now rewrite N.eqb_refl.
      * rewrite pushed_supplies_app, N.eqb_refl. now exists (pushed_supplies h l), [].
      * split; [reflexivity|]. unfold pushed_map. apply in_or_app. right. now left.
  - (* queued behind the write in progress *)
    destruct HI as [H1 H2 H3 H4 H5 H6 H7 H8 H9 H10 H11].
    destruct r as [[| |]|b|b|e]; simpl in HK; cbn [fst snd]; (split; [|exact I]).
    + (* synced, value *)
      split; cbn [u_writer u_values u_supplies u_maps u_wq]; try discriminate.
      * intros l0 x b. rewrite aget_aput. destruct (N.eqb_spec l0 l) as [->|NE].
        -- intros Hx Hc. inversion Hx; subst x. cbn [uv_cur] in Hc. rewrite last_value_not_value by discriminate.
           unfold aget_or in Hc. destruct (aget l (u_values u)) as [x0|] eqn:EX; [eapply H1; eauto|discriminate].
        -- intros Hx Hc. rewrite last_value_other by assumption. eauto.
      * intros l0 x. rewrite aget_aput. destruct (N.eqb_spec l0 l) as [->|NE]; [auto|eauto].
      * auto.
      * auto.
      * intros l0 x Hx. rewrite pushed_supplies_not_supply by discriminate. eauto.
      * intros l0 x e Hx He. apply pushed_map_mono. eauto.
      * intros l0 x b. rewrite aget_aput. destruct (N.eqb_spec l0 l) as [->|NE]; [|eauto].
        intros Hx _. inversion Hx. reflexivity.
      * intros l0 x. rewrite aget_aput. destruct (N.eqb_spec l0 l) as [->|NE].
        -- intros _ _. unfold aget_or. destruct (aget l (u_values u)) as [x0|] eqn:EX.
           ++ destruct (uv_queued x0) eqn:EQ; [apply In_enqueue_mono; eauto|apply In_enqueue_new].
           ++ apply In_enqueue_new.
        -- intros Hx Hq. apply In_enqueue_mono. eauto.
      * auto.
      * intros l0 x Hx Hq. apply In_enqueue_mono. eauto.
    + (* synced, supply *)
      split; cbn [u_writer u_values u_supplies u_maps u_wq]; try discriminate.
      * intros l0 x b Hx Hc. rewrite last_value_not_value by discriminate. eauto.
      * auto.
      * intros l0 x. rewrite aget_aput. destruct (N.eqb_spec l0 l) as [->|NE]; [auto|eauto].
      * auto.
      * intros l0 x. rewrite aget_aput. rewrite pushed_supplies_not_supply by discriminate.
        destruct (N.eqb_spec l0 l) as [->|NE]; [|eauto]. intros Hx. inversion Hx. cbn [us_buf].
        unfold aget_or. destruct (aget l (u_supplies u)) as [x0|] eqn:EX; [eauto|]. simpl. exists (pushed_supplies h l). now rewrite app_nil_r.
      * intros l0 x e Hx He. apply pushed_map_mono. eauto.
      * auto.
      * intros l0 x Hx Hq. apply In_enqueue_mono. eauto.
      * intros l0 x. rewrite aget_aput. destruct (N.eqb_spec l0 l) as [->|NE]; [|eauto].
        intros Hx _. inversion Hx. reflexivity.
      * intros l0 x. rewrite aget_aput. destruct (N.eqb_spec l0 l) as [->|NE].
        -- intros _ _. unfold aget_or. destruct (aget l (u_supplies u)) as [x0|] eqn:EX.
           ++ destruct (us_queued x0) eqn:EQ; [apply In_enqueue_mono; eauto|apply In_enqueue_new].
           ++ apply In_enqueue_new.
        -- intros Hx Hq. apply In_enqueue_mono. eauto.
    + (* synced, map *)
      split; cbn [u_writer u_values u_supplies u_maps u_wq]; try discriminate.
      * intros l0 x b Hx Hc. rewrite last_value_not_value by discriminate. eauto.
      * auto.
      * auto.
      * intros l0 x. rewrite aget_aput. destruct (N.eqb_spec l0 l) as [->|NE]; [auto|eauto].
      * intros l0 x Hx. rewrite pushed_supplies_not_supply by discriminate. eauto.
      * intros l0 x e. rewrite aget_aput. destruct (N.eqb_spec l0 l) as [->|NE].
        -- intros Hx He. inversion Hx; subst x. cbn [um_q] in He. apply pushed_map_mono.
           unfold aget_or in He. destruct (aget l (u_maps u)) as [x0|] eqn:EX; [eauto|simpl in He; contradiction].
        -- intros Hx He. apply pushed_map_mono. eauto.
      * auto.
      * intros l0 x Hx Hq. apply In_enqueue_mono. eauto.
      * auto.
      * intros l0 x Hx Hq. apply In_enqueue_mono. eauto.
    + (* value *)
      split; cbn [u_writer u_values u_supplies u_maps u_wq]; try discriminate.
      * intros l0 x b0. rewrite aget_aput. destruct (N.eqb_spec l0 l) as [->|NE].
        -- intros Hx Hc. inversion Hx; subst x. cbn [uv_cur] in Hc. inversion Hc; subst b0.
           rewrite last_value_app. now rewrite N.eqb_refl.
        -- intros Hx Hc. rewrite last_value_other by assumption. eauto.
      * intros l0 x. rewrite aget_aput. destruct (N.eqb_spec l0 l) as [->|NE]; [auto|eauto].
      * auto.
      * auto.
      * intros l0 x Hx. rewrite pushed_supplies_not_supply by discriminate. eauto.
      * intros l0 x e Hx He. apply pushed_map_mono. eauto.
      * intros l0 x b0. rewrite aget_aput. destruct (N.eqb_spec l0 l) as [->|NE]; [|eauto].
        intros Hx _. inversion Hx. reflexivity.
      * intros l0 x. rewrite aget_aput. destruct (N.eqb_spec l0 l) as [->|NE].
        -- intros _ _. unfold aget_or. destruct (aget l (u_values u)) as [x0|] eqn:EX.
           ++ destruct (uv_queued x0) eqn:EQ; [apply In_enqueue_mono; eauto|apply In_enqueue_new].
           ++ apply In_enqueue_new.
        -- intros Hx Hq. apply In_enqueue_mono. eauto.
      * auto.
      * intros l0 x Hx Hq. apply In_enqueue_mono. eauto.
    + (* supply *)
      split; cbn [u_writer u_values u_supplies u_maps u_wq]; try discriminate.
      * intros l0 x b0 Hx Hc. rewrite last_value_not_value by discriminate. eauto.
      * auto.
      * intros l0 x. rewrite aget_aput. destruct (N.eqb_spec l0 l) as [->|NE]; [auto|eauto].
      * auto.
      * intros l0 x. rewrite aget_aput. destruct (N.eqb_spec l0 l) as [->|NE].
        -- intros Hx. inversion Hx. cbn [us_buf]. rewrite pushed_supplies_app, N.eqb_refl.
           unfold aget_or. destruct (aget l (u_supplies u)) as [x0|] eqn:EX.
           ++ destruct (H5 l x0 EX) as (pre & ->). exists pre. now rewrite app_assoc.
           ++ simpl. now exists (pushed_supplies h l).
        -- intros Hx. rewrite pushed_supplies_other by assumption. eauto.
      * intros l0 x e Hx He. apply pushed_map_mono. eauto.
      * auto.
      * intros l0 x Hx Hq. apply In_enqueue_mono. eauto.
      * intros l0 x. rewrite aget_aput. destruct (N.eqb_spec l0 l) as [->|NE]; [|eauto].
        intros Hx _. inversion Hx. reflexivity.
      * intros l0 x. rewrite aget_aput. destruct (N.eqb_spec l0 l) as [->|NE].
        -- intros _ _. unfold aget_or. destruct (aget l (u_supplies u)) as [x0|] eqn:EX.
           ++ destruct (us_queued x0) eqn:EQ; [apply In_enqueue_mono; eauto|apply In_enqueue_new].
           ++ apply In_enqueue_new.
        -- intros Hx Hq. apply In_enqueue_mono. eauto.
    + (* map *)
      split; cbn [u_writer u_values u_supplies u_maps u_wq]; try discriminate.
      * intros l0 x b0 Hx Hc. rewrite last_value_not_value by discriminate. eauto.
      * auto.
      * auto.
      * intros l0 x. rewrite aget_aput. destruct (N.eqb_spec l0 l) as [->|NE]; [auto|eauto].
      * intros l0 x Hx. rewrite pushed_supplies_not_supply by discriminate. eauto.
      * intros l0 x e0. rewrite aget_aput. destruct (N.eqb_spec l0 l) as [->|NE].
        -- intros Hx He. inversion Hx; subst x. cbn [um_q] in He. apply push_events_in in He. destruct He as [->|He].
           ++ unfold pushed_map. apply in_or_app. right. now left.
           ++ apply pushed_map_mono. unfold aget_or in He.
              destruct (aget l (u_maps u)) as [x0|] eqn:EX; [eauto|simpl in He; contradiction].
        -- intros Hx He. apply pushed_map_mono. eauto.
      * auto.
      * intros l0 x Hx Hq. apply In_enqueue_mono. eauto.
      * auto.
      * intros l0 x Hx Hq. apply In_enqueue_mono. eauto.
Qed.

Lemma In_tail_ne {A} (x y : A) rest : In x (y :: rest) -> x <> y -> In x rest.
Proof. intros [H|H] NE; [congruence|exact H]. Qed.

Lemma In_app_l {A} (x : A) a b : In x a -> In x (a ++ b).
Proof. intros H. apply in_or_app. now left. Qed.

Lemma pop_wq_inv kf h fuel : forall u, UInv kf u h -> u_writer u = false ->
  UInv kf (fst (pop_wq fuel u)) h /\
  match snd (pop_wq fuel u) with Some t => task_ok kf h t | None => True end.
Proof.
  induction fuel as [|f IH]; intros u HI EW; [simpl; auto|].
  cbn [pop_wq]. destruct (u_wq u) as [|[k l] rest] eqn:EQ.
  - (* nothing left: the writer stays *)
    destruct HI as [H1 H2 H3 H4 H5 H6 H7 H8 H9 H10 H11]. cbn [fst snd]. split; [|exact I].
    split; cbn [u_writer u_values u_supplies u_maps u_wq]; auto; rewrite EQ in *; auto.
  - destruct k.
    + (* a value uplink *)
      destruct (aget l (u_values u)) as [x|] eqn:EX.
      * set (u' := {| u_writer := false;
                      u_values := aput l {| uv_queued := false; uv_synced := false; uv_cur := None |} (u_values u);
                      u_supplies := u_supplies u; u_maps := u_maps u; u_wq := rest; u_sq := u_sq u |}).
        assert (HI' : UInv kf u' h).
        { destruct HI as [H1 H2 H3 H4 H5 H6 H7 H8 H9 H10 H11]. rewrite EQ in *.
          split; cbn [u' u_writer u_values u_supplies u_maps u_wq]; auto; try discriminate.
          - intros l0 x0 b. rewrite aget_aput. destruct (N.eqb_spec l0 l) as [->|NE]; [|eauto].
            intros Hx Hc. inversion Hx; subst x0. discriminate.
          - intros l0 x0. rewrite aget_aput. destruct (N.eqb_spec l0 l) as [->|NE]; [|eauto]. intros _. eauto.
          - intros l0 x0 b. rewrite aget_aput. destruct (N.eqb_spec l0 l) as [->|NE]; [|eauto].
            intros Hx Hc. inversion Hx; subst x0. discriminate.
          - intros l0 x0. rewrite aget_aput. destruct (N.eqb_spec l0 l) as [->|NE].
            + intros Hx Hq. inversion Hx; subst x0. discriminate.
            + intros Hx Hq. apply (In_tail_ne _ (KValue, l)); [eauto|congruence].
          - intros l0 x0 Hx Hq. apply (In_tail_ne _ (KValue, l)); [eauto|discriminate]. }
        destruct HI as [H1 H2 H3 H4 H5 H6 H7 H8 H9 H10 H11].
        destruct (uv_synced x) eqn:ES; destruct (uv_cur x) as [b|] eqn:EC; cbn [fst snd].
        -- split; [exact HI'|]. unfold task_ok. cbn [wt_lane wt_action]. rewrite (H2 l x EX). eauto.
        -- split; [exact HI'|]. unfold task_ok. cbn [wt_lane wt_action]. rewrite (H2 l x EX). discriminate.
        -- split; [exact HI'|]. unfold task_ok. cbn [wt_lane wt_action]. rewrite (H2 l x EX). eauto.
        -- apply IH; [exact HI'|reflexivity].
      * apply IH; [|reflexivity]. destruct HI as [H1 H2 H3 H4 H5 H6 H7 H8 H9 H10 H11]. rewrite EQ in *.
        split; cbn [u_writer u_values u_supplies u_maps u_wq]; auto; try discriminate.
        -- intros l0 x0 Hx Hq. apply (In_tail_ne _ (KValue, l)); [eauto|]. intros E. inversion E; subst. congruence.
        -- intros l0 x0 Hx Hq. apply (In_tail_ne _ (KValue, l)); [eauto|discriminate].
    + (* a supply uplink *)
      destruct (aget l (u_supplies u)) as [x|] eqn:EX.
      * set (more := nonempty (tl (us_buf x))).
        set (u' := {| u_writer := false; u_values := u_values u;
                      u_supplies := aput l {| us_queued := more; us_synced := false; us_buf := tl (us_buf x) |} (u_supplies u);
                      u_maps := u_maps u;
                      u_wq := if more then rest ++ [(KSupply, l)] else rest; u_sq := u_sq u |}).
        assert (HI' : UInv kf u' h).
        { destruct HI as [H1 H2 H3 H4 H5 H6 H7 H8 H9 H10 H11]. rewrite EQ in *.
          split; cbn [u' u_writer u_values u_supplies u_maps u_wq]; auto; try discriminate.
          - intros l0 x0. rewrite aget_aput. destruct (N.eqb_spec l0 l) as [->|NE]; [|eauto]. intros _. eauto.
          - intros l0 x0. rewrite aget_aput. destruct (N.eqb_spec l0 l) as [->|NE]; [|eauto].
            intros Hx. inversion Hx. cbn [us_buf]. destruct (H5 l x EX) as (pre & Hp).
            destruct (us_buf x) as [|b t]; simpl; [exists pre; exact Hp|].
            exists (pre ++ [b]). now rewrite <- app_assoc.
          - intros l0 x0 Hx Hq. assert (In (KValue, l0) rest) as HR
              by (apply (In_tail_ne _ (KSupply, l)); [eauto|discriminate]).
            destruct more; [now apply In_app_l|exact HR].
          - intros l0 x0. rewrite aget_aput. destruct (N.eqb_spec l0 l) as [->|NE]; [|eauto].
            intros Hx Hb. inversion Hx; subst x0. cbn [us_buf us_queued] in *. unfold more.
            destruct (tl (us_buf x)); [congruence|reflexivity].
          - intros l0 x0. rewrite aget_aput. destruct (N.eqb_spec l0 l) as [->|NE].
            + intros Hx Hq. inversion Hx; subst x0. cbn [us_queued] in Hq. rewrite Hq.
              apply in_or_app. right. now left.
            + intros Hx Hq. assert (In (KSupply, l0) rest) as HR
                by (apply (In_tail_ne _ (KSupply, l)); [eauto|congruence]).
              destruct more; [now apply In_app_l|exact HR]. }
        destruct HI as [H1 H2 H3 H4 H5 H6 H7 H8 H9 H10 H11].
        fold more. fold u'.
        assert (HT : nonempty (us_buf x) = true -> exists pre post, pushed_supplies h l = pre ++ hd [] (us_buf x) :: post).
        { intros HN. destruct (H5 l x EX) as (pre & Hp). destruct (us_buf x) as [|b t]; [discriminate|].
          exists pre, t. exact Hp. }
        destruct (us_synced x) eqn:ES.
        -- cbn [fst snd]. split; [exact HI'|]. unfold task_ok. cbn [wt_lane wt_action].
           destruct (nonempty (us_buf x)) eqn:EN; rewrite (H3 l x EX); [now apply HT|discriminate].
        -- destruct (nonempty (us_buf x)) eqn:EN.
           ++ cbn [fst snd]. split; [exact HI'|]. unfold task_ok. cbn [wt_lane wt_action]. rewrite (H3 l x EX). now apply HT.
           ++ apply IH; [exact HI'|reflexivity].
      * apply IH; [|reflexivity]. destruct HI as [H1 H2 H3 H4 H5 H6 H7 H8 H9 H10 H11]. rewrite EQ in *.
        split; cbn [u_writer u_values u_supplies u_maps u_wq]; auto; try discriminate.
        -- intros l0 x0 Hx Hq. apply (In_tail_ne _ (KSupply, l)); [eauto|discriminate].
        -- intros l0 x0 Hx Hq. apply (In_tail_ne _ (KSupply, l)); [eauto|]. intros E. inversion E; subst. congruence.
    + (* a map uplink *)
      assert (HR : forall k0 l0, k0 <> KMap -> In (k0, l0) ((KMap, l) :: rest) -> In (k0, l0) rest).
      { intros k0 l0 NK HIn. apply (In_tail_ne _ (KMap, l)); [exact HIn|]. intros E. inversion E. congruence. }
      destruct (aget l (u_maps u)) as [x|] eqn:EX.
      * destruct (um_synced x) eqn:ES.
        -- destruct HI as [H1 H2 H3 H4 H5 H6 H7 H8 H9 H10 H11]. rewrite EQ in *. cbn [fst snd]. split.
           ++ split; cbn [u_writer u_values u_supplies u_maps u_wq]; auto; try discriminate.
              ** intros l0 x0. rewrite aget_aput. destruct (N.eqb_spec l0 l) as [->|NE]; [|eauto]. intros _. eauto.
              ** intros l0 x0 e. rewrite aget_aput. destruct (N.eqb_spec l0 l) as [->|NE]; [|eauto].
                 intros Hx He. inversion Hx; subst x0. simpl in He. contradiction.
              ** intros l0 x0 Hx Hq. apply HR; [discriminate|eauto].
              ** intros l0 x0 Hx Hq. apply HR; [discriminate|eauto].
           ++ unfold task_ok. cbn [wt_lane wt_action]. split; [eauto|]. intros e He. eauto.
        -- pose proof (pop_events_in (um_q x)) as HP. destruct (pop (um_q x)) as [q' [head|]].
           ++ destruct HP as (Hh & Hsub). destruct HI as [H1 H2 H3 H4 H5 H6 H7 H8 H9 H10 H11]. rewrite EQ in *.
              cbn [fst snd]. split.
              ** split; cbn [u_writer u_values u_supplies u_maps u_wq]; auto; try discriminate.
                 --- intros l0 x0. rewrite aget_aput. destruct (N.eqb_spec l0 l) as [->|NE]; [|eauto]. intros _. eauto.
                 --- intros l0 x0 e. rewrite aget_aput. destruct (N.eqb_spec l0 l) as [->|NE]; [|eauto].
                     intros Hx He. inversion Hx; subst x0. cbn [um_q] in He. eauto.
                 --- intros l0 x0 Hx Hq. assert (In (KValue, l0) rest) by (apply HR; [discriminate|eauto]).
                     destruct (nonempty (events q')); [now apply In_app_l|assumption].
                 --- intros l0 x0 Hx Hq. assert (In (KSupply, l0) rest) by (apply HR; [discriminate|eauto]).
                     destruct (nonempty (events q')); [now apply In_app_l|assumption].
              ** unfold task_ok. cbn [wt_lane wt_action]. split; eauto.
           ++ subst q'. apply IH; [|reflexivity]. destruct HI as [H1 H2 H3 H4 H5 H6 H7 H8 H9 H10 H11]. rewrite EQ in *.
              split; cbn [u_writer u_values u_supplies u_maps u_wq]; auto; try discriminate.
              ** intros l0 x0. rewrite aget_aput. destruct (N.eqb_spec l0 l) as [->|NE]; [|eauto]. intros _. eauto.
              ** intros l0 x0 e. rewrite aget_aput. destruct (N.eqb_spec l0 l) as [->|NE]; [|eauto].
                 intros Hx He. inversion Hx; subst x0. cbn [um_q] in He. eauto.
              ** intros l0 x0 Hx Hq. apply HR; [discriminate|eauto].
              ** intros l0 x0 Hx Hq. apply HR; [discriminate|eauto].
      * apply IH; [|reflexivity]. destruct HI as [H1 H2 H3 H4 H5 H6 H7 H8 H9 H10 H11]. rewrite EQ in *.
        split; cbn [u_writer u_values u_supplies u_maps u_wq]; auto; try discriminate.
        -- intros l0 x0 Hx Hq. apply HR; [discriminate|eauto].
        -- intros l0 x0 Hx Hq. apply HR; [discriminate|eauto].
Qed.

Lemma replace_and_pop_inv kf u h : UInv kf u h -> u_writer u = false ->
  UInv kf (fst (replace_and_pop u)) h /\
  match snd (replace_and_pop u) with Some t => task_ok kf h t | None => True end.
Proof.
  intros HI EW. unfold replace_and_pop. destruct (u_sq u) as [|a rest] eqn:ES.
  - now apply pop_wq_inv.
  - cbn [fst snd]. split; [|exact I]. destruct HI as [H1 H2 H3 H4 H5 H6 H7 H8 H9 H10 H11].
    split; cbn [u_writer u_values u_supplies u_maps u_wq]; auto; discriminate.
Qed.

Lemma ustep_inv kf u h o : UInv kf u h -> well_kinded kf o ->
  UInv kf (fst (ustep u o)) (hist_step h o) /\
  match snd (ustep u o) with Some t => task_ok kf (hist_step h o) t | None => True end.
Proof.
  intros HI HK. destruct o as [a|l r|]; simpl.
  - now apply push_special_inv.
  - now apply push_resp_inv.
  - destruct (u_writer u) eqn:EW; [simpl; auto|]. now apply replace_and_pop_inv.
Qed.

Lemma urun_ok kf ops : forall u h, UInv kf u h -> Forall (well_kinded kf) ops ->
  forall h' t, In (h', Some t) (urun u h ops) -> task_ok kf h' t.
Proof.
  induction ops as [|o rest IH]; intros u h HI HK h' t HIn; [contradiction|].
  inversion HK as [|? ? Ho HK']; subst. simpl in HIn.
  destruct (ustep_inv kf u h o HI Ho) as (HI' & HT). destruct (ustep u o) as [u' tk]. simpl in *.
  destruct HIn as [E|HIn].
  - inversion E; subst. exact HT.
  - eapply IH; eauto.
Qed.

(* every write task ever created on a remote, under every order of pushes, special actions and writer
   returns, is justified by what the lanes produced up to that moment *)
Theorem uplinks_tasks_justified kf ops : Forall (well_kinded kf) ops ->
  forall h t, In (h, Some t) (urun uplinks0 [] ops) -> task_ok kf h t.
Proof. intros HK. apply (urun_ok kf ops uplinks0 []); [apply UInv0|exact HK]. Qed.

(* at most one write task is out per remote: a task is only ever created when the writer is present
   (and takes it), or on the return of the writer *)
Lemma task_takes_writer u o t : snd (ustep u o) = Some t -> u_writer (fst (ustep u o)) = false.
Proof.
  destruct o as [a|l r|]; simpl.
  - unfold push_special. destruct (u_writer u); [reflexivity|]. destruct a; discriminate.
  - unfold push_resp. destruct (u_writer u); [reflexivity|]. destruct r as [[| |]|b|b|e]; discriminate.
  - destruct (u_writer u) eqn:EW; [discriminate|]. unfold replace_and_pop. destruct (u_sq u); [|reflexivity].
    generalize (S (length (u_wq u))). intros fuel. revert u EW. induction fuel as [|f IH]; intros u EW; [discriminate|].
    cbn [pop_wq]. destruct (u_wq u) as [|[[| |] l] rest]; [discriminate| | |].
    + destruct (aget l (u_values u)) as [x|]; [|apply IH; reflexivity].
      destruct (uv_synced x); destruct (uv_cur x); try reflexivity. apply IH. reflexivity.
    + destruct (aget l (u_supplies u)) as [x|]; [|apply IH; reflexivity].
      destruct (us_synced x); [reflexivity|]. destruct (nonempty (us_buf x)); [reflexivity|]. apply IH. reflexivity.
    + destruct (aget l (u_maps u)) as [x|]; [|apply IH; reflexivity].
      destruct (um_synced x); [reflexivity|]. destruct (pop (um_q x)) as [q' [hd|]]; [reflexivity|]. apply IH. reflexivity.
Qed.

Lemma no_task_while_out u o : u_writer u = false -> o <> UReturn -> snd (ustep u o) = None.
Proof.
  intros EW NR. destruct o as [a|l r|]; simpl; [| |congruence].
  - unfold push_special. rewrite EW. destruct a; reflexivity.
  - unfold push_resp. rewrite EW. destruct r as [[| |]|b|b|e]; reflexivity.
Qed.

(* special actions (linked / unlinked / lane-not-found) are written first, in request order *)
Lemma specials_first u a rest : u_writer u = false -> u_sq u = a :: rest ->
  snd (replace_and_pop u) = Some {| wt_lane := special_lane a; wt_action := WSpecial a |} /\
  u_sq (fst (replace_and_pop u)) = rest.
Proof. intros _ ES. unfold replace_and_pop. rewrite ES. auto. Qed.

(* ---- sync ---- *)
Lemma drain_queue_all q : drain_queue (length (events q)) q = events q.
Proof.
  destruct q as [es he em]. simpl. revert he em. induction es as [|e rest IH]; intros he em; [reflexivity|].
  simpl. f_equal. apply IH.
Qed.

(* a map lane's synced is written after everything queued for that remote, in queue order *)
Lemma map_synced_drains l q :
  frames_of {| wt_lane := l; wt_action := WMapSynced (Some q) |} =
  map (fun e => FMapEvent l (Some e)) (events q) ++ [FSynced l].
Proof. unfold frames_of. simpl. now rewrite drain_queue_all. Qed.

(* a value lane's synced never overtakes the value that is waiting: both go out in one write, the
   value first *)
Lemma value_synced_after_value u l rest x b :
  u_sq u = [] -> u_wq u = (KValue, l) :: rest -> aget l (u_values u) = Some x ->
  uv_synced x = true -> uv_cur x = Some b ->
  option_map frames_of (snd (replace_and_pop u)) = Some [FEvent l b; FSynced l].
Proof.
  intros ES EQ EX HS HC. unfold replace_and_pop. rewrite ES, EQ. cbn [length pop_wq]. rewrite EQ, EX, HS, HC. reflexivity.
Qed.

(* with nothing waiting the synced goes out alone (no empty event is made up) *)
Lemma value_synced_alone u l rest x :
  u_sq u = [] -> u_wq u = (KValue, l) :: rest -> aget l (u_values u) = Some x ->
  uv_synced x = true -> uv_cur x = None ->
  option_map frames_of (snd (replace_and_pop u)) = Some [FSynced l].
Proof.
  intros ES EQ EX HS HC. unfold replace_and_pop. rewrite ES, EQ. cbn [length pop_wq]. rewrite EQ, EX, HS, HC. reflexivity.
Qed.
