(* The link protocol on the value pipeline (Model/ValuePipeline.v): what each remote is sent for the lane is, at
   every point, a prefix of repetitions of  linked+ (event | synced)* unlinked ; events and synced markers never
   appear outside a link; stopping the agent closes every open link. *)
From SwimV Require Import Model.ValuePipeline Proofs.ValuePipelineProofs.
Open Scope N_scope.

Lemma gram_from_app g a b : gram_from g (a ++ b) = gram_from (gram_from g a) b.
Proof. unfold gram_from. apply fold_left_app. Qed.

Lemma gram_from_none fs : gram_from None fs = None.
Proof. induction fs as [|f fs IH]; cbn; [reflexivity|exact IH]. Qed.

(* a prefix of a grammatical stream is grammatical *)
Lemma gram_prefix a b g : gram (a ++ b) = Some g -> exists g', gram a = Some g'.
Proof.
  unfold gram. rewrite gram_from_app. destruct (gram_from (Some GOut) a) as [g'|]; [now exists g'|].
  now rewrite gram_from_none.
Qed.

Definition queued_specials (x : rst) : list frame := flat_map special_frames (v_sq (r_up x)).
Definition lstate (x : rst) : gst := if r_linked x then GIn else GOut.

(* everything sent, being sent and queued as link / unlink answers, in that order, is grammatical and ends in the
   state the write task believes the remote to be in; a value or a synced marker waits only for a linked remote *)
Definition GInv (x : rst) : Prop :=
  gram (r_sent x ++ fly_frames x ++ queued_specials x) = Some (lstate x)
  /\ (v_queued (r_up x) = true -> r_linked x = true)
  /\ (v_home (r_up x) = true -> v_queued (r_up x) = false /\ v_sq (r_up x) = [] /\ r_fly x = None)
  /\ (v_home (r_up x) = false -> r_fly x <> None).

Lemma ginv0 : GInv rst0.
Proof. unfold GInv, rst0, queued_specials, fly_frames; cbn. repeat split; auto; discriminate. Qed.

Ltac gbreak x :=
  let linked := fresh "linked" in let home := fresh "home" in let cur := fresh "cur" in
  let synced := fresh "synced" in let queued := fresh "queued" in let sq := fresh "sq" in
  let fly := fresh "fly" in let sent := fresh "sent" in let pushed := fresh "pushed" in let owed := fresh "owed" in
  destruct x as [linked [home cur synced queued sq] fly sent pushed owed].

Ltac gcbn := unfold fly_frames, queued_specials, lstate in *;
             cbn [r_linked r_up r_fly r_sent r_pushed r_owed v_home v_cur v_synced v_queued v_sq fst snd
                  r_apply r_value r_synced r_link r_unlink r_unlink_as r_ensure_linked vpush_value vpush_synced vpush_special
                  vpop flat_map app frames_of vtask wt_lane wt_action] in *.

Lemma gram_snoc fs g f : gram fs = Some g -> gram (fs ++ [f]) = gstep (Some g) f.
Proof. intros H. unfold gram in *. rewrite gram_from_app, H. reflexivity. Qed.

Lemma app3_snoc {A} (a b c d : list A) : a ++ b ++ c ++ d = (a ++ b ++ c) ++ d.
Proof. now rewrite !app_assoc. Qed.

Lemma flat_map_snoc {A B} (f : A -> list B) l x : flat_map f (l ++ [x]) = flat_map f l ++ f x.
Proof. rewrite flat_map_app. cbn. now rewrite app_nil_r. Qed.

Lemma ginv_value x b : GInv x -> r_linked x = true -> GInv (r_value x b).
Proof.
  intros (G1 & G2 & G3 & G4) Hl. gbreak x. gcbn. subst linked. destruct home; gcbn.
  - destruct (G3 eq_refl) as (-> & -> & ->). unfold GInv; gcbn. rewrite !app_nil_r in *.
    split; [rewrite (gram_snoc _ _ _ G1); reflexivity|]. split; [discriminate|]. split; [discriminate|]. discriminate.
  - unfold GInv; gcbn. split; [exact G1|]. split; [reflexivity|]. split; [discriminate|]. exact G4.
Qed.

Lemma ginv_synced x : GInv x -> r_linked x = true -> GInv (r_synced x).
Proof.
  intros (G1 & G2 & G3 & G4) Hl. gbreak x. unfold r_synced. gcbn. subst linked. destruct home; gcbn.
  - destruct (G3 eq_refl) as (-> & -> & ->). unfold GInv; gcbn. rewrite !app_nil_r in *.
    split; [rewrite (gram_snoc _ _ _ G1); reflexivity|]. split; [discriminate|]. split; [discriminate|]. discriminate.
  - unfold GInv; gcbn. split; [exact G1|]. split; [reflexivity|]. split; [discriminate|]. exact G4.
Qed.

Lemma ginv_link x : GInv x -> GInv (r_link x) /\ r_linked (r_link x) = true.
Proof.
  intros (G1 & G2 & G3 & G4). split; [|reflexivity]. gbreak x. unfold r_link. gcbn. destruct home; gcbn.
  - destruct (G3 eq_refl) as (-> & -> & ->). unfold GInv; gcbn. rewrite !app_nil_r in *.
    split; [rewrite (gram_snoc _ _ _ G1); now destruct linked|]. split; [discriminate|]. split; [discriminate|]. discriminate.
  - unfold GInv; gcbn. rewrite flat_map_snoc, app3_snoc. cbn [special_frames frames_of vtask wt_lane wt_action].
    split; [rewrite (gram_snoc _ _ _ G1); now destruct linked|].
    split; [reflexivity|]. split; [discriminate|]. exact G4.
Qed.

Lemma ginv_unlink_as x m : GInv x -> GInv (r_unlink_as x m) /\ r_linked (r_unlink_as x m) = false.
Proof.
  intros (G1 & G2 & G3 & G4). gbreak x. unfold r_unlink_as. gcbn. destruct linked; gcbn.
  2:{ split; [|reflexivity]. unfold GInv; gcbn. tauto. }
  split; [|reflexivity]. destruct home; gcbn.
  - destruct (G3 eq_refl) as (-> & -> & ->). unfold GInv; gcbn. rewrite !app_nil_r in *.
    split; [rewrite (gram_snoc _ _ _ G1); reflexivity|]. split; [discriminate|]. split; [discriminate|]. discriminate.
  - unfold GInv; gcbn. rewrite flat_map_snoc, app3_snoc. cbn [special_frames frames_of vtask wt_lane wt_action].
    split; [rewrite (gram_snoc _ _ _ G1); reflexivity|].
    split; [discriminate|]. split; [discriminate|]. exact G4.
Qed.

Lemma ginv_ensure x : GInv x -> GInv (r_ensure_linked x) /\ r_linked (r_ensure_linked x) = true.
Proof. intros H. unfold r_ensure_linked. destruct (r_linked x) eqn:E; [now split|]. now apply ginv_link. Qed.

Lemma ginv_done x : GInv x -> GInv (fst (r_done x)).
Proof.
  intros (G1 & G2 & G3 & G4). gbreak x. unfold r_done. gcbn. destruct fly as [t|]; [|unfold GInv; gcbn; tauto].
  assert (Hh : home = false).
  { destruct home; [|reflexivity]. destruct (G3 eq_refl) as (_ & _ & H). discriminate. }
  subst home. cbn [fst]. destruct sq as [|a rest]; cbn [vpop v_sq v_queued v_cur v_synced fst snd].
  - gcbn. rewrite app_nil_r in G1. destruct queued.
    + specialize (G2 eq_refl). subst linked.
      destruct synced, cur as [b|]; unfold GInv; gcbn; rewrite ?app_nil_r.
      * split; [change [FEvent 0 b; FSynced 0] with ([FEvent 0 b] ++ [FSynced 0]); rewrite app_assoc;
                rewrite (gram_snoc _ GIn _); [reflexivity|]; rewrite (gram_snoc _ _ _ G1); reflexivity|].
        split; [discriminate|]. split; [discriminate|]. discriminate.
      * split; [rewrite (gram_snoc _ _ _ G1); reflexivity|]. split; [discriminate|]. split; [discriminate|]. discriminate.
      * split; [rewrite (gram_snoc _ _ _ G1); reflexivity|]. split; [discriminate|]. split; [discriminate|]. discriminate.
      * split; [exact G1|]. split; [discriminate|]. split; [auto|]. discriminate.
    + unfold GInv; gcbn. rewrite ?app_nil_r. split; [exact G1|]. split; [discriminate|]. split; [auto|]. discriminate.
  - unfold GInv; gcbn. fold (special_frames a). rewrite <- app_assoc.
    split; [exact G1|]. split; [exact G2|]. split; [discriminate|]. discriminate.
Qed.

(* ---- the pipeline ---- *)
Definition GPInv (p : pipe) : Prop := forall r x, In (r, x) (p_rems p) -> GInv x.

Lemma gpinv0 init : GPInv (pipe0 init).
Proof. intros r x []. Qed.

Lemma deliver_ginv m a : (forall r x, In (r, x) m -> GInv x) -> forall r x, In (r, x) (deliver m a) -> GInv x.
Proof.
  intros HG r y Hin. destruct a as [b|r' b|r']; cbn [deliver] in Hin.
  - apply In_rall in Hin as (x & Hin & ->). destruct (r_linked x) eqn:El; [|now apply (HG r x)].
    apply ginv_value; [now apply (HG r x)|exact El].
  - apply In_rmap in Hin as (x & Hin & [->|[-> ->]]); [now apply (HG r x)|].
    destruct (ginv_ensure x (HG _ _ Hin)) as [Hi Hl]. now apply ginv_value.
  - apply In_rmap in Hin as (x & Hin & [->|[-> ->]]); [now apply (HG r x)|].
    destruct (ginv_ensure x (HG _ _ Hin)) as [Hi Hl]. now apply ginv_synced.
Qed.

Lemma gpstep_inv p o : GPInv p -> GPInv (fst (fst (pstep p o))).
Proof.
  intros HG. destruct o as [r|v|r| |r|r|r|]; cbn [pstep fst].
  - destruct (aget r (p_rems p)); [exact HG|]. intros k x Hin. cbn [set_rems p_rems] in Hin.
    apply in_app_or in Hin as [Hin|[Hin|[]]]; [now apply (HG k x)|]. injection Hin as <- <-. apply ginv0.
  - exact HG.
  - exact HG.
  - destruct (vl_write (p_lane p)) as [[l' rs] res]. cbn [fst p_rems]. unfold GPInv. cbn [p_rems].
    revert HG. unfold GPInv. generalize (p_rems p). induction rs as [|a rs IH]; intros m HG; cbn [fold_left]; [exact HG|].
    apply IH. now apply deliver_ginv.
  - intros k y Hin. cbn [set_rems p_rems] in Hin. apply In_rmap in Hin as (x & Hin & [->|[-> ->]]); [now apply (HG k x)|].
    now apply ginv_link, (HG r x).
  - intros k y Hin. cbn [set_rems p_rems] in Hin. apply In_rmap in Hin as (x & Hin & [->|[-> ->]]); [now apply (HG k x)|].
    now apply (ginv_unlink_as x 0), (HG r x).
  - destruct (aget r (p_rems p)) as [x0|] eqn:E; [|exact HG].
    destruct (r_done x0) as [x' fr] eqn:Ed. cbn [fst]. replace x' with (fst (r_done x0)) by now rewrite Ed.
    rewrite (rmap_const_aget (fun x => fst (r_done x)) r _ _ E).
    intros k y Hin. cbn [set_rems p_rems] in Hin. apply In_rmap in Hin as (x & Hin & [->|[-> ->]]); [now apply (HG k x)|].
    now apply ginv_done, (HG r x).
  - intros k y Hin. cbn [set_rems p_rems] in Hin. apply In_rall in Hin as (x & Hin & ->).
    now apply (ginv_unlink_as x 1), (HG k x).
Qed.

Lemma gpexec_inv ops : forall p, GPInv p -> GPInv (pexec p ops).
Proof. unfold pexec. induction ops as [|o ops IH]; cbn; intros p H; [exact H|]. apply IH. now apply gpstep_inv. Qed.

(* ---- theorems ---- *)

(* whatever a remote has been sent for the lane is, at any point, a prefix of  (linked+ (event | synced)* unlinked)* :
   events and synced markers never appear outside a link, an unlinked only closes a link *)
Theorem remote_stream_is_grammatical init ops r x :
  aget r (p_rems (pexec (pipe0 init) ops)) = Some x -> exists g, gram (r_sent x) = Some g.
Proof.
  intros Hx. destruct (gpexec_inv ops _ (gpinv0 init) r x (aget_In _ _ _ Hx)) as (G1 & _).
  now apply gram_prefix in G1.
Qed.

(* the same on the frames delivered at the remote's write completions: the predicate the oracle evaluates *)
Theorem delivered_frames_are_grammatical init ops r :
  gram_ok (frames_for r ops (prun (pipe0 init) ops)) = true.
Proof.
  pose proof (sent_run r ops (pipe0 init)) as Hs. cbn [pipe0 p_rems] in Hs. unfold sent_of in Hs. cbn [aget app] in Hs.
  unfold gram_ok. destruct (aget r (p_rems (pexec (pipe0 init) ops))) as [x|] eqn:E.
  - rewrite <- Hs. destruct (remote_stream_is_grammatical init ops r x E) as (g & ->). reflexivity.
  - rewrite <- Hs. reflexivity.
Qed.

(* when the agent stops every open link is closed: once its writes are done a remote's stream ends outside a link *)
Theorem stopped_agent_closes_every_link init ops1 ops2 r x :
  let p := pexec (pipe0 init) (ops1 ++ PStopAll :: ops2) in
  Forall (fun o => match o with PDone _ => True | _ => False end) ops2 ->
  aget r (p_rems p) = Some x -> v_home (r_up x) = true -> gram (r_sent x) = Some GOut.
Proof.
  intros p HF Hx Hh.
  assert (Hunl : forall ops p0, (forall k y, In (k, y) (p_rems p0) -> r_linked y = false) ->
                   Forall (fun o => match o with PDone _ => True | _ => False end) ops ->
                   forall k y, In (k, y) (p_rems (pexec p0 ops)) -> r_linked y = false).
  { unfold pexec. induction ops as [|o ops IH]; intros p0 H0 HF0 k y Hin; cbn [fold_left] in Hin; [now apply (H0 k y)|].
    inversion HF0 as [|? ? Ho HF']; subst. destruct o as [| | | | | |r'|]; try contradiction.
    apply (IH (fst (fst (pstep p0 (PDone r')))) ) with (k := k); auto. intros k' y' Hin'. cbn [pstep] in Hin'.
    destruct (aget r' (p_rems p0)) as [x0|] eqn:E; [|now apply (H0 k' y')].
    destruct (r_done x0) as [x' fr] eqn:Ed. cbn [fst set_rems p_rems] in Hin'.
    apply In_rmap in Hin' as (x1 & Hin1 & [->|[-> ->]]); [now apply (H0 k' x1)|].
    replace x' with (fst (r_done x0)) by now rewrite Ed. rewrite linked_done. apply (H0 r' x0). now apply aget_In. }
  assert (E : p = pexec (fst (fst (pstep (pexec (pipe0 init) ops1) PStopAll))) ops2).
  { unfold p, pexec. rewrite fold_left_app. reflexivity. }
  assert (Hl : r_linked x = false).
  { apply (Hunl ops2 (fst (fst (pstep (pexec (pipe0 init) ops1) PStopAll)))) with (k := r); auto.
    - intros k y Hin. cbn [pstep fst set_rems p_rems] in Hin. apply In_rall in Hin as (x1 & _ & ->).
      unfold r_unlink_as. destruct (r_linked x1) eqn:E1; [reflexivity|exact E1].
    - rewrite <- E. now apply aget_In. }
  destruct (gpexec_inv (ops1 ++ PStopAll :: ops2) _ (gpinv0 init) r x (aget_In _ _ _ Hx)) as (G1 & _ & G3 & _).
  destruct (G3 Hh) as (_ & Hsq & Hf). unfold fly_frames, queued_specials, lstate in G1. rewrite Hsq, Hf, Hl in G1.
  cbn in G1. now rewrite app_nil_r in G1.
Qed.

(* non-vacuity *)
Lemma stop_witness :
  let p := pexec (pipe0 [48]) ([PAdd 1; PLink 1; PDone 1; PSet [53]; PWrite] ++ PStopAll :: [PDone 1; PDone 1; PDone 1]) in
  exists x, aget 1 (p_rems p) = Some x /\ v_home (r_up x) = true /\ r_sent x = [FLinked 0; FEvent 0 [53]; FUnlinked 0 1].
Proof. eexists. split; [vm_compute; reflexivity|]. split; reflexivity. Qed.

(* ---- synced only after the remote asked ---- *)
Definition b2n (b : bool) : nat := if b then 1%nat else O.
Definition msync (x : rst) : nat := (count_synced (r_sent x ++ fly_frames x) + b2n (v_synced (r_up x)))%nat.
Definition cntN (r : N) (l : list N) : nat := length (filter (N.eqb r) l).
Definition asked (r : N) (ops : list pop) : nat := length (filter (fun o => match o with PSync r' => N.eqb r r' | _ => false end) ops).

Lemma count_synced_app a b : count_synced (a ++ b) = (count_synced a + count_synced b)%nat.
Proof. unfold count_synced. now rewrite filter_app, app_length. Qed.

Lemma count_synced_special a : count_synced (special_frames a) = O.
Proof. destruct a; reflexivity. Qed.

Ltac mcbn := unfold msync, fly_frames in *;
             cbn [r_linked r_up r_fly r_sent r_pushed r_owed v_home v_cur v_synced v_queued v_sq fst snd
                  r_apply r_value r_synced r_link r_unlink r_unlink_as r_ensure_linked vpush_value vpush_synced vpush_special
                  vpop frames_of vtask wt_lane wt_action b2n] in *.

Lemma msync_value x b : GInv x -> msync (r_value x b) = msync x.
Proof.
  intros (_ & _ & G3 & _). gbreak x. mcbn. destruct home; mcbn; [|reflexivity].
  destruct (G3 eq_refl) as (_ & _ & ->). rewrite !count_synced_app. reflexivity.
Qed.

Lemma msync_synced x : GInv x -> (msync (r_synced x) <= msync x + 1)%nat.
Proof.
  intros (_ & _ & G3 & _). gbreak x. unfold r_synced. mcbn. destruct home; mcbn.
  - destruct (G3 eq_refl) as (_ & _ & ->). rewrite !count_synced_app. cbn. lia.
  - destruct synced; cbn; lia.
Qed.

Lemma msync_link x : GInv x -> msync (r_link x) = msync x.
Proof.
  intros (_ & _ & G3 & _). gbreak x. unfold r_link. mcbn. destruct home; mcbn; [|reflexivity].
  destruct (G3 eq_refl) as (_ & _ & ->). rewrite !count_synced_app. reflexivity.
Qed.

Lemma msync_unlink_as x m : GInv x -> (msync (r_unlink_as x m) <= msync x)%nat.
Proof.
  intros (_ & _ & G3 & _). gbreak x. unfold r_unlink_as. mcbn. destruct linked; mcbn; [|lia]. destruct home; mcbn.
  - destruct (G3 eq_refl) as (_ & _ & ->). rewrite !count_synced_app. cbn. lia.
  - destruct synced; cbn; lia.
Qed.

Lemma msync_ensure x : GInv x -> msync (r_ensure_linked x) = msync x.
Proof. intros H. unfold r_ensure_linked. destruct (r_linked x); [reflexivity|now apply msync_link]. Qed.

Lemma msync_done x : msync (fst (r_done x)) = msync x.
Proof.
  gbreak x. unfold r_done. mcbn. destruct fly as [t|]; [|reflexivity]. cbn [fst]. mcbn.
  destruct sq as [|a rest]; cbn [vpop v_sq v_queued v_cur v_synced fst snd]; mcbn.
  - destruct queued; mcbn.
    + destruct synced, cur as [b|]; mcbn; rewrite !count_synced_app; cbn; lia.
    + rewrite !count_synced_app. cbn. lia.
  - rewrite !count_synced_app. destruct a; cbn; lia.
Qed.

Definition msync_of (r : N) (m : list (N * rst)) : nat := match aget r m with Some x => msync x | None => O end.

Lemma msync_rmap_le f r' m r k : (forall x, In (r', x) m -> (msync (f x) <= msync x + k)%nat) ->
  (msync_of r (rmap f r' m) <= msync_of r m + (if N.eqb r r' then k else 0))%nat.
Proof.
  intros Hf. unfold msync_of. rewrite aget_rmap. destruct (N.eqb r r') eqn:E; [|lia].
  apply N.eqb_eq in E. subst r'. destruct (aget r m) as [x|] eqn:Ex; cbn; [|lia]. apply Hf. now apply aget_In.
Qed.

Lemma msync_rall_le f m r : (forall k x, In (k, x) m -> (msync (f x) <= msync x)%nat) ->
  (msync_of r (rall f m) <= msync_of r m)%nat.
Proof.
  intros Hf. unfold msync_of. rewrite aget_rall. destruct (aget r m) as [x|] eqn:Ex; cbn; [|lia].
  apply (Hf r). now apply aget_In.
Qed.

Definition SInv (r : N) (p : pipe) (n : nat) : Prop := (msync_of r (p_rems p) + cntN r (vl_syncq (p_lane p)) <= n)%nat.

Lemma cntN_app r a b : cntN r (a ++ b) = (cntN r a + cntN r b)%nat.
Proof. unfold cntN. now rewrite filter_app, app_length. Qed.

Lemma sstep_inv r p o n : GPInv p -> SInv r p n ->
  SInv r (fst (fst (pstep p o))) (n + match o with PSync r' => if N.eqb r r' then 1 else 0 | _ => 0 end).
Proof.
  intros HG HS. unfold SInv in *. destruct o as [r'|v|r'| |r'|r'|r'|]; cbn [pstep fst]; cbv iota; rewrite ?Nat.add_0_r.
  - destruct (aget r' (p_rems p)) eqn:E; [cbn [fst]; lia|]. cbn [fst set_rems p_rems p_lane]. unfold msync_of in *. rewrite aget_snoc.
    destruct (aget r (p_rems p)); [lia|]. destruct (N.eqb r r'); cbn; lia.
  - cbn [p_rems p_lane vl_set vl_syncq]. lia.
  - cbn [p_rems p_lane vl_sync vl_syncq]. rewrite cntN_app. unfold cntN at 2. cbn [filter]. destruct (N.eqb r r'); cbn; lia.
  - unfold vl_write. destruct (vl_syncq (p_lane p)) as [|r' rest] eqn:Eq.
    + destruct (vl_dirty (p_lane p)); cbn [fst p_rems p_lane vl_syncq fold_left deliver].
      * assert (H : (msync_of r (rall (fun x => if r_linked x then r_value x (vl_content (p_lane p)) else x) (p_rems p)) <= msync_of r (p_rems p))%nat).
        { apply msync_rall_le. intros k x Hin. destruct (r_linked x); [|lia]. rewrite msync_value; [lia|now apply (HG k x)]. }
        cbn [cntN filter length] in *. lia.
      * rewrite Eq. lia.
    + cbn [fst p_rems p_lane vl_syncq fold_left deliver].
      set (m1 := rmap (fun x => r_value (r_ensure_linked x) (vl_content (p_lane p))) r' (p_rems p)).
      assert (HG1 : forall k y, In (k, y) m1 -> GInv y).
      { apply (deliver_ginv (p_rems p) (LSyncEvent r' (vl_content (p_lane p)))). exact HG. }
      assert (H1 : (msync_of r m1 <= msync_of r (p_rems p) + (if N.eqb r r' then 0 else 0))%nat).
      { apply msync_rmap_le. intros x Hin. rewrite msync_value; [|now apply ginv_ensure, (HG r' x)].
        rewrite msync_ensure; [lia|now apply (HG r' x)]. }
      assert (H2 : (msync_of r (rmap (fun x => r_synced (r_ensure_linked x)) r' m1) <= msync_of r m1 + (if N.eqb r r' then 1 else 0))%nat).
      { apply msync_rmap_le. intros x Hin. pose proof (HG1 r' x Hin) as Hx.
        pose proof (msync_synced (r_ensure_linked x) (proj1 (ginv_ensure x Hx))) as H. rewrite msync_ensure in H by exact Hx. exact H. }
      unfold cntN in HS. cbn [filter] in HS. unfold cntN. destruct (N.eqb r r'); cbn [length] in HS; lia.
  - cbn [set_rems p_rems p_lane].
    assert (H : (msync_of r (rmap r_link r' (p_rems p)) <= msync_of r (p_rems p) + (if N.eqb r r' then 0 else 0))%nat).
    { apply msync_rmap_le. intros x Hin. rewrite msync_link; [lia|now apply (HG r' x)]. }
    destruct (N.eqb r r'); lia.
  - cbn [set_rems p_rems p_lane].
    assert (H : (msync_of r (rmap r_unlink r' (p_rems p)) <= msync_of r (p_rems p) + (if N.eqb r r' then 0 else 0))%nat).
    { apply msync_rmap_le. intros x Hin. pose proof (msync_unlink_as x 0 (HG r' x Hin)). unfold r_unlink. lia. }
    destruct (N.eqb r r'); lia.
  - destruct (aget r' (p_rems p)) as [x0|] eqn:E; [|cbn [fst]; lia].
    destruct (r_done x0) as [x' fr] eqn:Ed. cbn [fst]. replace x' with (fst (r_done x0)) by now rewrite Ed.
    rewrite (rmap_const_aget (fun x => fst (r_done x)) r' _ _ E). cbn [set_rems p_rems p_lane].
    assert (H : (msync_of r (rmap (fun x => fst (r_done x)) r' (p_rems p)) <= msync_of r (p_rems p) + (if N.eqb r r' then 0 else 0))%nat).
    { apply msync_rmap_le. intros x Hin. rewrite msync_done. lia. }
    destruct (N.eqb r r'); lia.
  - cbn [set_rems p_rems p_lane].
    assert (H : (msync_of r (rall (fun x => r_unlink_as x 1) (p_rems p)) <= msync_of r (p_rems p))%nat).
    { apply msync_rall_le. intros k x Hin. apply msync_unlink_as. now apply (HG k x). }
    lia.
Qed.

Lemma asked_cons r o ops : asked r (o :: ops) = ((match o with PSync r' => if N.eqb r r' then 1 else 0 | _ => 0 end) + asked r ops)%nat.
Proof. unfold asked. cbn [filter]. destruct o; try reflexivity. destruct (N.eqb r r0); reflexivity. Qed.

Lemma srun_inv r ops : forall p n, GPInv p -> SInv r p n -> SInv r (pexec p ops) (n + asked r ops).
Proof.
  unfold pexec. induction ops as [|o ops IH]; intros p n HG HS; cbn [fold_left].
  - unfold asked. cbn. now rewrite Nat.add_0_r.
  - rewrite asked_cons, Nat.add_assoc. apply IH; [now apply gpstep_inv|now apply sstep_inv].
Qed.

(* a remote is sent at most as many synced markers as it asked for *)
Theorem synced_only_when_asked init ops r x :
  aget r (p_rems (pexec (pipe0 init) ops)) = Some x -> (count_synced (r_sent x) <= asked r ops)%nat.
Proof.
  intros Hx. pose proof (srun_inv r ops (pipe0 init) O (gpinv0 init)) as H.
  assert (H0 : SInv r (pipe0 init) 0) by (unfold SInv, msync_of; cbn; lia).
  specialize (H H0). unfold SInv, msync_of in H. rewrite Hx in H. unfold msync in H. rewrite count_synced_app in H. lia.
Qed.

Theorem delivered_synced_only_when_asked init ops r :
  Nat.leb (count_synced (frames_for r ops (prun (pipe0 init) ops))) (asked r ops) = true.
Proof.
  apply Nat.leb_le. pose proof (sent_run r ops (pipe0 init)) as Hs. cbn [pipe0 p_rems] in Hs. unfold sent_of in Hs. cbn [aget app] in Hs.
  destruct (aget r (p_rems (pexec (pipe0 init) ops))) as [x|] eqn:E.
  - rewrite <- Hs. now apply (synced_only_when_asked init ops r x).
  - rewrite <- Hs. cbn. lia.
Qed.
