(* Proofs about Model/ValuePipeline.v: what each remote reads from a value lane is an ordered, gap-tolerant view
   of the values the lane held, and once everything has been written it ends with the lane's current value -
   for any number of remotes and every order of sets, sync requests, lane writes, links, unlinks and write
   completions. *)
From SwimV Require Import Model.ValuePipeline.
Open Scope N_scope.

(* ------------------------------------------------------------------------------------------ *)
(* ordered gap-tolerant views *)
Inductive SS : list body -> list body -> Prop :=
| SS_nil h : SS [] h
| SS_skip d y h : SS d h -> SS d (y :: h)
| SS_take x d h : SS d (x :: h) -> SS (x :: d) (x :: h).

Lemma body_eqb_eq a : forall b, body_eqb a b = true <-> a = b.
Proof.
  induction a as [|x a IH]; intros [|y b]; cbn; split; try congruence; try discriminate.
  - intros H. apply andb_true_iff in H as [H1 H2]. apply N.eqb_eq in H1. apply IH in H2. congruence.
  - intros H. injection H as -> ->. rewrite N.eqb_refl. cbn. now apply IH.
Qed.
Lemma body_eqb_refl a : body_eqb a a = true.
Proof. now apply body_eqb_eq. Qed.

Lemma ss_nil_l h : ss [] h = true.
Proof. reflexivity. Qed.
Lemma ss_cons_cons x d y h : ss (x :: d) (y :: h) = if body_eqb x y then ss d (y :: h) else ss (x :: d) h.
Proof. reflexivity. Qed.
Lemma ss_cons_nil x d : ss (x :: d) [] = false.
Proof. reflexivity. Qed.

Lemma ss_sound d : forall h, ss d h = true -> SS d h.
Proof.
  induction d as [|x d IH]; intros h; [constructor|].
  induction h as [|y h IHh]; [rewrite ss_cons_nil; discriminate|].
  rewrite ss_cons_cons. destruct (body_eqb x y) eqn:E.
  - apply body_eqb_eq in E. subst y. intros H. apply SS_take. now apply IH.
  - intros H. apply SS_skip. now apply IHh.
Qed.

Lemma ss_mono d : (forall h y, ss d h = true -> ss d (y :: h) = true) /\ (forall x h, ss (x :: d) h = true -> ss d h = true).
Proof.
  induction d as [|a d [IH1 IH2]].
  - split; intros; reflexivity.
  - assert (H1 : forall h y, ss (a :: d) h = true -> ss (a :: d) (y :: h) = true).
    { intros h y H. rewrite ss_cons_cons. destruct (body_eqb a y); [|exact H].
      apply IH1. now apply (IH2 a). }
    split; [exact H1|].
    intros x h. induction h as [|z h IHh]; [rewrite ss_cons_nil; discriminate|].
    rewrite ss_cons_cons. destruct (body_eqb x z); [auto|].
    intros H. apply H1. now apply IHh.
Qed.

Lemma ss_complete d h : SS d h -> ss d h = true.
Proof.
  induction 1 as [h|d y h _ IH|x d h _ IH].
  - reflexivity.
  - now apply (proj1 (ss_mono d)).
  - rewrite ss_cons_cons, body_eqb_refl. exact IH.
Qed.

Lemma ss_iff d h : ss d h = true <-> SS d h.
Proof. split; [apply ss_sound|apply ss_complete]. Qed.

Lemma SS_nil_r d : SS d [] -> d = [].
Proof. inversion 1; reflexivity. Qed.

Lemma SS_app_r d h t : SS d h -> SS d (h ++ t).
Proof.
  induction 1 as [h|d y h _ IH|x d h _ IH]; cbn [app]; [apply SS_nil|now apply SS_skip|apply SS_take; exact IH].
Qed.

Lemma SS_weaken d h x : SS d h -> SS d (h ++ [x]).
Proof. apply SS_app_r. Qed.

Lemma SS_prefix de h : SS de h -> forall d e, de = d ++ e -> SS d h.
Proof.
  induction 1 as [h|de y h _ IH|x de h _ IH]; intros d e E.
  - destruct d; [constructor|discriminate].
  - apply SS_skip. now apply (IH d e).
  - destruct d as [|x' d]; [constructor|]. cbn in E. injection E as -> E. apply SS_take. now apply (IH d e).
Qed.

Lemma last_opt_snoc {A} (l : list A) x : last_opt (l ++ [x]) = Some x.
Proof. unfold last_opt. now rewrite rev_app_distr. Qed.
Lemma last_opt_nil {A} : @last_opt A [] = None.
Proof. reflexivity. Qed.
Lemma last_opt_cons {A} (y z : A) l : last_opt (y :: z :: l) = last_opt (z :: l).
Proof.
  destruct (@exists_last _ (z :: l)) as (l' & x & E); [discriminate|]. rewrite E.
  change (y :: l' ++ [x]) with ((y :: l') ++ [x]). now rewrite !last_opt_snoc.
Qed.
Lemma last_opt_app_cons {A} (l : list A) x t : last_opt (l ++ x :: t) = last_opt (x :: t).
Proof.
  induction l as [|a l IH]; [reflexivity|]. cbn [app]. destruct l as [|b l]; cbn [app] in *.
  - destruct t; [reflexivity|]. apply last_opt_cons.
  - rewrite last_opt_cons. exact IH.
Qed.

Lemma SS_single_last h b : last_opt h = Some b -> SS [b] h.
Proof.
  induction h as [|y h IH]; [discriminate|]. destruct h as [|z h].
  - cbn. intros [= ->]. apply SS_take. constructor.
  - rewrite last_opt_cons. intros H. apply SS_skip. now apply IH.
Qed.

(* the newest element may be repeated at the end *)
Lemma SS_snoc_last d h : SS d h -> forall b, last_opt h = Some b -> SS (d ++ [b]) h.
Proof.
  induction 1 as [h|d y h Hd IH|x d h _ IH]; intros b Hb; cbn [app].
  - now apply SS_single_last.
  - destruct h as [|z h].
    + apply SS_nil_r in Hd. subst d. cbn in Hb. injection Hb as ->. cbn. apply SS_take. constructor.
    + rewrite last_opt_cons in Hb. apply SS_skip. now apply IH.
  - apply SS_take. now apply IH.
Qed.

Lemma SS_snoc_both d h b : SS d h -> SS (d ++ [b]) (h ++ [b]).
Proof. intros H. apply SS_snoc_last; [now apply SS_weaken|apply last_opt_snoc]. Qed.

Lemma SS_trans c b : SS b c -> forall a, SS a b -> SS a c.
Proof.
  induction 1 as [c|b y c _ IH|x b c Hb IH]; intros a Ha.
  - apply SS_nil_r in Ha. subst. constructor.
  - apply SS_skip. now apply IH.
  - remember (x :: b) as xb eqn:E. induction Ha as [h|a y h Ha IHa|z a h Ha IHa].
    + constructor.
    + injection E as -> ->. now apply IH.
    + injection E as -> ->. apply SS_take. now apply IHa.
Qed.

Lemma SS_refl h : SS h h.
Proof. induction h as [|x h IH]; [constructor|]. apply SS_take. now apply SS_skip. Qed.

(* ------------------------------------------------------------------------------------------ *)
(* one remote *)
Definition evs (x : rst) : list body := events_of (r_sent x) ++ events_of (fly_frames x).

Definition RInv (H : list body) (x : rst) : Prop :=
  SS (r_pushed x) H
  /\ SS (evs x) (r_pushed x)
  /\ (forall b, r_owed x = Some b -> last_opt (r_pushed x) = Some b)
  /\ (forall b, r_owed x = Some b ->
        v_cur (r_up x) = Some b \/ (v_cur (r_up x) = None /\ last_opt (evs x) = Some b))
  /\ (forall c, v_cur (r_up x) = Some c -> r_owed x = Some c)
  /\ (v_home (r_up x) = true <-> r_fly x = None)
  /\ (v_home (r_up x) = true -> v_queued (r_up x) = false /\ v_sq (r_up x) = [])
  /\ (v_queued (r_up x) = false -> v_cur (r_up x) = None /\ v_synced (r_up x) = false)
  /\ (r_linked x = false -> r_owed x = None).

Lemma events_of_app a b : events_of (a ++ b) = events_of a ++ events_of b.
Proof. unfold events_of. apply flat_map_app. Qed.

Lemma rinv0 H : RInv H rst0.
Proof.
  unfold RInv, evs, fly_frames; cbn. repeat split; try constructor; try discriminate; auto.
Qed.

Lemma rinv_hist H x v : RInv H x -> RInv (H ++ [v]) x.
Proof. intros (H1 & Hrest). split; [now apply SS_weaken|exact Hrest]. Qed.

Ltac break_rst x :=
  let linked := fresh "linked" in let home := fresh "home" in let cur := fresh "cur" in
  let synced := fresh "synced" in let queued := fresh "queued" in let sq := fresh "sq" in
  let fly := fresh "fly" in let sent := fresh "sent" in let pushed := fresh "pushed" in let owed := fresh "owed" in
  destruct x as [linked [home cur synced queued sq] fly sent pushed owed].

Ltac rcbn := cbn [r_linked r_up r_fly r_sent r_pushed r_owed v_home v_cur v_synced v_queued v_sq fst snd
                  r_apply r_value r_synced r_link r_unlink r_unlink_as r_ensure_linked vpush_value vpush_synced vpush_special
                  vpop evs fly_frames frames_of vtask wt_lane wt_action events_of flat_map app] in *.

Lemma idle_clear H x : RInv H x -> v_home (r_up x) = true ->
  v_cur (r_up x) = None /\ v_synced (r_up x) = false /\ v_queued (r_up x) = false /\ v_sq (r_up x) = [] /\ r_fly x = None.
Proof.
  intros (_ & _ & _ & _ & _ & Hh & Hi & Hs & _) Hhome. destruct (Hi Hhome) as [Hq Hsq].
  destruct (Hs Hq) as [Hc Hsy]. repeat split; auto. now apply Hh.
Qed.

(* a value is handed to the uplink *)
Lemma rinv_value H x b : RInv H x -> r_linked x = true -> last_opt H = Some b -> RInv H (r_value x b).
Proof.
  intros HI Hl Hb. pose proof (idle_clear H x HI) as Hidle.
  destruct HI as (H1 & H2 & H3 & H4 & H5 & H6 & H7 & H8 & H9).
  break_rst x. rcbn. destruct home; rcbn.
  - (* the writer is home: the value leaves at once *)
    destruct (Hidle eq_refl) as (-> & -> & -> & -> & ->). rcbn.
    unfold RInv; rcbn. rewrite !app_nil_r in *.
    split; [now apply SS_snoc_last|]. split; [now apply SS_snoc_both|].
    split; [intros b' [= <-]; apply last_opt_snoc|].
    split; [intros b' [= <-]; right; split; [reflexivity|apply last_opt_snoc]|].
    split; [discriminate|]. split; [split; discriminate|]. split; [discriminate|].
    split; [auto|]. rcbn. congruence.
  - (* the writer is out: the value waits, replacing an older one *)
    unfold RInv; rcbn.
    split; [now apply SS_snoc_last|]. split; [now apply SS_weaken|].
    split; [intros b' [= <-]; apply last_opt_snoc|].
    split; [intros b' [= <-]; now left|].
    split; [intros c [= <-]; reflexivity|]. split; [exact H6|]. split; [discriminate|].
    split; [discriminate|]. rcbn. congruence.
Qed.

Lemma rinv_synced H x : RInv H x -> RInv H (r_synced x).
Proof.
  intros HI. pose proof (idle_clear H x HI) as Hidle.
  destruct HI as (H1 & H2 & H3 & H4 & H5 & H6 & H7 & H8 & H9).
  break_rst x. unfold r_synced. rcbn. destruct home; rcbn.
  - destruct (Hidle eq_refl) as (-> & -> & -> & -> & ->). rcbn.
    unfold RInv; rcbn. rewrite !app_nil_r in *.
    split; [exact H1|]. split; [exact H2|]. split; [exact H3|]. split; [exact H4|]. split; [exact H5|].
    split; [split; discriminate|]. split; [discriminate|]. split; [auto|]. exact H9.
  - unfold RInv; rcbn.
    split; [exact H1|]. split; [exact H2|]. split; [exact H3|]. split; [exact H4|]. split; [exact H5|].
    split; [exact H6|]. split; [discriminate|]. split; [discriminate|]. exact H9.
Qed.

Lemma rinv_link H x : RInv H x -> RInv H (r_link x).
Proof.
  intros HI. pose proof (idle_clear H x HI) as Hidle.
  destruct HI as (H1 & H2 & H3 & H4 & H5 & H6 & H7 & H8 & H9).
  break_rst x. unfold r_link. rcbn. destruct home; rcbn.
  - destruct (Hidle eq_refl) as (-> & -> & -> & -> & ->). rcbn.
    unfold RInv; rcbn. rewrite !app_nil_r in *.
    split; [exact H1|]. split; [exact H2|]. split; [exact H3|]. split; [exact H4|]. split; [exact H5|].
    split; [split; discriminate|]. split; [discriminate|]. split; [auto|]. discriminate.
  - unfold RInv; rcbn.
    split; [exact H1|]. split; [exact H2|]. split; [exact H3|]. split; [exact H4|]. split; [exact H5|].
    split; [exact H6|]. split; [discriminate|]. split; [exact H8|]. discriminate.
Qed.

Lemma r_link_linked x : r_linked (r_link x) = true.
Proof. reflexivity. Qed.

Lemma rinv_unlink_as H x m : RInv H x -> RInv H (r_unlink_as x m).
Proof.
  intros HI. pose proof (idle_clear H x HI) as Hidle.
  destruct HI as (H1 & H2 & H3 & H4 & H5 & H6 & H7 & H8 & H9).
  break_rst x. unfold r_unlink_as. rcbn. destruct linked; [|unfold RInv; rcbn; tauto]. rcbn. destruct home; rcbn.
  - destruct (Hidle eq_refl) as (-> & -> & -> & -> & ->). rcbn.
    unfold RInv; rcbn. rewrite !app_nil_r in *.
    split; [exact H1|]. split; [exact H2|]. split; [discriminate|]. split; [discriminate|]. split; [discriminate|].
    split; [split; discriminate|]. split; [discriminate|]. split; [auto|]. reflexivity.
  - unfold RInv; rcbn.
    split; [exact H1|]. split; [exact H2|]. split; [discriminate|]. split; [discriminate|]. split; [discriminate|].
    split; [exact H6|]. split; [discriminate|]. split; [auto|]. reflexivity.
Qed.

Lemma rinv_unlink H x : RInv H x -> RInv H (r_unlink x).
Proof. apply rinv_unlink_as. Qed.

Lemma rinv_ensure H x : RInv H x -> RInv H (r_ensure_linked x) /\ r_linked (r_ensure_linked x) = true.
Proof.
  intros HI. unfold r_ensure_linked. destruct (r_linked x) eqn:E; [now split|]. split; [now apply rinv_link|reflexivity].
Qed.

Lemma events_special a : events_of (frames_of (vtask (WSpecial a))) = [].
Proof. destruct a; reflexivity. Qed.

(* the write in progress completes *)
Lemma rinv_done H x : RInv H x -> RInv H (fst (r_done x)).
Proof.
  intros HI. destruct HI as (H1 & H2 & H3 & H4 & H5 & H6 & H7 & H8 & H9).
  break_rst x. unfold r_done. rcbn. destruct fly as [t|]; [|unfold RInv; rcbn; tauto].
  assert (Hhome : home = false).
  { destruct home; [|reflexivity]. destruct H6 as [H6 _]. now specialize (H6 eq_refl). }
  subst home. cbn [fst]. unfold evs in *. cbn [r_sent r_fly fly_frames] in *.
  destruct sq as [|a rest]; cbn [vpop v_sq v_queued v_cur v_synced fst snd].
  - destruct queued.
    + (* the slot is consumed *)
      destruct synced, cur as [b|]; unfold RInv, evs, fly_frames; rcbn; rewrite events_of_app; rcbn; rewrite ?app_nil_r.
      * specialize (H5 b eq_refl). pose proof (H3 b H5) as HL.
        split; [exact H1|]. split; [apply SS_snoc_last; [exact H2|exact HL]|].
        split; [exact H3|].
        split; [intros b' Hb'; right; split; [reflexivity|]; rewrite H5 in Hb'; injection Hb' as <-;
                apply last_opt_snoc|].
        split; [discriminate|]. split; [split; discriminate|]. split; [discriminate|]. split; [auto|]. exact H9.
      * split; [exact H1|]. split; [exact H2|]. split; [exact H3|].
        split; [intros b' Hb'; destruct (H4 b' Hb') as [Hc|[_ Hc]]; [discriminate|]; right; split; [reflexivity|exact Hc]|].
        split; [discriminate|]. split; [split; discriminate|]. split; [discriminate|]. split; [auto|]. exact H9.
      * specialize (H5 b eq_refl). pose proof (H3 b H5) as HL.
        split; [exact H1|]. split; [apply SS_snoc_last; [exact H2|exact HL]|].
        split; [exact H3|].
        split; [intros b' Hb'; right; split; [reflexivity|]; rewrite H5 in Hb'; injection Hb' as <-;
                apply last_opt_snoc|].
        split; [discriminate|]. split; [split; discriminate|]. split; [discriminate|]. split; [auto|]. exact H9.
      * split; [exact H1|]. split; [exact H2|]. split; [exact H3|].
        split; [intros b' Hb'; destruct (H4 b' Hb') as [Hc|[_ Hc]]; [discriminate|]; right; split; [reflexivity|exact Hc]|].
        split; [discriminate|]. split; [split; reflexivity|]. split; [auto|]. split; [auto|]. exact H9.
    + (* nothing is queued: the writer stays home *)
      destruct (H8 eq_refl) as [-> ->]. unfold RInv, evs, fly_frames; rcbn; rewrite events_of_app; rcbn; rewrite ?app_nil_r.
      split; [exact H1|]. split; [exact H2|]. split; [exact H3|].
      split; [intros b' Hb'; destruct (H4 b' Hb') as [Hc|[_ Hc]]; [discriminate|]; right; split; [reflexivity|exact Hc]|].
      split; [discriminate|]. split; [split; reflexivity|]. split; [auto|]. split; [auto|]. exact H9.
  - (* a special action goes first *)
    unfold RInv, evs, fly_frames; cbn [r_linked r_up r_fly r_sent r_pushed r_owed v_home v_cur v_synced v_queued v_sq].
    rewrite events_of_app, events_special, app_nil_r.
    split; [exact H1|]. split; [exact H2|]. split; [exact H3|]. split; [exact H4|]. split; [exact H5|].
    split; [split; discriminate|]. split; [discriminate|]. split; [exact H8|]. exact H9.
Qed.

(* ------------------------------------------------------------------------------------------ *)
(* the table of remotes *)
Lemma aget_In {A} r (m : list (N * A)) x : aget r m = Some x -> In (r, x) m.
Proof.
  induction m as [|[k v] m IH]; cbn; [discriminate|]. destruct (r =? k) eqn:E.
  - apply N.eqb_eq in E. subst. intros [= ->]. now left.
  - intros H. right. now apply IH.
Qed.

Lemma In_rmap f r m k y : In (k, y) (rmap f r m) -> exists x, In (k, x) m /\ (y = x \/ (k = r /\ y = f x)).
Proof.
  induction m as [|[k' x'] m IH]; cbn; [tauto|]. destruct (k' =? r) eqn:E.
  - apply N.eqb_eq in E. subst. intros [H|H].
    + injection H as <- <-. exists x'. split; [now left|]. right. now split.
    + exists y. split; [now right|now left].
  - intros [H|H].
    + injection H as <- <-. exists x'. split; [now left|now left].
    + destruct (IH H) as (x & Hx & Hy). exists x. split; [now right|exact Hy].
Qed.

Lemma In_rall f m k y : In (k, y) (rall f m) -> exists x, In (k, x) m /\ y = f x.
Proof.
  unfold rall. intros H. apply in_map_iff in H as ([k' x] & E & Hin). cbn in E. injection E as <- <-. now exists x.
Qed.

Lemma aget_rmap f r m k : aget k (rmap f r m) = if k =? r then option_map f (aget k m) else aget k m.
Proof.
  induction m as [|[k' x] m IH]; cbn; [now destruct (k =? r)|]. destruct (k' =? r) eqn:E.
  - apply N.eqb_eq in E. subst k'. cbn. destruct (k =? r) eqn:E2; reflexivity.
  - cbn. destruct (k =? k') eqn:E2.
    + apply N.eqb_eq in E2. subst k'. now rewrite E.
    + exact IH.
Qed.

Lemma aget_rall f m k : aget k (rall f m) = option_map f (aget k m).
Proof. induction m as [|[k' x] m IH]; cbn; [reflexivity|]. destruct (k =? k'); [reflexivity|exact IH]. Qed.

Lemma aget_snoc {A} k (m : list (N * A)) r x : aget k (m ++ [(r, x)]) = match aget k m with Some y => Some y | None => if k =? r then Some x else None end.
Proof. induction m as [|[k' y] m IH]; cbn; [reflexivity|]. destruct (k =? k'); [reflexivity|exact IH]. Qed.

Lemma rmap_const_aget f r m x : aget r m = Some x -> rmap (fun _ => f x) r m = rmap f r m.
Proof.
  induction m as [|[k y] m IH]; cbn; [reflexivity|]. rewrite (N.eqb_sym r k). destruct (k =? r) eqn:E.
  - intros [= ->]. reflexivity.
  - intros H. now rewrite IH.
Qed.

(* ------------------------------------------------------------------------------------------ *)
(* the pipeline *)
Definition PInv (p : pipe) : Prop :=
  last_opt (p_hist p) = Some (vl_content (p_lane p))
  /\ (vl_dirty (p_lane p) = false ->
      forall r x b, In (r, x) (p_rems p) -> r_owed x = Some b -> b = vl_content (p_lane p))
  /\ (forall r x, In (r, x) (p_rems p) -> RInv (p_hist p) x).

Lemma pinv0 init : PInv (pipe0 init).
Proof. unfold PInv, pipe0; cbn. split; [reflexivity|]. split; intros; contradiction. Qed.

Lemma owed_done x : r_owed (fst (r_done x)) = r_owed x.
Proof. unfold r_done. destruct (r_fly x); reflexivity. Qed.
Lemma owed_link x : r_owed (r_link x) = r_owed x.
Proof. reflexivity. Qed.
Lemma owed_synced x : r_owed (r_synced x) = r_owed x.
Proof. reflexivity. Qed.
Lemma owed_ensure x : r_owed (r_ensure_linked x) = r_owed x.
Proof. unfold r_ensure_linked. destruct (r_linked x); reflexivity. Qed.
Lemma owed_value x b : r_owed (r_value x b) = Some b.
Proof. reflexivity. Qed.
Lemma owed_unlink_as x m : r_owed (r_unlink_as x m) = None \/ r_owed (r_unlink_as x m) = r_owed x.
Proof. unfold r_unlink_as. destruct (r_linked x); [now left|now right]. Qed.
Lemma owed_unlink x : r_owed (r_unlink x) = None \/ r_owed (r_unlink x) = r_owed x.
Proof. apply owed_unlink_as. Qed.
Lemma linked_value x b : r_linked (r_value x b) = r_linked x.
Proof. reflexivity. Qed.
Lemma linked_synced x : r_linked (r_synced x) = r_linked x.
Proof. reflexivity. Qed.
Lemma linked_done x : r_linked (fst (r_done x)) = r_linked x.
Proof. unfold r_done. destruct (r_fly x); reflexivity. Qed.
Lemma linked_ensure x : r_linked (r_ensure_linked x) = true.
Proof. unfold r_ensure_linked. destruct (r_linked x) eqn:E; [exact E|reflexivity]. Qed.

Lemma pstep_inv p o : PInv p -> PInv (fst (fst (pstep p o))).
Proof.
  intros (G1 & G2 & G3). destruct o as [r|v|r| |r|r|r|]; cbn [pstep fst].
  - (* a remote attaches *)
    destruct (aget r (p_rems p)) eqn:E; [exact (conj G1 (conj G2 G3))|]. unfold PInv, set_rems; cbn [p_lane p_hist p_rems].
    split; [exact G1|]. split.
    + intros Hd k x b Hin. apply in_app_or in Hin as [Hin|[Hin|[]]]; [now apply (G2 Hd k x b)|].
      injection Hin as <- <-. discriminate.
    + intros k x Hin. apply in_app_or in Hin as [Hin|[Hin|[]]]; [now apply (G3 k x)|].
      injection Hin as <- <-. apply rinv0.
  - (* the lane is set *)
    unfold PInv; cbn [p_lane p_hist p_rems vl_set vl_content vl_dirty].
    split; [apply last_opt_snoc|]. split; [discriminate|]. intros k x Hin. apply rinv_hist. now apply (G3 k x).
  - (* a sync request reaches the lane *)
    unfold PInv; cbn [p_lane p_hist p_rems vl_sync vl_content vl_dirty]. exact (conj G1 (conj G2 G3)).
  - (* the lane writes *)
    unfold vl_write. destruct (vl_syncq (p_lane p)) as [|r rest] eqn:Eq.
    + destruct (vl_dirty (p_lane p)) eqn:Ed.
      * (* an event for every linked remote *)
        cbn [fst]. unfold PInv; cbn [p_lane p_hist p_rems vl_content vl_dirty fold_left deliver].
        split; [exact G1|]. split.
        -- intros _ k y b Hin Hy. apply In_rall in Hin as (x & Hin & ->).
           destruct (r_linked x) eqn:El; [rewrite owed_value in Hy; congruence|].
           destruct (G3 k x Hin) as (_ & _ & _ & _ & _ & _ & _ & _ & H9). rewrite (H9 El) in Hy. discriminate.
        -- intros k y Hin. apply In_rall in Hin as (x & Hin & ->).
           destruct (r_linked x) eqn:El; [|now apply (G3 k x)]. apply rinv_value; auto. now apply (G3 k x).
      * cbn [fst]. unfold PInv. cbn [p_lane p_hist p_rems fold_left]. split; [exact G1|]. split; [intros _; now apply G2|exact G3].
    + (* a sync request is answered: the current value and synced, to that remote *)
      cbn [fst]. unfold PInv; cbn [p_lane p_hist p_rems vl_content vl_dirty fold_left deliver].
      split; [exact G1|]. split.
      * intros Hd k z b Hin Hz. apply In_rmap in Hin as (y & Hin & [->|[-> ->]]).
        -- apply In_rmap in Hin as (x & Hin & [->|[-> ->]]); [now apply (G2 Hd k x b)|].
           rewrite owed_value in Hz. congruence.
        -- rewrite owed_synced, owed_ensure in Hz.
           apply In_rmap in Hin as (x & Hin & [->|[_ ->]]); [now apply (G2 Hd r x b)|].
           rewrite owed_value in Hz. congruence.
      * assert (Hv : forall k y, In (k, y) (rmap (fun x => r_value (r_ensure_linked x) (vl_content (p_lane p))) r (p_rems p)) ->
                                RInv (p_hist p) y).
        { intros k y Hin. apply In_rmap in Hin as (x & Hin & [->|[-> ->]]); [now apply (G3 k x)|].
          destruct (rinv_ensure _ _ (G3 _ _ Hin)) as [Hi Hl]. now apply rinv_value. }
        intros k z Hin. apply In_rmap in Hin as (y & Hin & [->|[-> ->]]); [now apply (Hv k y)|].
        apply rinv_synced. apply rinv_ensure. now apply (Hv r y).
  - (* link *)
    unfold PInv, set_rems; cbn [p_lane p_hist p_rems]. split; [exact G1|]. split.
    + intros Hd k y b Hin Hy. apply In_rmap in Hin as (x & Hin & [->|[-> ->]]); (eapply (G2 Hd); eauto).
    + intros k y Hin. apply In_rmap in Hin as (x & Hin & [->|[-> ->]]); [now apply (G3 k x)|]. apply rinv_link. now apply (G3 r x).
  - (* unlink *)
    unfold PInv, set_rems; cbn [p_lane p_hist p_rems]. split; [exact G1|]. split.
    + intros Hd k y b Hin Hy. apply In_rmap in Hin as (x & Hin & [->|[-> ->]]); [(eapply (G2 Hd); eauto)|].
      destruct (owed_unlink x) as [E|E]; rewrite E in Hy; [discriminate|]. (eapply (G2 Hd); eauto).
    + intros k y Hin. apply In_rmap in Hin as (x & Hin & [->|[-> ->]]); [now apply (G3 k x)|]. apply rinv_unlink. now apply (G3 r x).
  - (* a write completes *)
    destruct (aget r (p_rems p)) as [x0|] eqn:E; [|exact (conj G1 (conj G2 G3))].
    destruct (r_done x0) as [x' fr] eqn:Ed. cbn [fst].
    replace x' with (fst (r_done x0)) by now rewrite Ed.
    rewrite (rmap_const_aget (fun x => fst (r_done x)) r _ _ E).
    unfold PInv, set_rems; cbn [p_lane p_hist p_rems]. split; [exact G1|]. split.
    + intros Hd k y b Hin Hy. apply In_rmap in Hin as (x & Hin & [->|[-> ->]]); [(eapply (G2 Hd); eauto)|].
      rewrite owed_done in Hy. (eapply (G2 Hd); eauto).
    + intros k y Hin. apply In_rmap in Hin as (x & Hin & [->|[-> ->]]); [now apply (G3 k x)|]. apply rinv_done. now apply (G3 r x).
  - (* the agent stops: every link is closed *)
    unfold PInv, set_rems; cbn [p_lane p_hist p_rems]. split; [exact G1|]. split.
    + intros Hd k y b Hin Hy. apply In_rall in Hin as (x & Hin & ->).
      destruct (owed_unlink_as x 1) as [E|E]; rewrite E in Hy; [discriminate|]. (eapply (G2 Hd); eauto).
    + intros k y Hin. apply In_rall in Hin as (x & Hin & ->). apply rinv_unlink_as. now apply (G3 k x).
Qed.

Lemma pexec_inv ops : forall p, PInv p -> PInv (pexec p ops).
Proof. unfold pexec. induction ops as [|o ops IH]; cbn; intros p H; [exact H|]. apply IH. now apply pstep_inv. Qed.

(* ------------------------------------------------------------------------------------------ *)
(* the ghost fields are what they are said to be: the frames a remote was sent are the frames delivered at
   its write completions, and the history is the initial value followed by the values set *)
Definition sent_of (r : N) (m : list (N * rst)) : list frame := match aget r m with Some x => r_sent x | None => [] end.

Lemma sent_rmap f r' m r : (forall x, r_sent (f x) = r_sent x) -> sent_of r (rmap f r' m) = sent_of r m.
Proof. intros Hf. unfold sent_of. rewrite aget_rmap. destruct (r =? r'); [|reflexivity]. destruct (aget r m); cbn; auto. Qed.
Lemma sent_rall f m r : (forall x, r_sent (f x) = r_sent x) -> sent_of r (rall f m) = sent_of r m.
Proof. intros Hf. unfold sent_of. rewrite aget_rall. destruct (aget r m); cbn; auto. Qed.

Lemma sent_value x b : r_sent (r_value x b) = r_sent x.  Proof. reflexivity. Qed.
Lemma sent_synced x : r_sent (r_synced x) = r_sent x.  Proof. reflexivity. Qed.
Lemma sent_link x : r_sent (r_link x) = r_sent x.  Proof. reflexivity. Qed.
Lemma sent_unlink_as x m : r_sent (r_unlink_as x m) = r_sent x.  Proof. unfold r_unlink_as. destruct (r_linked x); reflexivity. Qed.
Lemma sent_unlink x : r_sent (r_unlink x) = r_sent x.  Proof. apply sent_unlink_as. Qed.
Lemma sent_ensure x : r_sent (r_ensure_linked x) = r_sent x.  Proof. unfold r_ensure_linked. destruct (r_linked x); reflexivity. Qed.
Lemma sent_done x : r_sent (fst (r_done x)) = r_sent x ++ snd (r_done x).
Proof. unfold r_done. destruct (r_fly x); cbn; [reflexivity|now rewrite app_nil_r]. Qed.

Lemma sent_deliver m a r : sent_of r (deliver m a) = sent_of r m.
Proof.
  destruct a as [b|r' b|r']; cbn [deliver].
  - apply sent_rall. intros x. destruct (r_linked x); reflexivity.
  - apply sent_rmap. intros x. now rewrite sent_value, sent_ensure.
  - apply sent_rmap. intros x. now rewrite sent_synced, sent_ensure.
Qed.

Lemma sent_step p o r :
  sent_of r (p_rems (fst (fst (pstep p o)))) =
  sent_of r (p_rems p) ++ (match o with PDone r' => if r =? r' then snd (fst (pstep p o)) else [] | _ => [] end).
Proof.
  destruct o as [r'|v|r'| |r'|r'|r'|]; cbn [pstep fst snd]; rewrite ?app_nil_r; try reflexivity.
  - destruct (aget r' (p_rems p)) eqn:E; [reflexivity|]. cbn [set_rems p_rems]. unfold sent_of. rewrite aget_snoc.
    destruct (aget r (p_rems p)); [reflexivity|]. destruct (r =? r'); reflexivity.
  - destruct (vl_write (p_lane p)) as [[l' rs] res]. cbn [fst p_rems].
    generalize (p_rems p). induction rs as [|a rs IH]; intros m; cbn [fold_left]; [reflexivity|].
    rewrite (IH (deliver m a)). apply sent_deliver.
  - cbn [set_rems p_rems]. apply sent_rmap. intros x; apply sent_link.
  - cbn [set_rems p_rems]. apply sent_rmap. intros x; apply sent_unlink.
  - destruct (aget r' (p_rems p)) as [x0|] eqn:E.
    + destruct (r_done x0) as [x' fr] eqn:Ed. cbn [fst snd set_rems p_rems]. unfold sent_of. rewrite aget_rmap.
      destruct (r =? r') eqn:Er.
      * apply N.eqb_eq in Er. subst r'. rewrite E. cbn. pose proof (sent_done x0) as H. rewrite Ed in H. exact H.
      * now rewrite app_nil_r.
    + cbn [fst snd]. destruct (r =? r'); now rewrite app_nil_r.
  - cbn [set_rems p_rems]. apply sent_rall. intros x; apply sent_unlink_as.
Qed.

Lemma sent_run r ops : forall p,
  sent_of r (p_rems (pexec p ops)) = sent_of r (p_rems p) ++ frames_for r ops (prun p ops).
Proof.
  unfold pexec. induction ops as [|o ops IH]; intros p; cbn [fold_left prun frames_for]; [now rewrite app_nil_r|].
  destruct (pstep p o) as [[p' fr] res] eqn:E. cbn [fst]. rewrite IH.
  pose proof (sent_step p o r) as H. rewrite E in H. cbn [fst snd] in H. rewrite H, <- app_assoc. f_equal.
  destruct o; cbn [frames_for]; try reflexivity.
Qed.

Lemma hist_run ops : forall p, p_hist (pexec p ops) = p_hist p ++ flat_map (fun o => match o with PSet v => [v] | _ => [] end) ops.
Proof.
  unfold pexec. induction ops as [|o ops IH]; intros p; cbn [fold_left flat_map]; [now rewrite app_nil_r|].
  rewrite IH. destruct o as [r|v|r| |r|r|r|]; cbn [pstep fst p_hist]; rewrite ?app_nil_l; try reflexivity.
  - destruct (aget r (p_rems p)); reflexivity.
  - now rewrite <- app_assoc.
  - destruct (vl_write (p_lane p)) as [[l' rs] res]. reflexivity.
  - destruct (aget r (p_rems p)) as [x0|]; [destruct (r_done x0)|]; reflexivity.
Qed.

(* ------------------------------------------------------------------------------------------ *)
(* the theorems *)

(* what a remote has been sent, at any point, is an ordered gap-tolerant view of the values the lane held *)
Theorem remote_view_of_history init ops r x :
  aget r (p_rems (pexec (pipe0 init) ops)) = Some x ->
  SS (events_of (r_sent x)) (p_hist (pexec (pipe0 init) ops)).
Proof.
  intros Hx. destruct (pexec_inv ops _ (pinv0 init)) as (_ & _ & G3).
  destruct (G3 r x (aget_In _ _ _ Hx)) as (H1 & H2 & _).
  apply SS_trans with (b := r_pushed x); [exact H1|]. unfold evs in H2. now apply (SS_prefix _ _ H2 _ (events_of (fly_frames x))).
Qed.

(* the same in terms of what can be observed: the frames delivered at the remote's write completions against the
   initial value followed by the values set - this is the predicate the oracle evaluates on the implementation *)
Theorem delivered_frames_are_a_view init ops r :
  ss (events_of (frames_for r ops (prun (pipe0 init) ops))) (hist_of init ops) = true.
Proof.
  apply ss_complete. pose proof (sent_run r ops (pipe0 init)) as Hs. cbn [pipe0 p_rems] in Hs. unfold sent_of at 2 in Hs. cbn in Hs.
  unfold hist_of. pose proof (hist_run ops (pipe0 init)) as Hh. cbn [pipe0 p_hist app] in Hh.
  unfold sent_of in Hs. destruct (aget r (p_rems (pexec (pipe0 init) ops))) as [x|] eqn:E.
  - rewrite <- Hs, <- Hh. now apply (remote_view_of_history init ops r x).
  - rewrite <- Hs. constructor.
Qed.

(* once everything has been written (the lane has nothing to report, the remote's writer is home), a remote that
   is owed anything has the lane's current value as the last event it was sent *)
Theorem quiescent_remote_is_current init ops r x b :
  let p := pexec (pipe0 init) ops in
  aget r (p_rems p) = Some x -> vl_dirty (p_lane p) = false -> v_home (r_up x) = true -> r_owed x = Some b ->
  last_opt (events_of (r_sent x)) = Some (vl_content (p_lane p)).
Proof.
  intros p Hx Hd Hh Ho. destruct (pexec_inv ops _ (pinv0 init)) as (_ & G2 & G3). fold p in G2, G3.
  pose proof (aget_In _ _ _ Hx) as Hin. pose proof (G2 Hd r x b Hin Ho) as Hb. subst b.
  pose proof (G3 r x Hin) as HI. destruct (idle_clear _ _ HI Hh) as (Hc & _ & _ & _ & Hf).
  destruct HI as (_ & _ & _ & H4 & _). destruct (H4 _ Ho) as [Hc'|[_ Hl]]; [congruence|].
  unfold evs, fly_frames in Hl. rewrite Hf in Hl. cbn in Hl. now rewrite app_nil_r in Hl.
Qed.

(* and a remote that is linked while a change of the lane is still to be reported is owed that change: as long as
   it is not unlinked it stays owed, so at the next quiescent point it has the current value *)
Definition Owes (r : N) (p : pipe) : Prop :=
  exists x, aget r (p_rems p) = Some x /\ r_linked x = true /\ (vl_dirty (p_lane p) = true \/ r_owed x <> None).

Lemma owes_step p o r : Owes r p -> o <> PUnlink r -> o <> PStopAll -> Owes r (fst (fst (pstep p o))).
Proof.
  intros (x & Hx & Hl & Hd) Ho Hs. unfold Owes. destruct o as [r'|v|r'| |r'|r'|r'|]; cbn [pstep fst].
  - destruct (aget r' (p_rems p)) eqn:E; [now exists x|]. exists x. cbn [set_rems p_rems p_lane]. rewrite aget_snoc, Hx. auto.
  - exists x. cbn [p_rems p_lane vl_set vl_dirty]. auto.
  - exists x. cbn [p_rems p_lane vl_sync vl_dirty]. auto.
  - unfold vl_write. destruct (vl_syncq (p_lane p)) as [|r' rest] eqn:Eq.
    + destruct (vl_dirty (p_lane p)) eqn:Ed.
      * cbn [fst p_rems p_lane fold_left deliver]. rewrite aget_rall, Hx. cbn [option_map]. rewrite Hl.
        exists (r_value x (vl_content (p_lane p))). split; [reflexivity|]. split; [exact Hl|]. right. discriminate.
      * cbn [fst p_rems p_lane fold_left]. exists x. rewrite Ed. auto.
    + cbn [fst p_rems p_lane fold_left deliver vl_dirty]. rewrite !aget_rmap, Hx. destruct (r =? r') eqn:Er.
      * cbn [option_map]. eexists. split; [reflexivity|]. split.
        -- rewrite linked_synced. apply linked_ensure.
        -- right. rewrite owed_synced, owed_ensure, owed_value. discriminate.
      * exists x. auto.
  - cbn [set_rems p_rems p_lane]. rewrite aget_rmap, Hx. destruct (r =? r').
    + cbn [option_map]. exists (r_link x). split; [reflexivity|]. split; [reflexivity|]. now rewrite owed_link.
    + exists x. auto.
  - cbn [set_rems p_rems p_lane]. rewrite aget_rmap, Hx. destruct (r =? r') eqn:Er.
    + apply N.eqb_eq in Er. subst r'. congruence.
    + exists x. auto.
  - destruct (aget r' (p_rems p)) as [x0|] eqn:E; [|now exists x].
    destruct (r_done x0) as [x' fr] eqn:Ed. cbn [fst set_rems p_rems p_lane]. rewrite aget_rmap, Hx. destruct (r =? r') eqn:Er.
    + apply N.eqb_eq in Er. subst r'. rewrite Hx in E. injection E as <-. cbn [option_map].
      exists x'. split; [reflexivity|]. replace x' with (fst (r_done x)) by now rewrite Ed.
      rewrite linked_done, owed_done. auto.
    + exists x. auto.
  - congruence.
Qed.

Lemma owes_run r ops : forall p, Owes r p -> Forall (fun o => o <> PUnlink r /\ o <> PStopAll) ops -> Owes r (pexec p ops).
Proof.
  unfold pexec. induction ops as [|o ops IH]; intros p H HF; cbn [fold_left]; [exact H|].
  inversion HF as [|? ? [Ho Hs] HF']; subst. apply IH; [now apply owes_step|exact HF'].
Qed.

Theorem linked_remote_converges init ops1 ops2 r :
  let p1 := pexec (pipe0 init) ops1 in
  let p2 := pexec (pipe0 init) (ops1 ++ ops2) in
  Owes r p1 -> Forall (fun o => o <> PUnlink r /\ o <> PStopAll) ops2 ->
  vl_dirty (p_lane p2) = false ->
  forall x, aget r (p_rems p2) = Some x -> v_home (r_up x) = true ->
  last_opt (events_of (r_sent x)) = Some (vl_content (p_lane p2)).
Proof.
  intros p1 p2 Ho HF Hd x Hx Hh.
  assert (E : p2 = pexec p1 ops2) by (unfold p2, p1, pexec; now rewrite fold_left_app).
  pose proof (owes_run r ops2 p1 Ho HF) as (y & Hy & _ & Hor). rewrite <- E in Hy, Hor. rewrite Hx in Hy. injection Hy as <-.
  destruct Hor as [Hor|Hor]; [congruence|]. destruct (r_owed x) as [b|] eqn:Eb; [|congruence].
  now apply (quiescent_remote_is_current init (ops1 ++ ops2) r x b).
Qed.

(* a sync request is answered with the value the lane holds when it answers - a value it held after the request -
   and the synced marker follows it directly *)
Theorem sync_answer_is_current l r rest :
  vl_syncq l = r :: rest ->
  snd (fst (vl_write l)) = [LSyncEvent r (vl_content l); LSynced r].
Proof. intros E. unfold vl_write. now rewrite E. Qed.

(* setting the lane never loses the sync requests waiting, and a request is answered before the pending event *)
Theorem sync_before_event l : vl_syncq l <> [] -> forall a, In a (snd (fst (vl_write l))) -> forall b, a <> LEvent b.
Proof.
  intros Hq a Hin b. unfold vl_write in Hin. destruct (vl_syncq l) as [|r rest]; [congruence|].
  cbn in Hin. destruct Hin as [<-|[<-|[]]]; discriminate.
Qed.

(* non-vacuity: a remote that is owed a change exists, and ends with the current value *)
Lemma owes_witness :
  Owes 1 (pexec (pipe0 [48]) [PAdd 1; PLink 1; PSet [53]]).
Proof. unfold Owes. eexists. split; [vm_compute; reflexivity|]. split; [reflexivity|]. left. reflexivity. Qed.
