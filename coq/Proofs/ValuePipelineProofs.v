(* Proofs about Model/ValuePipeline.v: what each remote reads from a value lane is an ordered, gap-tolerant view
   of the values the lane held, and once everything has been written it ends with the lane's current value -
   for any number of remotes and every order of sets, sync requests, lane writes, links, unlinks and write
   completions. *)
From SwimV Require Import Model.ValuePipeline.
Open Scope N_scope.

(* ------------------------------------------------------------------------------------------ *)
(* ordered gap-tolerant views *)
Inductive SS : list body -> list body -> Prop :=
| SS_nil h : SS [] h
| SS_skip d y h : SS d h -> SS d (y :: h)
| SS_take x d h : SS d (x :: h) -> SS (x :: d) (x :: h).

Lemma body_eqb_eq a : forall b, body_eqb a b = true <-> a = b.
Proof.
  induction a as [|x a IH]; intros [|y b]; cbn; split; try congruence; try discriminate.
  - intros H. apply andb_true_iff in H as [H1 H2]. apply N.eqb_eq in H1. apply IH in H2. congruence.
  - intros H. injection H as -> ->. rewrite N.eqb_refl. cbn. now apply IH.
Qed.
Lemma body_eqb_refl a : body_eqb a a = true.
Proof. now apply body_eqb_eq. Qed.

Lemma ss_nil_l h : ss [] h = true.
Proof. reflexivity. Qed.
Lemma ss_cons_cons x d y h : ss (x :: d) (y :: h) = if body_eqb x y then ss d (y :: h) else ss (x :: d) h.
Proof. reflexivity. Qed.
Lemma ss_cons_nil x d : ss (x :: d) [] = false.
Proof. reflexivity. Qed.

Lemma ss_sound d : forall h, ss d h = true -> SS d h.
Proof.
  induction d as [|x d IH]; intros h; [constructor|].
  induction h as [|y h IHh]; [rewrite ss_cons_nil; discriminate|].
  rewrite ss_cons_cons. destruct (body_eqb x y) eqn:E.
  - apply body_eqb_eq in E. subst y. intros H. apply SS_take. now apply IH.
  - intros H. apply SS_skip. now apply IHh.
Qed.

Lemma ss_mono d : (forall h y, ss d h = true -> ss d (y :: h) = true) /\ (forall x h, ss (x :: d) h = true -> ss d h = true).
Proof.
  induction d as [|a d [IH1 IH2]].
  - split; intros; reflexivity.
  - assert (H1 : forall h y, ss (a :: d) h = true -> ss (a :: d) (y :: h) = true).
    { intros h y H. rewrite ss_cons_cons. destruct (body_eqb a y); [|exact H].
      apply IH1. now apply (IH2 a). }
    split; [exact H1|].
    intros x h. induction h as [|z h IHh]; [rewrite ss_cons_nil; discriminate|].
    rewrite ss_cons_cons. destruct (body_eqb x z); [auto|].
    intros H. apply H1. now apply IHh.
Qed.

Lemma ss_complete d h : SS d h -> ss d h = true.
Proof.
  induction 1 as [h|d y h _ IH|x d h _ IH].
  - reflexivity.
  - now apply (proj1 (ss_mono d)).
  - rewrite ss_cons_cons, body_eqb_refl. exact IH.
Qed.

Lemma ss_iff d h : ss d h = true <-> SS d h.
Proof. split; [apply ss_sound|apply ss_complete]. Qed.

Lemma SS_nil_r d : SS d [] -> d = [].
Proof. inversion 1; reflexivity. Qed.

Lemma SS_app_r d h t : SS d h -> SS d (h ++ t).
Proof.
  induction 1 as [h|d y h _ IH|x d h _ IH]; cbn [app]; [apply SS_nil|now apply SS_skip|apply SS_take; exact IH].
Qed.

Lemma SS_weaken d h x : SS d h -> SS d (h ++ [x]).
Proof. apply SS_app_r. Qed.

Lemma SS_prefix de h : SS de h -> forall d e, de = d ++ e -> SS d h.
Proof.
  induction 1 as [h|de y h _ IH|x de h _ IH]; intros d e E.
  - destruct d; [constructor|discriminate].
  - apply SS_skip. now apply (IH d e).
  - destruct d as [|x' d]; [constructor|]. cbn in E. injection E as -> E. apply SS_take. now apply (IH d e).
Qed.

Lemma last_opt_snoc {A} (l : list A) x : last_opt (l ++ [x]) = Some x.
Proof. unfold last_opt. now rewrite rev_app_distr. Qed.
Lemma last_opt_nil {A} : @last_opt A [] = None.
Proof. reflexivity. Qed.
Lemma last_opt_cons {A} (y z : A) l : last_opt (y :: z :: l) = last_opt (z :: l).
Proof.
  destruct (@exists_last _ (z :: l)) as (l' & x & E); [discriminate|]. rewrite E.
  change (y :: l' ++ [x]) with ((y :: l') ++ [x]). now rewrite !last_opt_snoc.
Qed.
Lemma last_opt_app_cons {A} (l : list A) x t : last_opt (l ++ x :: t) = last_opt (x :: t).
Proof.
  induction l as [|a l IH]; [reflexivity|]. cbn [app]. destruct l as [|b l]; cbn [app] in *.
  - destruct t; [reflexivity|]. apply last_opt_cons.
  - rewrite last_opt_cons. exact IH.
Qed.

Lemma SS_single_last h b : last_opt h = Some b -> SS [b] h.
Proof.
  induction h as [|y h IH]; [discriminate|]. destruct h as [|z h].
  - cbn. intros [= ->]. apply SS_take. constructor.
  - rewrite last_opt_cons. intros H. apply SS_skip. now apply IH.
Qed.

(* the newest element may be repeated at the end *)
Lemma SS_snoc_last d h : SS d h -> forall b, last_opt h = Some b -> SS (d ++ [b]) h.
Proof.
  induction 1 as [h|d y h Hd IH|x d h _ IH]; intros b Hb; cbn [app].
  - now apply SS_single_last.
  - destruct h as [|z h].
    + apply SS_nil_r in Hd. subst d. cbn in Hb. injection Hb as ->. cbn. apply SS_take. constructor.
    + rewrite last_opt_cons in Hb. apply SS_skip. now apply IH.
  - apply SS_take. now apply IH.
Qed.

Lemma SS_snoc_both d h b : SS d h -> SS (d ++ [b]) (h ++ [b]).
Proof. intros H. apply SS_snoc_last; [now apply SS_weaken|apply last_opt_snoc]. Qed.

Lemma SS_trans c b : SS b c -> forall a, SS a b -> SS a c.
Proof.
  induction 1 as [c|b y c _ IH|x b c Hb IH]; intros a Ha.
  - apply SS_nil_r in Ha. subst. constructor.
  - apply SS_skip. now apply IH.
  - remember (x :: b) as xb eqn:E. induction Ha as [h|a y h Ha IHa|z a h Ha IHa].
    + constructor.
    + injection E as -> ->. now apply IH.
    + injection E as -> ->. apply SS_take. now apply IHa.
Qed.

Lemma SS_refl h : SS h h.
Proof. induction h as [|x h IH]; [constructor|]. apply SS_take. now apply SS_skip. Qed.

(* ------------------------------------------------------------------------------------------ *)
(* one remote *)
Definition evs (x : rst) : list body := events_of (r_sent x) ++ events_of (fly_frames x).

Definition RInv (H : list body) (x : rst) : Prop :=
  SS (r_pushed x) H
  /\ SS (evs x) (r_pushed x)
  /\ (forall b, r_owed x = Some b -> last_opt (r_pushed x) = Some b)
  /\ (forall b, r_owed x = Some b ->
        v_cur (r_up x) = Some b \/ (v_cur (r_up x) = None /\ last_opt (evs x) = Some b))
  /\ (forall c, v_cur (r_up x) = Some c -> r_owed x = Some c)
  /\ (v_home (r_up x) = true <-> r_fly x = None)
  /\ (v_home (r_up x) = true -> v_queued (r_up x) = false /\ v_sq (r_up x) = [])
  /\ (v_queued (r_up x) = false -> v_cur (r_up x) = None /\ v_synced (r_up x) = false)
  /\ (r_linked x = false -> r_owed x = None).

Lemma events_of_app a b : events_of (a ++ b) = events_of a ++ events_of b.
Proof. unfold events_of. apply flat_map_app. Qed.

Lemma rinv0 H : RInv H rst0.
Proof.
  unfold RInv, evs, fly_frames; cbn. repeat split; try constructor; try discriminate; auto.
Qed.

Lemma rinv_hist H x v : RInv H x -> RInv (H ++ [v]) x.
Proof. intros (H1 & Hrest). split; [now apply SS_weaken|exact Hrest]. Qed.

Ltac break_rst x :=
  let linked := fresh "linked" in let home := fresh "home" in let cur := fresh "cur" in
  let synced := fresh "synced" in let queued := fresh "queued" in let sq := fresh "sq" in
  let fly := fresh "fly" in let sent := fresh "sent" in let pushed := fresh "pushed" in let owed := fresh "owed" in
  destruct x as [linked [home cur synced queued sq] fly sent pushed owed].

Ltac rcbn := cbn [r_linked r_up r_fly r_sent r_pushed r_owed v_home v_cur v_synced v_queued v_sq fst snd
                  r_apply r_value r_synced r_link r_unlink r_ensure_linked vpush_value vpush_synced vpush_special
                  vpop evs fly_frames frames_of vtask wt_lane wt_action events_of flat_map app] in *.

Lemma idle_clear H x : RInv H x -> v_home (r_up x) = true ->
  v_cur (r_up x) = None /\ v_synced (r_up x) = false /\ v_queued (r_up x) = false /\ v_sq (r_up x) = [] /\ r_fly x = None.
Proof.
  intros (_ & _ & _ & _ & _ & Hh & Hi & Hs & _) Hhome. destruct (Hi Hhome) as [Hq Hsq].
  destruct (Hs Hq) as [Hc Hsy]. repeat split; auto. now apply Hh.
Qed.

(* a value is handed to the uplink *)
Lemma rinv_value H x b : RInv H x -> r_linked x = true -> last_opt H = Some b -> RInv H (r_value x b).
Proof.
  intros HI Hl Hb. pose proof (idle_clear H x HI) as Hidle.
  destruct HI as (H1 & H2 & H3 & H4 & H5 & H6 & H7 & H8 & H9).
  break_rst x. rcbn. destruct home; rcbn.
  - (* the writer is home: the value leaves at once *)
    destruct (Hidle eq_refl) as (-> & -> & -> & -> & ->). rcbn.
    unfold RInv; rcbn. rewrite !app_nil_r in *.
    split; [now apply SS_snoc_last|]. split; [now apply SS_snoc_both|].
    split; [intros b' [= <-]; apply last_opt_snoc|].
    split; [intros b' [= <-]; right; split; [reflexivity|apply last_opt_snoc]|].
    split; [discriminate|]. split; [split; discriminate|]. split; [discriminate|].
    split; [auto|]. rcbn. congruence.
  - (* the writer is out: the value waits, replacing an older one *)
    unfold RInv; rcbn.
    split; [now apply SS_snoc_last|]. split; [now apply SS_weaken|].
    split; [intros b' [= <-]; apply last_opt_snoc|].
    split; [intros b' [= <-]; now left|].
    split; [intros c [= <-]; reflexivity|]. split; [exact H6|]. split; [discriminate|].
    split; [discriminate|]. rcbn. congruence.
Qed.

Lemma rinv_synced H x : RInv H x -> RInv H (r_synced x).
Proof.
  intros HI. pose proof (idle_clear H x HI) as Hidle.
  destruct HI as (H1 & H2 & H3 & H4 & H5 & H6 & H7 & H8 & H9).
  break_rst x. unfold r_synced. rcbn. destruct home; rcbn.
  - destruct (Hidle eq_refl) as (-> & -> & -> & -> & ->). rcbn.
    unfold RInv; rcbn. rewrite !app_nil_r in *.
    split; [exact H1|]. split; [exact H2|]. split; [exact H3|]. split; [exact H4|]. split; [exact H5|].
    split; [split; discriminate|]. split; [discriminate|]. split; [auto|]. exact H9.
  - unfold RInv; rcbn.
    split; [exact H1|]. split; [exact H2|]. split; [exact H3|]. split; [exact H4|]. split; [exact H5|].
    split; [exact H6|]. split; [discriminate|]. split; [discriminate|]. exact H9.
Qed.

Lemma rinv_link H x : RInv H x -> RInv H (r_link x).
Proof.
  intros HI. pose proof (idle_clear H x HI) as Hidle.
  destruct HI as (H1 & H2 & H3 & H4 & H5 & H6 & H7 & H8 & H9).
  break_rst x. unfold r_link. rcbn. destruct home; rcbn.
  - destruct (Hidle eq_refl) as (-> & -> & -> & -> & ->). rcbn.
    unfold RInv; rcbn. rewrite !app_nil_r in *.
    split; [exact H1|]. split; [exact H2|]. split; [exact H3|]. split; [exact H4|]. split; [exact H5|].
    split; [split; discriminate|]. split; [discriminate|]. split; [auto|]. discriminate.
  - unfold RInv; rcbn.
    split; [exact H1|]. split; [exact H2|]. split; [exact H3|]. split; [exact H4|]. split; [exact H5|].
    split; [exact H6|]. split; [discriminate|]. split; [exact H8|]. discriminate.
Qed.

Lemma r_link_linked x : r_linked (r_link x) = true.
Proof. reflexivity. Qed.

Lemma rinv_unlink H x : RInv H x -> RInv H (r_unlink x).
Proof.
  intros HI. pose proof (idle_clear H x HI) as Hidle.
  destruct HI as (H1 & H2 & H3 & H4 & H5 & H6 & H7 & H8 & H9).
  break_rst x. unfold r_unlink. rcbn. destruct linked; [|unfold RInv; rcbn; tauto]. rcbn. destruct home; rcbn.
  - destruct (Hidle eq_refl) as (-> & -> & -> & -> & ->). rcbn.
    unfold RInv; rcbn. rewrite !app_nil_r in *.
    split; [exact H1|]. split; [exact H2|]. split; [discriminate|]. split; [discriminate|]. split; [discriminate|].
    split; [split; discriminate|]. split; [discriminate|]. split; [auto|]. reflexivity.
  - unfold RInv; rcbn.
    split; [exact H1|]. split; [exact H2|]. split; [discriminate|]. split; [discriminate|]. split; [discriminate|].
    split; [exact H6|]. split; [discriminate|]. split; [auto|]. reflexivity.
Qed.

Lemma rinv_ensure H x : RInv H x -> RInv H (r_ensure_linked x) /\ r_linked (r_ensure_linked x) = true.
Proof.
  intros HI. unfold r_ensure_linked. destruct (r_linked x) eqn:E; [now split|]. split; [now apply rinv_link|reflexivity].
Qed.

Lemma events_special a : events_of (frames_of (vtask (WSpecial a))) = [].
Proof. destruct a; reflexivity. Qed.

(* the write in progress completes *)
Lemma rinv_done H x : RInv H x -> RInv H (fst (r_done x)).
Proof.
  intros HI. destruct HI as (H1 & H2 & H3 & H4 & H5 & H6 & H7 & H8 & H9).
  break_rst x. unfold r_done. rcbn. destruct fly as [t|]; [|unfold RInv; rcbn; tauto].
  assert (Hhome : home = false).
  { destruct home; [|reflexivity]. destruct H6 as [H6 _]. now specialize (H6 eq_refl). }
  subst home. cbn [fst]. unfold evs in *. cbn [r_sent r_fly fly_frames] in *.
  destruct sq as [|a rest]; cbn [vpop v_sq v_queued v_cur v_synced fst snd].
  - destruct queued.
    + (* the slot is consumed *)
      destruct synced, cur as [b|]; unfold RInv, evs, fly_frames; rcbn; rewrite events_of_app; rcbn; rewrite ?app_nil_r.
      * specialize (H5 b eq_refl). pose proof (H3 b H5) as HL.
        split; [exact H1|]. split; [apply SS_snoc_last; [exact H2|exact HL]|].
        split; [exact H3|].
        split; [intros b' Hb'; right; split; [reflexivity|]; rewrite H5 in Hb'; injection Hb' as <-;
                apply last_opt_snoc|].
        split; [discriminate|]. split; [split; discriminate|]. split; [discriminate|]. split; [auto|]. exact H9.
      * split; [exact H1|]. split; [exact H2|]. split; [exact H3|].
        split; [intros b' Hb'; destruct (H4 b' Hb') as [Hc|[_ Hc]]; [discriminate|]; right; split; [reflexivity|exact Hc]|].
        split; [discriminate|]. split; [split; discriminate|]. split; [discriminate|]. split; [auto|]. exact H9.
      * specialize (H5 b eq_refl). pose proof (H3 b H5) as HL.
        split; [exact H1|]. split; [apply SS_snoc_last; [exact H2|exact HL]|].
        split; [exact H3|].
        split; [intros b' Hb'; right; split; [reflexivity|]; rewrite H5 in Hb'; injection Hb' as <-;
                apply last_opt_snoc|].
        split; [discriminate|]. split; [split; discriminate|]. split; [discriminate|]. split; [auto|]. exact H9.
      * split; [exact H1|]. split; [exact H2|]. split; [exact H3|].
        split; [intros b' Hb'; destruct (H4 b' Hb') as [Hc|[_ Hc]]; [discriminate|]; right; split; [reflexivity|exact Hc]|].
        split; [discriminate|]. split; [split; reflexivity|]. split; [auto|]. split; [auto|]. exact H9.
    + (* nothing is queued: the writer stays home *)
      destruct (H8 eq_refl) as [-> ->]. unfold RInv, evs, fly_frames; rcbn; rewrite events_of_app; rcbn; rewrite ?app_nil_r.
      split; [exact H1|]. split; [exact H2|]. split; [exact H3|].
      split; [intros b' Hb'; destruct (H4 b' Hb') as [Hc|[_ Hc]]; [discriminate|]; right; split; [reflexivity|exact Hc]|].
      split; [discriminate|]. split; [split; reflexivity|]. split; [auto|]. split; [auto|]. exact H9.
  - (* a special action goes first *)
    unfold RInv, evs, fly_frames; cbn [r_linked r_up r_fly r_sent r_pushed r_owed v_home v_cur v_synced v_queued v_sq].
    rewrite events_of_app, events_special, app_nil_r.
    split; [exact H1|]. split; [exact H2|]. split; [exact H3|]. split; [exact H4|]. split; [exact H5|].
    split; [split; discriminate|]. split; [discriminate|]. split; [exact H8|]. exact H9.
Qed.

(* ------------------------------------------------------------------------------------------ *)
(* the table of remotes *)
Lemma aget_In {A} r (m : list (N * A)) x : aget r m = Some x -> In (r, x) m.
Proof.
  induction m as [|[k v] m IH]; cbn; [discriminate|]. destruct (r =? k) eqn:E.
  - apply N.eqb_eq in E. subst. intros [= ->]. now left.
  - intros H. right. now apply IH.
Qed.

Lemma In_rmap f r m k y : In (k, y) (rmap f r m) -> exists x, In (k, x) m /\ (y = x \/ (k = r /\ y = f x)).
Proof.
  induction m as [|[k' x'] m IH]; cbn; [tauto|]. destruct (k' =? r) eqn:E.
  - apply N.eqb_eq in E. subst. intros [H|H].
    + injection H as <- <-. exists x'. split; [now left|]. right. now split.
    + exists y. split; [now right|now left].
  - intros [H|H].
    + injection H as <- <-. exists x'. split; [now left|now left].
    + destruct (IH H) as (x & Hx & Hy). exists x. split; [now right|exact Hy].
Qed.

Lemma In_rall f m k y : In (k, y) (rall f m) -> exists x, In (k, x) m /\ y = f x.
Proof.
  unfold rall. intros H. apply in_map_iff in H as ([k' x] & E & Hin). cbn in E. injection E as <- <-. now exists x.
Qed.

Lemma aget_rmap f r m k : aget k (rmap f r m) = if k =? r then option_map f (aget k m) else aget k m.
Proof.
  induction m as [|[k' x] m IH]; cbn; [now destruct (k =? r)|]. destruct (k' =? r) eqn:E.
  - apply N.eqb_eq in E. subst k'. cbn. destruct (k =? r) eqn:E2; reflexivity.
  - cbn. destruct (k =? k') eqn:E2.
    + apply N.eqb_eq in E2. subst k'. now rewrite E.
    + exact IH.
Qed.

Lemma aget_rall f m k : aget k (rall f m) = option_map f (aget k m).
Proof. induction m as [|[k' x] m IH]; cbn; [reflexivity|]. destruct (k =? k'); [reflexivity|exact IH]. Qed.

Lemma aget_snoc {A} k (m : list (N * A)) r x : aget k (m ++ [(r, x)]) = match aget k m with Some y => Some y | None => if k =? r then Some x else None end.
Proof. induction m as [|[k' y] m IH]; cbn; [reflexivity|]. destruct (k =? k'); [reflexivity|exact IH]. Qed.

Lemma rmap_const_aget f r m x : aget r m = Some x -> rmap (fun _ => f x) r m = rmap f r m.
Proof.
  induction m as [|[k y] m IH]; cbn; [reflexivity|]. rewrite (N.eqb_sym r k). destruct (k =? r) eqn:E.
  - intros [= ->]. reflexivity.
  - intros H. now rewrite IH.
Qed.

(* ------------------------------------------------------------------------------------------ *)
(* the pipeline *)
Definition PInv (p : pipe) : Prop :=
  last_opt (p_hist p) = Some (vl_content (p_lane p))
  /\ (vl_dirty (p_lane p) = false ->
      forall r x b, In (r, x) (p_rems p) -> r_owed x = Some b -> b = vl_content (p_lane p))
  /\ (forall r x, In (r, x) (p_rems p) -> RInv (p_hist p) x).

Lemma pinv0 init : PInv (pipe0 init).
Proof. unfold PInv, pipe0; cbn. split; [reflexivity|]. split; intros; contradiction. Qed.

Lemma owed_done x : r_owed (fst (r_done x)) = r_owed x.
Proof. unfold r_done. destruct (r_fly x); reflexivity. Qed.
Lemma owed_link x : r_owed (r_link x) = r_owed x.
Proof. reflexivity. Qed.
Lemma owed_synced x : r_owed (r_synced x) = r_owed x.
Proof. reflexivity. Qed.
Lemma owed_ensure x : r_owed (r_ensure_linked x) = r_owed x.
Proof. unfold r_ensure_linked. destruct (r_linked x); reflexivity. Qed.
Lemma owed_value x b : r_owed (r_value x b) = Some b.
Proof. reflexivity. Qed.
Lemma owed_unlink x : r_owed (r_unlink x) = None \/ r_owed (r_unlink x) = r_owed x.
Proof. unfold r_unlink. destruct (r_linked x); [now left|now right]. Qed.
Lemma linked_value x b : r_linked (r_value x b) = r_linked x.
Proof. reflexivity. Qed.
Lemma linked_synced x : r_linked (r_synced x) = r_linked x.
Proof. reflexivity. Qed.
Lemma linked_done x : r_linked (fst (r_done x)) = r_linked x.
Proof. unfold r_done. destruct (r_fly x); reflexivity. Qed.
Lemma linked_ensure x : r_linked (r_ensure_linked x) = true.
Proof. unfold r_ensure_linked. destruct (r_linked x) eqn:E; [exact E|reflexivity]. Qed.

Lemma pstep_inv p o : PInv p -> PInv (fst (fst (pstep p o))).
Proof.
  intros (G1 & G2 & G3). destruct o as [r|v|r| |r|r|r]; cbn [pstep fst].
  - (* a remote attaches *)
    destruct (aget r (p_rems p)) eqn:E; [exact (conj G1 (conj G2 G3))|]. unfold PInv, set_rems; cbn [p_lane p_hist p_rems].
    split; [exact G1|]. split.
    + intros Hd k x b Hin. apply in_app_or in Hin as [Hin|[Hin|[]]]; [now apply (G2 Hd k x b)|].
      injection Hin as <- <-. discriminate.
    + intros k x Hin. apply in_app_or in Hin as [Hin|[Hin|[]]]; [now apply (G3 k x)|].
      injection Hin as <- <-. apply rinv0.
  - (* the lane is set *)
    unfold PInv; cbn [p_lane p_hist p_rems vl_set vl_content vl_dirty].
    split; [apply last_opt_snoc|]. split; [discriminate|]. intros k x Hin. apply rinv_hist. now apply (G3 k x).
  - (* a sync request reaches the lane *)
    unfold PInv; cbn [p_lane p_hist p_rems vl_sync vl_content vl_dirty]. exact (conj G1 (conj G2 G3)).
  - (* the lane writes *)
    unfold vl_write. destruct (vl_syncq (p_lane p)) as [|r rest] eqn:Eq.
    + destruct (vl_dirty (p_lane p)) eqn:Ed.
      * (* an event for every linked remote *)
        cbn [fst]. unfold PInv; cbn [p_lane p_hist p_rems vl_content vl_dirty fold_left deliver].
        split; [exact G1|]. split.
        -- intros _ k y b Hin Hy. apply In_rall in Hin as (x & Hin & ->).
           destruct (r_linked x) eqn:El; [rewrite owed_value in Hy; congruence|].
           destruct (G3 k x Hin) as (_ & _ & _ & _ & _ & _ & _ & _ & H9). rewrite (H9 El) in Hy. discriminate.
        -- intros k y Hin. apply In_rall in Hin as (x & Hin & ->).
           destruct (r_linked x) eqn:El; [|now apply (G3 k x)]. apply rinv_value; auto. now apply (G3 k x).
      * cbn [fst]. unfold PInv. cbn [p_lane p_hist p_rems fold_left]. split; [exact G1|]. split; [intros _; now apply G2|exact G3].
    + (* a sync request is answered: the current value and synced, to that remote *)
      cbn [fst]. unfold PInv; cbn [p_lane p_hist p_rems vl_content vl_dirty fold_left deliver].
      split; [exact G1|]. split.
      * intros Hd k z b Hin Hz. apply In_rmap in Hin as (y & Hin & [->|[-> ->]]).
        -- apply In_rmap in Hin as (x & Hin & [->|[-> ->]]); [now apply (G2 Hd k x b)|].
           rewrite owed_value in Hz. congruence.
        -- rewrite owed_synced, owed_ensure in Hz.
           apply In_rmap in Hin as (x & Hin & [->|[_ ->]]); [now apply (G2 Hd r x b)|].
           rewrite owed_value in Hz. congruence.
      * assert (Hv : forall k y, In (k, y) (rmap (fun x => r_value (r_ensure_linked x) (vl_content (p_lane p))) r (p_rems p)) ->
                                RInv (p_hist p) y).
        { intros k y Hin. apply In_rmap in Hin as (x & Hin & [->|[-> ->]]); [now apply (G3 k x)|].
          destruct (rinv_ensure _ _ (G3 _ _ Hin)) as [Hi Hl]. now apply rinv_value. }
        intros k z Hin. apply In_rmap in Hin as (y & Hin & [->|[-> ->]]); [now apply (Hv k y)|].
        apply rinv_synced. apply rinv_ensure. now apply (Hv r y).
  - (* link *)
    unfold PInv, set_rems; cbn [p_lane p_hist p_rems]. split; [exact G1|]. split.
    + intros Hd k y b Hin Hy. apply In_rmap in Hin as (x & Hin & [->|[-> ->]]); (eapply (G2 Hd); eauto).
    + intros k y Hin. apply In_rmap in Hin as (x & Hin & [->|[-> ->]]); [now apply (G3 k x)|]. apply rinv_link. now apply (G3 r x).
  - (* unlink *)
    unfold PInv, set_rems; cbn [p_lane p_hist p_rems]. split; [exact G1|]. split.
    + intros Hd k y b Hin Hy. apply In_rmap in Hin as (x & Hin & [->|[-> ->]]); [(eapply (G2 Hd); eauto)|].
      destruct (owed_unlink x) as [E|E]; rewrite E in Hy; [discriminate|]. (eapply (G2 Hd); eauto).
    + intros k y Hin. apply In_rmap in Hin as (x & Hin & [->|[-> ->]]); [now apply (G3 k x)|]. apply rinv_unlink. now apply (G3 r x).
  - (* a write completes *)
    destruct (aget r (p_rems p)) as [x0|] eqn:E; [|exact (conj G1 (conj G2 G3))].
    destruct (r_done x0) as [x' fr] eqn:Ed. cbn [fst].
    replace x' with (fst (r_done x0)) by now rewrite Ed.
    rewrite (rmap_const_aget (fun x => fst (r_done x)) r _ _ E).
    unfold PInv, set_rems; cbn [p_lane p_hist p_rems]. split; [exact G1|]. split.
    + intros Hd k y b Hin Hy. apply In_rmap in Hin as (x & Hin & [->|[-> ->]]); [(eapply (G2 Hd); eauto)|].
      rewrite owed_done in Hy. (eapply (G2 Hd); eauto).
    + intros k y Hin. apply In_rmap in Hin as (x & Hin & [->|[-> ->]]); [now apply (G3 k x)|]. apply rinv_done. now apply (G3 r x).
Qed.

Lemma pexec_inv ops : forall p, PInv p -> PInv (pexec p ops).
Proof. unfold pexec. induction ops as [|o ops IH]; cbn; intros p H; [exact H|]. apply IH. now apply pstep_inv. Qed.
