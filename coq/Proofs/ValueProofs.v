(* Proofs about Model/Value.v: on values without Float64 (recursively), equality is an
   equivalence, equal values hash equally, and the ordering is a total order whose Equal coincides
   with equality.  Method: a normalisation [key] into canonical values (every integer kind becomes
   BigInt), on which eq / cmp are structural, and [vcmp x y = vcmp (key x) (key y)] etc. *)
From SwimV Require Import Model.Value.
From Coq Require Import ZifyBool.
Open Scope Z_scope.

(* ---- nested induction principle ---- *)
Section value_ind2.
  Variable P : value -> Prop.
  Hypothesis HExtant : P Extant.
  Hypothesis HInt32 : forall z, P (Int32 z).
  Hypothesis HInt64 : forall z, P (Int64 z).
  Hypothesis HUInt32 : forall z, P (UInt32 z).
  Hypothesis HUInt64 : forall z, P (UInt64 z).
  Hypothesis HFloat : forall b, P (Float64 b).
  Hypothesis HBool : forall b, P (Boolean b).
  Hypothesis HBigInt : forall z, P (BigInt z).
  Hypothesis HBigUint : forall z, P (BigUint z).
  Hypothesis HText : forall s, P (Text s).
  Hypothesis HData : forall s, P (Data s).
  Definition item_P (it : item) : Prop :=
    match it with ValueItem v => P v | Slot k v => P k /\ P v end.
  Hypothesis HRecord : forall attrs items,
    Forall (fun a => P (snd a)) attrs -> Forall item_P items -> P (Record attrs items).

  Fixpoint value_ind2 (x : value) : P x :=
    match x with
    | Extant => HExtant
    | Int32 z => HInt32 z | Int64 z => HInt64 z | UInt32 z => HUInt32 z | UInt64 z => HUInt64 z
    | Float64 b => HFloat b
    | Boolean b => HBool b
    | BigInt z => HBigInt z | BigUint z => HBigUint z
    | Text s => HText s
    | Data s => HData s
    | Record attrs items =>
        HRecord attrs items
          ((fix go (l : list (str * value)) : Forall (fun a => P (snd a)) l :=
              match l with
              | [] => Forall_nil _
              | a :: t => Forall_cons a (value_ind2 (snd a)) (go t)
              end) attrs)
          ((fix go (l : list item) : Forall item_P l :=
              match l with
              | [] => Forall_nil _
              | it :: t =>
                  Forall_cons it
                    (match it return item_P it with
                     | ValueItem v => value_ind2 v
                     | Slot k v => conj (value_ind2 k) (value_ind2 v)
                     end) (go t)
              end) items)
    end.
End value_ind2.

(* ---- strings ---- *)
Lemma str_eqb_eq a b : str_eqb a b = true <-> a = b.
Proof.
  revert b; induction a as [|x a IH]; intros [|y b]; simpl; split; intros H;
    try reflexivity; try discriminate.
  - apply andb_true_iff in H as [H1 H2]. apply N.eqb_eq in H1. apply IH in H2. now subst.
  - inversion H; subst. rewrite N.eqb_refl. simpl. now apply IH.
Qed.

Lemma str_cmp_eq a b : str_cmp a b = Eq <-> a = b.
Proof.
  revert b; induction a as [|x a IH]; intros [|y b]; simpl; split; intros H;
    try reflexivity; try discriminate.
  - destruct (N.compare_spec x y); try discriminate. subst. f_equal. now apply IH.
  - inversion H; subst. rewrite N.compare_refl. now apply IH.
Qed.

Lemma str_cmp_antisym a b : str_cmp b a = CompOpp (str_cmp a b).
Proof.
  revert b; induction a as [|x a IH]; intros [|y b]; simpl; auto.
  rewrite (N.compare_antisym x y). destruct (x ?= y)%N; simpl; auto.
Qed.

Lemma str_cmp_trans a b c : str_cmp a b = Lt -> str_cmp b c = Lt -> str_cmp a c = Lt.
Proof.
  revert b c; induction a as [|x a IH]; intros [|y b] [|z c]; simpl; auto; try discriminate.
  destruct (N.compare_spec x y); destruct (N.compare_spec y z); try discriminate; intros H1 H2; subst.
  - rewrite N.compare_refl. eapply IH; eauto.
  - apply N.compare_lt_iff in H0. now rewrite H0.
  - apply N.compare_lt_iff in H. now rewrite H.
  - assert (x < z)%N as L by lia. apply N.compare_lt_iff in L. now rewrite L.
Qed.

(* ---- the float-free fragment and canonical values ---- *)
Definition ff (x : value) : bool := negb (has_float x).

Fixpoint key (x : value) : value :=
  match x with
  | Int32 z | Int64 z | UInt32 z | UInt64 z | BigInt z | BigUint z => BigInt z
  | Record attrs items =>
      Record (map (fun a => (fst a, key (snd a))) attrs)
             (map (fun it => match it with
                             | ValueItem v => ValueItem (key v)
                             | Slot k v => Slot (key k) (key v)
                             end) items)
  | other => other
  end.

Definition key_item (it : item) : item :=
  match it with ValueItem v => ValueItem (key v) | Slot k v => Slot (key k) (key v) end.
Definition key_attr (a : str * value) : str * value := (fst a, key (snd a)).

Lemma key_record attrs items : key (Record attrs items) = Record (map key_attr attrs) (map key_item items).
Proof. reflexivity. Qed.

Fixpoint canon (x : value) : bool :=
  match x with
  | Extant | Boolean _ | BigInt _ | Text _ | Data _ => true
  | Record attrs items =>
      forallb (fun a => canon (snd a)) attrs &&
      forallb (fun it => match it with ValueItem v => canon v | Slot k v => canon k && canon v end) items
  | _ => false
  end.

Definition canon_item (it : item) : bool :=
  match it with ValueItem v => canon v | Slot k v => canon k && canon v end.

Lemma has_float_record attrs items :
  has_float (Record attrs items) =
  existsb (fun a => has_float (snd a)) attrs ||
  existsb (fun it => match it with ValueItem v => has_float v | Slot k v => has_float k || has_float v end) items.
Proof. reflexivity. Qed.

Lemma wf_record attrs items :
  wf (Record attrs items) =
  forallb (fun a => wf (snd a)) attrs &&
  forallb (fun it => match it with ValueItem v => wf v | Slot k v => wf k && wf v end) items.
Proof. reflexivity. Qed.

Lemma existsb_false_Forall {A} (f : A -> bool) l : existsb f l = false -> Forall (fun a => f a = false) l.
Proof.
  induction l as [|a t IH]; simpl; intros H; constructor.
  - now apply orb_false_iff in H as [H _].
  - apply IH. now apply orb_false_iff in H as [_ H].
Qed.

Lemma forallb_Forall {A} (f : A -> bool) l : forallb f l = true <-> Forall (fun a => f a = true) l.
Proof.
  induction l as [|a t IH]; simpl; split; intros H; auto.
  - apply andb_true_iff in H as [H1 H2]. constructor; auto. now apply IH.
  - inversion H; subst. apply andb_true_iff. split; auto. now apply IH.
Qed.

Definition ff_item (it : item) : bool :=
  match it with ValueItem v => ff v | Slot k v => ff k && ff v end.
Definition wf_item (it : item) : bool :=
  match it with ValueItem v => wf v | Slot k v => wf k && wf v end.

Lemma ff_record_inv attrs items : ff (Record attrs items) = true ->
  Forall (fun a => ff (snd a) = true) attrs /\ Forall (fun it => ff_item it = true) items.
Proof.
  unfold ff. rewrite has_float_record, negb_true_iff, orb_false_iff. intros [HA HI]. split.
  - apply existsb_false_Forall in HA. eapply Forall_impl; [|exact HA]. simpl. intros a Ha. unfold ff. now rewrite Ha.
  - apply existsb_false_Forall in HI. eapply Forall_impl; [|exact HI]. intros [v|k v] Hi; simpl in *.
    + unfold ff. now rewrite Hi.
    + apply orb_false_iff in Hi as [F1 F2]. unfold ff. now rewrite F1, F2.
Qed.

Lemma wf_record_inv attrs items : wf (Record attrs items) = true ->
  Forall (fun a => wf (snd a) = true) attrs /\ Forall (fun it => wf_item it = true) items.
Proof.
  rewrite wf_record. intros H. apply andb_true_iff in H as [HA HI]. split; now apply forallb_Forall.
Qed.

Lemma canon_record attrs items :
  canon (Record attrs items) = true <->
  Forall (fun a => canon (snd a) = true) attrs /\ Forall (fun it => canon_item it = true) items.
Proof.
  simpl. rewrite andb_true_iff, !forallb_Forall. reflexivity.
Qed.

Lemma key_canon x : ff x = true -> canon (key x) = true.
Proof.
  induction x using value_ind2; intros Hf; try reflexivity; try discriminate.
  apply ff_record_inv in Hf as [FA FI]. rewrite key_record. apply canon_record. split.
  - apply Forall_map. rewrite Forall_forall in *. intros a Ia. simpl. apply H; auto.
  - apply Forall_map. rewrite Forall_forall in *. intros it Ii. specialize (H0 it Ii). specialize (FI it Ii).
    destruct it as [v|k v]; simpl in *.
    + now apply H0.
    + apply andb_true_iff in FI as [F1 F2]. destruct H0 as [A B]. now rewrite A, B.
Qed.

(* ------------------------------------------------------------------------------------------ *)
(* comparison commutes with normalisation *)

Ltac zcmp :=
  repeat match goal with
         | |- context [?a <? ?b] => destruct (Z.ltb_spec a b)
         end;
  try reflexivity;
  try (symmetry; apply Z.compare_lt_iff; lia);
  try (symmetry; apply Z.compare_gt_iff; lia);
  try (apply Z.compare_lt_iff; lia);
  try (apply Z.compare_gt_iff; lia).

Ltac wf_hyps :=
  repeat match goal with
         | H : wf _ = true |- _ => cbn [wf] in H; unfold in_range, I64MIN, I64MAX in H
         | H : ff (Float64 _) = true |- _ => discriminate H
         end.

Definition cmp_ok (v : value) : Prop :=
  forall y, ff y = true -> wf y = true -> vcmp v y = vcmp (key v) (key y).

Definition item_ok (it : item) : Prop :=
  match it with ValueItem v => cmp_ok v | Slot k v => cmp_ok k /\ cmp_ok v end.

Lemma is_nil_map {A B} (f : A -> B) l : is_nil (map f l) = is_nil l.
Proof. destruct l; reflexivity. Qed.

Lemma items_cmp_key i1 : Forall item_ok i1 ->
  forall i2, Forall (fun it => ff_item it = true) i2 -> Forall (fun it => wf_item it = true) i2 ->
  items_cmp vcmp i1 i2 = items_cmp vcmp (map key_item i1) (map key_item i2).
Proof.
  induction 1 as [|it1 r1 H1 HR IH]; intros [|it2 r2] F W; simpl; auto.
  inversion F; subst. inversion W; subst. rewrite <- (IH r2) by assumption.
  assert (item_cmp vcmp it1 it2 = item_cmp vcmp (key_item it1) (key_item it2)) as ->; [|reflexivity].
  destruct it1 as [v1|k1 v1], it2 as [v2|k2 v2]; simpl in *; auto.
  - apply andb_true_iff in H2 as [A B]. apply andb_true_iff in H4 as [C D]. destruct H1 as [K V].
    rewrite (K k2), (V v2) by assumption. reflexivity.
Qed.

Lemma attrs_cmp_key e1 e2 k a1 : Forall (fun a => cmp_ok (snd a)) a1 ->
  forall a2, Forall (fun a => ff (snd a) = true) a2 -> Forall (fun a => wf (snd a) = true) a2 ->
  attrs_cmp vcmp e1 e2 k a1 a2 = attrs_cmp vcmp e1 e2 k (map key_attr a1) (map key_attr a2).
Proof.
  induction 1 as [|[n1 v1] r1 H1 HR IH]; intros [|[n2 v2] r2] F W; simpl; auto.
  inversion F; subst. inversion W; subst. simpl in *.
  rewrite <- (IH r2) by assumption. rewrite (H1 v2) by assumption. reflexivity.
Qed.

Lemma vcmp_key x : ff x = true -> wf x = true -> cmp_ok x.
Proof.
  induction x using value_ind2; intros Fx Wx y Fy Wy; try discriminate Fx;
    try (destruct y; try discriminate Fy; wf_hyps; cbn [key vcmp]; unfold cmp_i_u, cmp_u_i; zcmp; fail).
  (* Record *)
  apply ff_record_inv in Fx as [FA FI]. apply wf_record_inv in Wx as [WA WI].
  destruct y; try discriminate Fy; try reflexivity.
  apply ff_record_inv in Fy as [FA2 FI2]. apply wf_record_inv in Wy as [WA2 WI2].
  rewrite !key_record. cbn [vcmp]. rewrite !is_nil_map.
  assert (Forall item_ok items) as IO.
  { rewrite Forall_forall in *. intros it Ii. specialize (H0 it Ii). specialize (FI it Ii).
    specialize (WI it Ii). destruct it as [v|k v]; simpl in *.
    - now apply H0.
    - apply andb_true_iff in FI as [F1 F2]. apply andb_true_iff in WI as [W1 W2].
      destruct H0 as [A B]. split; [apply A|apply B]; assumption. }
  assert (Forall (fun a => cmp_ok (snd a)) attrs) as AO.
  { rewrite Forall_forall in *. intros a Ia. apply H; auto. }
  rewrite <- (items_cmp_key items IO items0 FI2 WI2).
  apply attrs_cmp_key; assumption.
Qed.

(* ------------------------------------------------------------------------------------------ *)
(* equality and hashing commute with normalisation *)

Definition eq_ok (v : value) : Prop :=
  forall y, ff y = true -> wf y = true -> veq v y = veq (key v) (key y).

Definition item_eq_ok (it : item) : Prop :=
  match it with ValueItem v => eq_ok v | Slot k v => eq_ok k /\ eq_ok v end.

Lemma items_eq_key i1 : Forall item_eq_ok i1 ->
  forall i2, Forall (fun it => ff_item it = true) i2 -> Forall (fun it => wf_item it = true) i2 ->
  items_eq veq i1 i2 = items_eq veq (map key_item i1) (map key_item i2).
Proof.
  induction 1 as [|it1 r1 H1 HR IH]; intros [|it2 r2] F W; simpl; auto.
  inversion F; subst. inversion W; subst. rewrite <- (IH r2) by assumption. f_equal.
  destruct it1 as [v1|k1 v1], it2 as [v2|k2 v2]; simpl in *; auto.
  apply andb_true_iff in H2 as [A B]. apply andb_true_iff in H4 as [C D]. destruct H1 as [K V].
  rewrite (K k2), (V v2) by assumption. reflexivity.
Qed.

Lemma attrs_eq_key a1 : Forall (fun a => eq_ok (snd a)) a1 ->
  forall a2, Forall (fun a => ff (snd a) = true) a2 -> Forall (fun a => wf (snd a) = true) a2 ->
  attrs_eq veq a1 a2 = attrs_eq veq (map key_attr a1) (map key_attr a2).
Proof.
  induction 1 as [|[n1 v1] r1 H1 HR IH]; intros [|[n2 v2] r2] F W; simpl; auto.
  inversion F; subst. inversion W; subst. simpl in *.
  rewrite <- (IH r2) by assumption. rewrite (H1 v2) by assumption. reflexivity.
Qed.

Ltac zeq :=
  unfold eq_via, to_i32, to_i64, to_u32, to_u64, in_range, I64MIN, I64MAX;
  repeat match goal with
         | |- context [if ?c then _ else _] => destruct c eqn:?
         end;
  try reflexivity; try lia;
  try (symmetry; apply Z.eqb_neq; lia);
  try (rewrite Z.eqb_sym; reflexivity).

Lemma veq_key x : ff x = true -> wf x = true -> eq_ok x.
Proof.
  induction x using value_ind2; intros Fx Wx y Fy Wy; try discriminate Fx;
    try (destruct y; try discriminate Fy; wf_hyps; cbn [key veq]; zeq; fail).
  apply ff_record_inv in Fx as [FA FI]. apply wf_record_inv in Wx as [WA WI].
  destruct y; try discriminate Fy; try reflexivity.
  apply ff_record_inv in Fy as [FA2 FI2]. apply wf_record_inv in Wy as [WA2 WI2].
  rewrite !key_record. cbn [veq].
  assert (Forall item_eq_ok items) as IO.
  { rewrite Forall_forall in *. intros it Ii. specialize (H0 it Ii). specialize (FI it Ii).
    specialize (WI it Ii). destruct it as [v|k v]; simpl in *.
    - now apply H0.
    - apply andb_true_iff in FI as [F1 F2]. apply andb_true_iff in WI as [W1 W2].
      destruct H0 as [A B]. split; [apply A|apply B]; assumption. }
  assert (Forall (fun a => eq_ok (snd a)) attrs) as AO.
  { rewrite Forall_forall in *. intros a Ia. apply H; auto. }
  rewrite <- (items_eq_key items IO items0 FI2 WI2).
  rewrite <- (attrs_eq_key attrs AO attrs0 FA2 WA2). reflexivity.
Qed.

Lemma flat_map_map_ext {A B C} (g : A -> B) (f : B -> list C) (h : A -> list C) l :
  Forall (fun a => f (g a) = h a) l -> flat_map f (map g l) = flat_map h l.
Proof. induction 1 as [|a t H1 HR IH]; simpl; auto. now rewrite H1, IH. Qed.

Lemma vhash_key x : wf x = true -> vhash (key x) = vhash x.
Proof.
  induction x using value_ind2; intros Wx; try reflexivity;
    try (wf_hyps; cbn [key vhash]; unfold fits_i128, in_range;
         match goal with |- context [if ?c then _ else _] => destruct c eqn:E end; [reflexivity|lia]).
  apply wf_record_inv in Wx as [WA WI]. rewrite key_record. cbn [vhash]. rewrite !map_length.
  f_equal. f_equal. f_equal.
  - apply flat_map_map_ext. rewrite Forall_forall in *. intros a Ia. simpl. rewrite H; auto.
  - f_equal. apply flat_map_map_ext. rewrite Forall_forall in *. intros it Ii.
    specialize (H0 it Ii). specialize (WI it Ii). destruct it as [v|k v]; simpl in *.
    + now rewrite H0.
    + apply andb_true_iff in WI as [W1 W2]. destruct H0 as [A B]. now rewrite A, B.
Qed.

(* ------------------------------------------------------------------------------------------ *)
(* Records as one chain of elements (attributes first), compared lexicographically *)

Inductive elem := EA (n : str) (v : value) | EI (it : item).

Definition chain (a : list (str * value)) (i : list item) : list elem :=
  map (fun x => EA (fst x) (snd x)) a ++ map EI i.

Definition elem_cmp (x y : elem) : comparison :=
  match x, y with
  | EA n1 v1, EA n2 v2 => match str_cmp n1 n2 with Eq => vcmp v1 v2 | r => r end
  | EA _ _, EI _ => Lt
  | EI _, EA _ _ => Gt
  | EI a, EI b => item_cmp vcmp a b
  end.

Fixpoint lex (l1 l2 : list elem) : comparison :=
  match l1, l2 with
  | [], [] => Eq
  | [], _ :: _ => Lt
  | _ :: _, [] => Gt
  | x :: r1, y :: r2 => match elem_cmp x y with Eq => lex r1 r2 | r => r end
  end.

Lemma items_cmp_lex i1 i2 : items_cmp vcmp i1 i2 = lex (map EI i1) (map EI i2).
Proof.
  revert i2; induction i1 as [|a r IH]; intros [|b r2]; simpl; auto. now rewrite IH.
Qed.

Lemma record_cmp_lex a1 i1 a2 i2 :
  vcmp (Record a1 i1) (Record a2 i2) = lex (chain a1 i1) (chain a2 i2).
Proof.
  cbn [vcmp]. unfold chain. revert a2; induction a1 as [|[n1 v1] r1 IH]; intros [|[n2 v2] r2]; simpl.
  - apply items_cmp_lex.
  - destruct i1; reflexivity.
  - destruct i2; reflexivity.
  - rewrite IH. destruct (str_cmp n1 n2); auto.
Qed.

Definition canon_elem (e : elem) : bool :=
  match e with EA _ v => canon v | EI it => canon_item it end.

Lemma canon_chain a i : canon (Record a i) = true -> Forall (fun e => canon_elem e = true) (chain a i).
Proof.
  intros H. apply canon_record in H as [HA HI]. unfold chain. apply Forall_app. split.
  - apply Forall_map. eapply Forall_impl; [|exact HA]. auto.
  - apply Forall_map. eapply Forall_impl; [|exact HI]. auto.
Qed.

Lemma chain_inj a1 i1 a2 i2 : chain a1 i1 = chain a2 i2 -> a1 = a2 /\ i1 = i2.
Proof.
  unfold chain. revert a2; induction a1 as [|[n1 v1] r1 IH]; intros [|[n2 v2] r2]; simpl; intros H.
  - split; auto. revert i2 H; induction i1 as [|x t IHi]; intros [|y t2] H; simpl in *; try discriminate; auto.
    inversion H; subst. f_equal. now apply IHi.
  - destruct i1; discriminate.
  - destruct i2; discriminate.
  - inversion H; subst. destruct (IH r2 H3) as [A B]. subst. auto.
Qed.

(* generic facts about [lex], given the corresponding facts about elements *)
Lemma lex_eq l1 : Forall (fun x => forall y, canon_elem y = true -> (elem_cmp x y = Eq <-> x = y)) l1 ->
  forall l2, Forall (fun e => canon_elem e = true) l2 -> (lex l1 l2 = Eq <-> l1 = l2).
Proof.
  induction 1 as [|x r1 H1 HR IH]; intros [|y r2] C; simpl; split; intros H; try discriminate; auto.
  - inversion C; subst. destruct (elem_cmp x y) eqn:E; try discriminate.
    apply H1 in E; auto. subst. f_equal. now apply IH.
  - inversion H; subst. inversion C; subst.
    assert (elem_cmp y y = Eq) as -> by (now apply H1). now apply IH.
Qed.

Lemma lex_antisym l1 : Forall (fun x => forall y, canon_elem y = true -> elem_cmp y x = CompOpp (elem_cmp x y)) l1 ->
  forall l2, Forall (fun e => canon_elem e = true) l2 -> lex l2 l1 = CompOpp (lex l1 l2).
Proof.
  induction 1 as [|x r1 H1 HR IH]; intros [|y r2] C; simpl; auto.
  inversion C; subst. rewrite (H1 y) by assumption. destruct (elem_cmp x y); simpl; auto.
Qed.

Lemma lex_trans l1 :
  (forall u v, canon_elem u = true -> canon_elem v = true -> (elem_cmp u v = Eq <-> u = v)) ->
  Forall (fun e => canon_elem e = true) l1 ->
  Forall (fun x => forall y z, canon_elem y = true -> canon_elem z = true ->
                   elem_cmp x y = Lt -> elem_cmp y z = Lt -> elem_cmp x z = Lt) l1 ->
  forall l2 l3, Forall (fun e => canon_elem e = true) l2 -> Forall (fun e => canon_elem e = true) l3 ->
  lex l1 l2 = Lt -> lex l2 l3 = Lt -> lex l1 l3 = Lt.
Proof.
  intros HEq C1 HT. revert C1. induction HT as [|x r1 H1 HR IH]; intros C1 [|y r2] [|z r3] C2 C3; simpl; auto;
    try discriminate.
  inversion C1; subst. inversion C2; subst. inversion C3; subst.
  destruct (elem_cmp x y) eqn:Exy; try discriminate.
  - apply HEq in Exy; auto. subst y. destruct (elem_cmp x z) eqn:Exz; auto. intros A B. apply (IH H3 r2 r3); auto.
  - destruct (elem_cmp y z) eqn:Eyz; try discriminate.
    + apply HEq in Eyz; auto. subst z. now rewrite Exy.
    + intros _ _. now rewrite (H1 y z).
Qed.

Lemma chain_Forall (Q : elem -> Prop) a i :
  Forall (fun p => Q (EA (fst p) (snd p))) a -> Forall (fun it => Q (EI it)) i -> Forall Q (chain a i).
Proof.
  intros HA HI. unfold chain. apply Forall_app. split; apply Forall_map; assumption.
Qed.

(* ---- K2: on canonical values, cmp = Eq exactly for identical values ---- *)
Definition P_eq (v : value) : Prop :=
  canon v = true -> forall y, canon y = true -> (vcmp v y = Eq <-> v = y).

Lemma elem_eq_EA n v : P_eq v -> canon v = true ->
  forall y, canon_elem y = true -> (elem_cmp (EA n v) y = Eq <-> EA n v = y).
Proof.
  intros HP Cv [n2 v2|it] Cy; simpl in *.
  - split; intros H.
    + destruct (str_cmp n n2) eqn:E; try discriminate. apply str_cmp_eq in E. apply HP in H; auto. now subst.
    + inversion H; subst. assert (str_cmp n2 n2 = Eq) as -> by now apply str_cmp_eq. now apply HP.
  - split; intros H; discriminate.
Qed.

Lemma elem_eq_EI it : item_P P_eq it -> canon_item it = true ->
  forall y, canon_elem y = true -> (elem_cmp (EI it) y = Eq <-> EI it = y).
Proof.
  intros HP Ci [n2 v2|it2] Cy; simpl in *.
  - split; intros H; discriminate.
  - destruct it as [v|k v], it2 as [v2|k2 v2]; simpl in *; try (split; intros H; discriminate).
    + split; intros H.
      * apply HP in H; auto. now subst.
      * inversion H; subst. now apply HP.
    + apply andb_true_iff in Ci as [C1 C2]. apply andb_true_iff in Cy as [C3 C4]. destruct HP as [HK HV].
      split; intros H.
      * destruct (vcmp k k2) eqn:E; try discriminate. apply HK in E; auto. apply HV in H; auto. now subst.
      * inversion H; subst. assert (vcmp k2 k2 = Eq) as -> by (now apply HK). now apply HV.
Qed.

Lemma canon_cmp_eq x : P_eq x.
Proof.
  induction x using value_ind2; intros Cx y Cy; try discriminate Cx.
  - destruct y; try discriminate Cy; simpl; split; intros E; try discriminate; auto.
  - destruct y; try discriminate Cy; simpl; split; intros E; try discriminate; auto.
    + destruct b, b0; try discriminate; auto.
    + inversion E; subst. destruct b0; auto.
  - destruct y; try discriminate Cy; simpl; split; intros E; try discriminate; auto.
    + apply Z.compare_eq_iff in E. now subst.
    + inversion E; subst. apply Z.compare_refl.
  - destruct y; try discriminate Cy; simpl; split; intros E; try discriminate; auto.
    + apply str_cmp_eq in E. now subst.
    + inversion E; subst. now apply str_cmp_eq.
  - destruct y; try discriminate Cy; simpl; split; intros E; try discriminate; auto.
    + apply str_cmp_eq in E. now subst.
    + inversion E; subst. now apply str_cmp_eq.
  - destruct y; try discriminate Cy; try (simpl; split; intros E; discriminate).
    rewrite record_cmp_lex. pose proof Cx as Cx'. apply canon_record in Cx' as [CA CI].
    assert (Forall (fun e => forall y, canon_elem y = true -> (elem_cmp e y = Eq <-> e = y)) (chain attrs items)) as HE.
    { apply chain_Forall.
      - rewrite Forall_forall in *. intros a Ia. apply elem_eq_EA; auto.
      - rewrite Forall_forall in *. intros it Ii. apply elem_eq_EI; auto. }
    pose proof (lex_eq _ HE _ (canon_chain _ _ Cy)) as L. rewrite L. split; intros E.
    + apply chain_inj in E as [A B]. now subst.
    + inversion E; subst. reflexivity.
Qed.

(* ---- K3: antisymmetry on canonical values ---- *)
Definition P_anti (v : value) : Prop :=
  canon v = true -> forall y, canon y = true -> vcmp y v = CompOpp (vcmp v y).

Lemma elem_anti_EA n v : P_anti v -> canon v = true ->
  forall y, canon_elem y = true -> elem_cmp y (EA n v) = CompOpp (elem_cmp (EA n v) y).
Proof.
  intros HP Cv [n2 v2|it] Cy; simpl in *; auto.
  rewrite (str_cmp_antisym n n2). destruct (str_cmp n n2); simpl; auto.
Qed.

Lemma elem_anti_EI it : item_P P_anti it -> canon_item it = true ->
  forall y, canon_elem y = true -> elem_cmp y (EI it) = CompOpp (elem_cmp (EI it) y).
Proof.
  intros HP Ci [n2 v2|it2] Cy; simpl in *; auto.
  destruct it as [v|k v], it2 as [v2|k2 v2]; simpl in *; auto.
  apply andb_true_iff in Ci as [C1 C2]. apply andb_true_iff in Cy as [C3 C4]. destruct HP as [HK HV].
  rewrite (HK C1 k2 C3). destruct (vcmp k k2); simpl; auto.
Qed.

Lemma canon_cmp_antisym x : P_anti x.
Proof.
  induction x using value_ind2; intros Cx y Cy; try discriminate Cx;
    try (destruct y; try discriminate Cy; simpl; auto; fail).
  - destruct y; try discriminate Cy; simpl; auto. destruct b, b0; auto.
  - destruct y; try discriminate Cy; simpl; auto. apply Z.compare_antisym.
  - destruct y; try discriminate Cy; simpl; auto. apply str_cmp_antisym.
  - destruct y; try discriminate Cy; simpl; auto. apply str_cmp_antisym.
  - destruct y; try discriminate Cy; try (simpl; auto; fail).
    rewrite !record_cmp_lex. pose proof Cx as Cx'. apply canon_record in Cx' as [CA CI].
    apply lex_antisym; [|now apply canon_chain]. apply chain_Forall.
    + rewrite Forall_forall in *. intros a Ia. apply elem_anti_EA; auto.
    + rewrite Forall_forall in *. intros it Ii. apply elem_anti_EI; auto.
Qed.

(* ---- K4: transitivity on canonical values ---- *)
Definition P_trans (v : value) : Prop :=
  canon v = true -> forall y z, canon y = true -> canon z = true ->
  vcmp v y = Lt -> vcmp y z = Lt -> vcmp v z = Lt.

Lemma elem_eq_all u v : canon_elem u = true -> canon_elem v = true -> (elem_cmp u v = Eq <-> u = v).
Proof.
  intros Cu Cv. destruct u as [n w|it].
  - apply elem_eq_EA; auto. apply canon_cmp_eq.
  - apply elem_eq_EI; auto. destruct it as [w|k w]; simpl; [apply canon_cmp_eq | split; apply canon_cmp_eq].
Qed.

Lemma elem_trans_EA n v : P_trans v -> canon v = true ->
  forall y z, canon_elem y = true -> canon_elem z = true ->
  elem_cmp (EA n v) y = Lt -> elem_cmp y z = Lt -> elem_cmp (EA n v) z = Lt.
Proof.
  intros HP Cv [n2 v2|it2] [n3 v3|it3] Cy Cz; simpl in *; auto; try discriminate.
  destruct (str_cmp n n2) eqn:E12; try discriminate; destruct (str_cmp n2 n3) eqn:E23; try discriminate; intros A B.
  - apply str_cmp_eq in E12, E23. subst. assert (str_cmp n3 n3 = Eq) as -> by now apply str_cmp_eq.
    apply (HP Cv v2 v3); auto.
  - apply str_cmp_eq in E12. subst. now rewrite E23.
  - apply str_cmp_eq in E23. subst. now rewrite E12.
  - now rewrite (str_cmp_trans _ _ _ E12 E23).
Qed.

Lemma elem_trans_EI it : item_P P_trans it -> canon_item it = true ->
  forall y z, canon_elem y = true -> canon_elem z = true ->
  elem_cmp (EI it) y = Lt -> elem_cmp y z = Lt -> elem_cmp (EI it) z = Lt.
Proof.
  intros HP Ci [n2 v2|it2] [n3 v3|it3] Cy Cz; simpl in *; auto; try discriminate.
  destruct it as [v|k v], it2 as [w2|k2 w2], it3 as [w3|k3 w3]; simpl in *; auto; try discriminate.
  - intros A B. apply (HP Ci w2 w3); auto.
  - apply andb_true_iff in Ci as [C1 C2]. apply andb_true_iff in Cy as [C3 C4].
    apply andb_true_iff in Cz as [C5 C6]. destruct HP as [HK HV].
    destruct (vcmp k k2) eqn:E12; try discriminate; destruct (vcmp k2 k3) eqn:E23; try discriminate; intros A B.
    + apply canon_cmp_eq in E12, E23; auto. subst.
      assert (vcmp k3 k3 = Eq) as -> by (now apply canon_cmp_eq). apply (HV C2 w2 w3); auto.
    + apply canon_cmp_eq in E12; auto. subst. now rewrite E23.
    + apply canon_cmp_eq in E23; auto. subst. now rewrite E12.
    + now rewrite (HK C1 k2 k3 C3 C5 E12 E23).
Qed.

Lemma canon_cmp_trans x : P_trans x.
Proof.
  induction x using value_ind2; intros Cx y' z' Cy Cz; try discriminate Cx;
    try (destruct y'; try discriminate Cy; destruct z'; try discriminate Cz; simpl; auto; discriminate).
  - destruct y'; try discriminate Cy; destruct z'; try discriminate Cz; simpl; auto; try discriminate.
    destruct b, b0, b1; auto; discriminate.
  - destruct y'; try discriminate Cy; destruct z'; try discriminate Cz; simpl; auto; try discriminate.
    intros A B. rewrite Z.compare_lt_iff in *. lia.
  - destruct y'; try discriminate Cy; destruct z'; try discriminate Cz; simpl; auto; try discriminate.
    apply str_cmp_trans.
  - destruct y'; try discriminate Cy; destruct z'; try discriminate Cz; simpl; auto; try discriminate.
    apply str_cmp_trans.
  - destruct y'; try discriminate Cy; destruct z'; try discriminate Cz;
      try (simpl; auto; discriminate).
    rewrite !record_cmp_lex. pose proof Cx as Cx'. apply canon_record in Cx' as [CA CI].
    apply lex_trans; try (now apply canon_chain).
    + apply elem_eq_all.
    + apply chain_Forall.
      * rewrite Forall_forall in *. intros a Ia. apply elem_trans_EA; auto.
      * rewrite Forall_forall in *. intros it Ii. apply elem_trans_EI; auto.
Qed.

(* ---- K1: on canonical values, == holds exactly for identical values ---- *)
Definition P_veq (v : value) : Prop :=
  canon v = true -> forall y, canon y = true -> (veq v y = true <-> v = y).

Lemma attrs_eq_iff a1 : Forall (fun a => P_veq (snd a)) a1 -> Forall (fun a => canon (snd a) = true) a1 ->
  forall a2, Forall (fun a => canon (snd a) = true) a2 -> (attrs_eq veq a1 a2 = true <-> a1 = a2).
Proof.
  induction 1 as [|[n1 v1] r1 H1 HR IH]; intros C1 [|[n2 v2] r2] C2; simpl; split; intros H;
    try discriminate; auto.
  - inversion C1; subst. inversion C2; subst. simpl in *.
    apply andb_true_iff in H as [H HT]. apply andb_true_iff in H as [HN HV].
    apply str_eqb_eq in HN. apply H1 in HV; auto. apply IH in HT; auto. now subst.
  - inversion H; subst. inversion C1; subst. simpl in *.
    assert (str_eqb n2 n2 = true) as -> by now apply str_eqb_eq.
    assert (veq v2 v2 = true) as -> by (now apply H1). simpl. now apply IH.
Qed.

Lemma items_eq_iff i1 : Forall (item_P P_veq) i1 -> Forall (fun it => canon_item it = true) i1 ->
  forall i2, Forall (fun it => canon_item it = true) i2 -> (items_eq veq i1 i2 = true <-> i1 = i2).
Proof.
  induction 1 as [|it1 r1 H1 HR IH]; intros C1 [|it2 r2] C2; simpl; split; intros H;
    try discriminate; auto.
  - inversion C1; subst. inversion C2; subst.
    apply andb_true_iff in H as [HI HT]. apply IH in HT; auto. subst. f_equal.
    destruct it1 as [v|k v], it2 as [v2|k2 v2]; simpl in *; try discriminate.
    + apply H1 in HI; auto. now subst.
    + repeat match goal with Hc : _ && _ = true |- _ => apply andb_true_iff in Hc; destruct Hc end.
      destruct H1 as [HK HV].
      match goal with E1 : veq k k2 = true, E2 : veq v v2 = true |- _ =>
        apply HK in E1; auto; apply HV in E2; auto; now subst end.
  - inversion H; subst. inversion C1; subst.
    assert (item_eq veq it2 it2 = true) as ->.
    { destruct it2 as [v|k v]; simpl in *.
      - now apply H1.
      - repeat match goal with Hc : _ && _ = true |- _ => apply andb_true_iff in Hc; destruct Hc end.
        destruct H1 as [HK HV]. apply andb_true_iff. split; [now apply HK | now apply HV]. }
    simpl. now apply IH.
Qed.

Lemma canon_veq x : P_veq x.
Proof.
  induction x using value_ind2; intros Cx y Cy; try discriminate Cx.
  - destruct y; try discriminate Cy; simpl; split; intros E; try discriminate; auto.
  - destruct y; try discriminate Cy; simpl; split; intros E; try discriminate; auto.
    + apply Bool.eqb_prop in E. now subst.
    + inversion E; subst. apply Bool.eqb_reflx.
  - destruct y; try discriminate Cy; simpl; split; intros E; try discriminate; auto.
    + apply Z.eqb_eq in E. now subst.
    + inversion E; subst. apply Z.eqb_refl.
  - destruct y; try discriminate Cy; simpl; split; intros E; try discriminate; auto.
    + apply str_eqb_eq in E. now subst.
    + inversion E; subst. now apply str_eqb_eq.
  - destruct y; try discriminate Cy; simpl; split; intros E; try discriminate; auto.
    + apply str_eqb_eq in E. now subst.
    + inversion E; subst. now apply str_eqb_eq.
  - destruct y; try discriminate Cy; try (simpl; split; intros E; discriminate).
    pose proof Cx as Cx'. apply canon_record in Cx' as [CA CI].
    pose proof Cy as Cy'. apply canon_record in Cy' as [CA2 CI2].
    cbn [veq]. rewrite andb_true_iff.
    rewrite (attrs_eq_iff attrs H CA attrs0 CA2), (items_eq_iff items H0 CI items0 CI2).
    split; [intros [A B]; now subst | intros E; inversion E; auto].
Qed.

(* ------------------------------------------------------------------------------------------ *)
(* The laws, for all well-formed values that contain no Float64 *)

Definition good (x : value) : Prop := ff x = true /\ wf x = true.

Lemma veq_iff_key x y : good x -> good y -> (veq x y = true <-> key x = key y).
Proof.
  intros [Fx Wx] [Fy Wy]. rewrite (veq_key x Fx Wx y Fy Wy).
  apply canon_veq; now apply key_canon.
Qed.

Lemma vcmp_eq_iff_key x y : good x -> good y -> (vcmp x y = Eq <-> key x = key y).
Proof.
  intros [Fx Wx] [Fy Wy]. rewrite (vcmp_key x Fx Wx y Fy Wy).
  apply canon_cmp_eq; now apply key_canon.
Qed.

Theorem eq_reflexive x : good x -> veq x x = true.
Proof. intros G. now apply veq_iff_key. Qed.

Theorem eq_symmetric x y : good x -> good y -> veq x y = veq y x.
Proof.
  intros Gx Gy. destruct (veq x y) eqn:E1; destruct (veq y x) eqn:E2; auto.
  - apply veq_iff_key in E1; auto. symmetry in E1. apply veq_iff_key in E1; auto. congruence.
  - apply veq_iff_key in E2; auto. symmetry in E2. apply veq_iff_key in E2; auto. congruence.
Qed.

Theorem eq_transitive x y z : good x -> good y -> good z ->
  veq x y = true -> veq y z = true -> veq x z = true.
Proof.
  intros Gx Gy Gz A B. apply veq_iff_key in A, B; auto. apply veq_iff_key; auto. congruence.
Qed.

Theorem eq_implies_same_hash x y : good x -> good y -> veq x y = true -> vhash x = vhash y.
Proof.
  intros Gx Gy A. apply veq_iff_key in A; auto. destruct Gx as [_ Wx], Gy as [_ Wy].
  rewrite <- (vhash_key x Wx), <- (vhash_key y Wy). now rewrite A.
Qed.

Theorem cmp_equal_iff_eq x y : good x -> good y -> (vcmp x y = Eq <-> veq x y = true).
Proof. intros Gx Gy. rewrite vcmp_eq_iff_key, veq_iff_key; tauto. Qed.

Theorem cmp_antisymmetric x y : good x -> good y -> vcmp y x = CompOpp (vcmp x y).
Proof.
  intros [Fx Wx] [Fy Wy]. rewrite (vcmp_key x Fx Wx y Fy Wy), (vcmp_key y Fy Wy x Fx Wx).
  apply canon_cmp_antisym; now apply key_canon.
Qed.

Theorem cmp_transitive x y z : good x -> good y -> good z ->
  vcmp x y = Lt -> vcmp y z = Lt -> vcmp x z = Lt.
Proof.
  intros [Fx Wx] [Fy Wy] [Fz Wz].
  rewrite (vcmp_key x Fx Wx y Fy Wy), (vcmp_key y Fy Wy z Fz Wz), (vcmp_key x Fx Wx z Fz Wz).
  apply canon_cmp_trans; now apply key_canon.
Qed.

Theorem cmp_respects_equal x y z : good x -> good y -> good z ->
  vcmp x y = Eq -> vcmp x z = vcmp y z /\ vcmp z x = vcmp z y.
Proof.
  intros Gx Gy Gz A. apply vcmp_eq_iff_key in A; auto.
  destruct Gx as [Fx Wx], Gy as [Fy Wy], Gz as [Fz Wz].
  rewrite (vcmp_key x Fx Wx z Fz Wz), (vcmp_key y Fy Wy z Fz Wz),
          (vcmp_key z Fz Wz x Fx Wx), (vcmp_key z Fz Wz y Fy Wy), A. auto.
Qed.

Example good_nonvacuous :
  let x := Record [([97%N], Int32 1)] [Slot (UInt64 2) (BigInt 3); ValueItem (Text [98%N])] in
  let y := Record [([97%N], UInt64 1)] [Slot (Int32 2) (BigUint 3); ValueItem (Text [98%N])] in
  good x /\ good y /\ x <> y /\ veq x y = true /\ vcmp x y = Eq /\ vhash x = vhash y.
Proof. repeat split; try reflexivity. discriminate. Qed.
