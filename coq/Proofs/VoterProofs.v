(* Proofs about Model/Voter.v (timeout_coord).  Stdlib + lia style. *)
From SwimV Require Import Model.Voter.

(* ------------------------------------------------------------------------------------------ *)
(* Bit-vector lemmas *)

Lemma flags_eqb_eq a b : flags_eqb a b = true <-> a = b.
Proof.
  revert b; induction a as [|x a IH]; intros [|y b]; simpl; split; intro H;
    try reflexivity; try discriminate.
  - apply andb_true_iff in H as [H1 H2]. apply Bool.eqb_prop in H1. apply IH in H2. now subst.
  - inversion H; subst. rewrite Bool.eqb_reflx. simpl. now apply IH.
Qed.

Lemma flags_eqb_refl a : flags_eqb a a = true.
Proof. now apply flags_eqb_eq. Qed.

Lemma set_bit_length i b f : length (set_bit i b f) = length f.
Proof. revert i; induction f as [|h t IH]; intros [|i]; simpl; auto. Qed.

Lemma set_nth_length {A} i (x : A) l : length (set_nth i x l) = length l.
Proof. revert i; induction l as [|h t IH]; intros [|i]; simpl; auto. Qed.

Lemma get_set_same i b f : i < length f -> get_bit i (set_bit i b f) = b.
Proof.
  unfold get_bit. revert i; induction f as [|h t IH]; intros [|i] H; simpl in *; try lia; auto.
  apply IH; lia.
Qed.

Lemma get_set_other i j b f : i <> j -> get_bit j (set_bit i b f) = get_bit j f.
Proof.
  unfold get_bit. revert i j; induction f as [|h t IH]; intros [|i] [|j] H; simpl; auto; try lia.
Qed.

Lemma nth_set_nth_same {A} i (x d : A) l : i < length l -> nth i (set_nth i x l) d = x.
Proof. revert i; induction l as [|h t IH]; intros [|i] H; simpl in *; try lia; auto. apply IH; lia. Qed.

Lemma nth_set_nth_other {A} i j (x d : A) l : i <> j -> nth j (set_nth i x l) d = nth j l d.
Proof. revert i j; induction l as [|h t IH]; intros [|i] [|j] H; simpl; auto; try lia. Qed.

Lemma all_set_iff f : all_set f = true <-> forall i, i < length f -> get_bit i f = true.
Proof.
  unfold all_set, get_bit. induction f as [|h t IH]; simpl.
  - split; auto. intros _ i H; lia.
  - rewrite andb_true_iff, IH. split.
    + intros [Hh Ht] [|i] Hi; auto. apply Ht; lia.
    + intros H. split. apply (H 0); lia. intros i Hi. apply (H (S i)); lia.
Qed.

Lemma all_set_set_true i f : all_set f = true -> all_set (set_bit i true f) = true.
Proof.
  unfold all_set. revert i; induction f as [|h t IH]; intros [|i]; simpl; auto.
  - rewrite !andb_true_iff; tauto.
  - rewrite !andb_true_iff. intros [? ?]; split; auto.
Qed.

Lemma all_set_ones n : all_set (ones n) = true.
Proof. unfold all_set, ones. induction n; simpl; auto. Qed.

Lemma length_zero n : length (zero n) = n.  Proof. apply repeat_length. Qed.
Lemma length_ones n : length (ones n) = n.  Proof. apply repeat_length. Qed.

Lemma get_bit_zero n i : get_bit i (zero n) = false.
Proof.
  unfold get_bit, zero. revert i; induction n; intros [|i]; simpl; auto.
Qed.

Lemma get_bit_ones n i : i < n -> get_bit i (ones n) = true.
Proof.
  unfold get_bit, ones. revert i; induction n; intros [|i] H; simpl; auto; try lia. apply IHn; lia.
Qed.

(* extensionality of bit vectors *)
Lemma flags_ext a b : length a = length b -> (forall i, i < length a -> get_bit i a = get_bit i b) -> a = b.
Proof.
  unfold get_bit. revert b; induction a as [|x a IH]; intros [|y b] HL H; simpl in *; try lia; auto.
  f_equal. apply (H 0); lia. apply IH. lia. intros i Hi. apply (H (S i)); lia.
Qed.

(* f = inverse n i  <->  every bit but i is set and bit i is clear *)
Lemma eq_inverse_iff n i f : length f = n -> i < n ->
  (f = inverse n i <-> get_bit i f = false /\ all_set (set_bit i true f) = true).
Proof.
  intros HL Hi. unfold inverse. split.
  - intros ->. split.
    + apply get_set_same. now rewrite length_ones.
    + apply all_set_iff. intros j Hj. rewrite !set_bit_length, length_ones in Hj.
      destruct (Nat.eq_dec i j) as [->|Hne].
      * apply get_set_same. now rewrite set_bit_length, length_ones.
      * rewrite !get_set_other by assumption. now apply get_bit_ones.
  - intros [Hb Ha]. apply flags_ext.
    + now rewrite set_bit_length, length_ones.
    + intros j Hj. destruct (Nat.eq_dec i j) as [->|Hne].
      * rewrite get_set_same by (rewrite length_ones; lia). exact Hb.
      * rewrite get_set_other by congruence. rewrite get_bit_ones by lia.
        rewrite all_set_iff in Ha. specialize (Ha j). rewrite set_bit_length in Ha.
        rewrite get_set_other in Ha by congruence. now apply Ha.
Qed.

Lemma all_set_get i f : all_set f = true -> i < length f -> get_bit i f = true.
Proof. intros H. now apply all_set_iff. Qed.

Lemma not_all_set_clear i f : i < length f -> all_set (set_bit i false f) = false.
Proof.
  intros Hi. destruct (all_set (set_bit i false f)) eqn:E; auto.
  apply all_set_get with (i := i) in E; [|now rewrite set_bit_length].
  now rewrite get_set_same in E.
Qed.

(* ------------------------------------------------------------------------------------------ *)
(* The invariant *)

Definition voter_ok (s : state) (i : nat) : Prop :=
  let v := get_voter s i in
  voted v = get_bit i (shared s) /\
  (dropped v = true -> voted v = true /\ loaded v = None) /\
  (forall cur, loaded v = Some cur ->
     voted v = true /\ length cur = n_parties s /\ all_set cur = false /\ n_parties s <> 2).

Definition Inv (s : state) : Prop :=
  2 <= n_parties s /\ length (shared s) = n_parties s /\ length (voters s) = n_parties s /\
  forall i, i < n_parties s -> voter_ok s i.

Lemma get_voter_init n i :
  get_voter (init n) i = {| voted := false; loaded := None; dropped := false |}.
Proof.
  unfold get_voter, init; simpl.
  generalize {| voted := false; loaded := None; dropped := false |} as d. intros d.
  revert i; induction n; intros [|i]; simpl; auto.
Qed.

Lemma inv_init n : 2 <= n -> Inv (init n).
Proof.
  intros Hn. unfold Inv. split; [exact Hn|]. split; [apply length_zero|].
  split; [apply repeat_length|]. intros i Hi. unfold voter_ok. rewrite get_voter_init. simpl.
  rewrite get_bit_zero. repeat split; auto; discriminate.
Qed.

Definition mstep_en (s : state) (i : nat) (m : micro) : state * option vote_result :=
  if enabled s i m then mstep s i m else (s, None).

Lemma get_voter_upd_same s i f v : i < length (voters s) -> get_voter (upd s i f v) i = v.
Proof. intros H. unfold get_voter, upd; simpl. now apply nth_set_nth_same. Qed.

Lemma get_voter_upd_other s i j f v : i <> j -> get_voter (upd s i f v) j = get_voter s j.
Proof. intros H. unfold get_voter, upd; simpl. now apply nth_set_nth_other. Qed.

Ltac inv_tac :=
  match goal with
  | H : Inv _ |- _ => destruct H as (Hn & Hlf & Hlv & Hvo)
  end.

(* Party j's view of a step by party i that leaves every bit but i unchanged. *)
Lemma voter_ok_frame s i j f v :
  i <> j -> j < n_parties s -> voter_ok s j ->
  get_bit j f = get_bit j (shared s) ->
  voter_ok (upd s i f v) j.
Proof.
  intros Hne Hj (H1 & H2 & H3) Hb. unfold voter_ok. rewrite get_voter_upd_other by assumption.
  simpl. rewrite Hb. auto.
Qed.

Lemma enabled_lt s i m : enabled s i m = true -> i < n_parties s.
Proof.
  unfold enabled. intros H. apply andb_true_iff in H as [H _]. apply andb_true_iff in H as [H _].
  now apply Nat.ltb_lt in H.
Qed.

Lemma enabled_not_dropped s i m : enabled s i m = true -> dropped (get_voter s i) = false.
Proof.
  unfold enabled. intros H. apply andb_true_iff in H as [H _]. apply andb_true_iff in H as [_ H].
  now apply negb_true_iff in H.
Qed.

Lemma enabled_shape s i m : enabled s i m = true ->
  match m, loaded (get_voter s i) with
  | MRescindCas, Some _ => True
  | MRescindCas, None => False
  | _, Some _ => False
  | MVote, None => True
  | MDrop, None => True
  | MRescind2, None => voted (get_voter s i) = true /\ n_parties s = 2
  | MRescindLoad, None => voted (get_voter s i) = true /\ n_parties s <> 2
  | MRescindNop, None => voted (get_voter s i) = false
  end.
Proof.
  unfold enabled. intros H. apply andb_true_iff in H as [_ H].
  destruct m, (loaded (get_voter s i)); try discriminate; auto.
  - apply andb_true_iff in H as [H1 H2]. apply Nat.eqb_eq in H2. auto.
  - apply andb_true_iff in H as [H1 H2]. apply negb_true_iff in H2. apply Nat.eqb_neq in H2. auto.
  - now apply negb_true_iff in H.
Qed.

Lemma inv_upd s i f v :
  Inv s -> i < n_parties s -> length f = n_parties s ->
  (forall j, j <> i -> get_bit j f = get_bit j (shared s)) ->
  voted v = get_bit i f ->
  (dropped v = true -> voted v = true /\ loaded v = None) ->
  (forall cur, loaded v = Some cur ->
     voted v = true /\ length cur = n_parties s /\ all_set cur = false /\ n_parties s <> 2) ->
  Inv (upd s i f v).
Proof.
  intros HI Hi Hf Hfr H1 H2 H3. inv_tac. unfold Inv. simpl. rewrite set_nth_length.
  split; [exact Hn|]. split; [exact Hf|]. split; [exact Hlv|].
  intros j Hj. destruct (Nat.eq_dec i j) as [<-|Hne].
  - unfold voter_ok. rewrite get_voter_upd_same by lia. simpl. auto.
  - apply voter_ok_frame; auto.
Qed.

(* Every enabled micro-step preserves the invariant. *)
Lemma mstep_inv s i m : Inv s -> enabled s i m = true -> Inv (fst (mstep s i m)).
Proof.
  intros HI En. pose proof (enabled_lt _ _ _ En) as Hi.
  pose proof (enabled_shape _ _ _ En) as Sh. pose proof (enabled_not_dropped _ _ _ En) as Hnd.
  pose proof HI as HI0.
  inv_tac. pose proof (Hvo i Hi) as (Hv1 & Hv2 & Hv3).
  unfold mstep. destruct m.
  - (* MVote *)
    simpl. apply inv_upd; simpl;
      [ assumption | assumption
      | now rewrite set_bit_length
      | intros j Hne; (apply get_set_other; congruence)
      | now rewrite get_set_same by lia
      | intros D; congruence
      | discriminate ].
  - (* MRescind2 *)
    destruct (loaded (get_voter s i)) eqn:EL; [contradiction|]. destruct Sh as [Sv S2].
    destruct (flags_eqb (shared s) (onehot (n_parties s) i)) eqn:E; simpl; [|assumption].
    apply flags_eqb_eq in E. apply inv_upd; simpl;
      [ assumption | assumption
      | apply length_zero
      | intros j Hne; rewrite get_bit_zero, E; unfold onehot;
        rewrite get_set_other by congruence; now rewrite get_bit_zero
      | now rewrite get_bit_zero
      | intros D; congruence
      | discriminate ].
  - (* MRescindLoad *)
    destruct (loaded (get_voter s i)) eqn:EL; [contradiction|]. destruct Sh as [Sv S2].
    destruct (all_set (shared s)) eqn:E; simpl; apply inv_upd; simpl;
      [ assumption | assumption | assumption | reflexivity | assumption
      | intros D; congruence | discriminate
      | assumption | assumption | assumption | reflexivity | assumption
      | intros D; congruence
      | intros cur Hc; inversion Hc; subst; auto ].
  - (* MRescindCas *)
    destruct (loaded (get_voter s i)) as [cur|] eqn:EL; [|contradiction].
    destruct (Hv3 cur eq_refl) as (Cv & Cl & Ca & Cn).
    destruct (flags_eqb (shared s) cur) eqn:E; simpl; apply inv_upd; simpl;
      [ assumption | assumption
      | rewrite set_bit_length; exact Cl
      | apply flags_eqb_eq in E; subst cur; intros j Hne; (apply get_set_other; congruence)
      | rewrite get_set_same by lia; reflexivity
      | intros D; congruence
      | discriminate
      | assumption | assumption | assumption | reflexivity | assumption
      | intros D; congruence
      | discriminate ].
  - (* MRescindNop *) simpl. assumption.
  - (* MDrop *)
    destruct (loaded (get_voter s i)) eqn:EL; [contradiction|].
    destruct (voted (get_voter s i)) eqn:EV; simpl; apply inv_upd; simpl;
      [ assumption | assumption | assumption | reflexivity | congruence
      | auto | discriminate
      | assumption | assumption
      | now rewrite set_bit_length
      | intros j Hne; (apply get_set_other; congruence)
      | now rewrite get_set_same by lia
      | auto | discriminate ].
Qed.

Lemma mstep_en_inv s i m : Inv s -> Inv (fst (mstep_en s i m)).
Proof.
  intros H. unfold mstep_en. destruct (enabled s i m) eqn:E; [now apply mstep_inv|exact H].
Qed.

(* Schedules: any list of (party, micro-step); disabled steps are no-ops. *)
Definition sched := list (nat * micro).

Fixpoint exec (s : state) (sc : sched) : state :=
  match sc with
  | [] => s
  | (i, m) :: rest => exec (fst (mstep_en s i m)) rest
  end.

Lemma exec_inv sc : forall s, Inv s -> Inv (exec s sc).
Proof.
  induction sc as [|[i m] rest IH]; simpl; intros s H; auto. apply IH. now apply mstep_en_inv.
Qed.

Lemma exec_app a b s : exec s (a ++ b) = exec (exec s a) b.
Proof. revert s; induction a as [|[i m] a IH]; simpl; intros; auto. Qed.

(* ------------------------------------------------------------------------------------------ *)
(* T1: unanimity, once reached, is never undone. *)

Lemma unanimity_stable_step s i m :
  Inv s -> all_set (shared s) = true -> all_set (shared (fst (mstep_en s i m))) = true.
Proof.
  intros HI Ha. unfold mstep_en. destruct (enabled s i m) eqn:En; [|exact Ha].
  pose proof (enabled_lt _ _ _ En) as Hi. pose proof (enabled_shape _ _ _ En) as Sh.
  inv_tac. pose proof (Hvo i Hi) as (Hv1 & Hv2 & Hv3). unfold mstep. destruct m.
  - simpl. now apply all_set_set_true.
  - destruct (flags_eqb (shared s) (onehot (n_parties s) i)) eqn:E; simpl; auto.
    exfalso. apply flags_eqb_eq in E. destruct (loaded (get_voter s i)); [contradiction|].
    destruct Sh as [_ S2]. (* n = 2: onehot has a clear bit *)
    assert (Hj : exists j, j < n_parties s /\ j <> i) by (exists (1 - i); lia).
    destruct Hj as (j & Hj & Hne). apply all_set_get with (i := j) in Ha; [|lia].
    rewrite E in Ha. unfold onehot in Ha. rewrite get_set_other in Ha by congruence.
    now rewrite get_bit_zero in Ha.
  - rewrite Ha. simpl. exact Ha.
  - destruct (loaded (get_voter s i)) as [cur|] eqn:EL; [|contradiction].
    destruct (Hv3 cur eq_refl) as (Cv & Cl & Ca & Cn).
    destruct (flags_eqb (shared s) cur) eqn:E; simpl; auto.
    apply flags_eqb_eq in E. congruence.
  - simpl. exact Ha.
  - destruct (voted (get_voter s i)); simpl; auto. now apply all_set_set_true.
Qed.

Theorem unanimity_stable sc : forall s,
  Inv s -> receiver_ready s = true -> receiver_ready (exec s sc) = true.
Proof.
  unfold receiver_ready. induction sc as [|[i m] rest IH]; simpl; intros s HI Ha; auto.
  apply IH. now apply mstep_en_inv. now apply unanimity_stable_step.
Qed.

(* T7: the receiver is ready exactly when every party has an outstanding vote. *)
Theorem ready_iff_all_voting s : Inv s ->
  (receiver_ready s = true <-> forall i, i < n_parties s -> voted (get_voter s i) = true).
Proof.
  intros HI. inv_tac. unfold receiver_ready. rewrite all_set_iff. rewrite Hlf. split.
  - intros H i Hi. destruct (Hvo i Hi) as (H1 & _). rewrite H1. now apply H.
  - intros H i Hi. destruct (Hvo i Hi) as (H1 & _). rewrite <- H1. now apply H.
Qed.

(* T2: vote reports Unanimous exactly when this very step completed unanimity. *)
Theorem vote_result_truthful s i r s' :
  Inv s -> enabled s i MVote = true -> mstep s i MVote = (s', Some r) ->
  (r = Unanimous <-> (receiver_ready s = false /\ receiver_ready s' = true)).
Proof.
  intros HI En Hs. pose proof (enabled_lt _ _ _ En) as Hi. inv_tac.
  unfold mstep in Hs. inversion Hs; subst; clear Hs. unfold receiver_ready; simpl.
  destruct (flags_eqb (shared s) (inverse (n_parties s) i)) eqn:E.
  - apply flags_eqb_eq in E. apply eq_inverse_iff in E as [Eb Ea]; auto. split; auto. intros _. split; auto.
    destruct (all_set (shared s)) eqn:EA; auto. apply all_set_get with (i := i) in EA; [congruence|lia].
  - split; [discriminate|]. intros [Hb Ha]. exfalso.
    assert (shared s = inverse (n_parties s) i) as Heq.
    { apply eq_inverse_iff; auto. split; auto.
      destruct (get_bit i (shared s)) eqn:EB; auto.
      (* bit i already set: set_bit is the identity, so flags were already all set *)
      assert (set_bit i true (shared s) = shared s) as Hid.
      { apply flags_ext. apply set_bit_length. intros j Hj. rewrite set_bit_length in Hj.
        destruct (Nat.eq_dec i j) as [<-|Hne]. rewrite get_set_same by lia. now rewrite EB.
        (apply get_set_other; congruence). }
      rewrite Hid in Ha. congruence. }
    apply flags_eqb_eq in Heq. congruence.
Qed.

Definition is_rescind (m : micro) : bool :=
  match m with MRescind2 | MRescindLoad | MRescindCas | MRescindNop => true | _ => false end.

(* T3: a rescind answered UnanimityPending: unanimity did not hold at that step and this party's
   bit is clear afterwards. *)
Theorem rescind_pending_safe s i m s' :
  Inv s -> enabled s i m = true -> is_rescind m = true ->
  mstep s i m = (s', Some UnanimityPending) ->
  receiver_ready s = false /\ get_bit i (shared s') = false /\ voted (get_voter s' i) = false.
Proof.
  intros HI En Hr Hs. pose proof (enabled_lt _ _ _ En) as Hi. pose proof (enabled_shape _ _ _ En) as Sh.
  inv_tac. pose proof (Hvo i Hi) as (Hv1 & Hv2 & Hv3). unfold receiver_ready.
  unfold mstep in Hs. destruct m; try discriminate.
  - destruct (loaded (get_voter s i)) eqn:EL; [contradiction|]. destruct Sh as [Sv S2].
    destruct (flags_eqb (shared s) (onehot (n_parties s) i)) eqn:E; inversion Hs; subst; clear Hs.
    apply flags_eqb_eq in E. simpl. rewrite get_bit_zero. rewrite get_voter_upd_same by lia. simpl.
    repeat split; auto. destruct (all_set (shared s)) eqn:EA; auto.
    assert (Hj : exists j, j < n_parties s /\ j <> i) by (exists (1 - i); lia).
    destruct Hj as (j & Hj & Hne). apply all_set_get with (i := j) in EA; [|lia].
    rewrite E in EA. unfold onehot in EA. rewrite get_set_other in EA by congruence.
    now rewrite get_bit_zero in EA.
  - destruct (all_set (shared s)); inversion Hs.
  - destruct (loaded (get_voter s i)) as [cur|] eqn:EL; [|contradiction].
    destruct (Hv3 cur eq_refl) as (Cv & Cl & Ca & Cn).
    destruct (flags_eqb (shared s) cur) eqn:E; inversion Hs; subst; clear Hs.
    apply flags_eqb_eq in E. subst cur. simpl. rewrite get_set_same by lia.
    rewrite get_voter_upd_same by lia. simpl. auto.
  - inversion Hs; subst. destruct (loaded (get_voter s' i)); [contradiction|].
    repeat split; auto; try congruence.
    destruct (all_set (shared s')) eqn:EA; auto. apply all_set_get with (i := i) in EA; [|lia]. congruence.
Qed.

(* ... and the bit stays clear (so unanimity cannot hold) until this party votes again:
   nobody else ever changes bit i. *)
Lemma other_party_keeps_bit s i j m :
  Inv s -> i <> j -> get_bit j (shared (fst (mstep_en s i m))) = get_bit j (shared s).
Proof.
  intros HI Hne. unfold mstep_en. destruct (enabled s i m) eqn:En; auto.
  pose proof (enabled_lt _ _ _ En) as Hi. inv_tac. pose proof (Hvo i Hi) as (Hv1 & Hv2 & Hv3).
  unfold mstep. destruct m; simpl.
  - (apply get_set_other; congruence).
  - destruct (flags_eqb (shared s) (onehot (n_parties s) i)) eqn:E; simpl; auto.
    apply flags_eqb_eq in E. rewrite get_bit_zero, E. unfold onehot.
    rewrite get_set_other by congruence. now rewrite get_bit_zero.
  - destruct (all_set (shared s)); simpl; auto.
  - destruct (loaded (get_voter s i)) as [cur|]; simpl; auto.
    destruct (flags_eqb (shared s) cur) eqn:E; simpl; auto.
    apply flags_eqb_eq in E. subst. (apply get_set_other; congruence).
  - reflexivity.
  - destruct (voted (get_voter s i)); simpl; auto. (apply get_set_other; congruence).
Qed.

Definition others_only (i : nat) (sc : sched) : Prop := Forall (fun p => fst p <> i) sc.

Theorem bit_owned_by_party sc : forall s i,
  Inv s -> others_only i sc -> get_bit i (shared (exec s sc)) = get_bit i (shared s).
Proof.
  induction sc as [|[j m] rest IH]; simpl; intros s i HI Ho; auto.
  inversion Ho; subst. simpl in *. rewrite IH; auto.
  - now apply other_party_keeps_bit.
  - now apply mstep_en_inv.
Qed.

Corollary no_stop_until_revote sc s i :
  Inv s -> i < n_parties s -> get_bit i (shared s) = false -> others_only i sc ->
  receiver_ready (exec s sc) = false.
Proof.
  intros HI Hi Hb Ho. unfold receiver_ready.
  destruct (all_set (shared (exec s sc))) eqn:E; auto.
  pose proof (exec_inv sc s HI) as HI'. destruct HI' as (_ & Hl & _ & _).
  assert (n_parties (exec s sc) = n_parties s) as Hn.
  { clear. revert s. induction sc as [|[j m] rest IH]; simpl; intros; auto. rewrite IH.
    unfold mstep_en. destruct (enabled s j m); auto. unfold mstep.
    destruct m; simpl; auto;
      repeat match goal with |- context [if ?c then _ else _] => destruct c; simpl; auto end;
      destruct (loaded (get_voter s j)); simpl; auto;
      match goal with |- context [if ?c then _ else _] => destruct c; simpl; auto end. }
  apply all_set_get with (i := i) in E; [|lia].
  rewrite bit_owned_by_party in E; auto. congruence.
Qed.

(* T4: a rescind answered Unanimous is telling the truth. *)
Theorem rescind_unanimous_true s i m s' :
  Inv s -> enabled s i m = true -> is_rescind m = true ->
  mstep s i m = (s', Some Unanimous) -> receiver_ready s = true /\ receiver_ready s' = true.
Proof.
  intros HI En Hr Hs. pose proof (enabled_lt _ _ _ En) as Hi. pose proof (enabled_shape _ _ _ En) as Sh.
  inv_tac. pose proof (Hvo i Hi) as (Hv1 & Hv2 & Hv3). unfold receiver_ready.
  unfold mstep in Hs. destruct m; try discriminate.
  - destruct (loaded (get_voter s i)) eqn:EL; [contradiction|]. destruct Sh as [Sv S2].
    destruct (flags_eqb (shared s) (onehot (n_parties s) i)) eqn:E; inversion Hs; subst; clear Hs.
    (* n = 2, bit i set, flags <> onehot i  ==>  both bits set *)
    assert (all_set (shared s') = true) as HA; [|split; exact HA].
    apply all_set_iff. intros j Hj. rewrite Hlf in Hj.
    destruct (Nat.eq_dec i j) as [<-|Hne]; [congruence|].
    destruct (get_bit j (shared s')) eqn:EB; auto. exfalso.
    assert (shared s' = onehot (n_parties s') i) as Heq.
    { apply flags_ext. unfold onehot. now rewrite set_bit_length, length_zero.
      intros k Hk. unfold onehot. destruct (Nat.eq_dec i k) as [<-|Hnk].
      - rewrite get_set_same by (rewrite length_zero; lia). congruence.
      - rewrite get_set_other by congruence. rewrite get_bit_zero.
        assert (k = j) by lia. subst. exact EB. }
    apply flags_eqb_eq in Heq. congruence.
  - destruct (all_set (shared s)) eqn:EA; inversion Hs; subst; clear Hs. simpl. split; [reflexivity|exact EA].
  - destruct (loaded (get_voter s i)) as [cur|] eqn:EL; [|contradiction].
    destruct (flags_eqb (shared s) cur); inversion Hs.
Qed.

(* T5: a dropped party counts as having voted, for good. *)
Theorem drop_counts_as_vote s i :
  Inv s -> enabled s i MDrop = true ->
  let s' := fst (mstep s i MDrop) in
  get_bit i (shared s') = true /\ dropped (get_voter s' i) = true.
Proof.
  intros HI En. pose proof (enabled_lt _ _ _ En) as Hi. inv_tac.
  pose proof (Hvo i Hi) as (Hv1 & Hv2 & Hv3). unfold mstep.
  destruct (voted (get_voter s i)) eqn:EV; simpl; rewrite get_voter_upd_same by lia; simpl;
    (split; [|reflexivity]).
  - congruence.
  - apply get_set_same; lia.
Qed.

Lemma dropped_disables s i m : dropped (get_voter s i) = true -> enabled s i m = false.
Proof.
  intros H. unfold enabled. rewrite H. simpl. now rewrite andb_false_r.
Qed.

Lemma dropped_stays sc : forall s i,
  Inv s -> i < n_parties s -> dropped (get_voter s i) = true ->
  dropped (get_voter (exec s sc) i) = true /\ get_bit i (shared (exec s sc)) = get_bit i (shared s).
Proof.
  induction sc as [|[j m] rest IH]; simpl; intros s i HI Hi Hd; auto.
  assert (HI' := mstep_en_inv s j m HI).
  destruct (Nat.eq_dec j i) as [->|Hne].
  - unfold mstep_en in *. rewrite (dropped_disables s i m Hd) in *. simpl in *. now apply IH.
  - assert (Hn : n_parties (fst (mstep_en s j m)) = n_parties s).
    { unfold mstep_en. destruct (enabled s j m); auto. unfold mstep.
      destruct m; simpl; auto;
        repeat match goal with |- context [if ?c then _ else _] => destruct c; simpl; auto end;
        destruct (loaded (get_voter s j)); simpl; auto;
        match goal with |- context [if ?c then _ else _] => destruct c; simpl; auto end. }
    assert (Hd' : dropped (get_voter (fst (mstep_en s j m)) i) = true).
    { unfold mstep_en. destruct (enabled s j m); auto. unfold mstep.
      destruct m; simpl; auto;
        repeat match goal with
               | |- context [if ?c then _ else _] => destruct c; simpl; auto
               | |- context [match loaded ?v with _ => _ end] => destruct (loaded v); simpl; auto
               end; rewrite ?get_voter_upd_other by auto; auto. }
    destruct (IH (fst (mstep_en s j m)) i HI') as [A B]; auto; try lia.
    split; auto. rewrite B. now apply other_party_keeps_bit.
Qed.

(* T6: no deadlock: when every party either is gone or has an outstanding vote, the receiver
   is ready. *)
Theorem no_deadlock s :
  Inv s ->
  (forall i, i < n_parties s -> dropped (get_voter s i) = true \/ voted (get_voter s i) = true) ->
  receiver_ready s = true.
Proof.
  intros HI H. apply ready_iff_all_voting; auto. intros i Hi. inv_tac.
  destruct (Hvo i Hi) as (_ & Hd & _). destruct (H i Hi) as [D|V]; auto. now apply Hd.
Qed.

(* T8: progress of the n-party rescind loop: a CAS can only fail because another party changed
   the flags since the load; undisturbed, load + CAS completes. *)
Theorem rescind_cas_succeeds_if_undisturbed s i cur :
  loaded (get_voter s i) = Some cur -> shared s = cur ->
  snd (mstep s i MRescindCas) = Some UnanimityPending.
Proof.
  intros HL HS. unfold mstep. rewrite HL, HS, flags_eqb_refl. reflexivity.
Qed.

Theorem rescind_load_then_cas s i :
  Inv s -> enabled s i MRescindLoad = true ->
  let (s1, r1) := mstep s i MRescindLoad in
  match r1 with
  | Some r => r = Unanimous
  | None => snd (mstep s1 i MRescindCas) = Some UnanimityPending
  end.
Proof.
  intros HI En. pose proof (enabled_lt _ _ _ En) as Hi. inv_tac.
  unfold mstep at 1. destruct (all_set (shared s)) eqn:E; auto.
  apply rescind_cas_succeeds_if_undisturbed with (cur := shared s); simpl; auto.
  now rewrite get_voter_upd_same by lia.
Qed.

(* ------------------------------------------------------------------------------------------ *)
(* The API-level atomic operations are schedules of enabled micro-steps, so every reachable
   API-level state satisfies the invariant. *)

Lemma fst_lift x : fst (lift x) = fst x.
Proof. destruct x as [s [r|]]; reflexivity. Qed.

Lemma step_inv s o : Inv s -> Inv (fst (step s o)).
Proof.
  intros HI. destruct o as [i|i|i|]; unfold step.
  - destruct (enabled s i MVote) eqn:E; [rewrite fst_lift; now apply mstep_inv | exact HI].
  - unfold rescind_atomic.
    destruct (enabled s i MRescindNop) eqn:E0; [rewrite fst_lift; now apply mstep_inv|].
    destruct (enabled s i MRescind2) eqn:E1; [rewrite fst_lift; now apply mstep_inv|].
    destruct (enabled s i MRescindLoad) eqn:E2; [|exact HI].
    pose proof (mstep_inv s i _ HI E2) as H.
    destruct (mstep s i MRescindLoad) as [s' [r|]] eqn:EM; [exact H|]. cbn [fst] in H.
    destruct (enabled s' i MRescindCas) eqn:E3; [rewrite fst_lift; now apply mstep_inv | exact H].
  - destruct (enabled s i MDrop) eqn:E; [cbn [fst]; now apply mstep_inv | exact HI].
  - exact HI.
Qed.

Theorem reachable_inv ops : forall s, Inv s -> Inv (run_state s ops).
Proof.
  induction ops as [|o rest IH]; simpl; intros s H; auto. apply IH. now apply step_inv.
Qed.

(* Non-vacuity: a reachable three-party state in the middle of a rescind loop, with the other
   two parties voting, satisfies the invariant and is not yet unanimous. *)
Example inv_nonvacuous :
  let s := exec (init 3) [(0, MVote); (1, MVote); (0, MRescindLoad); (2, MVote)] in
  Inv s /\ receiver_ready s = true /\
  receiver_ready (exec s [(0, MRescindCas); (0, MRescindLoad)]) = true.
Proof.
  split; [|split]; try reflexivity. apply exec_inv. apply inv_init. lia.
Qed.
