(* No lost wake-up for the receiver of the vote coordinator (Model/VoterWake.v), for every interleaving of the
   voters' micro-steps, their wake calls and the three steps of Receiver::poll, and any n >= 2. *)
From SwimV Require Import Model.VoterWake Proofs.VoterProofs.

Definition WInv (w : wk) : Prop :=
  Inv (core w)
  /\ (pend w <> [] -> all_set (shared (core w)) = true)
  /\ (phase w = RParked \/ phase w = RRegistered -> woken w = false -> reg w = true)
  /\ (all_set (shared (core w)) = true -> phase w = RParked -> woken w = false -> pend w <> []).

Lemma winv_init n : 2 <= n -> WInv (winit n).
Proof.
  intros Hn. unfold WInv, winit; cbn. split; [now apply inv_init|].
  split; [congruence|]. split; [intros [H|H]; discriminate|]. discriminate.
Qed.

Lemma mem_del_other i j l : mem j (del i l) = true -> mem j l = true.
Proof.
  induction l as [|k l IH]; cbn; [auto|]. destruct (i =? k) eqn:E; cbn.
  - intros H. rewrite (IH H). apply orb_true_r.
  - intros H. apply orb_true_iff in H as [H|H]; [now rewrite H|]. rewrite (IH H). apply orb_true_r.
Qed.

Lemma app_not_nil {A} (l : list A) x : l ++ [x] <> [].
Proof. destruct l; discriminate. Qed.

(* a completing fetch_or leaves every flag set *)
Lemma completes_all_set s i m : Inv s -> enabled s i m = true -> completes s i m = true ->
  all_set (shared (fst (mstep s i m))) = true.
Proof.
  intros HI En Hc. pose proof (enabled_lt _ _ _ En) as Hi. inv_tac.
  assert (HE : shared s = inverse (n_parties s) i /\ (m = MVote \/ (m = MDrop /\ voted (get_voter s i) = false))).
  { destruct m; cbn in Hc; try discriminate.
    - apply flags_eqb_eq in Hc. auto.
    - apply andb_true_iff in Hc as [Hv Hc]. apply flags_eqb_eq in Hc. apply negb_true_iff in Hv. auto. }
  destruct HE as [HE Hm]. apply eq_inverse_iff in HE as [_ HA]; [|assumption|assumption].
  destruct Hm as [->|[-> Hv]]; cbn.
  - exact HA.
  - rewrite Hv. cbn. exact HA.
Qed.

(* only a completing fetch_or takes the flags from "not all set" to "all set" *)
Lemma only_completion_completes s i m : Inv s -> enabled s i m = true -> completes s i m = false ->
  all_set (shared s) = false -> all_set (shared (fst (mstep s i m))) = false.
Proof.
  intros HI En Ec Eb.
  destruct (all_set (shared (fst (mstep s i m)))) eqn:Ha; [exfalso|reflexivity].
  pose proof (enabled_lt _ _ _ En) as Hi. pose proof (enabled_shape _ _ _ En) as Sh.
  destruct HI as (Hn & Hlf & Hlv & Hvo). pose proof (Hvo i Hi) as (Hv1 & Hv2 & Hv3).
  assert (Hsame : get_bit i (shared s) = true -> set_bit i true (shared s) = shared s).
  { intros Eg. apply flags_ext; [apply set_bit_length|]. intros j Hj. rewrite set_bit_length in Hj.
    destruct (Nat.eq_dec i j) as [->|Hne]; [rewrite get_set_same by lia; now rewrite Eg|now rewrite get_set_other]. }
  unfold mstep in Ha. destruct m; cbn in Ec.
  - cbn in Ha. assert (shared s = inverse (n_parties s) i) as HE.
    { apply eq_inverse_iff; [assumption|assumption|]. split; [|exact Ha].
      destruct (get_bit i (shared s)) eqn:Eg; [|reflexivity].
      exfalso. rewrite (Hsame eq_refl) in Ha. unfold all_set in Eb. congruence. }
    rewrite HE, flags_eqb_refl in Ec. discriminate.
  - destruct (flags_eqb (shared s) (onehot (n_parties s) i)); cbn in Ha.
    + assert (Hz : all_set (zero (n_parties s)) = false).
      { destruct (n_parties s) as [|k]; [lia|]. reflexivity. }
      unfold all_set in *. congruence.
    + unfold all_set in *. congruence.
  - rewrite Eb in Ha. cbn in Ha. unfold all_set in *. congruence.
  - destruct (loaded (get_voter s i)) as [cur|] eqn:EL; [|cbn in Ha; unfold all_set in *; congruence].
    destruct (flags_eqb (shared s) cur) eqn:E; cbn [fst shared upd] in Ha; [|unfold all_set in *; congruence].
    rewrite not_all_set_clear in Ha; [discriminate|].
    destruct (Hv3 cur eq_refl) as (Cv & Cl & Ca & Cn). lia.
  - cbn in Ha. unfold all_set in *. congruence.
  - destruct (voted (get_voter s i)) eqn:Ev; cbn in Ha; [unfold all_set in *; congruence|]. cbn in Ec.
    assert (shared s = inverse (n_parties s) i) as HE.
    { apply eq_inverse_iff; [assumption|assumption|]. split; [|exact Ha].
      destruct (get_bit i (shared s)) eqn:Eg; [|reflexivity].
      exfalso. rewrite (Hsame eq_refl) in Ha. unfold all_set in Eb. congruence. }
    rewrite HE, flags_eqb_refl in Ec. discriminate.
Qed.

Lemma wstep_inv w m : WInv w -> WInv (wstep w m).
Proof.
  intros HW. pose proof HW as (HI & HP & HR & HL). destruct m as [i mi|i| | |]; cbn.
  - (* a voter's micro-step *)
    destruct (enabled (core w) i mi && negb (mem i (pend w))) eqn:E; [|exact HW].
    apply andb_true_iff in E as [En Hnm].
    assert (HS : all_set (shared (core w)) = true -> all_set (shared (fst (mstep (core w) i mi))) = true).
    { intros Ha. pose proof (unanimity_stable_step (core w) i mi HI Ha) as H. unfold mstep_en in H. now rewrite En in H. }
    unfold WInv; cbn. split; [now apply mstep_inv|]. split; [|split].
    + destruct (completes (core w) i mi) eqn:Ec.
      * intros _. now apply completes_all_set.
      * intros Hne. apply HS. now apply HP.
    + exact HR.
    + intros Ha Hp Hw. destruct (completes (core w) i mi) eqn:Ec; [apply app_not_nil|].
      apply HL; auto.
      destruct (all_set (shared (core w))) eqn:Eb; [reflexivity|].
      rewrite (only_completion_completes _ _ _ HI En Ec Eb) in Ha. discriminate.
  - (* wake *)
    destruct (mem i (pend w)) eqn:Em; [|exact HW].
    assert (Hne : pend w <> []) by (destruct (pend w); [discriminate|discriminate]).
    unfold WInv; cbn. split; [exact HI|]. split; [intros _; now apply HP|]. split.
    + intros Hp Hw. apply orb_false_iff in Hw as [Hw Hr]. rewrite (HR Hp Hw) in Hr. discriminate.
    + intros Ha Hp Hw. apply orb_false_iff in Hw as [Hw Hr]. rewrite (HR (or_introl Hp) Hw) in Hr. discriminate.
  - (* first load of a poll *)
    destruct (phase w) eqn:Ep; try exact HW.
    + unfold WInv; cbn. split; [exact HI|]. split; [exact HP|].
      destruct (all_set (shared (core w))); (split; [intros [H|H]; discriminate|]); intros; discriminate.
    + unfold WInv; cbn. split; [exact HI|]. split; [exact HP|].
      destruct (all_set (shared (core w))); (split; [intros [H|H]; discriminate|]); intros; discriminate.
  - (* register *)
    destruct (phase w) eqn:Ep; try exact HW.
    unfold WInv; cbn. split; [exact HI|]. split; [exact HP|]. split; [reflexivity|discriminate].
  - (* second load *)
    destruct (phase w) eqn:Ep; try exact HW.
    unfold WInv; cbn. split; [exact HI|]. split; [exact HP|].
    destruct (all_set (shared (core w))) eqn:Ea.
    + split; [intros [H|H]; discriminate|discriminate].
    + split; [|intros; discriminate].
      intros _ Hw. apply HR; auto.
Qed.

Lemma wexec_inv sc : forall w, WInv w -> WInv (wexec w sc).
Proof. unfold wexec. induction sc as [|m sc IH]; cbn; intros w H; [exact H|]. apply IH. now apply wstep_inv. Qed.

(* ---- the theorems ---- *)

(* in no interleaving is the receiver left parked, un-notified, with unanimity reached and no wake on its way *)
Theorem no_lost_wakeup n sc : 2 <= n -> lost_wakeup (wexec (winit n) sc) = false.
Proof.
  intros Hn. pose proof (wexec_inv sc _ (winv_init n Hn)) as (HI & HP & HR & HL).
  unfold lost_wakeup. destruct (all_set (shared (core (wexec (winit n) sc)))) eqn:Ea; [|reflexivity].
  destruct (phase (wexec (winit n) sc)) eqn:Ep; try reflexivity.
  destruct (woken (wexec (winit n) sc)) eqn:Ew; [reflexivity|]. cbn.
  destruct (pend (wexec (winit n) sc)) eqn:Epd; [|reflexivity].
  exfalso. now apply (HL eq_refl eq_refl eq_refl).
Qed.

(* the wake that is on its way does notify the receiver's task *)
Theorem owed_wake_notifies w : WInv w ->
  all_set (shared (core w)) = true -> phase w = RParked -> woken w = false ->
  exists i, mem i (pend w) = true /\ woken (wstep w (WWake i)) = true.
Proof.
  intros (HI & HP & HR & HL) Ha Hp Hw. pose proof (HL Ha Hp Hw) as Hne.
  destruct (pend w) as [|i rest] eqn:E; [congruence|]. exists i.
  assert (Hm : mem i (i :: rest) = true) by (cbn; now rewrite Nat.eqb_refl).
  split; [exact Hm|]. cbn [wstep]. rewrite E, Hm. cbn. rewrite (HR (or_introl Hp) Hw). apply orb_true_r.
Qed.

(* and the poll that follows returns Ready: unanimity is permanent *)
Theorem poll_after_unanimity_is_ready w : all_set (shared (core w)) = true ->
  phase w = RParked \/ phase w = RIdle -> phase (wstep w WLoad1) = RDone.
Proof. intros Ha [Hp|Hp]; cbn; rewrite Hp; cbn; now rewrite Ha. Qed.

(* a wake is only ever owed once unanimity has been reached: the receiver is never woken for nothing *)
Theorem wake_only_at_unanimity n sc : 2 <= n ->
  pend (wexec (winit n) sc) <> [] -> receiver_ready (core (wexec (winit n) sc)) = true.
Proof. intros Hn. pose proof (wexec_inv sc _ (winv_init n Hn)) as (_ & HP & _). exact HP. Qed.

(* ---- API level: between calls nothing is owed ---- *)
Definition Quiet (w : wk) : Prop := WInv w /\ pend w = [].

Lemma mem_del_same i l : mem i (del i l) = false.
Proof. induction l as [|j l IH]; cbn; [reflexivity|]. destruct (i =? j) eqn:E; cbn; [exact IH|]. now rewrite E, IH. Qed.

Lemma wv_pend w i m : pend w = [] -> pend (wstep w (WV i m)) = [] \/ pend (wstep w (WV i m)) = [i].
Proof.
  intros Hp. cbn [wstep]. destruct (enabled (core w) i m && negb (mem i (pend w))); [|now left].
  cbn [pend]. rewrite Hp. destruct (completes (core w) i m); [now right|now left].
Qed.

Lemma wv_quiet w i m : Quiet w -> Quiet (fst (api_wake (wstep w (WV i m)) i)).
Proof.
  intros [HW Hp]. pose proof (wstep_inv w (WV i m) HW) as HW1.
  pose proof (wv_pend w i m Hp) as E. remember (wstep w (WV i m)) as w1 eqn:Ew1. clear Ew1.
  unfold api_wake. destruct E as [E|E].
  - rewrite E. cbn [mem fst]. split; [exact HW1|exact E].
  - rewrite E. cbn [mem]. rewrite Nat.eqb_refl. cbn [orb fst]. split; [now apply wstep_inv|].
    cbn [wstep]. rewrite E. cbn [mem]. rewrite Nat.eqb_refl. cbn [orb pend del]. now rewrite Nat.eqb_refl.
Qed.

Lemma rescind_keeps_not_all_set s i : Inv s -> all_set (shared s) = false ->
  all_set (shared (fst (step s (ORescind i)))) = false.
Proof.
  intros HI Eb. cbn [step]. unfold rescind_atomic.
  destruct (enabled s i MRescindNop) eqn:E1.
  { rewrite fst_lift. now apply only_completion_completes. }
  destruct (enabled s i MRescind2) eqn:E2.
  { rewrite fst_lift. now apply only_completion_completes. }
  destruct (enabled s i MRescindLoad) eqn:E3; [|exact Eb].
  pose proof (only_completion_completes s i MRescindLoad HI E3 eq_refl Eb) as H1.
  pose proof (mstep_inv s i MRescindLoad HI E3) as HI1.
  destruct (mstep s i MRescindLoad) as [s' [r|]] eqn:Em; cbn [fst] in *; [exact H1|].
  destruct (enabled s' i MRescindCas) eqn:E4; [|exact H1].
  rewrite fst_lift. now apply only_completion_completes.
Qed.

Lemma wapi_step_quiet w o : Quiet w -> Quiet (fst (fst (wapi_step w o))).
Proof.
  intros HQ. destruct o as [i|i|i|]; cbn [wapi_step].
  - destruct (api_wake (wstep w (WV i MVote)) i) as [w' b] eqn:E. cbn [fst].
    replace w' with (fst (api_wake (wstep w (WV i MVote)) i)) by now rewrite E. now apply wv_quiet.
  - destruct HQ as [(HI & HP & HR & HL) Hp].
    destruct (step (core w) (ORescind i)) as [c' r] eqn:E. cbn [fst].
    assert (Hc : c' = fst (step (core w) (ORescind i))) by now rewrite E.
    split; [|exact Hp]. unfold WInv; cbn [core reg phase woken pend].
    split; [rewrite Hc; now apply step_inv|]. split; [intros Hne; congruence|]. split; [exact HR|].
    intros Ha Hph Hw. apply HL; auto.
    destruct (all_set (shared (core w))) eqn:Eb; [reflexivity|].
    rewrite Hc, (rescind_keeps_not_all_set _ i HI Eb) in Ha. discriminate.
  - destruct (api_wake (wstep w (WV i MDrop)) i) as [w' b] eqn:E. cbn [fst].
    replace w' with (fst (api_wake (wstep w (WV i MDrop)) i)) by now rewrite E. now apply wv_quiet.
  - cbn [fst]. destruct HQ as [HW Hp]. pose proof HW as (HI & HP & HR & HL).
    set (w0 := {| core := core w; reg := reg w; phase := match phase w with RDone => RIdle | p => p end;
                  woken := woken w; pend := pend w |}).
    assert (HW0 : WInv w0).
    { unfold WInv, w0; cbn. split; [exact HI|]. split; [exact HP|]. split.
      - intros Hph Hw. apply HR; auto. destruct (phase w); auto; destruct Hph; discriminate.
      - intros Ha Hph Hw. apply HL; auto. destruct (phase w); auto; discriminate. }
    split; [repeat apply wstep_inv; exact HW0|].
    assert (Hk : forall x m, (m = WLoad1 \/ m = WRegister \/ m = WLoad2) -> pend (wstep x m) = pend x).
    { intros x m [->|[->| ->]]; cbn; destruct (phase x); reflexivity. }
    rewrite !Hk by auto. exact Hp.
Qed.

Lemma wapi_state_quiet ops : forall w, Quiet w -> Quiet (wapi_state w ops).
Proof. induction ops as [|o ops IH]; cbn; intros w H; [exact H|]. apply IH. now apply wapi_step_quiet. Qed.

Lemma quiet_init n : 2 <= n -> Quiet (winit n).
Proof. intros Hn. split; [now apply winv_init|reflexivity]. Qed.

(* what a single-threaded user of the API can observe: whenever the receiver's last poll returned Pending and
   unanimity has been reached since, its waker has been invoked *)
Theorem api_parked_receiver_is_woken n ops : 2 <= n ->
  let w := wapi_state (winit n) ops in
  receiver_ready (core w) = true -> phase w = RParked -> woken w = true.
Proof.
  intros Hn w Ha Hp. destruct (wapi_state_quiet ops _ (quiet_init n Hn)) as [(HI & HP & HR & HL) Hq].
  fold w in HL, Hq. destruct (woken w) eqn:Ew; [reflexivity|]. exfalso. now apply (HL Ha Hp eq_refl).
Qed.

(* the layered machine leaves the coordinator's own state exactly as Model/Voter.v has it *)
Lemma wapi_core_step w o : pend w = [] -> core (fst (fst (wapi_step w o))) = fst (step (core w) o).
Proof.
  intros Hp.
  assert (Hwake : forall x i, core (fst (api_wake x i)) = core x).
  { intros x i. unfold api_wake. destruct (mem i (pend x)) eqn:E; cbn [fst]; [|reflexivity].
    cbn [wstep]. rewrite E. reflexivity. }
  destruct o as [i|i|i|]; cbn [wapi_step].
  - destruct (api_wake (wstep w (WV i MVote)) i) as [w' b] eqn:E. cbn [fst].
    replace w' with (fst (api_wake (wstep w (WV i MVote)) i)) by now rewrite E.
    rewrite Hwake. cbn [wstep step]. rewrite Hp. cbn [mem negb]. rewrite andb_true_r.
    destruct (enabled (core w) i MVote); [now rewrite fst_lift|reflexivity].
  - destruct (step (core w) (ORescind i)) as [c' r]. reflexivity.
  - destruct (api_wake (wstep w (WV i MDrop)) i) as [w' b] eqn:E. cbn [fst].
    replace w' with (fst (api_wake (wstep w (WV i MDrop)) i)) by now rewrite E.
    rewrite Hwake. cbn [wstep step]. rewrite Hp. cbn [mem negb]. rewrite andb_true_r.
    destruct (enabled (core w) i MDrop); reflexivity.
  - cbn [fst step]. assert (Hk : forall x m, (m = WLoad1 \/ m = WRegister \/ m = WLoad2) -> core (wstep x m) = core x).
    { intros x m [->|[->| ->]]; cbn; destruct (phase x); reflexivity. }
    rewrite !Hk by auto. reflexivity.
Qed.

Theorem wapi_core n ops : 2 <= n -> core (wapi_state (winit n) ops) = run_state (init n) ops.
Proof.
  intros Hn. change (init n) with (core (winit n)). generalize (quiet_init n Hn). generalize (winit n).
  induction ops as [|o ops IH]; cbn; intros w HQ; [reflexivity|].
  rewrite IH by now apply wapi_step_quiet. now rewrite wapi_core_step by apply HQ.
Qed.
