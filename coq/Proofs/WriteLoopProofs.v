(* The agent task's write bookkeeping (Model/WriteLoop.v) never loses a writer and never forgets a reported
   change: for every run the model accepts - every sequence of events, flaggings and item answers - writers at
   hand and writes in flight partition the items, after a pass every flagged item has a write in flight, and an
   item stays flagged until it has said that it has nothing more to write. *)
From SwimV Require Import Model.WriteLoop.
Open Scope N_scope.

Lemma mem_remove x y l : mem x (remove y l) = mem x l && negb (x =? y).
Proof.
  unfold mem, remove. induction l as [|a l IH]; cbn; [reflexivity|]. destruct (a =? y) eqn:E; cbn.
  - rewrite IH. apply N.eqb_eq in E. subst a. destruct (x =? y) eqn:E2; cbn; [now rewrite !andb_false_r|reflexivity].
  - rewrite IH. destruct (x =? a) eqn:E2; cbn; [|reflexivity]. apply N.eqb_eq in E2. subst a. now rewrite E.
Qed.

Lemma mem_add x y l : mem x (add y l) = (x =? y) || mem x l.
Proof.
  unfold add. destruct (mem y l) eqn:E; [|reflexivity].
  destruct (x =? y) eqn:E2; cbn; [|reflexivity]. apply N.eqb_eq in E2. now subst.
Qed.

Lemma mem_fold_add x ids l : mem x (fold_right add l ids) = mem x ids || mem x l.
Proof.
  induction ids as [|a ids IH]; cbn [fold_right]; [reflexivity|]. rewrite mem_add, IH.
  unfold mem at 2. cbn [existsb]. fold (mem x ids). now rewrite orb_assoc.
Qed.

Lemma subset_mem a b x : subset a b = true -> mem x a = true -> mem x b = true.
Proof.
  unfold subset. intros H Hx. rewrite forallb_forall in H. unfold mem in Hx. apply existsb_exists in Hx as (y & Hin & E).
  apply N.eqb_eq in E. subst y. now apply H.
Qed.

Lemma same_set_mem a b x : same_set a b = true -> mem x a = mem x b.
Proof.
  unfold same_set. intros H. apply andb_true_iff in H as [H1 H2].
  destruct (mem x a) eqn:Ea; [symmetry; now apply (subset_mem a b)|].
  destruct (mem x b) eqn:Eb; [|reflexivity]. rewrite (subset_mem b a x H2 Eb) in Ea. discriminate.
Qed.

Lemma mem_filter x f l : mem x (filter f l) = mem x l && f x.
Proof.
  unfold mem. induction l as [|a l IH]; cbn; [reflexivity|]. destruct (f a) eqn:E; cbn.
  - rewrite IH. destruct (x =? a) eqn:E2; cbn; [|reflexivity]. apply N.eqb_eq in E2. subst a. now rewrite E.
  - rewrite IH. destruct (x =? a) eqn:E2; cbn; [|reflexivity]. apply N.eqb_eq in E2. subst a. rewrite E. now rewrite andb_false_r.
Qed.

(* ---- the invariant ---- *)
Definition Part (items : list N) (s : wl) : Prop :=
  forall x, mem x items = mem x (wl_writers s) || mem x (wl_pending s).
Definition Disj (s : wl) : Prop := forall x, mem x (wl_writers s) && mem x (wl_pending s) = false.
Definition OwedFlagged (s : wl) : Prop := forall x, mem x (wl_owed s) = true -> mem x (wl_dirty s) = true.

Definition WInv (items : list N) (s : wl) : Prop := Part items s /\ Disj s /\ OwedFlagged s.

Lemma winv0 items : WInv items (wl0 items).
Proof.
  unfold WInv, Part, Disj, OwedFlagged, wl0; cbn. split; [intros x; now rewrite orb_false_r|].
  split; [intros x; now rewrite andb_false_r|]. discriminate.
Qed.

Ltac bool_cases x id := destruct (x =? id) eqn:?; cbn; rewrite ?andb_true_r, ?andb_false_r, ?orb_true_r, ?orb_false_r; auto.

Lemma winv_return items s id : WInv items s -> mem id (wl_pending s) = true -> WInv items (wl_return s id).
Proof.
  intros (HP & HD & HO) Hid. unfold WInv, Part, Disj, OwedFlagged, wl_return; cbn [wl_dirty wl_writers wl_pending wl_owed].
  split; [|split; [|exact HO]].
  - intros x. rewrite mem_add, mem_remove, HP. destruct (x =? id) eqn:E; cbn.
    + apply N.eqb_eq in E. subst x. rewrite Hid. now rewrite orb_true_r.
    + now rewrite andb_true_r.
  - intros x. rewrite mem_add, mem_remove. destruct (x =? id) eqn:E; cbn; [now rewrite andb_false_r|].
    rewrite andb_true_r. apply HD.
Qed.

Lemma winv_flag items s ids : WInv items s -> WInv items (wl_flag s ids).
Proof.
  intros (HP & HD & HO). unfold WInv, Part, Disj, OwedFlagged, wl_flag; cbn [wl_dirty wl_writers wl_pending wl_owed].
  split; [exact HP|]. split; [exact HD|]. intros x. rewrite !mem_fold_add. intros H.
  apply orb_true_iff in H as [H|H]; [now rewrite H|]. rewrite (HO x H). apply orb_true_r.
Qed.

Lemma winv_visit items s id o s' : WInv items s -> wl_visit s id o = Some s' -> WInv items s'.
Proof.
  intros (HP & HD & HO) Hv. unfold wl_visit in Hv. destruct (mem id (wl_writers s)) eqn:Ew.
  - assert (Hnp : mem id (wl_pending s) = false).
    { pose proof (HD id) as H. rewrite Ew in H. exact H. }
    destruct o; try discriminate; injection Hv as <-; unfold WInv, Part, Disj, OwedFlagged; cbn [wl_dirty wl_writers wl_pending wl_owed].
    + split; [|split].
      * intros x. rewrite mem_remove, mem_add, HP. destruct (x =? id) eqn:E; cbn; [|now rewrite andb_true_r].
        apply N.eqb_eq in E. subst x. now rewrite Ew.
      * intros x. rewrite mem_remove, mem_add. destruct (x =? id) eqn:E; cbn; [now rewrite andb_false_r|]. rewrite andb_true_r. apply HD.
      * intros x. rewrite !mem_remove. intros H. apply andb_true_iff in H as [H1 H2]. now rewrite (HO x H1), H2.
    + split; [|split].
      * intros x. rewrite mem_remove, mem_add, HP. destruct (x =? id) eqn:E; cbn; [|now rewrite andb_true_r].
        apply N.eqb_eq in E. subst x. now rewrite Ew.
      * intros x. rewrite mem_remove, mem_add. destruct (x =? id) eqn:E; cbn; [now rewrite andb_false_r|]. rewrite andb_true_r. apply HD.
      * intros x. rewrite !mem_remove. intros H. apply andb_true_iff in H as [H1 H2]. now rewrite (HO x H1), H2.
    + split; [|split; [|exact HO]].
      * intros x. rewrite mem_remove, mem_add, HP. destruct (x =? id) eqn:E; cbn; [|now rewrite andb_true_r].
        apply N.eqb_eq in E. subst x. now rewrite Ew.
      * intros x. rewrite mem_remove, mem_add. destruct (x =? id) eqn:E; cbn; [now rewrite andb_false_r|]. rewrite andb_true_r. apply HD.
    + split; [exact HP|]. split; [exact HD|].
      intros x. rewrite !mem_remove. intros H. apply andb_true_iff in H as [H1 H2]. now rewrite (HO x H1), H2.
  - destruct (mem id (wl_pending s)); [|discriminate]. destruct o; try discriminate. injection Hv as <-. now repeat split.
Qed.

Lemma winv_pass items p : forall s s', WInv items s -> wl_pass s p = Some s' -> WInv items s'.
Proof.
  induction p as [|[id o] p IH]; intros s s' HI Hp; cbn [wl_pass] in Hp; [now injection Hp as <-|].
  destruct (wl_visit s id o) as [s1|] eqn:Ev; [|discriminate]. apply (IH s1 s'); [now apply (winv_visit items s id o)|exact Hp].
Qed.

(* after a visit the item is flagged only if a write of it is in flight; other items are untouched *)
Lemma visit_flagged s id o s' : wl_visit s id o = Some s' -> Disj s ->
  (mem id (wl_dirty s') = true -> mem id (wl_pending s') = true)
  /\ (forall x, x <> id -> mem x (wl_dirty s') = mem x (wl_dirty s) /\ mem x (wl_pending s') = mem x (wl_pending s)).
Proof.
  intros Hv HD. unfold wl_visit in Hv. destruct (mem id (wl_writers s)) eqn:Ew.
  - destruct o; try discriminate; injection Hv as <-; cbn [wl_dirty wl_pending]; split.
    + rewrite mem_remove, N.eqb_refl. cbn. now rewrite andb_false_r.
    + intros x Hx. rewrite mem_remove, mem_add. apply N.eqb_neq in Hx. rewrite Hx. cbn. now rewrite andb_true_r.
    + rewrite mem_remove, N.eqb_refl. cbn. now rewrite andb_false_r.
    + intros x Hx. rewrite mem_remove, mem_add. apply N.eqb_neq in Hx. rewrite Hx. cbn. now rewrite andb_true_r.
    + intros _. rewrite mem_add, N.eqb_refl. reflexivity.
    + intros x Hx. rewrite mem_add. apply N.eqb_neq in Hx. rewrite Hx. now split.
    + rewrite mem_remove, N.eqb_refl. cbn. now rewrite andb_false_r.
    + intros x Hx. rewrite mem_remove. apply N.eqb_neq in Hx. rewrite Hx. cbn. now rewrite andb_true_r.
  - destruct (mem id (wl_pending s)) eqn:Ep; [|discriminate]. destruct o; try discriminate. injection Hv as <-.
    split; [intros _; exact Ep|]. now split.
Qed.

(* a pass that visits every flagged item leaves only items with a write in flight flagged *)
Lemma pass_flagged items p : forall s s', WInv items s -> wl_pass s p = Some s' ->
  forall x, mem x (map fst p) = true -> mem x (wl_dirty s') = true -> mem x (wl_pending s') = true.
Proof.
  induction p as [|[id o] p IH]; intros s s' HI Hp x Hx Hd; cbn [wl_pass map fst] in *; [discriminate|].
  destruct (wl_visit s id o) as [s1|] eqn:Ev; [|discriminate].
  pose proof (winv_visit items s id o s1 HI Ev) as HI1.
  destruct (mem x (map fst p)) eqn:Ex; [now apply (IH s1 s' HI1 Hp x Ex Hd)|].
  (* x = id and it is not visited again: what the visit left holds to the end *)
  unfold mem in Hx. cbn [existsb] in Hx. fold (mem x (map fst p)) in Hx. rewrite Ex, orb_false_r in Hx. apply N.eqb_eq in Hx. subst x.
  destruct HI as (_ & HD & _). destruct (visit_flagged s id o s1 Ev HD) as [H1 _].
  assert (Hrest : forall q t t', wl_pass t q = Some t' -> WInv items t -> mem id (map fst q) = false ->
                    mem id (wl_dirty t') = mem id (wl_dirty t) /\ mem id (wl_pending t') = mem id (wl_pending t)).
  { induction q as [|[j oj] q IHq]; intros t t' Hq HIt Hn; cbn [wl_pass map fst] in *; [injection Hq as <-; now split|].
    destruct (wl_visit t j oj) as [t1|] eqn:Evj; [|discriminate].
    unfold mem in Hn. cbn [existsb] in Hn. fold (mem id (map fst q)) in Hn. apply orb_false_iff in Hn as [Hj Hn].
    apply N.eqb_neq in Hj. destruct HIt as (Hp1 & Hd1 & Ho1).
    destruct (visit_flagged t j oj t1 Evj Hd1) as [_ H2]. destruct (H2 id Hj) as [E1 E2].
    destruct (IHq t1 t' Hq (winv_visit items t j oj t1 (conj Hp1 (conj Hd1 Ho1)) Evj) Hn) as [E3 E4]. split; congruence. }
  destruct (Hrest p s1 s' Hp HI1 Ex) as [E1 E2]. rewrite E2. apply H1. now rewrite <- E1.
Qed.

Lemma winv_iter items s it s' : WInv items s -> wl_iter s it = Some s' ->
  WInv items s' /\ (forall x, mem x (wl_dirty s') = true -> mem x (wl_pending s') = true).
Proof.
  intros HI Hit. unfold wl_iter in Hit.
  destruct (match it_complete it with Some id => negb (mem id (wl_pending s)) | None => false end) eqn:Ec; [discriminate|].
  set (s1 := match it_complete it with Some id => wl_return s id | None => s end) in *.
  assert (HI1 : WInv items s1).
  { unfold s1. destruct (it_complete it) as [id|]; [|exact HI]. apply winv_return; [exact HI|]. now apply negb_false_iff in Ec. }
  destruct (negb (subset (wl_dirty s1) (it_flagged it))) eqn:Es; [discriminate|]. apply negb_false_iff in Es.
  set (s2 := wl_flag s1 (newly s1 (it_flagged it))) in *.
  assert (HI2 : WInv items s2) by now apply winv_flag.
  destruct (negb (same_set (map fst (it_pass it)) (it_flagged it) && Nat.eqb (length (it_pass it)) (length (it_flagged it)))) eqn:Ev; [discriminate|].
  apply negb_false_iff in Ev. apply andb_true_iff in Ev as [Ev _].
  destruct (wl_pass s2 (it_pass it)) as [s3|] eqn:Ep; [|discriminate].
  destruct (same_set (wl_dirty s3) (it_dirty it) && same_set (wl_writers s3) (it_writers it) && (N.of_nat (length (wl_pending s3)) =? it_pending it)); [|discriminate].
  injection Hit as <-. split; [now apply (winv_pass items (it_pass it) s2)|].
  intros x Hd. apply (pass_flagged items (it_pass it) s2 s3 HI2 Ep x); [|exact Hd].
  (* x was flagged when the pass began: the pass does not flag anything *)
  rewrite (same_set_mem _ _ x Ev).
  assert (Hmono : forall q t t', wl_pass t q = Some t' -> forall y, mem y (wl_dirty t') = true -> mem y (wl_dirty t) = true).
  { induction q as [|[j oj] q IHq]; intros t t' Hq y Hy; cbn [wl_pass] in Hq; [now injection Hq as <-|].
    destruct (wl_visit t j oj) as [t1|] eqn:Evj; [|discriminate]. specialize (IHq t1 t' Hq y Hy).
    unfold wl_visit in Evj. destruct (mem j (wl_writers t)).
    - destruct oj; try discriminate; injection Evj as <-; cbn [wl_dirty] in IHq; try exact IHq;
        rewrite mem_remove in IHq; now apply andb_true_iff in IHq as [H _].
    - destruct (mem j (wl_pending t)); [|discriminate]. destruct oj; try discriminate. now injection Evj as <-. }
  pose proof (Hmono _ _ _ Ep x Hd) as H2. unfold s2, wl_flag in H2. cbn [wl_dirty] in H2. rewrite mem_fold_add in H2.
  apply orb_true_iff in H2 as [H2|H2].
  - unfold newly in H2. rewrite mem_filter in H2. now apply andb_true_iff in H2 as [H2 _].
  - now apply (subset_mem _ _ x Es).
Qed.

Lemma winv_run items its : forall s s', WInv items s -> wl_run s its = Some s' -> WInv items s'.
Proof.
  induction its as [|it its IH]; intros s s' HI Hr; cbn [wl_run] in Hr; [now injection Hr as <-|].
  destruct (wl_iter s it) as [s1|] eqn:E; [|discriminate]. apply (IH s1 s'); [|exact Hr]. now apply (winv_iter items s it s1).
Qed.

(* ---- the theorems ---- *)

(* no writer is ever lost or duplicated: at any point each item's writer is either at hand or lent to exactly one
   write in flight *)
Theorem no_writer_lost items its s : wl_run (wl0 items) its = Some s ->
  forall x, mem x items = xorb (mem x (wl_writers s)) (mem x (wl_pending s))
            /\ mem x (wl_writers s) && mem x (wl_pending s) = false.
Proof.
  intros Hr x. destruct (winv_run items its _ _ (winv0 items) Hr) as (HP & HD & _).
  split; [|apply HD]. rewrite HP. pose proof (HD x) as H. destruct (mem x (wl_writers s)), (mem x (wl_pending s)); cbn in *; congruence.
Qed.

(* after every pass each item still flagged has a write in flight: its completion is an event, and every event is
   followed by a pass - the loop comes back to it *)
Theorem flagged_item_has_write_in_flight items its it s s' :
  wl_run (wl0 items) its = Some s -> wl_iter s it = Some s' ->
  forall x, mem x (wl_dirty s') = true -> mem x (wl_pending s') = true.
Proof.
  intros Hr Hit. pose proof (winv_run items its _ _ (winv0 items) Hr) as HI. now apply (winv_iter items s it s' HI Hit).
Qed.

(* a reported change is not forgotten: the item stays flagged until it has answered that it has nothing more *)
Theorem reported_change_stays_flagged items its s : wl_run (wl0 items) its = Some s ->
  forall x, mem x (wl_owed s) = true -> mem x (wl_dirty s) = true.
Proof. intros Hr. now destruct (winv_run items its _ _ (winv0 items) Hr) as (_ & _ & HO). Qed.

(* hence at a quiescent point - after a pass, no write in flight - nothing is owed: every reported change has been
   offered to its item until the item had nothing more to write *)
Theorem quiescent_nothing_owed items its it s s' :
  wl_run (wl0 items) its = Some s -> wl_iter s it = Some s' -> wl_pending s' = [] ->
  forall x, mem x (wl_owed s') = false.
Proof.
  intros Hr Hit Hp x. destruct (mem x (wl_owed s')) eqn:E; [|reflexivity].
  pose proof (winv_run items its _ _ (winv0 items) Hr) as HI. destruct (winv_iter items s it s' HI Hit) as ((_ & _ & HO) & HF).
  specialize (HF x (HO x E)). rewrite Hp in HF. discriminate.
Qed.

(* non-vacuity: an item flagged again while its writer is lent out is visited without the writer, stays flagged,
   and is written when the writer comes back *)
Example loop_example :
  let it1 := {| it_complete := None; it_flagged := [1]; it_pass := [(1, ODone)]; it_dirty := []; it_writers := [2]; it_pending := 1 |} in
  let it2 := {| it_complete := None; it_flagged := [1]; it_pass := [(1, ONoWriter)]; it_dirty := [1]; it_writers := [2]; it_pending := 1 |} in
  let it3 := {| it_complete := Some 1; it_flagged := [1]; it_pass := [(1, ODone)]; it_dirty := []; it_writers := [2]; it_pending := 1 |} in
  match wl_run (wl0 [1; 2]) [it1; it2; it3] with Some s => wl_owed s = [] /\ wl_pending s = [1] | None => False end.
Proof. vm_compute. auto. Qed.
