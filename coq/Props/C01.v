(* C01 — Value lanes: subscribers see an ordered, gap-tolerant, never-stale view.
   Property theorems only (Proofs/UplinksProofs.v): the runtime side, per remote, for every order of lane
   responses, link/unlink actions and writer returns (= every remote speed).
   Checked by correspondence + oracle on the real WriteTaskState (partial): that once every write has
   completed the last value produced for a linked remote has been delivered, for several remotes.
   Not modelled: the agent side (ValueLane dirty flag / write_to_buffer, command decoding) and the task
   interleavings of the agent runtime. *)
From SwimV Require Import Model.Uplinks Proofs.UplinksProofs.
Open Scope N_scope.

(* whatever was skipped while the remote was slow, an event written for a value lane carries the value
   the lane produced last - so what a remote sees is an in-order subsequence of the lane's values and
   never an older value after a newer one; and an event is only written if a value was produced *)
Theorem C01_value_event_is_latest : forall kf ops, Forall (well_kinded kf) ops ->
  forall h t b, In (h, Some t) (urun uplinks0 [] ops) -> kf (wt_lane t) = KValue ->
  (wt_action t = WEvent b \/ wt_action t = WValueSynced true b) ->
  last_value h (wt_lane t) None = Some b.
Proof.
  intros kf ops HK h t b HIn Hk Ha. pose proof (uplinks_tasks_justified kf ops HK h t HIn) as HT.
  unfold task_ok in HT. destruct Ha as [Ha|Ha]; rewrite Ha in HT; now rewrite Hk in HT.
Qed.

(* a pending value is overwritten by a newer one, never queued behind it *)
Theorem C01_newer_value_replaces_pending : forall u l b,
  u_writer u = false ->
  aget l (u_values (fst (push_resp u l (RValue b)))) =
  Some {| uv_queued := true; uv_synced := uv_synced (aget_or uv0 l (u_values u)); uv_cur := Some b |}.
Proof. intros u l b EW. unfold push_resp. rewrite EW. cbn [fst u_values]. apply aget_aput_same. Qed.
