(* C01 — Value lanes: subscribers see an ordered, gap-tolerant, never-stale view.
   Property theorems only.  Proofs/UplinksProofs.v: the runtime side, per remote, for every order of lane
   responses, link/unlink actions and writer returns (= every remote speed).  Proofs/ValuePipelineProofs.v:
   one value lane end to end (Model/ValuePipeline.v: the lane object's dirty flag and sync queue,
   write_to_buffer, the routing of its responses, each remote's uplink), for any number of remotes and every
   order of sets, sync requests, lane writes, links, unlinks and write completions.
   Proofs/WriteLoopProofs.v: the agent task's own write bookkeeping (Model/WriteLoop.v: flagged items, writers at
   hand, writes in flight), tied to the code by the loop's own trace (harness c01w): a changed lane is offered the
   chance to write until it has nothing left.
   Not modelled: command decoding, and the task interleavings of the agent runtime (exercised end to end by the
   harness c01e). *)
From SwimV Require Import Model.Uplinks Proofs.UplinksProofs Model.ValuePipeline Proofs.ValuePipelineProofs Model.WriteLoop Proofs.WriteLoopProofs.
Open Scope N_scope.

(* whatever was skipped while the remote was slow, an event written for a value lane carries the value
   the lane produced last - so what a remote sees is an in-order subsequence of the lane's values and
   never an older value after a newer one; and an event is only written if a value was produced *)
Theorem C01_value_event_is_latest : forall kf ops, Forall (well_kinded kf) ops ->
  forall h t b, In (h, Some t) (urun uplinks0 [] ops) -> kf (wt_lane t) = KValue ->
  (wt_action t = WEvent b \/ wt_action t = WValueSynced true b) ->
  last_value h (wt_lane t) None = Some b.
Proof.
  intros kf ops HK h t b HIn Hk Ha. pose proof (uplinks_tasks_justified kf ops HK h t HIn) as HT.
  unfold task_ok in HT. destruct Ha as [Ha|Ha]; rewrite Ha in HT; now rewrite Hk in HT.
Qed.

(* a pending value is overwritten by a newer one, never queued behind it *)
Theorem C01_newer_value_replaces_pending : forall u l b,
  u_writer u = false ->
  aget l (u_values (fst (push_resp u l (RValue b)))) =
  Some {| uv_queued := true; uv_synced := uv_synced (aget_or uv0 l (u_values u)); uv_cur := Some b |}.
Proof. intros u l b EW. unfold push_resp. rewrite EW. cbn [fst u_values]. apply aget_aput_same. Qed.

(* ---- one value lane end to end (Model/ValuePipeline.v) ---- *)

(* at any point, whatever a remote has been sent is an ordered gap-tolerant view of the values the lane held:
   values may have been skipped, none is invented, none comes after a newer one *)
Theorem C01_remote_view_of_history : forall init ops r x,
  aget r (p_rems (pexec (pipe0 init) ops)) = Some x ->
  SS (events_of (r_sent x)) (p_hist (pexec (pipe0 init) ops)).
Proof. exact remote_view_of_history. Qed.

(* the same on the observable: the frames delivered at the remote's write completions against the initial value
   followed by the values set; [ss] is the decision procedure the oracle runs on the implementation's frames *)
Theorem C01_delivered_frames_are_a_view : forall init ops r,
  ss (events_of (frames_for r ops (prun (pipe0 init) ops))) (hist_of init ops) = true.
Proof. exact delivered_frames_are_a_view. Qed.

Theorem C01_view_decision_is_exact : forall d h, ss d h = true <-> SS d h.
Proof. exact ss_iff. Qed.

(* once the lane has nothing left to report and the remote's writer is home, a remote that is owed anything has
   the lane's current value as its last event *)
Theorem C01_quiescent_remote_is_current : forall init ops r x b,
  let p := pexec (pipe0 init) ops in
  aget r (p_rems p) = Some x -> vl_dirty (p_lane p) = false -> v_home (r_up x) = true -> r_owed x = Some b ->
  last_opt (events_of (r_sent x)) = Some (vl_content (p_lane p)).
Proof. exact quiescent_remote_is_current. Qed.

(* a remote that is linked while a change is still to be reported, and is not unlinked afterwards, has the
   current value at the next quiescent point - whoever made the change (command or handler: both are PSet) *)
Theorem C01_linked_remote_converges : forall init ops1 ops2 r,
  let p1 := pexec (pipe0 init) ops1 in
  let p2 := pexec (pipe0 init) (ops1 ++ ops2) in
  Owes r p1 -> Forall (fun o => o <> PUnlink r /\ o <> PStopAll) ops2 ->
  vl_dirty (p_lane p2) = false ->
  forall x, aget r (p_rems p2) = Some x -> v_home (r_up x) = true ->
  last_opt (events_of (r_sent x)) = Some (vl_content (p_lane p2)).
Proof. exact linked_remote_converges. Qed.

(* the premise is met by a reachable state *)
Theorem C01_owes_witness : Owes 1 (pexec (pipe0 [48]) [PAdd 1; PLink 1; PSet [53]]).
Proof. exact owes_witness. Qed.

(* ---- the agent task's write bookkeeping (Model/WriteLoop.v) ---- *)

(* for every run of the loop - every sequence of events, flaggings by handlers and answers of the items - no writer
   is lost or duplicated: each item's writer is at hand or lent to exactly one write in flight *)
Theorem C01_loop_no_writer_lost : forall items its s, wl_run (wl0 items) its = Some s ->
  forall x, WriteLoop.mem x items = xorb (WriteLoop.mem x (wl_writers s)) (WriteLoop.mem x (wl_pending s))
            /\ WriteLoop.mem x (wl_writers s) && WriteLoop.mem x (wl_pending s) = false.
Proof. exact no_writer_lost. Qed.

(* after every pass an item that is still flagged has a write in flight, whose completion brings the loop back *)
Theorem C01_loop_flagged_item_has_write_in_flight : forall items its it s s',
  wl_run (wl0 items) its = Some s -> wl_iter s it = Some s' ->
  forall x, WriteLoop.mem x (wl_dirty s') = true -> WriteLoop.mem x (wl_pending s') = true.
Proof. exact flagged_item_has_write_in_flight. Qed.

(* a change a handler reported is not forgotten: the item stays flagged until it has answered that it has nothing
   more to write *)
Theorem C01_loop_reported_change_stays_flagged : forall items its s, wl_run (wl0 items) its = Some s ->
  forall x, WriteLoop.mem x (wl_owed s) = true -> WriteLoop.mem x (wl_dirty s) = true.
Proof. exact reported_change_stays_flagged. Qed.

(* so at a quiescent point nothing is owed *)
Theorem C01_loop_quiescent_nothing_owed : forall items its it s s',
  wl_run (wl0 items) its = Some s -> wl_iter s it = Some s' -> wl_pending s' = [] ->
  forall x, WriteLoop.mem x (wl_owed s') = false.
Proof. exact quiescent_nothing_owed. Qed.
