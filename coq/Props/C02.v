(* C02 — Map lanes: every subscriber's replica converges to the lane's map.
   Property theorems only (Proofs/MapQueueProofs.v, Proofs/MapLaneProofs.v).
   Keys are (class, spelling): two keys are the same key (Eq for typed keys, Recon equality for key
   text) iff their classes are equal.  [eff d e cur] is what applying operation [e] does to the value
   of key class [d]; [effs] applies a list of them in order.  [W] = 2^64: the epoch counters wrap.
   The hypotheses [len ops + 1 < W] say that fewer than 2^64 operations are considered (a queue of
   2^64 entries cannot exist in memory); they are what keeps the wrapped epoch arithmetic exact.
   The composition of the agent-side queue with the runtime-side MapOperationQueue across the byte channel
   (a FIFO pipe: C12) is Proofs/MapTwoStageProofs.v.
   The per-remote sync replicas are C03's theorems (Proofs/MapLaneSyncProofs.v). *)
From SwimV Require Import Model.MapLane Proofs.MapQueueProofs Proofs.MapLaneProofs Proofs.MapTwoStageProofs.
From Coq Require Import Permutation.
Open Scope N_scope.

(* Both coalescing queues (EventQueue: keep_old_key = false; MapOperationQueue: either), from any
   starting epoch: at every moment of every push/pop interleaving, what the consumer already applied
   followed by what is still queued gives the source's value for every key; at most one entry per key
   is queued; once the queue is drained the consumer equals the source. *)
Theorem C02_queue_converges : forall d h ops, h < W -> len ops + 1 < W ->
  let '(q, src, rep) := track d (empty_at h) None None ops in
  effs d (events q) rep = src /\ unique_cls (events q) /\ (events q = [] -> rep = src).
Proof. exact queue_converges. Qed.

(* the oracle the harness evaluates on the implementation's trace cannot fail on the model *)
Theorem C02_oracle_holds : forall h ops cs, h < W -> len ops + 1 < W ->
  oracle_run [] [] ops (qrun (empty_at h) ops) cs = true.
Proof. exact oracle_holds. Qed.

(* coalescing = applying the operation after the queued ones *)
Theorem C02_push_is_apply_last : forall d es e cur, unique_cls es -> clear_only_first es ->
  effs d (spush es e) cur = eff d e (effs d es cur).
Proof. exact spush_effect. Qed.

(* per key, in order: a popped update/remove carries the value the key holds at the pop ... *)
Theorem C02_popped_entry_is_current : forall d q src rep q' e,
  QI d q src rep -> pop q = (q', Some e) -> cls e = Some d -> eff d e rep = src.
Proof. exact popped_entry_is_current. Qed.

(* ... a clear is queued alone (everything older is dropped with it) and nothing overtakes it *)
Theorem C02_clear_pushed_alone : forall q keep, events (push q EClear keep) = [EClear].
Proof. exact clear_pushed_alone. Qed.

Theorem C02_clear_not_overtaken : forall q e keep, SI q -> len (events q) + 1 < W ->
  hd_error (events q) = Some EClear -> hd_error (events (push q e keep)) = Some EClear.
Proof. exact clear_not_overtaken. Qed.

(* the lane: the value an update event is given when written (read from the map) is the value its
   queue entry stands for, and the key is present: to_operation never drops an update *)
Theorem C02_queued_value_is_current : forall m q rep0 k v,
  LIw m q rep0 -> In (EUpdate k v) (events q) -> em_get k m = Some v.
Proof. exact queued_value_is_current. Qed.

(* the lane, for every command sequence with sync requests and writes interleaved in any way: a
   consumer of the standard events converges to the lane's map *)
Theorem C02_lane_converges : forall ops, 2 * len ops + 2 < W ->
  let (l, rep0) := ltrack lane0 [] ops in
  (forall d, effs d (events (evq l)) (lookup d rep0) = lookup d (l_map l)) /\
  (events (evq l) = [] -> forall d, lookup d rep0 = lookup d (l_map l)).
Proof. exact lane_converges. Qed.

(* take / drop: the designated keys are the first n (drop) / all but the first n (take) in key order,
   whatever order the backing map yields its keys in ... *)
Theorem C02_drop_take_order_independent : forall ks ks' kind n,
  NoDup (map fst ks) -> Permutation ks ks' -> drop_or_take ks kind n = drop_or_take ks' kind n.
Proof. exact drop_or_take_order_independent. Qed.

Theorem C02_drop_take_boundary : forall ks n a b, NoDup (map fst ks) ->
  In a (drop_or_take ks KDrop n) -> In b (drop_or_take ks KTake n) -> fst a < fst b.
Proof. exact drop_take_boundary. Qed.

Theorem C02_drop_take_counts : forall ks n,
  length (drop_or_take ks KDrop n) = Nat.min n (length ks) /\
  length (drop_or_take ks KTake n) = (length ks - n)%nat.
Proof. exact drop_take_counts. Qed.

(* ... and exactly those entries leave the lane's map (hence, by convergence, every replica) *)
Theorem C02_take_drop_exact : forall l kind n d, NoDup (em_classes (l_map l)) ->
  lookup d (l_map (lane_drop_take l kind n)) =
  if existsb (fun k => fst k =? d) (drop_or_take (map fst (l_map l)) kind n) then None
  else lookup d (l_map l).
Proof. exact take_drop_exact. Qed.

(* non-vacuity: a wrapped queue in a reachable state with a replaced entry *)
Example C02_nonvacuous :
  let '(q, src, rep) := track 1 (empty_at (W - 1)) None None
     [QPush (EUpdate (1, 0) 5) false; QPush (EUpdate (2, 0) 6) false; QPush (EUpdate (1, 1) 7) true; QPop] in
  events q = [EUpdate (2, 0) 6] /\ src = Some 7 /\ rep = Some 7 /\ head_epoch q = 0.
Proof. vm_compute. auto. Qed.

(* the two coalescing queues in series - the lane's event queue, then the remote's queue in the runtime - for both
   overwrite policies, any starting epochs and every schedule of changes, lane writes and deliveries: what the
   remote has applied, then what waits in the runtime, then what waits in the lane, gives the lane's value for every
   key; with both queues drained the remote's replica is the lane's map *)
Theorem C02_two_stage_converges : forall keep1 keep2 d h1 h2 ops, h1 < W -> h2 < W -> 2 * len ops + 2 < W ->
  let '(s, src, mid, rep) := ts_track keep1 keep2 d {| t_lane := empty_at h1; t_rt := empty_at h2 |} None None None ops in
  effs d (events (t_lane s)) (effs d (events (t_rt s)) rep) = src
  /\ (events (t_lane s) = [] -> events (t_rt s) = [] -> rep = src).
Proof. exact two_stage_converges. Qed.
