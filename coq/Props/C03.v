(* C03 — Sync gives a consistent snapshot, then a gap-free tail.
   Property theorems only (Proofs/UplinksProofs.v): what the runtime writes for a sync answer of a lane.
   The lane side of a map sync (per-remote sync queues interleaved with events, Model/MapLane.v) is
   Proofs/MapLaneSyncProofs.v: the replica of a syncing remote, built from its own sync events and every
   standard event written since its request, is consistent with the lane key by key and is the lane's map
   (up to what is still queued) when it is told synced.  The same over the real MapLane and WriteTaskState,
   with and without a preceding link (implicit link), is checked by correspondence + oracle. *)
From SwimV Require Import Model.Uplinks Proofs.UplinksProofs Model.ValuePipeline Proofs.ValuePipelineProofs.
From SwimV Require Import Model.MapLane Proofs.MapQueueProofs Proofs.MapLaneProofs Proofs.MapLaneSyncProofs.
Open Scope N_scope.

(* value lanes: the synced marker never overtakes the value waiting for that remote - both leave in one
   write, value first - and with nothing waiting it leaves alone *)
Theorem C03_value_synced_after_value : forall u l rest x b,
  u_sq u = [] -> u_wq u = (KValue, l) :: rest -> aget l (u_values u) = Some x ->
  uv_synced x = true -> uv_cur x = Some b ->
  option_map frames_of (snd (replace_and_pop u)) = Some [FEvent l b; FSynced l].
Proof. exact value_synced_after_value. Qed.

Theorem C03_value_synced_alone : forall u l rest x,
  u_sq u = [] -> u_wq u = (KValue, l) :: rest -> aget l (u_values u) = Some x ->
  uv_synced x = true -> uv_cur x = None ->
  option_map frames_of (snd (replace_and_pop u)) = Some [FSynced l].
Proof. exact value_synced_alone. Qed.

(* map lanes: synced is written after everything queued for that remote, in queue order *)
Theorem C03_map_synced_drains_queue : forall l q,
  frames_of {| wt_lane := l; wt_action := WMapSynced (Some q) |} =
  map (fun e => FMapEvent l (Some e)) (events q) ++ [FSynced l].
Proof. exact map_synced_drains. Qed.

(* and everything written before a synced was produced by the lane *)
Theorem C03_sync_events_are_lane_events : forall kf ops, Forall (well_kinded kf) ops ->
  forall h t q, In (h, Some t) (urun uplinks0 [] ops) -> wt_action t = WMapSynced (Some q) ->
  forall e, In e (events q) -> pushed_map h (wt_lane t) e.
Proof.
  intros kf ops HK h t q HIn Ha e He. pose proof (uplinks_tasks_justified kf ops HK h t HIn) as HT.
  unfold task_ok in HT. rewrite Ha in HT. destruct HT as (_ & HT). now apply HT.
Qed.

(* ---- the lane side of a value sync (Model/ValuePipeline.v) ---- *)

(* a sync request is answered with the value the lane holds when it answers - so a value it held between the
   request and the answer - addressed to the requester, and the synced marker follows it directly *)
Theorem C03_value_sync_answer_is_current : forall l r rest,
  vl_syncq l = r :: rest ->
  snd (fst (vl_write l)) = [LSyncEvent r (vl_content l); LSynced r].
Proof. exact sync_answer_is_current. Qed.

(* while sync requests are waiting the lane writes no plain event: the snapshot is not overtaken *)
Theorem C03_value_sync_before_event : forall l,
  vl_syncq l <> [] -> forall a, In a (snd (fst (vl_write l))) -> forall b, a <> LEvent b.
Proof. exact sync_before_event. Qed.

(* and everything the remote is sent afterwards is again a view of the lane's history ending, at quiescence, in
   its current value: the gap-free tail *)
Theorem C03_value_tail_converges : forall init ops1 ops2 r,
  let p1 := pexec (pipe0 init) ops1 in
  let p2 := pexec (pipe0 init) (ops1 ++ ops2) in
  Owes r p1 -> Forall (fun o => o <> PUnlink r /\ o <> PStopAll) ops2 ->
  vl_dirty (p_lane p2) = false ->
  forall x, aget r (p_rems p2) = Some x -> v_home (r_up x) = true ->
  last_opt (events_of (r_sent x)) = Some (vl_content (p_lane p2)).
Proof. exact linked_remote_converges. Qed.

(* ---- the lane side of a map sync (Model/MapLane.v: the event queue and the per-remote sync queues) ---- *)

(* every sync id used once; commands (update / remove / clear / drop / take), other remotes' sync requests and
   writes in any order: once the remote has been told synced, its replica - built from the sync events addressed
   to it and from every standard event written since its request - followed by what the lane still has queued is
   the lane's map, key by key; with nothing queued it is the lane's map *)
Theorem C03_map_sync_replica_converges : forall id ops, NoDup (sync_ids ops) -> 2 * len ops + 2 < W ->
  let '(l, rep0, st, rep) := strack id lane0 [] SNone [] ops in
  st = SSynced ->
  (forall d, effs d (events (evq l)) (lookup d rep) = lookup d (l_map l)) /\
  (events (evq l) = [] -> forall d, lookup d rep = lookup d (l_map l)).
Proof. exact sync_replica_converges. Qed.

(* and while it is still syncing: every key it has been told about agrees with the lane (up to what is queued), the
   keys still to be sent are unknown to it - concurrent syncs and changes do not disturb it *)
Theorem C03_map_syncing_replica_is_consistent : forall id ops, NoDup (sync_ids ops) -> 2 * len ops + 2 < W ->
  let '(l, rep0, st, rep) := strack id lane0 [] SNone [] ops in
  st = SSyncing -> exists K, pend id (syncs_of l) = Some K /\
    forall d, (inK d K = true /\ lookup d rep = None) \/ effs d (events (evq l)) (lookup d rep) = lookup d (l_map l).
Proof. exact syncing_replica_is_consistent. Qed.

(* a sync interleaved with changes reaches synced with the lane's map *)
Theorem C03_map_sync_witness :
  let ops := [LUpdate (1, 0) 5; LUpdate (2, 0) 6; LSync 9; LWrite; LWrite; LUpdate (3, 0) 7; LRemove (1, 0);
              LWrite; LWrite; LWrite; LWrite; LWrite; LWrite; LWrite; LWrite] in
  let '(l, rep0, st, rep) := strack 9 lane0 [] SNone [] ops in
  st = SSynced /\ events (evq l) = [] /\ lookup 1 rep = None /\ lookup 2 rep = Some 6 /\ lookup 3 rep = Some 7.
Proof. exact sync_example. Qed.
