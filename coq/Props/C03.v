(* C03 — Sync gives a consistent snapshot, then a gap-free tail.
   Property theorems only (Proofs/UplinksProofs.v): what the runtime writes for a sync answer of a lane.
   The lane side of a map sync (per-remote sync queues interleaved with events) is C02's lane model; the
   consistency of the snapshot with the lane's state over several remotes, with and without a preceding
   link (implicit link), is checked on the real WriteTaskState and MapLane by correspondence + oracle
   (partial). *)
From SwimV Require Import Model.Uplinks Proofs.UplinksProofs.
Open Scope N_scope.

(* value lanes: the synced marker never overtakes the value waiting for that remote - both leave in one
   write, value first - and with nothing waiting it leaves alone *)
Theorem C03_value_synced_after_value : forall u l rest x b,
  u_sq u = [] -> u_wq u = (KValue, l) :: rest -> aget l (u_values u) = Some x ->
  uv_synced x = true -> uv_cur x = Some b ->
  option_map frames_of (snd (replace_and_pop u)) = Some [FEvent l b; FSynced l].
Proof. exact value_synced_after_value. Qed.

Theorem C03_value_synced_alone : forall u l rest x,
  u_sq u = [] -> u_wq u = (KValue, l) :: rest -> aget l (u_values u) = Some x ->
  uv_synced x = true -> uv_cur x = None ->
  option_map frames_of (snd (replace_and_pop u)) = Some [FSynced l].
Proof. exact value_synced_alone. Qed.

(* map lanes: synced is written after everything queued for that remote, in queue order *)
Theorem C03_map_synced_drains_queue : forall l q,
  frames_of {| wt_lane := l; wt_action := WMapSynced (Some q) |} =
  map (fun e => FMapEvent l (Some e)) (events q) ++ [FSynced l].
Proof. exact map_synced_drains. Qed.

(* and everything written before a synced was produced by the lane *)
Theorem C03_sync_events_are_lane_events : forall kf ops, Forall (well_kinded kf) ops ->
  forall h t q, In (h, Some t) (urun uplinks0 [] ops) -> wt_action t = WMapSynced (Some q) ->
  forall e, In e (events q) -> pushed_map h (wt_lane t) e.
Proof.
  intros kf ops HK h t q HIn Ha e He. pose proof (uplinks_tasks_justified kf ops HK h t HIn) as HT.
  unfold task_ok in HT. rewrite Ha in HT. destruct HT as (_ & HT). now apply HT.
Qed.
