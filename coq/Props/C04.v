(* C04 — Every uplink follows the WARP link state machine; no fabricated frames.
   Property theorems only (Proofs/UplinksProofs.v), about the per-remote Uplinks structure and the
   write tasks it creates, for every order of pushes, special actions and writer returns.
   [task_ok kf h t]: task t is justified by the history h of lane responses pushed for this remote
   (kf: the kind of each lane): a value event carries the value pushed last for its lane, a supply
   event a pushed and not yet written supply value, a map event a pushed operation; an event with an
   empty buffer that no lane produced ([WMapEvent None]) is never written.
   The (remote, lane) link state machine over several remotes (linked ... unlinked rounds, lane-not-found,
   lane removal, unlink-all) is checked on the real WriteTaskState by correspondence + oracle (partial). *)
From SwimV Require Import Model.Uplinks Proofs.UplinksProofs Model.ValuePipeline Proofs.ValuePipelineProofs Proofs.ValueGrammarProofs.
Open Scope N_scope.

Theorem C04_tasks_justified : forall kf ops, Forall (well_kinded kf) ops ->
  forall h t, In (h, Some t) (urun uplinks0 [] ops) -> task_ok kf h t.
Proof. exact uplinks_tasks_justified. Qed.

(* one write at a time per remote: creating a task takes the writer, and nothing is created while it
   is away except by its return *)
Theorem C04_task_takes_writer : forall u o t, snd (ustep u o) = Some t -> u_writer (fst (ustep u o)) = false.
Proof. exact task_takes_writer. Qed.

Theorem C04_no_task_while_writer_out : forall u o, u_writer u = false -> o <> UReturn -> snd (ustep u o) = None.
Proof. exact no_task_while_out. Qed.

(* linked / unlinked / lane-not-found are written before any queued event, in request order *)
Theorem C04_specials_first : forall u a rest, u_writer u = false -> u_sq u = a :: rest ->
  snd (replace_and_pop u) = Some {| wt_lane := special_lane a; wt_action := WSpecial a |} /\
  u_sq (fst (replace_and_pop u)) = rest.
Proof. exact specials_first. Qed.

(* non-vacuity: an unlink and relink behind a write in progress leaves a stale queue entry; nothing is
   written for it *)
Example C04_nonvacuous :
  map snd (urun uplinks0 []
    [UPushSpecial (SLinked 0); UPush 0 (RValue [1]); UPushSpecial (SUnlinked 0 0); UPushSpecial (SLinked 0);
     UPush 0 (RValue [2]); UReturn; UReturn; UReturn; UReturn]) =
  [Some {| wt_lane := 0; wt_action := WSpecial (SLinked 0) |}; None; None; None; None;
   Some {| wt_lane := 0; wt_action := WSpecial (SUnlinked 0 0) |};
   Some {| wt_lane := 0; wt_action := WSpecial (SLinked 0) |};
   Some {| wt_lane := 0; wt_action := WEvent [2] |}; None].
Proof. vm_compute. reflexivity. Qed.

(* ---- the link protocol on one value lane end to end (Model/ValuePipeline.v) ---- *)

(* for any number of remotes and every order of sets, sync requests, lane writes, links, unlinks, write
   completions and the agent stopping: what a remote has been sent for the lane is, at any point, a prefix of
   (linked+ (event | synced)* unlinked)* - events and synced markers never appear outside a link, an unlinked only
   closes a link *)
Theorem C04_value_stream_is_grammatical : forall init ops r x,
  aget r (p_rems (pexec (pipe0 init) ops)) = Some x -> exists g, gram (r_sent x) = Some g.
Proof. exact remote_stream_is_grammatical. Qed.

(* the same on the frames delivered at the remote's write completions: what the oracle evaluates *)
Theorem C04_delivered_frames_are_grammatical : forall init ops r,
  gram_ok (frames_for r ops (prun (pipe0 init) ops)) = true.
Proof. exact delivered_frames_are_grammatical. Qed.

(* a remote is sent at most as many synced markers as it asked for *)
Theorem C04_synced_only_when_asked : forall init ops r x,
  aget r (p_rems (pexec (pipe0 init) ops)) = Some x -> (count_synced (r_sent x) <= asked r ops)%nat.
Proof. exact synced_only_when_asked. Qed.

(* when the agent stops every open link is closed: once its writes are done a remote's stream ends outside a link *)
Theorem C04_stopped_agent_closes_every_link : forall init ops1 ops2 r x,
  let p := pexec (pipe0 init) (ops1 ++ PStopAll :: ops2) in
  Forall (fun o => match o with PDone _ => True | _ => False end) ops2 ->
  aget r (p_rems p) = Some x -> v_home (r_up x) = true -> gram (r_sent x) = Some GOut.
Proof. exact stopped_agent_closes_every_link. Qed.

Theorem C04_stop_witness :
  let p := pexec (pipe0 [48]) ([PAdd 1; PLink 1; PDone 1; PSet [53]; PWrite] ++ PStopAll :: [PDone 1; PDone 1; PDone 1]) in
  exists x, aget 1 (p_rems p) = Some x /\ v_home (r_up x) = true /\ r_sent x = [FLinked 0; FEvent 0 [53]; FUnlinked 0 1].
Proof. exact stop_witness. Qed.
