(* C04 — Every uplink follows the WARP link state machine; no fabricated frames.
   Property theorems only (Proofs/UplinksProofs.v), about the per-remote Uplinks structure and the
   write tasks it creates, for every order of pushes, special actions and writer returns.
   [task_ok kf h t]: task t is justified by the history h of lane responses pushed for this remote
   (kf: the kind of each lane): a value event carries the value pushed last for its lane, a supply
   event a pushed and not yet written supply value, a map event a pushed operation; an event with an
   empty buffer that no lane produced ([WMapEvent None]) is never written.
   The (remote, lane) link state machine over several remotes (linked ... unlinked rounds, lane-not-found,
   lane removal, unlink-all) is checked on the real WriteTaskState by correspondence + oracle (partial). *)
From SwimV Require Import Model.Uplinks Proofs.UplinksProofs.
Open Scope N_scope.

Theorem C04_tasks_justified : forall kf ops, Forall (well_kinded kf) ops ->
  forall h t, In (h, Some t) (urun uplinks0 [] ops) -> task_ok kf h t.
Proof. exact uplinks_tasks_justified. Qed.

(* one write at a time per remote: creating a task takes the writer, and nothing is created while it
   is away except by its return *)
Theorem C04_task_takes_writer : forall u o t, snd (ustep u o) = Some t -> u_writer (fst (ustep u o)) = false.
Proof. exact task_takes_writer. Qed.

Theorem C04_no_task_while_writer_out : forall u o, u_writer u = false -> o <> UReturn -> snd (ustep u o) = None.
Proof. exact no_task_while_out. Qed.

(* linked / unlinked / lane-not-found are written before any queued event, in request order *)
Theorem C04_specials_first : forall u a rest, u_writer u = false -> u_sq u = a :: rest ->
  snd (replace_and_pop u) = Some {| wt_lane := special_lane a; wt_action := WSpecial a |} /\
  u_sq (fst (replace_and_pop u)) = rest.
Proof. exact specials_first. Qed.

(* non-vacuity: an unlink and relink behind a write in progress leaves a stale queue entry; nothing is
   written for it *)
Example C04_nonvacuous :
  map snd (urun uplinks0 []
    [UPushSpecial (SLinked 0); UPush 0 (RValue [1]); UPushSpecial (SUnlinked 0 0); UPushSpecial (SLinked 0);
     UPush 0 (RValue [2]); UReturn; UReturn; UReturn; UReturn]) =
  [Some {| wt_lane := 0; wt_action := WSpecial (SLinked 0) |}; None; None; None; None;
   Some {| wt_lane := 0; wt_action := WSpecial (SUnlinked 0 0) |};
   Some {| wt_lane := 0; wt_action := WSpecial (SLinked 0) |};
   Some {| wt_lane := 0; wt_action := WEvent [2] |}; None].
Proof. vm_compute. reflexivity. Qed.
