(* C05 — Persisted state is never older than what was published; restart restores it.
   Property theorems only (Proofs/PersistProofs.v).  A history is the merged log, on one clock, of the
   operations handed to the store (NodePersistence calls) and of the event frames read by the remotes.
   [log_ok] says that everything published had been handed to the store before, and that nothing transient
   reaches the store; [wtask_run] is the write task (persist_response, then handle_event; writes complete
   later or are superseded); [replay] is what the store holds after a history, [restored_value] /
   [restored_map] what an item holds when the agent is started on that store, [rebuild] the map
   initialiser (one update per stored entry, applied to an empty map).
   Not modelled: the read task, the timing of writes, RocksDB itself (C13), the lanes' own logic. *)
From SwimV Require Import Model.Persist Proofs.PersistProofs.
Open Scope N_scope.

(* the write task, for any responses, remotes and any schedule of completed / superseded writes, produces
   only histories in which what is published was persisted first *)
Theorem C05_write_task_history_ok : forall persistent ss,
  log_ok persistent (w_log (wtask_run persistent ss)) = true.
Proof. exact write_task_history_ok. Qed.

(* a crash may cut such a history anywhere *)
Theorem C05_crash_anywhere : forall persistent n l,
  log_ok persistent l = true -> log_ok persistent (firstn n l) = true.
Proof. exact log_ok_prefix. Qed.

(* value items: whatever a subscriber saw before the crash had been handed to the store, and the item comes
   back with that value or one handed over later - never something older (the second alternative: what it saw
   was the default state, never stored, which nothing restored can be older than) *)
Theorem C05_restart_never_older_value : forall persistent l n r i x,
  log_ok persistent l = true -> persistent i = true -> no_delete i l ->
  In (LSentV r i x) (firstn n l) ->
  (exists before after,
     puts i (firstn n l) = before ++ x :: after /\
     restored_value (replay (firstn n l)) i = last (x :: after) 0%Z)
  \/ x = 0%Z.
Proof. exact restart_never_older_value. Qed.

(* map items: every operation a subscriber saw is among those handed over before the crash, and the map
   comes back as exactly the entries implied by all the operations handed over *)
Theorem C05_restart_never_older_map : forall persistent l n r i o,
  log_ok persistent l = true -> persistent i = true ->
  In (LSentM r i o) (firstn n l) ->
  In o (mops i (firstn n l)) /\
  restored_map (replay (firstn n l)) i = fold_left apply_mop (mops i (firstn n l)) [].
Proof. exact restart_never_older_map. Qed.

(* the stored map streamed by the initialiser and applied by the item is the stored map *)
Theorem C05_initialiser_rebuilds_the_map : forall l i,
  rebuild (restored_map (replay l) i) = restored_map (replay l) i.
Proof. exact rebuild_restores. Qed.

(* transient items come back at their defaults *)
Theorem C05_transient_restarts_at_default : forall persistent l n i,
  log_ok persistent l = true -> persistent i = false ->
  restored_value (replay (firstn n l)) i = 0%Z /\ restored_map (replay (firstn n l)) i = [].
Proof. exact transient_restarts_at_default. Qed.

(* the write task hands the store, under an item's id, only what that very item reported (an event or a sync
   answer), and never deletes: no item's stored state is written by another item *)
Theorem C05_write_task_provenance : forall persistent ss,
  provenance_ok (handled ss) (w_log (wtask_run persistent ss)) = true.
Proof. exact write_task_provenance. Qed.

(* so whatever a restart finds under an item's id, after a crash anywhere, is a value that item reported *)
Theorem C05_stored_value_was_reported : forall cmds l n i,
  provenance_ok cmds l = true -> puts i (firstn n l) <> [] ->
  existsb (cmd_is_put i (restored_value (replay (firstn n l)) i)) cmds = true.
Proof. exact stored_value_was_reported. Qed.

Example C05_provenance_nonvacuous :
  provenance_ok [CSet 0 5%Z; CSet 1 9%Z] [LPut 0 5%Z; LSentV 1 1 9%Z] = true /\
  provenance_ok [CSet 0 5%Z; CSet 1 9%Z] [LPut 0 5%Z; LPut 0 9%Z] = false.
Proof. split; reflexivity. Qed.

Example C05_nonvacuous :
  let l := [LLinked 1 0; LPut 0 5%Z; LSentV 1 0 5%Z; LPut 0 7%Z; LMap 2 (MUpdate 1 4%Z); LSentM 1 2 (MUpdate 1 4%Z); LSentV 1 0 7%Z] in
  log_ok persistent_item l = true /\ no_delete 0 l /\
  restored_value (replay (firstn 4 l)) 0 = 7%Z /\ restored_map (replay l) 2 = [(1, 4)]%Z /\
  log_ok persistent_item [LSentV 1 0 5%Z; LPut 0 5%Z] = false.
Proof. exact history_witness. Qed.
