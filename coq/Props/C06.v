(* C06 — Event handlers run one at a time, depth-first, in the documented order.
   Property theorems only (Proofs/HandlersProofs.v).  [step] / [run] model the Rust state machines of the
   handler combinators (FollowedBy, AndThen, the lane actions) and run_handler's recursion on every reported
   modification; [eval] is the reference semantics: a direct depth-first interpreter of the handler program;
   [run_all] is the agent executing top-level handlers (on_start, lane commands, suspended handlers,
   on_stop) one after the other.
   Not modelled: the task loop's choice of the next top-level handler (the harness feeds the model the order
   the runtime chose), the other lane kinds (demand, supply, join, http), downlink lifecycles, timers. *)
From SwimV Require Import Model.Handlers Proofs.HandlersProofs.
Open Scope N_scope.

(* run_handler over the combinators' state machines computes exactly the depth-first semantics: whatever
   either produces (outcome, final stores, the whole trace), for every program, lifecycle and state *)
Theorem C06_machine_is_depth_first : forall lc h st tr r,
  (exists g, run g lc (init h) st tr = Some r) <-> (exists f, eval f lc h st tr = Some r).
Proof. exact machine_is_depth_first. Qed.

(* the modifications reported by the first half of an and_then are acted on exactly as those of followed_by *)
Theorem C06_and_then_is_sequencing : forall lc g a b st tr,
  run g lc (init (HThen a b)) st tr = run g lc (init (HSeq a b)) st tr.
Proof. exact and_then_is_sequencing. Qed.

(* a result transformer around a handler (discard, Some(..), map) changes nothing of what it does: the
   modifications reported from inside it are acted on exactly as without it *)
Theorem C06_result_transformers_are_transparent : forall lc g a st tr,
  run g lc (init (HWrap a)) st tr = run g lc (init a) st tr.
Proof. exact wrap_is_transparent. Qed.

(* the result does not depend on how long the machine is allowed to run *)
Theorem C06_deterministic : forall lc g1 g2 s st tr r1 r2,
  run g1 lc s st tr = Some r1 -> run g2 lc s st tr = Some r2 -> r1 = r2.
Proof. exact run_deterministic. Qed.

(* a set triggers the lane's handlers exactly once, at once: on_event(new), then on_set(new, the value the
   lane really held before), each followed by its own cascade; only then does the setter go on *)
Theorem C06_set_triggers_event_then_set : forall lc f st tr l v,
  eval (S f) lc (HSetV l v) st tr =
  eval f lc (HSeq (HSeq (HRecord (EOnEvent l v)) (lc_event lc l))
                  (HSeq (HRecord (EOnSet l v (Some (v_content (vget st l))))) (lc_set lc l)))
       (settled st l v) tr.
Proof. exact set_triggers_event_then_set. Qed.

(* handlers do not overlap: the cascade of on_event lies wholly between the two lifecycle events, the
   cascade of on_set wholly after the second, and nothing of the interrupted handler in between *)
Theorem C06_cascade_is_nested : forall lc f st tr l v st' tr',
  eval (S (S (S f))) lc (HSetV l v) st tr = Some (Ok, st', tr') ->
  exists st1 t1 t2,
    eval f lc (lc_event lc l) (settled st l v) (tr ++ [EOnEvent l v]) = Some (Ok, st1, (tr ++ [EOnEvent l v]) ++ t1) /\
    eval f lc (lc_set lc l) st1 (((tr ++ [EOnEvent l v]) ++ t1) ++ [EOnSet l v (Some (v_content (vget st l)))])
      = Some (Ok, st', (((tr ++ [EOnEvent l v]) ++ t1) ++ [EOnSet l v (Some (v_content (vget st l)))]) ++ t2) /\
    tr' = (((tr ++ [EOnEvent l v]) ++ t1) ++ [EOnSet l v (Some (v_content (vget st l)))]) ++ t2.
Proof. exact set_cascade_is_nested. Qed.

(* a map update triggers on_update with the true previous entry, exactly once *)
Theorem C06_update_triggers_on_update : forall lc f st tr l k v,
  eval (S f) lc (HUpdM l k v) st tr =
  eval f lc (HSeq (HRecord (EOnUpdate l k (zlookup k (m_content (mget st l)))
                                     (match zlookup k (zinsert k v (m_content (mget st l))) with Some x => x | None => 0%Z end)))
                  (lc_update lc l))
       (mput st l {| m_content := zinsert k v (m_content (mget st l)); m_prev := None |}) tr.
Proof. exact update_triggers_on_update. Qed.

(* what does not change a lane triggers nothing *)
Theorem C06_remove_absent_triggers_nothing : forall lc f st tr l k,
  m_prev (mget st l) = None -> zlookup k (m_content (mget st l)) = None ->
  eval (S f) lc (HRemM l k) st tr = Some (Ok, st, tr).
Proof. exact remove_absent_triggers_nothing. Qed.

(* history is never rewritten *)
Theorem C06_trace_extends : forall lc f h st tr o st' tr',
  eval f lc h st tr = Some (o, st', tr') -> exists s, tr' = tr ++ s.
Proof. exact trace_extends. Qed.

(* when a handler fails nothing further of it is executed ... *)
Theorem C06_failure_stops_the_rest : forall lc f a b st tr st1 tr1,
  eval f lc a st tr = Some (Failed, st1, tr1) -> eval (S f) lc (HSeq a b) st tr = Some (Failed, st1, tr1).
Proof. exact failure_stops_the_rest. Qed.

(* ... nor of the handlers it interrupted *)
Theorem C06_failure_in_cascade_fails_the_setter : forall lc f st tr l v st1 tr1,
  eval f lc (HSeq (HSeq (HRecord (EOnEvent l v)) (lc_event lc l))
                  (HSeq (HRecord (EOnSet l v (Some (v_content (vget st l))))) (lc_set lc l)))
       (settled st l v) tr = Some (Failed, st1, tr1) ->
  forall rest, eval (S (S f)) lc (HSeq (HSetV l v) rest) st tr = Some (Failed, st1, tr1).
Proof. exact failure_in_cascade_fails_the_setter. Qed.

(* a failure of on_start, of a suspended handler or of on_stop is final *)
Theorem C06_agent_failure_is_final : forall lc g hs1 h hs2 st tr st1 tr1 st2 tr2,
  run_all g lc hs1 st tr = Some (Ok, st1, tr1) ->
  run g lc (init h) st1 tr1 = Some (Failed, st2, tr2) ->
  run_all g lc (hs1 ++ TMain h :: hs2) st tr = Some (Failed, st2, tr2).
Proof. exact agent_failure_is_final. Qed.

(* a failing handler of a lane command is abandoned where it failed; the agent goes on from that state *)
Theorem C06_command_failure_is_contained : forall lc g hs1 h hs2 st tr st1 tr1 st2 tr2,
  run_all g lc hs1 st tr = Some (Ok, st1, tr1) ->
  run g lc (init h) st1 tr1 = Some (Failed, st2, tr2) ->
  run_all g lc (hs1 ++ TCmd h :: hs2) st tr = run_all g lc hs2 st2 tr2.
Proof. exact command_failure_is_contained. Qed.

(* acyclic programs terminate: when every lifecycle handler of an item only modifies items of lower rank, every
   handler runs to completion or failure - no endless cascade (and, with the first theorem, run_handler stops) *)
Theorem C06_acyclic_programs_terminate : forall lc rank, stratified lc rank ->
  forall r h, modifies_below rank r h -> forall st tr, exists f res, eval f lc h st tr = Some res.
Proof. exact acyclic_programs_terminate. Qed.

(* a concrete cascade: setting lane 1 (whose on_event sets lane 0, whose on_set records an effect) *)
Example C06_nonvacuous :
  let lc := mk_lc [(1, HSetV 0 5%Z)] [(0, HRecord (EEff 7))] [] [] [] in
  (exists r, run 20 lc (init (HSeq (HSetV 1 3%Z) (HGetV 0))) store0 [] = Some r /\
             eval 20 lc (HSeq (HSetV 1 3%Z) (HGetV 0)) store0 [] = Some r) /\
  match eval 20 lc (HSeq (HSetV 1 3%Z) (HGetV 0)) store0 [] with
  | Some (Ok, _, tr) =>
      tr = [EOnEvent 1 3%Z; EOnEvent 0 5%Z; EOnSet 0 5%Z (Some 0%Z); EEff 7; EOnSet 1 3%Z (Some 0%Z); EGot 0 5%Z]
  | _ => False
  end.
Proof. split; [eexists; split; vm_compute; reflexivity | vm_compute; reflexivity]. Qed.
