(* C07 — A shared downlink serves every consumer a complete, ordered session.
   Property theorems only (Proofs/DlRuntimeProofs.v, Proofs/DlWriteProofs.v).  [rstep] / [rrun] model the
   read task of the downlink runtime (dl_state, awaiting_linked, awaiting_synced, registered, current,
   sync_event); [session] is the specification: what one consumer is owed, written without any reference to
   the other consumers; [wstep] / [wrun] model the write task for value downlinks (Idle / Writing,
   NEEDS_SYNC, the latest-value backpressure).
   [mwstep] / [mwrun] (Model/DlMapWrite.v) are the same write task over the map backpressure, i.e. over the
   MapOperationQueue of C02 (Model/MapQueue.v; per-key order and the clear barrier are C02's theorems).
   Not modelled:
   consumers that fail or drop, KEEP_LINKED hand-over to a new connection, the inactivity time-out votes. *)
From SwimV Require Import Model.DlMapWrite Proofs.MapQueueProofs Proofs.DlMapWriteProofs Model.DlRuntime Proofs.DlRuntimeProofs Proofs.DlWriteProofs.
Open Scope N_scope.

(* however many consumers attach and whenever they do, each is told exactly its own session: linked as soon
   as the link is up, then - without SYNC - every later event; with SYNC the state at the next synced (value)
   or every event since it attached (map), synced, and every later event; unlinked when the link closes *)
Theorem C07_shared_runtime_is_private_sessions : forall single c sync es,
  (attaches c es <= 1)%nat -> flags_ok c sync es ->
  seen_by c (snd (rrun single rstate0 es)) = session single c sync sess0 es.
Proof. exact shared_runtime_is_private_sessions. Qed.

(* a consumer joining at any moment changes nothing of what the others are told *)
Theorem C07_joiner_does_not_disturb_the_others : forall single c sync c' b es1 es2,
  c' <> c -> (attaches c (es1 ++ RConsumer c' b :: es2) <= 1)%nat -> flags_ok c sync (es1 ++ RConsumer c' b :: es2) ->
  seen_by c (snd (rrun single rstate0 (es1 ++ RConsumer c' b :: es2))) =
  seen_by c (snd (rrun single rstate0 (es1 ++ es2))).
Proof. exact joiner_does_not_disturb_the_others. Qed.

(* commands are never reordered: at every moment what has been sent is, in order, part of what was given *)
Theorem C07_commands_never_reordered : forall es,
  Subseq (commands_of (w_sent (wrun es))) (commands_in es).
Proof. exact commands_never_reordered. Qed.

(* only superseded commands are dropped: once the socket has taken what it is owed the last command sent is
   the last command given, so a value lane ends in the same state as if all had been sent *)
Theorem C07_last_command_is_sent : forall es d, w_pending (wrun es) = None ->
  last (commands_of (w_sent (wrun es))) d = last (commands_in es) d.
Proof. exact last_command_is_sent. Qed.

(* the socket needs to take at most three more frames for that *)
Theorem C07_write_task_drains : forall s,
  (w_pending s = None -> w_latest s = None /\ w_needs_sync s = false) -> w_pending (wdrain 3 s) = None.
Proof. exact wdrain_idle. Qed.

(* the link request is the first thing sent *)
Theorem C07_link_is_sent_first : forall es, exists rest, w_sent (wrun es) = FLink :: rest.
Proof. exact link_is_sent_first. Qed.

(* a consumer that needs a sync has one sent for it after it joined, however busy the socket was *)
Theorem C07_sync_is_sent_for_a_joiner : forall es1 es2,
  w_pending (wrun (es1 ++ WProducer true :: es2)) = None ->
  (count_sync (w_sent (wrun es1)) < count_sync (w_sent (wrun (es1 ++ WProducer true :: es2))))%nat.
Proof. exact sync_is_sent_for_a_joiner. Qed.

(* map downlinks: whatever the schedule of commands and completed writes, for every key what the remote lane has
   been sent, then what is in flight, then what is still queued gives the state all the commands imply; once the
   socket has taken everything the lane is in exactly that state (only superseded operations were dropped) *)
Theorem C07_map_commands_converge : forall d h es, h < W -> len es + 2 < W ->
  let s := mwrun h es in
  effs d (events (mw_queue s)) (effs d (applied s) None) = effs d (ops_given es) None /\
  (mw_pending s = None -> effs d (ops_of (mw_sent s)) None = effs d (ops_given es) None).
Proof. exact map_commands_converge. Qed.

Example C07_nonvacuous :
  (session true 1 true sess0 [RConsumer 0 true; RMessage RLinked; RMessage (REvent 5); RMessage RSynced; RConsumer 1 true;
                              RMessage (REvent 6); RMessage RSynced; RMessage (REvent 7); RMessage RUnlinked]
   = [NLinked; NEvent 6; NSynced; NEvent 7; NUnlinked] /\
   session true 2 false sess0 [RMessage RLinked; RConsumer 2 false; RMessage (REvent 6)] = [NLinked; NEvent 6]) /\
  w_sent (wdrain 3 (wrun [WProducer true; WCommand 1; WCommand 2; WProducer true; WCommand 3; WWritten])) =
  [FLink; FSync; FSync; FCommand 3].
Proof. split; [exact session_witness|exact write_witness]. Qed.
