(* C08 — Downlink local state equals the fold of what it received.
   Property theorems only (Proofs/DownlinkProofs.v).
   [spec_step] is the specification: the state is None (not linked) or Some (synced?, value) where the
   value is the fold of the events received since linking ([apply_msg] for maps); on_synced fires at
   the transition to synced with the state of that moment; event callbacks carry the previous and new
   values and fire iff synced or events_when_not_synced.  [legal] is the grammar of a well-behaved
   link: rounds of [linked, events, optionally synced and more events, unlinked], with writes through the downlink's own handle
   (NLocal) anywhere.  Each run function returns, per notification, the list of callbacks fired. *)
From SwimV Require Import Model.Downlink Proofs.DownlinkProofs.
Open Scope N_scope.

(* both map downlinks, both configuration flags, every legal sequence: the callbacks (hence the
   state they expose) are exactly the specification's *)
Theorem C08_client_map_is_spec : forall cfg ns, legal None ns = true ->
  c_run cfg CsUnlinked ns = spec_run cfg None ns.
Proof. exact client_is_spec. Qed.

Theorem C08_hosted_map_is_spec : forall cfg ns, legal None ns = true -> has_whole_drop None ns = false ->
  h_run cfg h0 ns = spec_run cfg None ns.
Proof. exact hosted_is_spec. Qed.

Theorem C08_client_eq_hosted_map : forall cfg ns, legal None ns = true -> has_whole_drop None ns = false ->
  c_run cfg CsUnlinked ns = h_run cfg h0 ns.
Proof. exact client_eq_hosted. Qed.

(* the message is always applied, only the dispatch of callbacks is conditional *)
Theorem C08_client_event_applies_always : forall m e d,
  c_on_event m e d = (apply_msg m e, if d then spec_cbs m e else []).
Proof. exact c_on_event_spec. Qed.

Theorem C08_hosted_event_applies_always : forall m e lc, whole_drop m e = false ->
  h_on_event m e lc = (apply_msg m e, if lc then spec_cbs m e else []).
Proof. exact h_on_event_spec. Qed.

(* on_synced sees the fold of everything received since linking, whether or not the events before it
   were reported *)
Theorem C08_synced_sees_fold : forall cfg es,
  spec_run cfg None (NLinked :: map NEvent es ++ [NSynced]) =
  [CLinked] :: map (fun p => if events_when_not_synced cfg then spec_cbs (fst p) (snd p) else [])
                   ((fix go m es := match es with [] => [] | e :: t => (m, e) :: go (apply_msg m e) t end) [] es)
  ++ [[CSynced (fold_left apply_msg es [])]].
Proof. exact synced_sees_fold. Qed.

Theorem C08_client_value_is_spec : forall cfg ns, vlegal None ns = true ->
  cv_run cfg CvUnlinked ns = vspec_run cfg None ns.
Proof. exact client_value_is_spec. Qed.

Theorem C08_hosted_value_is_spec : forall cfg ns, vlegal None ns = true ->
  hv_run cfg hv0 ns = vspec_run cfg None ns.
Proof. exact hosted_value_is_spec. Qed.

(* known finding C08-F1: the hosted downlink reports a drop of the whole map as one on_clear, the
   client (and the specification) as one on_remove per entry *)
Theorem C08_F1_hosted_whole_drop_refuted :
  exists cfg ns, legal None ns = true /\ h_run cfg h0 ns <> spec_run cfg None ns /\
                 c_run cfg CsUnlinked ns = spec_run cfg None ns.
Proof.
  exists {| events_when_not_synced := true; terminate_on_unlinked := false |},
         [NLinked; NEvent (MUpdate 1 1); NEvent (MUpdate 2 2); NEvent (MDrop 2)].
  vm_compute. split; [reflexivity|]. split; [discriminate|reflexivity].
Qed.

(* non-vacuity: a legal sequence with suppressed events, a clear and a take before sync, a local write *)
Example C08_nonvacuous :
  let cfg := {| events_when_not_synced := false; terminate_on_unlinked := false |} in
  let ns := [NLinked; NEvent (MUpdate 1 1); NEvent MClear; NEvent (MUpdate 2 2); NEvent (MUpdate 3 3);
             NEvent (MTake 1); NLocal (MUpdate 9 9); NSynced; NEvent (MUpdate 2 5); NUnlinked; NLinked] in
  legal None ns = true /\ has_whole_drop None ns = false /\
  c_run cfg CsUnlinked ns =
    [[CLinked]; []; []; []; []; []; []; [CSynced [(2, 2)]]; [CUpdate 2 [(2, 5)] (Some 2) 5]; [CUnlinked]; [CLinked]].
Proof. vm_compute. auto. Qed.
