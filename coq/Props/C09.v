(* C09 — Recon text is a faithful and stable encoding, however it is chunked.
   Property theorems only (Proofs/ReconTextProofs.v): the text-token layer.  A text is a list of Unicode
   scalar values; [write_string_literal] is what every printer writes for a text value, an attribute
   name or a text key; [text_token] is the tokenizer (identifier or string literal with its escape
   automaton).
   Covered by oracles on the real code only (partial): records, numbers, blobs, the three printers'
   layouts, the incremental decoder against the one-shot parser for every cut, typed values, malformed
   inputs.  Known findings C09-F1..F3 (shapes of records whose printed form does not read back). *)
From SwimV Require Import Model.ReconText Proofs.ReconTextProofs.
Open Scope N_scope.

(* any text at all - controls, quotes, backslashes, any scalar value, the words true and false, the
   empty text - printed and followed by anything that cannot continue an identifier reads back as
   exactly that text, with the rest of the input untouched *)
Theorem C09_text_roundtrip : forall t rest,
  match rest with [] => True | c :: _ => is_identifier_char c = false end ->
  text_token (write_string_literal t ++ rest) = (TokText t, rest).
Proof. exact text_roundtrip. Qed.

(* the quoted form reads back whatever follows it *)
Theorem C09_quoted_reads_back : forall t rest, text_token (quoted t ++ rest) = (TokText t, rest).
Proof. exact quoted_reads_back. Qed.

(* the escape automaton inverts escape_text *)
Theorem C09_unescape_escape : forall t, unescape (escape_text t) = Some t.
Proof. exact unescape_escape. Qed.

(* a \u escape naming a surrogate is an invalid escape (it used to panic) *)
Theorem C09_surrogate_escape_rejected : text_token [34; 92; 117; 100; 56; 48; 48; 34] = (TokBadEscape, []).
Proof. exact surrogate_escape_rejected. Qed.

(* non-vacuity *)
Example C09_nonvacuous :
  write_string_literal [97; 34; 10; 1; 92] = [34; 97; 92; 34; 92; 110; 92; 117; 48; 48; 48; 49; 92; 92; 34] /\
  write_string_literal [116; 114; 117; 101] = [34; 116; 114; 117; 101; 34] /\
  write_string_literal [110; 97; 109; 101] = [110; 97; 109; 101].
Proof. vm_compute. auto. Qed.
