(* C09 — Recon text is a faithful and stable encoding, however it is chunked.
   Property theorems only (Proofs/ReconTextProofs.v): the text-token layer.  A text is a list of Unicode
   scalar values; [write_string_literal] is what every printer writes for a text value, an attribute
   name or a text key; [text_token] is the tokenizer (identifier or string literal with its escape
   automaton).
   Integer literals (Model/ReconNum.v): the decimal form every printer writes for an integer value of any kind and
   size, and the tokenizer's integer branches (decimal, 0x, 0b, the kind chosen for the magnitude).
   Blob literals (Model/ReconBlob.v): '%' and padded base64 as the printers write it, the tokenizer's blob rule with
   the decoder's canonicity check.
   Covered by oracles on the real code only (partial): records, floats, the three printers'
   layouts, the incremental decoder against the one-shot parser for every cut, typed values, malformed
   inputs.  Known findings C09-F1..F3 (shapes of records whose printed form does not read back). *)
From SwimV Require Import Model.ReconText Proofs.ReconTextProofs.
From SwimV Require Import Model.ReconNum Proofs.ReconNumProofs.
From SwimV Require Import Model.ReconBlob Proofs.ReconBlobProofs.
Open Scope N_scope.

(* any text at all - controls, quotes, backslashes, any scalar value, the words true and false, the
   empty text - printed and followed by anything that cannot continue an identifier reads back as
   exactly that text, with the rest of the input untouched *)
Theorem C09_text_roundtrip : forall t rest,
  match rest with [] => True | c :: _ => is_identifier_char c = false end ->
  text_token (write_string_literal t ++ rest) = (TokText t, rest).
Proof. exact text_roundtrip. Qed.

(* the quoted form reads back whatever follows it *)
Theorem C09_quoted_reads_back : forall t rest, text_token (quoted t ++ rest) = (TokText t, rest).
Proof. exact quoted_reads_back. Qed.

(* the escape automaton inverts escape_text *)
Theorem C09_unescape_escape : forall t, unescape (escape_text t) = Some t.
Proof. exact unescape_escape. Qed.

(* a \u escape naming a surrogate is an invalid escape (it used to panic) *)
Theorem C09_surrogate_escape_rejected : text_token [34; 92; 117; 100; 56; 48; 48; 34] = (TokBadEscape, []).
Proof. exact surrogate_escape_rejected. Qed.

(* non-vacuity *)
(* every integer - of any size, of any of the integer kinds of a value - written in decimal and followed by
   anything that cannot continue a number is read back as that integer, the rest of the input untouched *)
Theorem C09_printed_integer_reads_back : forall z rest, follow_ok rest ->
  exists v, num_token (print_int z ++ rest) = (NLit v, rest) /\ nz v = z.
Proof. exact printed_integer_reads_back. Qed.

Theorem C09_printed_integer_is_an_integer_text : forall z, exists v, int_of_text (print_int z) = Some v /\ nz v = z.
Proof. exact printed_integer_is_an_integer_text. Qed.

(* the kind of value a literal is read as depends on its number alone (so reading a printed value twice gives
   the same value: the second cycle is a fixed point) *)
Theorem C09_literal_kind_by_number : forall neg n,
  let v := classify neg n in
  let z := nz v in
  value_kind v =
    if ((- 2147483648 <=? z) && (z <=? 2147483647))%Z then VI32
    else if ((- 9223372036854775807 <=? z) && (z <=? 9223372036854775807))%Z then VI64
    else if ((0 <=? z) && (z <=? 18446744073709551615))%Z then VU64
    else if (z <? 0)%Z then VBigInt else VBigUint.
Proof. exact literal_kind_by_number. Qed.

Example C09_integer_nonvacuous :
  print_int (-120) = [45; 49; 50; 48] /\
  int_of_text [48; 120; 70; 102] = Some {| nk := KUInt; nz := 255 |} /\
  int_of_text [45; 48; 98; 49; 48; 49] = Some {| nk := KInt; nz := -5 |} /\
  int_of_text [49; 46; 53] = None /\
  value_kind (classify true 9223372036854775808) = VBigInt /\
  nv_eq {| nk := KInt; nz := 5 |} {| nk := KBigUint; nz := 5 |} = true.
Proof. exact integer_witness. Qed.

(* every byte string, of any length, printed as a blob literal and followed by anything that cannot continue it is
   read back as exactly those bytes, the rest of the input untouched; and no two byte strings share a literal *)
Theorem C09_printed_blob_reads_back : forall bs rest, byte_list bs -> blob_follow_ok rest ->
  blob_token (print_blob bs ++ rest) = (BOk bs, rest).
Proof. exact printed_blob_reads_back. Qed.

Theorem C09_blob_literal_injective : forall a b, byte_list a -> byte_list b ->
  print_blob a = print_blob b -> a = b.
Proof. exact print_blob_injective. Qed.

Example C09_blob_nonvacuous :
  print_blob [1; 2; 3] = [37; 65; 81; 73; 68] /\
  print_blob [255] = [37; 47; 119; 61; 61] /\
  blob_token [37; 65; 81; 73; 68; 44; 49] = (BOk [1; 2; 3], [44; 49]) /\
  fst (blob_token [37; 81; 82; 61; 61]) = BBad /\
  blob_token [37] = (BOk [], []).
Proof. exact blob_witness. Qed.

Example C09_nonvacuous :
  write_string_literal [97; 34; 10; 1; 92] = [34; 97; 92; 34; 92; 110; 92; 117; 48; 48; 48; 49; 92; 92; 34] /\
  write_string_literal [116; 114; 117; 101] = [34; 116; 114; 117; 101; 34] /\
  write_string_literal [110; 97; 109; 101] = [110; 97; 109; 101].
Proof. vm_compute. auto. Qed.
