(* C10 — Binary frames decode to what was encoded under any fragmentation.
   Property theorems only (Proofs/Streaming.v, Proofs/CodecProofs.v).  [feed_items step unread s buf
   chunks] drives a decoder the way FramedRead does: append a chunk, decode until "need more";
   it returns (items, bytes never consumed, no-error flag). *)
From SwimV Require Import Model.Codec Proofs.Streaming Proofs.CodecProofs Proofs.ProtoFrameProofs.
Open Scope N_scope.

(* The generic streaming theorem: any resumable decoder that completes a frame as soon as its
   bytes are available and otherwise keeps exactly the partial frame decodes every chunking of every
   message sequence to exactly that sequence. *)
Theorem C10_any_fragmentation_generic :
  forall (step : dstate -> bytes -> dstate * bytes * dres) (enc : msg -> option bytes)
         (valid : msg -> Prop) (unread : dstate -> bytes),
  unread SHeader = [] ->
  (forall m e, valid m -> enc m = Some e -> e <> []) ->
  (forall s b m e rest, valid m -> enc m = Some e -> unread s ++ b = e ++ rest ->
                        step s b = (SHeader, rest, DSome m)) ->
  (forall s b m p q, valid m -> enc m = Some (p ++ q) -> q <> [] -> unread s ++ b = p ->
                     exists s' b', step s b = (s', b', DNone) /\ unread s' ++ b' = p) ->
  (forall s b, unread s ++ b = [] -> exists s' b', step s b = (s', b', DNone) /\ unread s' ++ b' = []) ->
  forall chunks ms all,
  Forall valid ms -> enc_all enc ms = Some all -> concat chunks = all ->
  feed_items step unread SHeader [] chunks = (ms, [], true).
Proof. exact feed_from_start. Qed.

(* encode/decode round trip with exact consumption, strict prefixes answer "need more" and keep
   the buffer, for the three stateless frame layers *)
Theorem C10_length_prefixed_frames : frame_spec dec_wl (encode CWL) valid_wl.
Proof. exact wl_frame_spec. Qed.

Theorem C10_map_operation_frames : frame_spec dec_mapop (encode CMO) valid_mo.
Proof. exact mo_frame_spec. Qed.

Theorem C10_map_message_frames : frame_spec dec_mapmsg (encode CMM) valid_mm.
Proof. exact mm_frame_spec. Qed.

(* hence: every chunking of every sequence of such frames decodes to exactly the sequence *)
Theorem C10_stateless_any_chunking : forall D E V, frame_spec D E V ->
  forall chunks ms all,
  Forall V ms -> enc_all E ms = Some all -> concat chunks = all ->
  feed_items (fun _ b => stateless (D b)) no_unread SHeader [] chunks = (ms, [], true).
Proof. exact stateless_any_chunking. Qed.

(* the stateful lane codecs over any of the three inner layers *)
Theorem C10_lane_response_any_chunking : forall i chunks ms all,
  Forall (valid_lresp i) ms -> enc_all (encode (CLaneResp i)) ms = Some all -> concat chunks = all ->
  feed_items (dstep (CLaneResp i)) unread_lresp SHeader [] chunks = (ms, [], true).
Proof. exact lane_response_any_chunking. Qed.

Theorem C10_lane_request_any_chunking : forall i chunks ms all,
  Forall (valid_lreq i) ms -> enc_all (encode (CLaneReq i)) ms = Some all -> concat chunks = all ->
  feed_items (dstep (CLaneReq i)) unread_cmd SHeader [] chunks = (ms, [], true).
Proof. exact lane_request_any_chunking. Qed.

(* no input whatsoever makes a decoder panic (all codecs of the model except the ad hoc command
   decoder, whose internal loop is bounded by fuel in the model) *)
Theorem C10_no_panic : forall c s b, panic_free c = true -> snd (dstep c s b) <> DPanic.
Proof. exact no_panic. Qed.

(* the routed WARP messages between the runtime and an agent (swimos_messages::protocol; every link / sync / unlink /
   command request and every linked / synced / unlinked / event response travels in one): origin, the node and lane
   names (ASCII, below 2^32 bytes), the tag in the top three bits and the body length in the low 61 of one word *)
Theorem C10_routed_request_frames : frame_spec (dec_proto true) (encode CReq) valid_req.
Proof. exact req_frame_spec. Qed.

Theorem C10_routed_response_frames : frame_spec (dec_proto false) (encode CResp) valid_resp.
Proof. exact resp_frame_spec. Qed.

(* hence every sequence of them decodes to itself under every fragmentation, through the model's decoder step *)
Theorem C10_routed_request_any_chunking : forall chunks ms all,
  Forall valid_req ms -> enc_all (encode CReq) ms = Some all -> concat chunks = all ->
  feed_items (dstep CReq) no_unread SHeader [] chunks = (ms, [], true).
Proof. exact request_any_chunking. Qed.

Theorem C10_routed_response_any_chunking : forall chunks ms all,
  Forall valid_resp ms -> enc_all (encode CResp) ms = Some all -> concat chunks = all ->
  feed_items (dstep CResp) no_unread SHeader [] chunks = (ms, [], true).
Proof. exact response_any_chunking. Qed.
