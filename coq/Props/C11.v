(* C11 — WARP envelopes cross the socket unchanged and reach only their addressee.
   Property theorems only (Proofs/EnvelopeProofs.v): the text form of the link-level envelopes (link,
   sync, unlink, command, linked, synced, unlinked, event).  [enc_envelope] is what ReconEncoder writes
   for a request / notification; [peel_envelope] is peel_envelope_header_str (header matcher + envelope
   peeler) on headers whose slot values are text-like or numeric tokens.
   Proofs/SocketDispatchProofs.v: the dispatch inside the socket task (Model/SocketDispatch.v: the
   node -> lane -> writers tables with their clean-up, the agent routes, the outgoing side) refines a plain
   list of registrations.
   Not modelled: the multi-reader fairness between the sources sharing a socket (the harness gives the task
   time after every message, so each source's order is trivially kept), auth / deauth envelopes, and the web
   socket framing itself (partial). *)
From SwimV Require Import Model.Envelope Proofs.EnvelopeProofs Model.SocketDispatch Proofs.SocketDispatchProofs.
Open Scope N_scope.

(* any kind, any node URI and lane name - including names that need quoting or escaping, empty names,
   names containing separators or brackets - and any body: the peer reads the same kind of envelope
   with the same node, lane and body (the reader skips blanks in front of the body) *)
Theorem C11_envelope_roundtrip : forall k node lane body,
  peel_envelope (enc_envelope k node lane body) = Some (k, node, lane, skip_blanks body).
Proof. exact envelope_roundtrip. Qed.

(* the source text of a node / lane slot is exactly the printed name, whatever follows *)
Theorem C11_slot_value_is_printed_name : forall t c rest, is_identifier_char c = false ->
  value_span (write_string_literal t ++ c :: rest) = Some (write_string_literal t, c :: rest).
Proof. exact value_span_printed. Qed.

Example C11_nonvacuous :
  enc_envelope ECommand [47; 97; 32; 98] [108] [49] =
    [64; 99; 111; 109; 109; 97; 110; 100; 40; 110; 111; 100; 101; 58; 34; 47; 97; 32; 98; 34; 44; 108; 97; 110; 101; 58; 108; 41; 32; 49] /\
  peel_envelope (enc_envelope EEvent [] [34] [64; 97]) = Some (EEvent, [], [34], [64; 97]).
Proof. vm_compute. auto. Qed.

(* ---- dispatch inside the socket task (Model/SocketDispatch.v) ---- *)

(* for every sequence of attachments, departures, arriving and outgoing messages, the deliveries made through the
   task's two-level tables (with the removal of dead writers, of empty lane entries and of empty node entries)
   are those of the specification that just keeps the list of registrations *)
Theorem C11_tables_refine_registrations : forall plane ops,
  srun plane sock0 ops = spec_run plane ospec0 ops.
Proof. intros plane ops. exact (socket_tables_refine_registrations plane ops sock0 tinv0). Qed.

(* an arriving response envelope reaches exactly the downlinks attached for its node and lane whose reader is
   still there, in attachment order, unchanged *)
Theorem C11_response_reaches_exactly_the_owed : forall plane ops p,
  let s := sexec plane sock0 ops in
  s_stopped s = false ->
  snd (sstep plane s (OInResp p)) = map (fun d => DResp d p) (owed s (p_node p) (p_lane p)).
Proof. exact response_reaches_exactly_the_owed. Qed.

(* and no other: whoever receives it was attached with that very node and lane *)
Theorem C11_response_is_not_misdelivered : forall plane ops p d,
  let s := sexec plane sock0 ops in
  In (DResp d p) (snd (sstep plane s (OInResp p))) ->
  In (d, (p_node p, p_lane p)) (s_addr s) /\ memN d (s_gone s) = false.
Proof. exact response_is_not_misdelivered. Qed.

(* a request envelope goes to the agent of its node, or is answered not-found *)
Theorem C11_request_goes_to_its_node : forall plane s q, s_stopped s = false ->
  snd (sstep plane s (OInReq q)) =
  if memN (q_node q) plane then [DReq (q_node q) q]
  else match q_kind q with QCommand => [] | _ => [DFrame (FNotFound (q_node q) (q_lane q))] end.
Proof. exact request_goes_to_its_node. Qed.

(* a frame that is not a valid envelope is never delivered, nor is anything after it *)
Theorem C11_invalid_frame_is_never_delivered : forall plane s o, s_stopped s = true -> snd (sstep plane s o) = [].
Proof. exact invalid_frame_is_never_delivered. Qed.

(* what a downlink sends leaves as one frame with its content *)
Theorem C11_outgoing_messages_leave_unchanged : forall plane s d q,
  s_stopped s = false -> lookup d (s_addr s) <> None -> memN d (s_gone s) = false ->
  snd (sstep plane s (ODlSend d q)) = [DFrame (FReq q)].
Proof. exact outgoing_messages_leave_unchanged. Qed.

(* ... and so does what a send-only client (the path of an agent's ad hoc commands to a remote lane) sends *)
Theorem C11_sender_messages_leave_unchanged : forall plane s d q,
  s_stopped s = false -> memN d (s_senders s) = true -> memN d (s_gone s) = false ->
  snd (sstep plane s (ODlSend d q)) = [DFrame (FReq q)].
Proof. exact sender_messages_leave_unchanged. Qed.

(* the clean-up case is reachable: two lanes of one node, the only downlink of one has gone *)
Theorem C11_cleanup_witness :
  let p1 := {| p_kind := PEvent; p_node := 1; p_lane := 0; p_body := Some 901 |} in
  let p2 := {| p_kind := PEvent; p_node := 1; p_lane := 1; p_body := Some 902 |} in
  srun [] sock0 [OAttach 1 1 0; OAttach 2 1 1; ODrop 1; OInResp p1; OInResp p2] = [[]; []; []; []; [DResp 2 p2]].
Proof. exact cleanup_witness. Qed.
