(* C11 — WARP envelopes cross the socket unchanged and reach only their addressee.
   Property theorems only (Proofs/EnvelopeProofs.v): the text form of the link-level envelopes (link,
   sync, unlink, command, linked, synced, unlinked, event).  [enc_envelope] is what ReconEncoder writes
   for a request / notification; [peel_envelope] is peel_envelope_header_str (header matcher + envelope
   peeler) on headers whose slot values are text-like or numeric tokens.
   Not modelled (no theorem, no harness): the dispatch of a decoded envelope to the agent or to the
   downlinks registered for its node and lane inside the remote task, the multi-reader fairness between
   the sources sharing a socket, auth / deauth envelopes, and the web socket framing itself (partial). *)
From SwimV Require Import Model.Envelope Proofs.EnvelopeProofs.
Open Scope N_scope.

(* any kind, any node URI and lane name - including names that need quoting or escaping, empty names,
   names containing separators or brackets - and any body: the peer reads the same kind of envelope
   with the same node, lane and body (the reader skips blanks in front of the body) *)
Theorem C11_envelope_roundtrip : forall k node lane body,
  peel_envelope (enc_envelope k node lane body) = Some (k, node, lane, skip_blanks body).
Proof. exact envelope_roundtrip. Qed.

(* the source text of a node / lane slot is exactly the printed name, whatever follows *)
Theorem C11_slot_value_is_printed_name : forall t c rest, is_identifier_char c = false ->
  value_span (write_string_literal t ++ c :: rest) = Some (write_string_literal t, c :: rest).
Proof. exact value_span_printed. Qed.

Example C11_nonvacuous :
  enc_envelope ECommand [47; 97; 32; 98] [108] [49] =
    [64; 99; 111; 109; 109; 97; 110; 100; 40; 110; 111; 100; 101; 58; 34; 47; 97; 32; 98; 34; 44; 108; 97; 110; 101; 58; 108; 41; 32; 49] /\
  peel_envelope (enc_envelope EEvent [] [34] [64; 97]) = Some (EEvent, [], [34], [64; 97]).
Proof. vm_compute. auto. Qed.
