(* C12 — Byte channels are lossless bounded FIFO pipes with no lost wake-ups.
   Property theorems only (proved in Proofs/ConduitProofs.v).  Model: Model/Conduit.v, one poll =
   one atomic step; the coop budget layer is part of the model. *)
From SwimV Require Import Model.Conduit Proofs.ConduitProofs.

(* every reachable state (any op list, any capacity >= 1) satisfies the invariant *)
Theorem C12_reachable_invariant : forall cp ops, 1 <= cp -> Inv (run_state (init cp) ops).
Proof. intros cp ops H. apply run_state_inv. exact (inv_init cp H). Qed.

(* bytes returned by reads ++ bytes still buffered = bytes accepted by writes, in order;
   the buffer never exceeds the capacity *)
Theorem C12_prefix_and_capacity : forall cp ops, 1 <= cp ->
  reads_of (run (init cp) ops) ++ data (run_state (init cp) ops) = writes_of ops (run (init cp) ops) /\
  length (data (run_state (init cp) ops)) <= cp.
Proof. exact reads_prefix_of_writes. Qed.

(* a poll that returns Pending either woke itself (coop budget) or left its waker in the slot
   with its wait condition true *)
Theorem C12_pending_read_parks : forall c n c' ws,
  step c (PollRead n) = (c', (RPending, ws)) ->
  (ws = [Rd] /\ data c' = data c /\ waker c' = waker c)
  \/ (ws = [] /\ rd_parked c' = true /\ waker c' = Some Rd /\ data c = [] /\ closed c = false).
Proof. exact pending_read_parks. Qed.

Theorem C12_pending_write_parks : forall c bs c' ws,
  step c (PollWrite bs) = (c', (RPending, ws)) ->
  (ws = [Wr] /\ data c' = data c /\ waker c' = waker c)
  \/ (ws = [] /\ wr_parked c' = true /\ waker c' = Some Wr /\ length (data c) >= cap c /\ closed c = false).
Proof. exact pending_write_parks. Qed.

(* no lost wake-up: whenever a parked side's wait condition is falsified (or the channel closes)
   by any step, that step wakes it *)
Theorem C12_parked_reader_is_woken : forall c o c' r ws,
  Inv c -> rd_parked c = true -> step c o = (c', (r, ws)) ->
  (data c' <> [] \/ closed c' = true) -> In Rd ws.
Proof. exact parked_reader_is_woken. Qed.

Theorem C12_parked_writer_is_woken : forall c o c' r ws,
  Inv c -> wr_parked c = true -> step c o = (c', (r, ws)) ->
  (length (data c') < cap c' \/ closed c' = true) -> In Wr ws.
Proof. exact parked_writer_is_woken. Qed.

(* closing is permanent; after it no write is accepted and reads drain the rest, then EOF *)
Theorem C12_closed_is_permanent : forall c o, closed c = true -> closed (fst (step c o)) = true.
Proof. exact closed_is_permanent. Qed.

Theorem C12_no_write_after_close : forall c bs c' r ws,
  closed c = true -> step c (PollWrite bs) = (c', (r, ws)) ->
  data c' = data c /\ written c' = written c /\
  (r = RBroken \/ r = RSkip \/ (r = RPending /\ ws = [Wr])).
Proof. exact no_write_after_close. Qed.

Theorem C12_read_after_close : forall c n c' r ws,
  closed c = true -> rd_alive c = true -> step c (PollRead n) = (c', (r, ws)) ->
  (r = RPending /\ ws = [Rd] /\ data c' = data c)
  \/ (exists bs, r = RRead bs /\ bs = firstn (Nat.min (length (data c)) n) (data c)
                 /\ data c' = skipn (Nat.min (length (data c)) n) (data c)).
Proof. exact read_after_close. Qed.

Theorem C12_empty_read_means_eof : forall c n c' ws,
  0 < n -> step c (PollRead n) = (c', (RRead [], ws)) -> data c = [] /\ closed c = true.
Proof. exact empty_read_means_eof. Qed.
