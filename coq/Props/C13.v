(* C13 — Both stores behave as isolated per-agent, per-item value/map storage.
   Property theorems only (Proofs/StoresProofs.v, Proofs/StoresMapProofs.v).  These are the byte-level and
   allocation facts on which the RocksDB back-end's isolation rests, and the map keyspace read as a map per
   lane (what a reader finds for a key is what the last update / remove / clear of that lane left there;
   read_map lists exactly those entries in key order); the refinement of both back-ends, names and kinds
   included, to the specification [spec_step] is checked by correspondence + oracle on every run (partial). *)
From SwimV Require Import Model.Stores Proofs.StoresProofs Proofs.StoresMapProofs.
Open Scope N_scope.

(* store keys are injective in (lane id, key) for keys of every length *)
Theorem C13_map_key_injective : forall id k id' k',
  U64 id -> U64 id' -> U64 (len k) -> U64 (len k') ->
  ser_map_key id k = ser_map_key id' k' -> id = id' /\ k = k'.
Proof. exact ser_map_key_injective. Qed.

Theorem C13_value_key_injective : forall id id', U64 id -> U64 id' -> ser_value id = ser_value id' -> id = id'.
Proof. exact ser_value_injective. Qed.

(* read_map: the prefix scan of lane id returns exactly the keys of lane id (ids < 2^56) ... *)
Theorem C13_scan_selects_exactly_the_lane : forall id id' k',
  U56 id -> U56 id' ->
  let e := ser_map_key id' k' in
  (ble (ser_map_prefix id) e && bytes_eqb (prefix8 e) (prefix8 (ser_map_prefix id)) = true) <-> id' = id.
Proof. exact scan_selects_exactly_the_lane. Qed.

(* ... and stripping the 18-byte prefix gives back the user's key, whatever its length *)
Theorem C13_strip_returns_key : forall id k v, strip (ser_map_key id k, v) = (k, v).
Proof. exact strip_returns_key. Qed.

(* clear_map: the half-open range [prefix, ubound) holds exactly the keys of that lane *)
Theorem C13_range_contains_exactly_the_lane : forall id id' k',
  U64 id -> U64 id' ->
  let e := ser_map_key id' k' in
  (ble (ser_map_prefix id) e && blt e (ser_map_ubound id) = true) <-> id' = id.
Proof. exact range_contains_exactly_the_lane. Qed.

(* hence: updates, removals and clears of one lane never change what another lane's scan returns,
   and a clear leaves nothing behind *)
Theorem C13_update_isolated : forall ks id id' k v, U56 id -> U56 id' -> id' <> id ->
  seek_prefix (bput (ser_map_key id' k) v ks) (ser_map_prefix id) = seek_prefix ks (ser_map_prefix id).
Proof. exact update_map_isolated. Qed.

Theorem C13_remove_isolated : forall ks id id' k, U56 id -> U56 id' -> id' <> id ->
  seek_prefix (bdel (ser_map_key id' k) ks) (ser_map_prefix id) = seek_prefix ks (ser_map_prefix id).
Proof. exact remove_map_isolated. Qed.

Theorem C13_clear_isolated : forall ks id id', wf_map_ks ks -> U56 id -> U56 id' -> id' <> id ->
  seek_prefix (delete_range ks (ser_map_prefix id') (ser_map_ubound id')) (ser_map_prefix id)
  = seek_prefix ks (ser_map_prefix id).
Proof. exact clear_map_isolated. Qed.

Theorem C13_clear_clears : forall ks id, wf_map_ks ks -> U56 id ->
  seek_prefix (delete_range ks (ser_map_prefix id) (ser_map_ubound id)) (ser_map_prefix id) = [].
Proof. exact clear_map_clears. Qed.

(* identifiers: after any history (with reopen points anywhere) the allocator's invariant holds,
   a name keeps its id for ever, and two names never share an id *)
Theorem C13_ids_invariant : forall ops, ids_inv (rocks_run_state rocks0 ops).
Proof. exact ids_inv_reachable. Qed.

Theorem C13_id_is_stable : forall r o name id,
  bget name (lane_ids r) = Some id -> bget name (lane_ids (fst (rocks_step r o))) = Some id.
Proof. exact id_is_stable. Qed.

Theorem C13_ids_never_collide : forall ops name1 name2 id,
  let r := rocks_run_state rocks0 ops in
  bget name1 (lane_ids r) = Some id -> bget name2 (lane_ids r) = Some id -> name1 = name2.
Proof. exact ids_never_collide. Qed.

(* the same when the process is killed between any two writes, any number of times (a new name writes the
   counter, then its own entry, then the operation's entry; after a kill the database is opened again): the
   allocator's invariant holds again after every reopening, a stored identifier is never reassigned, and two
   names never share one *)
Theorem C13_ids_invariant_with_kills : forall hs, ids_inv (hrun_state rocks0 hs).
Proof. exact ids_inv_reachable_with_kills. Qed.

Theorem C13_id_survives_a_kill : forall r k o name id,
  bget name (lane_ids r) = Some id -> bget name (lane_ids (rocks_kill r k o)) = Some id.
Proof. exact id_survives_a_kill. Qed.

Theorem C13_ids_never_collide_with_kills : forall hs name1 name2 id,
  let r := hrun_state rocks0 hs in
  bget name1 (lane_ids r) = Some id -> bget name2 (lane_ids r) = Some id -> name1 = name2.
Proof. exact ids_never_collide_with_kills. Qed.

(* a process killed outright - after every operation so far was acknowledged, before anything of the next was written -
   loses nothing: the next process finds what a clean reopening finds, and a whole history of such kills leaves the
   database as the same history with reopenings does (the implementation's side of this clause is the oracle
   kill_spec_bad on histories run in a child process that is killed with SIGKILL) *)
Theorem C13_outright_kill_loses_nothing : forall r o,
  let r' := rocks_kill r 0 o in
  value_ks r' = value_ks r /\ map_ks r' = map_ks r /\ lane_ids r' = lane_ids r /\ lane_counter r' = lane_counter r.
Proof. exact outright_kill_loses_nothing. Qed.

Theorem C13_outright_kills_are_reopenings : forall hs, only_outright hs = true ->
  forall r, hrun_state r hs = rocks_run_state r (map as_sop hs).
Proof. exact outright_kills_are_reopenings. Qed.

(* the store NAME of an item is "<agent>/<item>": not injective in (agent, item) - known finding *)
Theorem C13_F1_name_not_injective_refuted :
  exists a n a' n', (a, n) <> (a', n') /\ lane_name a n = lane_name a' n'.
Proof. exists [47; 97], [98; 47; 99], [47; 97; 47; 98], [99]. split; [discriminate|reflexivity]. Qed.

(* ---- the map keyspace as a map per lane (Proofs/StoresMapProofs.v) ---- *)
(* [WF ks]: every key is the map key of some lane with a 56-bit id and occurs once - kept by the three operations *)
Theorem C13_wf_kept : forall ks id k v, WF ks -> U56 id ->
  WF (bput (ser_map_key id k) v ks) /\ WF (bdel (ser_map_key id k) ks)
  /\ WF (delete_range ks (ser_map_prefix id) (ser_map_ubound id)).
Proof. intros ks id k v H Hid. split; [now apply wf_update|]. split; [now apply wf_remove|now apply wf_clear]. Qed.

(* what the prefix scan of a lane finds for a key is what a point lookup of the full store key finds *)
Theorem C13_scan_lookup_is_point_lookup : forall ks id k, wf_map_ks ks -> U56 id ->
  bget k (view ks id) = bget (ser_map_key id k) ks.
Proof. exact view_lookup_is_point_lookup. Qed.

(* an update sets the key and nothing else of the lane, a remove unsets it and nothing else, a clear unsets all *)
Theorem C13_update_sets_the_key : forall ks id k v k', WF ks -> U56 id ->
  bget k' (view (bput (ser_map_key id k) v ks) id) = if bytes_eqb k' k then Some v else bget k' (view ks id).
Proof. exact update_sets_the_key. Qed.

Theorem C13_remove_unsets_the_key : forall ks id k k', WF ks -> U56 id ->
  bget k' (view (bdel (ser_map_key id k) ks) id) = if bytes_eqb k' k then None else bget k' (view ks id).
Proof. exact remove_unsets_the_key. Qed.

Theorem C13_clear_unsets_every_key : forall ks id k', WF ks -> U56 id ->
  bget k' (view (delete_range ks (ser_map_prefix id) (ser_map_ubound id)) id) = None.
Proof. exact clear_unsets_every_key. Qed.

(* read_map lists (k, v) exactly if the lane holds v at k, and in increasing key order *)
Theorem C13_read_map_lists_the_lane : forall ks id k v, WF ks -> U56 id ->
  In (k, v) (sort_kv (view ks id)) <-> bget (ser_map_key id k) ks = Some v.
Proof. exact read_map_lists_the_lane. Qed.

Theorem C13_read_map_is_sorted : forall l, sorted_keys (sort_kv l).
Proof. exact read_map_is_sorted. Qed.

(* the premises are met: a store with two lanes *)
Theorem C13_map_witness :
  let ks := bput (ser_map_key 2 [7]) [9] (bput (ser_map_key 1 [7]) [8] []) in
  WF ks /\ sort_kv (view ks 1) = [([7], [8])] /\ sort_kv (view ks 2) = [([7], [9])].
Proof.
  split; [|split; vm_compute; reflexivity].
  apply wf_update; [apply wf_update; [split; constructor|]|]; unfold U56; reflexivity.
Qed.
