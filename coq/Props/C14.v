(* C14 — Supply lanes, command lanes and agent-sent commands are never coalesced.
   Property theorems only (Proofs/NoCoalesceProofs.v).
   Covered by theorems: the supply lane's queues, the supply uplink's byte buffer, and the ad hoc command
   output (CommandOutput + CmdChannelWriter) under every order of appends, channel openings and write
   completions.  Checked by correspondence + oracle only (partial): the command part of the real
   external_links_task behind stalled targets.  The agent's side of the command channel (commander identifiers,
   Model/Commanders.v) is covered by theorems and tied to a real agent by h_agent/c14a.  Not modelled: the supply uplink's re-queueing inside the
   write task (Uplinks), and the dispatch of command envelopes to command-lane handlers (read task +
   agent model loop). *)
From SwimV Require Import Model.NoCoalesce Proofs.CodecProofs Proofs.NoCoalesceProofs.
From SwimV Require Model.Commanders Proofs.CommandersProofs.
Open Scope N_scope.

(* supply lane: for every sequence of pushes, sync requests and writes, the events written so far
   followed by the events still queued are exactly the pushed values, in order, each once (same for
   sync ids) *)
Theorem C14_supply_lane_exactly_once : forall ops s,
  events_of (srun s ops) ++ s_events (sfinal s ops) = s_events s ++ pushed_of ops /\
  syncs_of (srun s ops) ++ s_syncs (sfinal s ops) = s_syncs s ++ synced_of ops.
Proof. exact supply_exactly_once_gen. Qed.

Theorem C14_supply_lane_flag : forall s,
  match sstep s SWrite with
  | (s', SWrote _ more) => more = nonempty (s_events s') || nonempty (s_syncs s')
  | _ => False
  end.
Proof. exact supply_flag. Qed.

Theorem C14_supply_lane_progress : forall s, nonempty (s_events s) || nonempty (s_syncs s) = true ->
  match sstep s SWrite with (_, SWrote (Some _) _) => True | _ => False end.
Proof. exact supply_progress. Qed.

(* supply uplink buffer: a FIFO of whole bodies for bodies of every length below 2^64, has_data exact *)
Theorem C14_supply_buffer_fifo : forall ops pending,
  Forall (fun b => U64 (len b)) pending ->
  Forall (fun o => match o with BPush b => U64 (len b) | BPrepare => True end) ops ->
  supplybp_oracle pending ops (brun (frames pending) ops) = true.
Proof. exact supplybp_fifo. Qed.

(* ad hoc commands: per target, channel ++ buffer = the appends, each once, in order, minus only
   overwritable ones that have a later append for the same target *)
Theorem C14_adhoc_forwarding : forall ops t,
  let s := crun ops in
  keeps (appends t (cs_hist s))
        (bodies (proj t (cs_stream s)) ++ bodies (lb_buf (get_buf t (co_bufs (cs_c s))))).
Proof. exact adhoc_forwarding. Qed.

Theorem C14_adhoc_idle_all_sent : forall ops t,
  let s := crun ops in
  co_writer (cs_c s) <> None ->
  lb_buf (get_buf t (co_bufs (cs_c s))) = [] /\ keeps (appends t (cs_hist s)) (bodies (proj t (cs_stream s))).
Proof. exact adhoc_idle_all_sent. Qed.

(* what [keeps] means *)
Theorem C14_keeps_never_drops_plain : forall A D, keeps A D -> forall b, In (b, false) A -> In b D.
Proof. exact keeps_non_ow. Qed.

Theorem C14_keeps_never_drops_latest : forall A D, keeps A D ->
  forall A' b o, A = A' ++ [(b, o)] -> exists D', D = D' ++ [b].
Proof. exact keeps_last. Qed.

Theorem C14_keeps_in_order_at_most_once : forall A D, keeps A D ->
  exists mask, length mask = length A /\ D = map fst (map snd (filter fst (combine mask A))).
Proof. exact keeps_sublist. Qed.

(* non-vacuity: two targets, an overwritten command, a write in flight, a multi-target flush *)
Example C14_nonvacuous :
  let s := crun [CAppend 0 1 false; COpen; CAppend 0 2 true; CAppend 1 3 false; CAppend 0 4 true; CDone; CDone] in
  bodies (cs_stream s) = [1; 4; 3] /\ co_writer (cs_c s) <> None.
Proof. vm_compute. split; [reflexivity|discriminate]. Qed.

(* the agent's side of the command channel: whatever commanders an agent creates and whenever (in on_start or later),
   and however it mixes sends through them with ad hoc sends, the messages it writes, resolved as the runtime resolves
   them (a Register binds an identifier, a Registered message goes where its identifier points), are each command once,
   in order, to the lane it was meant for, with its overwrite flag *)
Theorem C14_commands_reach_their_targets : forall ops ms,
  Commanders.arun Commanders.agent0 ops = Some ms -> Commanders.resolve [] ms = Some (Commanders.intended ops).
Proof. exact CommandersProofs.commands_reach_their_targets. Qed.

(* one address, one identifier, for the agent's whole life: an identifier once given stays with its address and no other
   address ever gets it, however many more commanders are requested *)
Theorem C14_commander_identifiers_are_stable : forall c addrs c',
  (forall a1 a2 i, Commanders.alookup a1 (Commanders.assigned c) = Some i ->
                   Commanders.alookup a2 (Commanders.assigned c) = Some i -> a1 = a2) ->
  (forall a i, Commanders.alookup a (Commanders.assigned c) = Some i -> i < Commanders.next_id c) ->
  CommandersProofs.ids_after c addrs = Some c' ->
  (forall a i, Commanders.alookup a (Commanders.assigned c) = Some i -> Commanders.alookup a (Commanders.assigned c') = Some i) /\
  (forall a1 a2 i, Commanders.alookup a1 (Commanders.assigned c') = Some i ->
                   Commanders.alookup a2 (Commanders.assigned c') = Some i -> a1 = a2).
Proof. exact CommandersProofs.identifiers_are_stable. Qed.
