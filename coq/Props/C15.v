(* C15 — Comparing and hashing Recon text agrees with comparing parsed values.
   Property theorems only (Proofs/ReconTextProofs.v), for keys that are texts (the usual map key): the
   comparison of two spellings ([text_key_eq]: what compare_recon_values computes for single text-like
   tokens; string equality as soon as one side is not valid) against the texts themselves.
   For arbitrary Recon (records, numbers, blobs, attribute bodies) the agreement of
   compare_recon_values / recon_hash with the equality of the parsed values is checked by an oracle that
   runs only the real code (partial). *)
From SwimV Require Import Model.ReconText Proofs.ReconTextProofs.
Open Scope N_scope.

(* the printed forms of two texts compare equal exactly when the texts are equal: keys that differ only in
   formatting are one key, distinct keys are never merged *)
Theorem C15_printed_texts_compare_as_texts : forall t1 t2,
  text_key_eq (write_string_literal t1) (write_string_literal t2) = str_eqb t1 t2.
Proof. exact printed_texts_compare_as_texts. Qed.

(* the bare and the quoted spelling of a text are the same key *)
Theorem C15_quoted_and_printed_agree : forall t, text_key_eq (quoted t) (write_string_literal t) = true.
Proof. exact quoted_and_printed_agree. Qed.

(* whatever the spelling, the key is the un-escaped text *)
Theorem C15_key_of_printed_text : forall t, key_token (write_string_literal t) = KText t.
Proof. exact key_token_printed. Qed.

Example C15_nonvacuous :
  text_key_eq [97] [34; 92; 117; 48; 48; 54; 49; 34] = true /\          (* a  vs  "a" *)
  text_key_eq [116; 114; 117; 101] [34; 116; 114; 117; 101; 34] = false /\  (* true (boolean) vs "true" *)
  text_key_eq [34; 92; 120; 34] [34; 92; 120; 34] = true.               (* invalid on both sides: string equality *)
Proof. vm_compute. auto. Qed.
