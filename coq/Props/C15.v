(* C15 — Comparing and hashing Recon text agrees with comparing parsed values.
   Property theorems only (Proofs/ReconTextProofs.v), for keys that are texts (the usual map key): the
   comparison of two spellings ([text_key_eq]: what compare_recon_values computes for single text-like
   tokens; string equality as soon as one side is not valid) against the texts themselves.
   For keys that are integers (Model/ReconNum.v): any two spellings - decimal, hexadecimal, binary, leading
   zeros, -0 - against the integers they denote ([nv_eq] is NumericValue::eq, [nv_hash_key] what the hasher is fed).
   For arbitrary Recon (records, floats, blobs, attribute bodies) the agreement of
   compare_recon_values / recon_hash with the equality of the parsed values is checked by an oracle that
   runs only the real code (partial). *)
From SwimV Require Import Model.ReconText Proofs.ReconTextProofs.
From SwimV Require Import Model.ReconNum Proofs.ReconNumProofs.
Open Scope N_scope.

(* the printed forms of two texts compare equal exactly when the texts are equal: keys that differ only in
   formatting are one key, distinct keys are never merged *)
Theorem C15_printed_texts_compare_as_texts : forall t1 t2,
  text_key_eq (write_string_literal t1) (write_string_literal t2) = str_eqb t1 t2.
Proof. exact printed_texts_compare_as_texts. Qed.

(* the bare and the quoted spelling of a text are the same key *)
Theorem C15_quoted_and_printed_agree : forall t, text_key_eq (quoted t) (write_string_literal t) = true.
Proof. exact quoted_and_printed_agree. Qed.

(* whatever the spelling, the key is the un-escaped text *)
Theorem C15_key_of_printed_text : forall t, key_token (write_string_literal t) = KText t.
Proof. exact key_token_printed. Qed.

(* integer keys: comparing two literals without building values (kind by kind, as NumericValue::eq does) is
   comparing the integers, whatever kinds the two were read as *)
Theorem C15_number_equality : forall a b, well_kinded a = true -> well_kinded b = true ->
  nv_eq a b = (nz a =? nz b)%Z.
Proof. exact nv_eq_is_number_equality. Qed.

(* ... and numbers that compare equal feed the hasher the same thing *)
Theorem C15_equal_numbers_hash_alike : forall a b, well_kinded a = true -> well_kinded b = true ->
  nv_eq a b = true -> nv_hash_key a = nv_hash_key b.
Proof. exact equal_numbers_hash_alike. Qed.

(* any two spellings of integers are one key exactly when they denote the same integer *)
Theorem C15_integer_keys_compare_by_number : forall a b x y,
  int_of_text a = Some x -> int_of_text b = Some y ->
  nv_eq x y = (nz x =? nz y)%Z /\ (nv_eq x y = true -> nv_hash_key x = nv_hash_key y).
Proof. exact integer_keys_compare_by_number. Qed.

Example C15_nonvacuous :
  text_key_eq [97] [34; 92; 117; 48; 48; 54; 49; 34] = true /\          (* a  vs  "a" *)
  text_key_eq [116; 114; 117; 101] [34; 116; 114; 117; 101; 34] = false /\  (* true (boolean) vs "true" *)
  text_key_eq [34; 92; 120; 34] [34; 92; 120; 34] = true.               (* invalid on both sides: string equality *)
Proof. vm_compute. auto. Qed.
