(* C16 — Form: typed, model and wire representations of a value all agree.
   Property theorems only (Proofs/MsgPackProofs.v): the MessagePack wire form of the scalar values
   (absent, booleans, integers of the whole i64 / u64 range, floats as bit patterns, big integers of both
   signs, texts, blobs).  [enc_scalar] is what MsgPackInterpreter writes, [dec_scalar] what
   read_from_msg_pack reads (marker dispatch, lengths, extensions, the checks for missing input).
   Not modelled (oracle on the real code only): records (attribute maps and array / map / mixed bodies),
   the derive macro's two reading paths and its writer, the Recon path; see MANIFEST (partial). *)
From SwimV Require Import Model.MsgPack Proofs.MsgPackProofs.
Open Scope N_scope.

(* every scalar value, of any size the format can carry, is read back unchanged from what was written,
   and what follows it in the buffer is left untouched *)
Theorem C16_scalar_roundtrip : forall v rest, wf v -> dec_scalar (enc_scalar v ++ rest) = MOk v rest.
Proof. exact scalar_roundtrip. Qed.

(* an encoding cut short anywhere is reported as incomplete: never read as some other value (and, the
   reader being total, never a crash) *)
Theorem C16_truncated_is_incomplete : forall v p q, wf v -> p ++ q = enc_scalar v -> q <> [] ->
  dec_scalar p = MIncomplete.
Proof. exact scalar_truncated. Qed.

(* different values never share an encoding *)
Theorem C16_encoding_injective : forall a b, wf a -> wf b -> enc_scalar a = enc_scalar b -> a = b.
Proof. exact enc_scalar_injective. Qed.

Example C16_nonvacuous : wf (MBigInt true 300) /\ wf (MNeg 129) /\ wf (MStr [104; 105]) /\
  dec_scalar (enc_scalar (MBigInt true 300)) = MOk (MBigInt true 300) [].
Proof. exact wf_witness. Qed.
