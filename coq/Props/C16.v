(* C16 — Form: typed, model and wire representations of a value all agree.
   Property theorems only (Proofs/MsgPackProofs.v): the MessagePack wire form of the scalar values
   (absent, booleans, integers of the whole i64 / u64 range, floats as bit patterns, big integers of both
   signs, texts, blobs).  [enc_scalar] is what MsgPackInterpreter writes, [dec_scalar] what
   read_from_msg_pack reads (marker dispatch, lengths, extensions, the checks for missing input).
   [enc] / [dec] extend them to model values with records: a map of attributes, then an array-like,
   map-like or mixed body, nested to any depth.
   Not modelled (oracle on the real code only): the derive macro's two reading paths and its writer,
   delegated (scalar) record bodies, the Recon path; see MANIFEST (partial). *)
From SwimV Require Import Model.MsgPack Proofs.MsgPackProofs Proofs.MsgPackRecordProofs Proofs.MsgPackTruncProofs.
From SwimV Require Model.FormInt Proofs.FormIntProofs.
Open Scope N_scope.

(* every scalar value, of any size the format can carry, is read back unchanged from what was written,
   and what follows it in the buffer is left untouched *)
Theorem C16_scalar_roundtrip : forall v rest, wf v -> dec_scalar (enc_scalar v ++ rest) = MOk v rest.
Proof. exact scalar_roundtrip. Qed.

(* an encoding cut short anywhere is reported as incomplete: never read as some other value (and, the
   reader being total, never a crash) *)
Theorem C16_truncated_is_incomplete : forall v p q, wf v -> p ++ q = enc_scalar v -> q <> [] ->
  dec_scalar p = MIncomplete.
Proof. exact scalar_truncated. Qed.

(* different values never share an encoding *)
Theorem C16_encoding_injective : forall a b, wf a -> wf b -> enc_scalar a = enc_scalar b -> a = b.
Proof. exact enc_scalar_injective. Qed.

(* every model value - scalars and records with any number of attributes, array-like, map-like, mixed or
   empty bodies, nested to any depth - is read back unchanged from what was written, whatever follows it *)
Theorem C16_record_roundtrip : forall v, WFV v ->
  forall fuel rest, (depth v <= fuel)%nat -> dec fuel (enc v ++ rest) = VOk v rest.
Proof. exact record_roundtrip. Qed.

(* different model values never share an encoding *)
Theorem C16_record_encoding_injective : forall a b, WFV a -> WFV b -> enc a = enc b -> a = b.
Proof. exact enc_injective. Qed.

(* the encoding of any model value cut short anywhere - in a header, a name, a key, inside a nested record -
   is reported as incomplete: it is never read as some value and never rejected as malformed *)
Theorem C16_record_truncated_is_incomplete : forall v, WFV v ->
  forall fuel p q, (depth v <= fuel)%nat -> p ++ q = enc v -> q <> [] -> dec fuel p = VIncomplete.
Proof. exact record_truncated. Qed.

(* no value's encoding is the beginning of another's: a reader never stops early inside a longer value *)
Theorem C16_record_encoding_prefix_free : forall a b q, WFV a -> WFV b -> enc a ++ q = enc b -> q = [].
Proof. exact enc_prefix_free. Qed.

Example C16_truncated_nonvacuous :
  let v := VR [([97], VS (MPos 1))] [(None, VS (MStr [104; 105])); (Some (VS (MPos 2)), VR [] [(None, VS MNil)])] in
  forallb (fun k => match dec 3 (firstn k (enc v)) with VIncomplete => true | _ => false end) (seq 0 (length (enc v))) = true.
Proof. exact truncated_witness. Qed.

Example C16_record_nonvacuous :
  let v := VR [([97], VS (MPos 1))] [(None, VS (MStr [104; 105])); (Some (VS (MPos 2)), VR [] [(None, VS MNil)])] in
  WFV v /\ dec 3 (enc v) = VOk v [] /\ enc v = [129; 161; 97; 1; 146; 162; 104; 105; 146; 2; 128; 145; 192].
Proof. exact record_witness. Qed.

Example C16_nonvacuous : wf (MBigInt true 300) /\ wf (MNeg 129) /\ wf (MStr [104; 105]) /\
  dec_scalar (enc_scalar (MBigInt true 300)) = MOk (MBigInt true 300) [].
Proof. exact wf_witness. Qed.

(* ---- the integer Form types (Model/FormInt.v): i32, i64, u32, u64, usize, NonZeroUsize, BigInt, BigUint ---- *)

(* the recognizer of a type accepts a number event exactly when the type holds the number, and produces that number,
   whatever the kind of the event (i64 / u64 / big, signed or not) *)
Theorem C16_integer_recognized_by_number : forall t v, ReconNum.well_kinded v = true ->
  FormInt.recognize t v = FormIntProofs.by_number t (ReconNum.nz v).
Proof. exact FormIntProofs.recognize_by_number. Qed.

(* converting a value of an integer type to the model and back returns it unchanged *)
Theorem C16_integer_model_roundtrip : forall t z, FormInt.in_ty t z = true ->
  FormInt.try_from_value t (FormInt.to_value t z) = Some z.
Proof. exact FormIntProofs.model_roundtrip. Qed.

(* for every text, reading an integer type directly gives what parsing to the model first and converting gives: the two
   paths agree on whether the text is accepted and on the value *)
Theorem C16_integer_reading_paths_agree : forall t inp, FormInt.read_direct t inp = FormInt.read_via_model t inp.
Proof. exact FormIntProofs.reading_paths_agree. Qed.

(* a printed value of the type reads back by either path *)
Theorem C16_integer_printed_reads_back : forall t z, FormInt.in_ty t z = true ->
  FormInt.read_direct t (ReconNum.print_int z) = Some z /\ FormInt.read_via_model t (ReconNum.print_int z) = Some z.
Proof. exact FormIntProofs.printed_value_reads_back. Qed.

(* written as MessagePack and read back, a value of a fixed-width integer type is unchanged ... *)
Theorem C16_integer_msgpack_roundtrip : forall t z, FormIntProofs.fixed_width t = true -> FormInt.in_ty t z = true ->
  FormInt.read_msgpack t (FormInt.write_msgpack t z) = Some z.
Proof. exact FormIntProofs.msgpack_roundtrip. Qed.

(* ... and read as another integer type it is accepted exactly when that type holds the number *)
Theorem C16_integer_msgpack_across_types : forall t u z, FormIntProofs.fixed_width t = true -> FormInt.in_ty t z = true ->
  FormInt.read_msgpack u (FormInt.write_msgpack t z) = FormIntProofs.by_number u z.
Proof. exact FormIntProofs.msgpack_across_types. Qed.
