(* C17 — Inactivity shutdown needs all parties idle at once and cannot deadlock.
   Property theorems only; each is closed by [exact] of a lemma of Proofs/VoterProofs.v.
   The model (Model/Voter.v) is the timeout coordinator at atomic granularity: a schedule is any
   list of (party, micro-step); steps the API's program order does not allow are no-ops.
   Model/VoterWake.v adds the wake-up side: the voter's waker.wake() as a micro-step of its own and the
   three steps of Receiver::poll (load, register, load), interleaved arbitrarily with everything else. *)
From SwimV Require Import Model.VoterWake Proofs.VoterProofs Proofs.VoterWakeProofs.

(* every state reachable by any schedule from a fresh n-party coordinator satisfies Inv *)
Theorem C17_reachable_invariant : forall n sc, 2 <= n -> Inv (exec (init n) sc).
Proof. intros n sc H. apply exec_inv. exact (inv_init n H). Qed.

(* the receiver fires exactly in states where every party's vote is outstanding at once *)
Theorem C17_stop_iff_all_voting : forall s, Inv s ->
  (receiver_ready s = true <-> forall i, i < n_parties s -> voted (get_voter s i) = true).
Proof. exact ready_iff_all_voting. Qed.

(* once unanimity is reached no schedule undoes it *)
Theorem C17_unanimity_never_undone : forall sc s,
  Inv s -> receiver_ready s = true -> receiver_ready (exec s sc) = true.
Proof. exact unanimity_stable. Qed.

(* vote answers Unanimous exactly when that very step completed unanimity *)
Theorem C17_vote_result_truthful : forall s i r s',
  Inv s -> enabled s i MVote = true -> mstep s i MVote = (s', Some r) ->
  (r = Unanimous <-> (receiver_ready s = false /\ receiver_ready s' = true)).
Proof. exact vote_result_truthful. Qed.

(* rescind answered "pending": the stop had not begun, the vote is withdrawn ... *)
Theorem C17_rescind_pending_is_safe : forall s i m s',
  Inv s -> enabled s i m = true -> is_rescind m = true ->
  mstep s i m = (s', Some UnanimityPending) ->
  receiver_ready s = false /\ get_bit i (shared s') = false /\ voted (get_voter s' i) = false.
Proof. exact rescind_pending_safe. Qed.

(* ... and the stop cannot begin until that party itself votes again *)
Theorem C17_no_stop_until_revote : forall sc s i,
  Inv s -> i < n_parties s -> get_bit i (shared s) = false -> others_only i sc ->
  receiver_ready (exec s sc) = false.
Proof. exact no_stop_until_revote. Qed.

(* rescind answered "unanimous": the receiver is (and by C17_unanimity_never_undone stays) ready *)
Theorem C17_rescind_unanimous_is_true : forall s i m s',
  Inv s -> enabled s i m = true -> is_rescind m = true ->
  mstep s i m = (s', Some Unanimous) -> receiver_ready s = true /\ receiver_ready s' = true.
Proof. exact rescind_unanimous_true. Qed.

(* a party that disappears counts as having voted, whatever it did before, for good *)
Theorem C17_drop_counts_as_vote : forall s i,
  Inv s -> enabled s i MDrop = true ->
  let s' := fst (mstep s i MDrop) in
  get_bit i (shared s') = true /\ dropped (get_voter s' i) = true.
Proof. exact drop_counts_as_vote. Qed.

Theorem C17_dropped_vote_is_permanent : forall sc s i,
  Inv s -> i < n_parties s -> dropped (get_voter s i) = true ->
  dropped (get_voter (exec s sc) i) = true /\ get_bit i (shared (exec s sc)) = get_bit i (shared s).
Proof. exact dropped_stays. Qed.

(* nobody is left waiting forever: all parties gone-or-voting => receiver ready *)
Theorem C17_no_deadlock : forall s, Inv s ->
  (forall i, i < n_parties s -> dropped (get_voter s i) = true \/ voted (get_voter s i) = true) ->
  receiver_ready s = true.
Proof. exact no_deadlock. Qed.

(* the n-party rescind loop: a CAS fails only if another party moved in between *)
Theorem C17_rescind_loop_progress : forall s i cur,
  loaded (get_voter s i) = Some cur -> shared s = cur ->
  snd (mstep s i MRescindCas) = Some UnanimityPending.
Proof. exact rescind_cas_succeeds_if_undisturbed. Qed.

(* API-level (atomic) operations stay inside the invariant *)
Theorem C17_api_reachable_invariant : forall n ops, 2 <= n -> Inv (run_state (init n) ops).
Proof. intros n ops H. apply reachable_inv. exact (inv_init n H). Qed.

(* ---- the receiver is never left waiting: no lost wake-up, in any interleaving, for any n >= 2 ---- *)

(* never: unanimity reached, the receiver's last poll returned Pending, its task not notified since, and no
   voter about to call wake *)
Theorem C17_no_lost_wakeup : forall n sc, 2 <= n -> lost_wakeup (wexec (winit n) sc) = false.
Proof. exact no_lost_wakeup. Qed.

(* the wake that is owed does notify the parked receiver (it finds the registered waker) *)
Theorem C17_owed_wake_notifies : forall w, WInv w ->
  all_set (shared (core w)) = true -> phase w = RParked -> woken w = false ->
  exists i, mem i (pend w) = true /\ woken (wstep w (WWake i)) = true.
Proof. exact owed_wake_notifies. Qed.

(* and the poll that follows returns Ready *)
Theorem C17_poll_after_unanimity_is_ready : forall w, all_set (shared (core w)) = true ->
  phase w = RParked \/ phase w = RIdle -> phase (wstep w WLoad1) = RDone.
Proof. exact poll_after_unanimity_is_ready. Qed.

(* a wake is owed only once unanimity has been reached *)
Theorem C17_wake_only_at_unanimity : forall n sc, 2 <= n ->
  pend (wexec (winit n) sc) <> [] -> receiver_ready (core (wexec (winit n) sc)) = true.
Proof. exact wake_only_at_unanimity. Qed.

(* what a single-threaded user of the API observes (the correspondence check's view): a receiver whose last
   poll returned Pending has been woken as soon as unanimity is reached - by a vote or by a voter being dropped *)
Theorem C17_api_parked_receiver_is_woken : forall n ops, 2 <= n ->
  let w := wapi_state (winit n) ops in
  receiver_ready (core w) = true -> phase w = RParked -> woken w = true.
Proof. exact api_parked_receiver_is_woken. Qed.

(* the layered machine does not change the coordinator: its state is Model/Voter.v's *)
Theorem C17_wake_layer_conservative : forall n ops, 2 <= n ->
  core (wapi_state (winit n) ops) = run_state (init n) ops.
Proof. exact wapi_core. Qed.

(* the hypotheses of C17_owed_wake_notifies are met by a reachable state: 3 parties, the receiver parks, two
   vote, the third is dropped without having voted and has not called wake yet *)
Theorem C17_owed_wake_witness :
  let w := wexec (winit 3) [WLoad1; WRegister; WLoad2; WV 0 MVote; WV 1 MVote; WV 2 MDrop] in
  WInv w /\ all_set (shared (core w)) = true /\ phase w = RParked /\ woken w = false /\ pend w = [2].
Proof.
  split; [apply wexec_inv, winv_init; auto|]. vm_compute. auto.
Qed.
