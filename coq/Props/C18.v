(* C18 — Routing is deterministic: patterns invert, ambiguity is detected.
   Property theorems only (Proofs/RouteProofs.v).  Model: Model/Route.v (bytes = UTF-8). *)
From SwimV Require Import Model.Route Proofs.RouteProofs.
Open Scope N_scope.

(* percent-decoding inverts the percent-encoding apply uses, for every byte string *)
Theorem C18_decode_encode : forall s, bytes s -> pct_decode (pct_encode s) = s.
Proof. exact decode_encode. Qed.

(* encoded parameter values never contain '/', so they stay inside one path segment *)
Theorem C18_encoded_value_has_no_slash : forall s, bytes s -> ~ In SLASH (pct_encode s).
Proof. exact encode_no_slash. Qed.

(* segment-wise inversion: matching the rendered segments returns exactly the supplied values of
   the pattern's parameters (bind_params = the map restricted to the parameters, names as written) *)
Theorem C18_unapply_parts_inverts : forall m segs parts acc,
  values_are_bytes m -> render_all m segs = Some parts ->
  unapply_parts parts segs acc = Some (bind_params m segs acc).
Proof. exact unapply_parts_inverts. Qed.

(* apply . unapply from the (scheme, path) split of the produced route onwards (partial: the
   RouteUri parse of the route string into that split is tied by correspondence; it fails for
   patterns outside the URI grammar - known finding C18-F1) *)
Theorem C18_apply_unapply_partial : forall p m parts,
  values_are_bytes m -> p_segs p <> [] -> Forall (fun s => ~ In SLASH (s_text s)) (p_segs p) ->
  render_all m (p_segs p) = Some parts ->
  let body := join true (p_abs p) parts in
  apply p m = inl ((match p_scheme p with Some sc => sc ++ [COLON] | None => [] end) ++ body) /\
  unapply_uri p (p_scheme p) body = Some (bind_params m (p_segs p) []).
Proof. exact apply_unapply_after_split. Qed.

(* a parameter never binds an empty segment *)
Theorem C18_never_binds_empty : forall segs parts acc r,
  no_empty acc -> unapply_parts parts segs acc = Some r -> no_empty r.
Proof. exact unapply_never_binds_empty. Qed.

(* whenever some URI is matched by two patterns, the ambiguity check reports them *)
Theorem C18_ambiguity_complete : forall p q sc path r1 r2,
  unapply_uri p sc path = Some r1 -> unapply_uri q sc path = Some r2 ->
  p_abs p = p_abs q -> are_ambiguous p q = true.
Proof. exact ambiguity_complete. Qed.

Theorem C18_absolute_relative_disjoint : forall p q sc path r1 r2,
  segs_nonempty q -> p_abs p = true -> p_abs q = false ->
  unapply_uri p sc path = Some r1 -> unapply_uri q sc path = Some r2 -> False.
Proof. exact abs_rel_disjoint. Qed.

(* so a server that accepted its routes resolves every URI to at most one definition *)
Theorem C18_route_table_deterministic : forall (routes : list pattern) sc path,
  (forall p, In p routes -> segs_nonempty p) ->
  (forall p q, In p routes -> In q routes -> p <> q -> are_ambiguous p q = false) ->
  forall p q r1 r2, In p routes -> In q routes -> p <> q ->
  unapply_uri p sc path = Some r1 -> unapply_uri q sc path = Some r2 -> False.
Proof. exact route_table_deterministic. Qed.
