(* C18 — Routing is deterministic: patterns invert, ambiguity is detected.
   Property theorems only (Proofs/RouteProofs.v).  Model: Model/Route.v (bytes = UTF-8). *)
From SwimV Require Import Model.Route Proofs.RouteProofs Proofs.RouteUriProofs.
Open Scope N_scope.

(* percent-decoding inverts the percent-encoding apply uses, for every byte string *)
Theorem C18_decode_encode : forall s, bytes s -> pct_decode (pct_encode s) = s.
Proof. exact decode_encode. Qed.

(* encoded parameter values never contain '/', so they stay inside one path segment *)
Theorem C18_encoded_value_has_no_slash : forall s, bytes s -> ~ In SLASH (pct_encode s).
Proof. exact encode_no_slash. Qed.

(* segment-wise inversion: matching the rendered segments returns exactly the supplied values of
   the pattern's parameters (bind_params = the map restricted to the parameters, names as written) *)
Theorem C18_unapply_parts_inverts : forall m segs parts acc,
  values_are_bytes m -> render_all m segs = Some parts ->
  unapply_parts parts segs acc = Some (bind_params m segs acc).
Proof. exact unapply_parts_inverts. Qed.

(* apply . unapply from the (scheme, path) split of the produced route onwards (partial: the
   RouteUri parse of the route string into that split is tied by correspondence; it fails for
   patterns outside the URI grammar - known finding C18-F1) *)
Theorem C18_apply_unapply_partial : forall p m parts,
  values_are_bytes m -> p_segs p <> [] -> Forall (fun s => ~ In SLASH (s_text s)) (p_segs p) ->
  render_all m (p_segs p) = Some parts ->
  let body := join true (p_abs p) parts in
  apply p m = inl ((match p_scheme p with Some sc => sc ++ [COLON] | None => [] end) ++ body) /\
  unapply_uri p (p_scheme p) body = Some (bind_params m (p_segs p) []).
Proof. exact apply_unapply_after_split. Qed.

(* a parameter never binds an empty segment *)
Theorem C18_never_binds_empty : forall segs parts acc r,
  no_empty acc -> unapply_parts parts segs acc = Some r -> no_empty r.
Proof. exact unapply_never_binds_empty. Qed.

(* whenever some URI is matched by two patterns, the ambiguity check reports them *)
Theorem C18_ambiguity_complete : forall p q sc path r1 r2,
  unapply_uri p sc path = Some r1 -> unapply_uri q sc path = Some r2 ->
  p_abs p = p_abs q -> are_ambiguous p q = true.
Proof. exact ambiguity_complete. Qed.

Theorem C18_absolute_relative_disjoint : forall p q sc path r1 r2,
  segs_nonempty q -> p_abs p = true -> p_abs q = false ->
  unapply_uri p sc path = Some r1 -> unapply_uri q sc path = Some r2 -> False.
Proof. exact abs_rel_disjoint. Qed.

(* so a server that accepted its routes resolves every URI to at most one definition *)
Theorem C18_route_table_deterministic : forall (routes : list pattern) sc path,
  (forall p, In p routes -> segs_nonempty p) ->
  (forall p q, In p routes -> In q routes -> p <> q -> are_ambiguous p q = false) ->
  forall p q r1 r2, In p routes -> In q routes -> p <> q ->
  unapply_uri p sc path = Some r1 -> unapply_uri q sc path = Some r2 -> False.
Proof. exact route_table_deterministic. Qed.

(* ---- the RouteUri parse of an applied route (Proofs/RouteUriProofs.v): the step left open above ---- *)

(* for a pattern inside the URI grammar (literal segments of path characters, a well-formed scheme or none that
   the path could be mistaken for), RouteUri::from_str of the applied route is exactly (scheme, path) *)
Theorem C18_applied_route_parses : forall p m parts,
  values_are_bytes m -> p_segs p <> [] -> Forall lit_ok (p_segs p) -> Forall (fun s => s_text s <> []) (p_segs p) ->
  render_all m (p_segs p) = Some parts ->
  let body := join true (p_abs p) parts in
  match p_scheme p with
  | Some sc => scheme_ok sc = true
  | None => uri_scheme body = None
  end ->
  parse_uri ((match p_scheme p with Some sc => sc ++ [COLON] | None => [] end) ++ body) = Some (p_scheme p, body).
Proof. exact applied_route_parses. Qed.

(* hence the whole round trip: filling the pattern and matching the resulting route string against the same
   pattern returns exactly the parameter values *)
Theorem C18_apply_unapply : forall p m parts route,
  values_are_bytes m -> p_segs p <> [] -> Forall (fun s => ~ In SLASH (s_text s)) (p_segs p) ->
  Forall lit_ok (p_segs p) -> Forall (fun s => s_text s <> []) (p_segs p) ->
  render_all m (p_segs p) = Some parts ->
  match p_scheme p with
  | Some sc => scheme_ok sc = true
  | None => uri_scheme (join true (p_abs p) parts) = None
  end ->
  apply p m = inl route -> unapply_str p route = Some (bind_params m (p_segs p) []).
Proof. exact apply_unapply_str. Qed.

(* the last premise is automatic for absolute patterns without a scheme *)
Theorem C18_absolute_has_no_scheme : forall parts, uri_scheme (join true true parts) = None.
Proof. exact absolute_has_no_scheme. Qed.

(* ... and for relative patterns without a scheme that begin with a parameter: a value is written with its colons
   escaped, so nothing in front of the first slash can be taken for a scheme (`:host/status` with host = a:b) *)
Theorem C18_relative_leading_parameter_has_no_scheme : forall m s segs parts,
  values_are_bytes m -> s_param s = true -> render_all m (s :: segs) = Some parts ->
  uri_scheme (join true false parts) = None.
Proof. exact relative_leading_parameter_has_no_scheme. Qed.

(* the premises are met: the pattern swim:/unit/:id filled with id = "a b" *)
Theorem C18_apply_unapply_witness :
  let p := {| p_text := []; p_scheme := Some [115; 119; 105; 109]; p_abs := true;
              p_segs := [{| s_param := false; s_start := 6; s_text := [117; 110; 105; 116] |};
                         {| s_param := true; s_start := 12; s_text := [105; 100] |}] |} in
  let m := [([105; 100], [97; 32; 98])] in
  apply p m = inl [115; 119; 105; 109; 58; 47; 117; 110; 105; 116; 47; 97; 37; 50; 48; 98]
  /\ unapply_str p [115; 119; 105; 109; 58; 47; 117; 110; 105; 116; 47; 97; 37; 50; 48; 98] = Some m.
Proof. vm_compute. auto. Qed.
