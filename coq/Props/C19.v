(* C19 — Model values: equality, ordering and hashing are mutually coherent.
   Property theorems only (Proofs/ValueProofs.v).  [good x] = x is range-well-formed and contains no
   Float64 anywhere.  For values containing floats the ordering laws are refuted on the faithful
   model (witnesses below, replayed on the implementation by the harness: known finding C19-F1);
   the equality / hash laws are checked on floats by the oracle. *)
From SwimV Require Import Model.Value Proofs.ValueProofs.
Open Scope Z_scope.

Theorem C19_eq_reflexive : forall x, good x -> veq x x = true.
Proof. exact eq_reflexive. Qed.

Theorem C19_eq_symmetric : forall x y, good x -> good y -> veq x y = veq y x.
Proof. exact eq_symmetric. Qed.

Theorem C19_eq_transitive : forall x y z, good x -> good y -> good z ->
  veq x y = true -> veq y z = true -> veq x z = true.
Proof. exact eq_transitive. Qed.

Theorem C19_equal_values_hash_equally : forall x y, good x -> good y -> veq x y = true -> vhash x = vhash y.
Proof. exact eq_implies_same_hash. Qed.

Theorem C19_cmp_equal_iff_eq : forall x y, good x -> good y -> (vcmp x y = Eq <-> veq x y = true).
Proof. exact cmp_equal_iff_eq. Qed.

Theorem C19_cmp_antisymmetric : forall x y, good x -> good y -> vcmp y x = CompOpp (vcmp x y).
Proof. exact cmp_antisymmetric. Qed.

Theorem C19_cmp_transitive : forall x y z, good x -> good y -> good z ->
  vcmp x y = Lt -> vcmp y z = Lt -> vcmp x z = Lt.
Proof. exact cmp_transitive. Qed.

Theorem C19_cmp_respects_equal : forall x y z, good x -> good y -> good z ->
  vcmp x y = Eq -> vcmp x z = vcmp y z /\ vcmp z x = vcmp z y.
Proof. exact cmp_respects_equal. Qed.

(* ---- the float cells: the laws are false of the code as written (known finding C19-F1) ---- *)

(* an integer and the float with the same numeric value compare Equal but are not == *)
Theorem C19_F1_int_vs_float_refuted :
  exists x y, wf x = true /\ wf y = true /\ vcmp x y = Eq /\ veq x y = false.
Proof. exists (Int32 1), (Float64 4607182418800017408). vm_compute. auto. Qed.

(* the EPSILON band makes Equal non-transitive *)
Theorem C19_F1_epsilon_band_refuted :
  exists x y z, vcmp x y = Eq /\ vcmp y z = Eq /\ vcmp x z = Lt.
Proof.
  exists (Float64 4607182418800017406), (Float64 4607182418800017407), (Float64 4607182418800017408).
  vm_compute. auto.
Qed.

(* BigInt vs float truncates in one direction only: antisymmetry fails *)
Theorem C19_F1_bigint_float_refuted :
  exists x y, vcmp x y = Eq /\ vcmp y x = Gt.
Proof. exists (BigInt 1), (Float64 4609434218613702656) (* 1.5 *). vm_compute. auto. Qed.

(* `n as f64` rounds: two different integers are both Equal to one float *)
Theorem C19_F1_rounding_refuted :
  exists x y f, vcmp x f = Eq /\ vcmp f y = Eq /\ vcmp x y = Lt.
Proof.
  exists (Int64 9007199254740992), (Int64 9007199254740993), (Float64 4845873199050653696).
  vm_compute. auto.
Qed.
