(* C20 — Introspection reports the true number of links and counts every message.
   Property theorems only (Proofs/LinksProofs.v, Proofs/CounterProofs.v). *)
From SwimV Require Import Model.Links Proofs.LinksProofs.
From SwimV Require Model.Counter Proofs.CounterProofs.
From SwimV Require Model.LinkReports Proofs.LinkReportsProofs.

(* Every registry state reachable by any sequence of register / link / unlink / remote removal /
   lane removal / remove-all / counting / snapshot operations (lane ids fresh at registration, as
   register_lane guarantees) satisfies the invariant: total = number of links held, every lane
   reporter's link count = that lane's number of remotes, aggregate link count = total. *)
Theorem C20_reachable_invariant : forall a ops, ops_ok (init a) ops -> Inv (run_state (init a) ops).
Proof. intros a ops H. apply reachable_inv; [apply inv_init | exact H]. Qed.

Theorem C20_step_preserves_invariant : forall l o, Inv l -> ok_op l o -> Inv (fst (step l o)).
Proof. exact step_inv. Qed.

(* the aggregate reader reports exactly the number of (lane, remote) links that exist *)
Theorem C20_aggregate_count_exact : forall l a,
  Inv l -> agg l = Some a ->
  snd (step l (Snapshot 0)) = OSnap (Some (len (map fst (rel_of (forward l))), c_events a, c_commands a)).
Proof. exact aggregate_snapshot_exact. Qed.

(* a lane's reader reports exactly the number of remotes linked to that lane *)
Theorem C20_lane_count_exact : forall l rep c,
  Inv l -> (rep <> O \/ agg l = None) -> fwd_find_rep rep (forward l) = Some c ->
  snd (step l (Snapshot rep)) = OSnap (Some (c_links c, c_events c, c_commands c)) /\
  exists lane ll, In (lane, ll) (forward l) /\ ll_reporter ll = Some (rep, c) /\
                  c_links c = len (ll_remotes ll).
Proof. exact lane_snapshot_exact. Qed.

(* events counted = events sent to links: |linked remotes| for a broadcast, 1 for a targeted one *)
Theorem C20_broadcast_counts_links : forall l lane a ll,
  agg l = Some a -> alookup lane (forward l) = Some ll ->
  let l' := fst (step l (CountBroadcast lane)) in
  agg l' = Some (add_events (len (ll_remotes ll)) a) /\
  alookup lane (forward l') =
    Some {| ll_remotes := ll_remotes ll; ll_reporter := ll_report (add_events (len (ll_remotes ll))) ll |}.
Proof. exact count_broadcast_adds. Qed.

Theorem C20_single_counts_one : forall l lane a ll,
  agg l = Some a -> alookup lane (forward l) = Some ll ->
  let l' := fst (step l (CountSingle lane)) in
  agg l' = Some (add_events 1 a) /\
  alookup lane (forward l') =
    Some {| ll_remotes := ll_remotes ll; ll_reporter := ll_report (add_events 1) ll |}.
Proof. exact count_single_adds. Qed.

(* the atomic counters lose nothing under any interleaving of count / snapshot micro-steps from any
   number of threads (spurious CAS failures included), below saturation *)
Theorem C20_counters_lose_nothing : forall sc s,
  (Counter.value s + Counter.snapped s = Counter.added s)%N ->
  (Counter.added (Counter.exec s sc) <= Counter.U64MAX)%N ->
  (Counter.value (Counter.exec s sc) + Counter.snapped (Counter.exec s sc)
   = Counter.added (Counter.exec s sc))%N.
Proof. exact CounterProofs.counters_lose_nothing. Qed.

(* the write task (Model/Uplinks.v, Model/LinkReports.v): after any sequence of link / unlink requests, lane events,
   write completions, lane failures, unlink-all and remote disconnections every recorded link belongs to a remote that
   is attached ... *)
Theorem C20_write_task_links_are_live : forall nl ops,
  LinkReportsProofs.links_live (LinkReportsProofs.wrun_state (Uplinks.wstate0 nl) ops).
Proof. exact LinkReportsProofs.links_live_reachable. Qed.

(* ... so the link counts shown for every lane and for the agent are the numbers of remotes actually linked *)
Theorem C20_write_task_reports_true_counts : forall nl ops,
  let w := LinkReportsProofs.wrun_state (Uplinks.wstate0 nl) ops in LinkReports.report w = LinkReports.true_report w.
Proof. exact LinkReportsProofs.reported_counts_are_true. Qed.

(* a remote that disconnects takes all its links with it *)
Theorem C20_removed_remote_has_no_links : forall nl ops r,
  let w := LinkReportsProofs.wrun_state (Uplinks.wstate0 nl) (ops ++ [Uplinks.ORemoveRemote r]) in
  forall l, Uplinks.linked l r (Uplinks.w_links w) = false.
Proof. exact LinkReportsProofs.removed_remote_has_no_links. Qed.
