//! C01 / C03 (value lane, end to end in lock step): a real ValueLane<i32> driven through ValueLaneSet /
//! ValueLaneSync and LaneItem::write_to_buffer; its bytes go through a byte channel into the runtime's real
//! ResponseReceiver, every decoded response into the real WriteTaskState::handle_event, the write tasks are
//! completed one at a time and each remote's channel is decoded with the real RawResponseMessageDecoder.

use std::borrow::Cow;
use std::collections::{BTreeMap, BTreeSet, HashMap};
use std::num::NonZeroUsize;

use bytes::BytesMut;
use futures::{FutureExt, StreamExt};
use swimos_agent::agent_model::{AgentDescription, WriteResult};
use swimos_agent::event_handler::{
    ActionContext, DownlinkSpawnOnDone, HandlerAction, HandlerFuture, LaneSpawnOnDone, LaneSpawner, LinkSpawner, Spawner,
    StepResult,
};
use swimos_agent::lanes::value::{ValueLane, ValueLaneSet, ValueLaneSync};
use swimos_agent::lanes::LaneItem;
use swimos_agent::AgentMetadata;
use swimos_api::agent::AgentConfig;
use swimos_messages::protocol::{Notification, RawResponseMessageDecoder, ResponseMessage};
use swimos_route::RouteUri;
use swimos_runtime::verif_hooks::agent::task::{ResponseReceiver, WriteState, WriteTask};
use swimos_utilities::byte_channel::{byte_channel, ByteReader};
use tokio::io::{AsyncReadExt, AsyncWriteExt};
use tokio_util::codec::Decoder;
use uuid::Uuid;
use vcore::*;

struct NoSpawn;
impl<C> Spawner<C> for NoSpawn {
    fn spawn_suspend(&self, _: HandlerFuture<C>) {
        panic!("no suspended futures expected");
    }
    fn schedule_timer(&self, _at: tokio::time::Instant, _id: u64) {
        panic!("no timer expected");
    }
}
impl<C> LinkSpawner<C> for NoSpawn {
    fn spawn_downlink(
        &self,
        _path: swimos_api::address::Address<swimos_model::Text>,
        _make_channel: swimos_agent::agent_model::downlink::BoxDownlinkChannelFactory<C>,
        _on_done: DownlinkSpawnOnDone<C>,
    ) {
        panic!("no downlinks expected");
    }
    fn register_commander(
        &self,
        _path: swimos_api::address::Address<swimos_model::Text>,
    ) -> Result<u16, swimos_api::error::CommanderRegistrationError> {
        panic!("no commanders expected");
    }
}
impl<C> LaneSpawner<C> for NoSpawn {
    fn spawn_warp_lane(
        &self,
        _name: &str,
        _kind: swimos_api::agent::WarpLaneKind,
        _on_done: LaneSpawnOnDone<C>,
    ) -> Result<(), swimos_api::error::DynamicRegistrationError> {
        panic!("no lanes expected");
    }
}

struct Agent {
    lane: ValueLane<i32>,
}
impl AgentDescription for Agent {
    fn item_name(&self, _id: u64) -> Option<Cow<'_, str>> {
        Some(Cow::Borrowed("l0"))
    }
}
fn proj(a: &Agent) -> &ValueLane<i32> {
    &a.lane
}

fn run_handler<H: HandlerAction<Agent>>(mut h: H, agent: &Agent) {
    let uri: RouteUri = "/node".parse().unwrap();
    let params = HashMap::new();
    let config = AgentConfig::default();
    let meta = AgentMetadata::new(&uri, &params, &config);
    let mut join = HashMap::new();
    let mut cmd = BytesMut::new();
    let sp = NoSpawn;
    let mut ctx = ActionContext::new(&sp, &sp, &sp, &mut join, &mut cmd);
    for _ in 0..10_000 {
        match h.step(&mut ctx, meta, agent) {
            StepResult::Continue { .. } => {}
            StepResult::Fail(e) => panic!("handler failed: {:?}", e),
            StepResult::Complete { .. } => return,
        }
    }
    panic!("handler did not complete");
}

#[derive(Clone, Debug)]
enum Op {
    Add(u64),
    Set(i32),
    Sync(u64),
    Write,
    Link(u64),
    Unlink(u64),
    Done(u64),
    StopAll,
}
fn body_coq(v: i32) -> String {
    coq_list(v.to_string().bytes().map(|b| b.to_string()))
}
impl Op {
    fn coq(&self) -> String {
        match self {
            Op::Add(r) => format!("PAdd {}", r),
            Op::Set(v) => format!("PSet {}", body_coq(*v)),
            Op::Sync(r) => format!("PSync {}", r),
            Op::Write => "PWrite".into(),
            Op::Link(r) => format!("PLink {}", r),
            Op::Unlink(r) => format!("PUnlink {}", r),
            Op::Done(r) => format!("PDone {}", r),
            Op::StopAll => "PStopAll".into(),
        }
    }
}

struct Remote {
    reader: ByteReader,
    pending: BytesMut,
}

/// Per operation: the frames delivered (at write completions) and the lane's write result (at writes).
async fn run(init: i32, ops: &[Op]) -> Vec<String> {
    let agent = Agent { lane: ValueLane::new(0, init) };
    let identity = Uuid::from_u128(999);
    let mut state = WriteState::new(identity, "/node");
    assert_eq!(state.register_lane("l0"), 0);
    let (mut lane_tx, lane_rx) = byte_channel(NonZeroUsize::new(1 << 16).unwrap());
    let mut receiver = ResponseReceiver::<u64>::value_like_lane(0, None, lane_rx);
    let mut remotes: HashMap<u64, Remote> = HashMap::new();
    let mut inflight: HashMap<u64, WriteTask> = HashMap::new();
    let mut keep = vec![];
    let rid = |r: u64| Uuid::from_u128(r as u128);
    fn start(tasks: Vec<WriteTask>, inflight: &mut HashMap<u64, WriteTask>) {
        for t in tasks {
            let r = t.sender.remote_id().as_u128() as u64;
            assert!(inflight.insert(r, t).is_none(), "two writes in flight for one remote");
        }
    }
    let mut outs = vec![];
    for op in ops {
        let mut frames: Vec<String> = vec![];
        let mut wres = "None".to_string();
        match op {
            Op::Add(r) => {
                if !remotes.contains_key(r) {
                    let (w, reader) = byte_channel(NonZeroUsize::new(1 << 20).unwrap());
                    keep.push(state.add_remote(rid(*r), w).await);
                    remotes.insert(*r, Remote { reader, pending: BytesMut::new() });
                }
            }
            Op::Set(v) => run_handler(ValueLaneSet::new(proj, *v), &agent),
            Op::Sync(r) => run_handler(ValueLaneSync::new(proj, rid(*r)), &agent),
            Op::Write => {
                let mut buf = BytesMut::new();
                let r = agent.lane.write_to_buffer(&mut buf);
                wres = match r {
                    WriteResult::Done => "(Some WDone)",
                    WriteResult::DataStillAvailable => "(Some WMore)",
                    WriteResult::NoData => "(Some WNoData)",
                    _ => panic!("unexpected write result"),
                }
                .to_string();
                if !buf.is_empty() {
                    lane_tx.write_all(buf.as_ref()).await.expect("lane channel closed");
                }
                // the runtime takes in everything the lane wrote
                let mut idle = 0;
                while idle < 3 {
                    match receiver.next().now_or_never() {
                        Some(Some(Ok(item))) => {
                            idle = 0;
                            let (id, data) = item.into_uplink_response().expect("a lane response that is not for an uplink");
                            let ts = state.handle_event(id, data);
                            start(ts, &mut inflight);
                        }
                        Some(Some(Err(e))) => panic!("the receiver failed: {:?}", e),
                        Some(None) => panic!("the lane channel ended"),
                        None => {
                            idle += 1;
                            tokio::task::yield_now().await;
                        }
                    }
                }
            }
            Op::Link(r) => {
                if remotes.contains_key(r) {
                    let t = state.link(rid(*r), "l0").await;
                    start(t.into_iter().collect(), &mut inflight);
                }
            }
            Op::Unlink(r) => {
                if remotes.contains_key(r) {
                    let t = state.unlink(rid(*r), "l0").await;
                    start(t.into_iter().collect(), &mut inflight);
                }
            }
            Op::StopAll => {
                let ts = state.unlink_all();
                start(ts, &mut inflight);
            }
            Op::Done(r) => {
                if let Some(task) = inflight.remove(r) {
                    let (sender, buffer, result) = tokio::time::timeout(std::time::Duration::from_secs(5), task.into_future())
                        .await
                        .expect("a write did not complete although the channel has room");
                    result.expect("write failed");
                    let rem = remotes.get_mut(r).expect("write for a remote that was never added");
                    let mut chunk = [0u8; 4096];
                    tokio::task::yield_now().await;
                    let mut empty_polls = 0;
                    while empty_polls < 3 {
                        match rem.reader.read(&mut chunk).now_or_never() {
                            Some(Ok(n)) if n > 0 => {
                                rem.pending.extend_from_slice(&chunk[..n]);
                                empty_polls = 0;
                            }
                            Some(Ok(_)) => break,
                            Some(Err(e)) => panic!("remote channel failed: {}", e),
                            None => empty_polls += 1,
                        }
                    }
                    let mut dec = RawResponseMessageDecoder;
                    while let Some(ResponseMessage { origin, path, envelope }) = dec.decode(&mut rem.pending).expect("undecodable frame") {
                        assert_eq!(origin, identity, "wrong origin");
                        assert_eq!(path.node.as_str(), "/node", "wrong node");
                        assert_eq!(path.lane.as_str(), "l0", "wrong lane");
                        frames.push(match envelope {
                            Notification::Linked => "FLinked 0".to_string(),
                            Notification::Synced => "FSynced 0".to_string(),
                            Notification::Unlinked(Some(b)) if b.as_ref() == b"\"Link closed.\"" => "FUnlinked 0 0".to_string(),
                            Notification::Unlinked(_) => "FUnlinked 0 1".to_string(),
                            Notification::Event(b) => format!("FEvent 0 {}", coq_list(b.as_ref().iter().map(|x| x.to_string()))),
                        });
                    }
                    assert!(rem.pending.is_empty(), "a write ended inside a frame");
                    let next = state.replace(sender, buffer);
                    start(next.into_iter().collect(), &mut inflight);
                }
            }
        }
        outs.push(format!("({}, {})", coq_list(frames.into_iter()), wres));
    }
    outs
}

fn main() {
    let args = parse_args();
    silence_panics();
    let mut rng = Rng::new(args.seed ^ 0xc01b);
    let mut w = CaseWriter::new(
        "From SwimV Require Import Model.ValuePipeline.\nOpen Scope N_scope.",
        "vpcase",
        &["vp_corr_bad", "vp_oracle_bad", "vp_bridge_bad"],
        args.shards,
    );
    let rt = tokio::runtime::Builder::new_current_thread().enable_time().build().unwrap();
    let mut kinds: BTreeMap<String, u64> = BTreeMap::new();
    let mut distinct = BTreeSet::new();
    let mut nontrivial = 0u64;
    let mut samples = vec![];
    let mut failures: Vec<String> = vec![];

    let mut emit = |init: i32, ops: Vec<Op>, w: &mut CaseWriter| {
        let ops2 = ops.clone();
        let outs = match catch(std::panic::AssertUnwindSafe(|| rt.block_on(run(init, &ops2)))) {
            Ok(o) => o,
            Err(m) => {
                failures.push(format!("init {} ops {:?}: the implementation panicked: {}", init, ops, m));
                return;
            }
        };
        for o in &ops {
            let k = match o {
                Op::Add(_) => "add",
                Op::Set(_) => "set",
                Op::Sync(_) => "sync",
                Op::Write => "write",
                Op::Link(_) => "link",
                Op::Unlink(_) => "unlink",
                Op::Done(_) => "done",
                Op::StopAll => "stop_all",
            };
            *kinds.entry(k.into()).or_default() += 1;
        }
        let human = format!("init={} ops={:?} impl={:?}", init, ops, outs);
        // non-trivial: a value was superseded while a write was in progress (an event skipped) and a sync was answered
        let skipped = outs.iter().filter(|o| o.contains("FEvent")).count() + 1 < ops.iter().filter(|o| matches!(o, Op::Set(_))).count();
        let nt = skipped && human.contains("FSynced");
        if distinct.insert(human.clone()) && nt {
            nontrivial += 1;
            if samples.len() < 3 {
                samples.push(J::s(human.chars().take(600).collect::<String>()));
            }
        }
        w.push(format!("({}, {}, {})", body_coq(init), coq_list(ops.iter().map(|o| o.coq())), coq_list(outs.iter().cloned())), human);
    };

    // corpus
    emit(0, vec![Op::Add(1), Op::Link(1), Op::Done(1), Op::Set(5), Op::Write, Op::Set(6), Op::Write, Op::Set(7), Op::Write, Op::Done(1), Op::Done(1), Op::Done(1)], &mut w);
    emit(3, vec![Op::Add(1), Op::Sync(1), Op::Write, Op::Done(1), Op::Done(1), Op::Done(1), Op::Write], &mut w);
    emit(0, vec![Op::Add(1), Op::Add(2), Op::Link(1), Op::Set(4), Op::Sync(2), Op::Write, Op::Write, Op::Done(1), Op::Done(2), Op::Done(1), Op::Done(2), Op::Done(2)], &mut w);
    emit(0, vec![Op::Add(1), Op::Link(1), Op::Set(1), Op::Write, Op::Set(2), Op::Write, Op::Unlink(1), Op::Set(3), Op::Write, Op::Link(1), Op::Done(1), Op::Done(1), Op::Done(1), Op::Done(1)], &mut w);

    for _ in 0..args.cases {
        let nrem = rng.range(1, 4);
        let mut ops: Vec<Op> = (1..=nrem).map(Op::Add).collect();
        let len = rng.range(5, 40);
        let mut next = 1i32;
        let slow = rng.below(3) == 0; // few write completions: values pile up behind a write in progress
        for _ in 0..len {
            let r = rng.range(1, nrem + 1);
            let k = rng.below(100);
            ops.push(if k < 28 {
                // mostly fresh values; now and then a value seen before
                let v = if rng.below(6) == 0 { rng.below(3) as i32 } else { next };
                next += 1;
                Op::Set(v)
            } else if k < 52 {
                Op::Write
            } else if k < 62 {
                Op::Sync(r)
            } else if k < 72 {
                Op::Link(r)
            } else if k < 77 {
                Op::Unlink(r)
            } else if slow && k < 92 {
                Op::Write
            } else {
                Op::Done(r)
            });
        }
        if rng.below(4) == 0 {
            // the agent stops: every open link is closed
            ops.push(Op::StopAll);
        }
        // run to quiescence
        for _ in 0..6 {
            ops.push(Op::Write);
            for r in 1..=nrem {
                ops.push(Op::Done(r));
            }
        }
        emit(rng.below(3) as i32, ops, &mut w);
    }

    w.finish(&args.out, "cases").unwrap();
    failures.sort();
    failures.dedup();
    let meta = J::obj(vec![
        ("evaluations", J::I(w.len() as i128)),
        ("distinct_nontrivial", J::I(nontrivial as i128)),
        ("rule", J::s("a real ValueLane<i32> (ValueLaneSet / ValueLaneSync handlers stepped to completion, LaneItem::write_to_buffer), its bytes through a byte channel into the runtime's real ResponseReceiver, each decoded response into the real WriteTaskState::handle_event, write tasks completed one at a time, each remote's channel decoded with RawResponseMessageDecoder; 1-3 remotes, 5-40 random operations (set 28%, write 24%, sync 10%, link 10%, unlink 5%, write completion 23%; a third of the cases with few completions so that values pile up behind a write in progress), in a quarter of the cases the agent then stops (unlink_all), then six rounds of write + completions to quiescence; per operation the frames delivered and the lane's WriteResult are compared with Model/ValuePipeline.v, the specialised runtime model is compared with the general write-task model of Model/Uplinks.v, and the oracle is evaluated on the implementation's frames (ordered gap-tolerant view of the history, the link protocol grammar per remote, no more synced markers than sync requests); non-trivial = an event was skipped and a synced delivered; distinct by rendered case")),
        ("structures", J::counts(&kinds)),
        ("samples", J::A(samples)),
        ("direct_failures", J::A(failures.iter().take(40).map(|f| J::s(f.chars().take(500).collect::<String>())).collect())),
        ("direct_failure_count", J::I(failures.len() as i128)),
    ]);
    write_meta(&args.out, "meta.json", &meta);
}
