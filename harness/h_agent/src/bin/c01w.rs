//! C01, the agent task's write bookkeeping: the same set-up as c01e (the real agent runtime + a real agent with
//! small buffers and slow readers), but what is recorded is the trace of the agent task's own loop (hook
//! verif_trace): per iteration the event taken, the items flagged when the pass begins, the pass and the three
//! collections after it.  The trace must be a run of Model/WriteLoop.v and satisfy its oracle.
//! (set-up shared with c01e:) the real agent runtime (AgentRouteTask::run_agent: read / write tasks) runs a real agent
//! (derived lane model, AgentModel) with two value lanes and a command lane; several remotes link, sync, unlink,
//! send commands and read slowly; small lane and remote buffers make writes wait.  The lanes' histories are
//! recorded by their on_set handlers.  Per (remote, lane): the events read must be an ordered gap-tolerant view
//! of the lane's history, and a remote that saw its linked before the last change was commanded and stayed
//! linked must end with the lane's current value.  The schedule is the runtime's own; the predicates are
//! evaluated in Coq (Model/ValuePipeline.v e2e_ok) - the ones the pipeline theorems establish for the model.

use std::collections::{BTreeMap, HashMap};
use std::sync::atomic::{AtomicBool, AtomicU64, Ordering};
use std::sync::Arc;
use std::time::Duration;

use futures::{SinkExt, StreamExt};
use parking_lot::Mutex;
use swimos_agent::agent_lifecycle::HandlerContext;
use swimos_agent::agent_model::verif_trace::{self, LoopEvent, PassOutcome};
use swimos_agent::agent_model::AgentModel;
use swimos_agent::event_handler::{EventHandler, HandlerActionExt, UnitHandler};
use swimos_agent::lanes::{CommandLane, ValueLane};
use swimos_agent_derive::{lifecycle, AgentLaneModel};
use swimos_api::address::RelativeAddress;
use swimos_api::agent::{AgentConfig, LaneConfig};
use swimos_messages::protocol::{Notification, Operation, RawRequestMessageEncoder, RawResponseMessageDecoder, RequestMessage};
use swimos_runtime::agent::{AgentAttachmentRequest, AgentRouteChannels, AgentRouteDescriptor, AgentRouteTask, CombinedAgentConfig};
use swimos_utilities::byte_channel::{byte_channel, ByteWriter};
use swimos_utilities::trigger;
use swimos_utilities::trigger::promise;
use tokio::sync::mpsc;
use tokio_util::codec::{FramedRead, FramedWrite};
use uuid::Uuid;
use vcore::*;

#[derive(AgentLaneModel)]
#[agent(root(::swimos_agent))]
struct VAgent {
    #[item(transient)]
    v: ValueLane<i64>,
    #[item(transient)]
    w: ValueLane<i64>,
    #[item(transient)]
    c: CommandLane<i64>,
}
fn pv(a: &VAgent) -> &ValueLane<i64> {
    &a.v
}
fn pw(a: &VAgent) -> &ValueLane<i64> {
    &a.w
}

/// The values each lane has held, in order (initial value first).
type Hist = Arc<Mutex<(Vec<i64>, Vec<i64>)>>;

#[derive(Clone)]
struct VLifecycle(Hist);

#[lifecycle(VAgent, agent_root(::swimos_agent))]
impl VLifecycle {
    // an update made by the agent's own handler
    #[on_command(c)]
    fn on_c(&self, context: HandlerContext<VAgent>, value: &i64) -> impl EventHandler<VAgent> + '_ {
        context.set_value(pv, *value)
    }
    // and a second one triggered by the first
    #[on_event(v)]
    fn v_event(&self, context: HandlerContext<VAgent>, value: &i64) -> impl EventHandler<VAgent> + '_ {
        if *value % 4 == 0 {
            context.set_value(pw, *value).boxed()
        } else {
            UnitHandler::default().boxed()
        }
    }
    #[on_set(v)]
    fn v_set(&self, context: HandlerContext<VAgent>, value: &i64, _prev: Option<i64>) -> impl EventHandler<VAgent> + '_ {
        let h = self.0.clone();
        let x = *value;
        context.effect(move || h.lock().0.push(x))
    }
    #[on_set(w)]
    fn w_set(&self, context: HandlerContext<VAgent>, value: &i64, _prev: Option<i64>) -> impl EventHandler<VAgent> + '_ {
        let h = self.0.clone();
        let x = *value;
        context.effect(move || h.lock().1.push(x))
    }
}

const NODE: &str = "/node";

#[derive(Clone, Debug, PartialEq)]
enum FrameKind {
    Linked,
    Synced,
    Unlinked,
    Event(i64),
    Bad(String),
}

struct Remote {
    id: Uuid,
    tx: FramedWrite<ByteWriter, RawRequestMessageEncoder>,
    frames: Arc<Mutex<Vec<(String, FrameKind)>>>,
    paused: Arc<AtomicBool>,
}

impl Remote {
    async fn send(&mut self, lane: &str, op: Operation<Vec<u8>>) -> bool {
        let msg = RequestMessage { origin: self.id, path: RelativeAddress::new(NODE, lane), envelope: op };
        tokio::time::timeout(Duration::from_secs(10), self.tx.send(msg)).await.map(|r| r.is_ok()).unwrap_or(false)
    }
    fn count(&self, lane: &str, kind: &FrameKind) -> usize {
        self.frames.lock().iter().filter(|(l, k)| l == lane && k == kind).count()
    }
}

struct Life {
    task: tokio::task::JoinHandle<Result<(), String>>,
    attach: mpsc::Sender<AgentAttachmentRequest>,
    stop: trigger::Sender,
    hist: Hist,
    _keep: (mpsc::Sender<swimos_api::agent::HttpLaneRequest>, mpsc::Receiver<swimos_runtime::agent::LinkRequest>),
}

fn start(lane_buffer: usize) -> Life {
    let hist: Hist = Arc::new(Mutex::new((vec![0], vec![0])));
    let lifecycle = VLifecycle(hist.clone()).into_lifecycle();
    let agent = AgentModel::new(VAgent::default, lifecycle);
    let identity = AgentRouteDescriptor { identity: Uuid::from_u128(77), route: NODE.parse().unwrap(), route_params: HashMap::new() };
    let (attach_tx, attach_rx) = mpsc::channel(16);
    let (http_tx, http_rx) = mpsc::channel(16);
    let (link_tx, link_rx) = mpsc::channel(16);
    let (stop_tx, stop_rx) = trigger::trigger();
    let size = std::num::NonZeroUsize::new(lane_buffer).unwrap();
    let lane_config = LaneConfig { input_buffer_size: std::num::NonZeroUsize::new(4096).unwrap(), output_buffer_size: size, transient: true };
    let config = CombinedAgentConfig { agent_config: AgentConfig { default_lane_config: Some(lane_config), ..AgentConfig::default() }, ..Default::default() };
    let fut = AgentRouteTask::new(&agent, identity, AgentRouteChannels::new(attach_rx, http_rx, link_tx), stop_rx, config, None).run_agent();
    let task = tokio::spawn(async move { fut.await.map_err(|e| format!("{:?}", e)) });
    Life { task, attach: attach_tx, stop: stop_tx, hist, _keep: (http_tx, link_rx) }
}

static NEXT_REMOTE: AtomicU64 = AtomicU64::new(1);

async fn attach(life: &Life, remote_buffer: usize) -> Option<Remote> {
    let id = Uuid::from_u128(1000 + NEXT_REMOTE.fetch_add(1, Ordering::Relaxed) as u128);
    let (req_tx, req_rx) = byte_channel(std::num::NonZeroUsize::new(65536).unwrap());
    let (resp_tx, resp_rx) = byte_channel(std::num::NonZeroUsize::new(remote_buffer).unwrap());
    let (done_tx, done_rx) = promise::promise();
    let (on_tx, on_rx) = trigger::trigger();
    life.attach.send(AgentAttachmentRequest::with_confirmation(id, (resp_tx, req_rx), done_tx, on_tx)).await.ok()?;
    tokio::time::timeout(Duration::from_secs(10), on_rx).await.ok()?.ok()?;
    let frames: Arc<Mutex<Vec<(String, FrameKind)>>> = Default::default();
    let paused = Arc::new(AtomicBool::new(false));
    let (f2, p2) = (frames.clone(), paused.clone());
    tokio::spawn(async move {
        let _keep = done_rx;
        let mut reader = FramedRead::new(resp_rx, RawResponseMessageDecoder);
        loop {
            // a slow remote: it does not read while paused
            while p2.load(Ordering::Relaxed) {
                tokio::time::sleep(Duration::from_millis(1)).await;
            }
            match reader.next().await {
                Some(Ok(msg)) => {
                    let lane = msg.path.lane.as_str().to_string();
                    let kind = match msg.envelope {
                        Notification::Linked => FrameKind::Linked,
                        Notification::Synced => FrameKind::Synced,
                        Notification::Unlinked(_) => FrameKind::Unlinked,
                        Notification::Event(b) => match std::str::from_utf8(b.as_ref()).ok().and_then(|s| s.trim().parse().ok()) {
                            Some(n) => FrameKind::Event(n),
                            None => FrameKind::Bad(String::from_utf8_lossy(b.as_ref()).to_string()),
                        },
                    };
                    f2.lock().push((lane, kind));
                }
                _ => break,
            }
        }
    });
    Some(Remote { id, tx: FramedWrite::new(req_tx, RawRequestMessageEncoder), frames, paused })
}

#[derive(Clone, Debug)]
enum Act {
    Link(usize, &'static str),
    Sync(usize, &'static str),
    Unlink(usize, &'static str),
    /// remote, lane ("v" directly or "c": the handler sets v), value
    Command(usize, &'static str, i64),
    Pause(usize),
    Resume(usize),
    Yield,
}

struct Stream {
    remote: usize,
    lane: &'static str,
    events: Vec<i64>,
    settled: bool,
}

struct Outcome {
    hist_v: Vec<i64>,
    hist_w: Vec<i64>,
    streams: Vec<Stream>,
    problem: Option<String>,
    trace: Vec<LoopEvent>,
}

async fn wait_until(mut f: impl FnMut() -> bool, secs: u64) -> bool {
    let deadline = tokio::time::Instant::now() + Duration::from_secs(secs);
    while !f() {
        if tokio::time::Instant::now() > deadline {
            return false;
        }
        tokio::time::sleep(Duration::from_millis(2)).await;
    }
    true
}

async fn run_case(acts: &[Act], nrem: usize, lane_buffer: usize, remote_buffer: usize) -> Outcome {
    verif_trace::start();
    let life = start(lane_buffer);
    let mut problem = None;
    let mut remotes = vec![];
    for _ in 0..nrem {
        match attach(&life, remote_buffer).await {
            Some(r) => remotes.push(r),
            None => {
                return Outcome { hist_v: vec![], hist_w: vec![], streams: vec![], problem: Some("a remote could not be attached".into()), trace: verif_trace::take() };
            }
        }
    }
    // per (remote, lane): linked at the moment (as far as the harness has asked), and whether its linked frame
    // had been read before the last change of that lane was commanded
    let mut asked_link: BTreeMap<(usize, &'static str), bool> = BTreeMap::new();
    let mut seen_linked_before_last: BTreeMap<(usize, &'static str), bool> = BTreeMap::new();
    let mut expected_sets_v = 0usize;
    for act in acts {
        match act {
            Act::Link(r, lane) => {
                remotes[*r].send(lane, Operation::Link).await;
                asked_link.insert((*r, lane), true);
            }
            Act::Sync(r, lane) => {
                remotes[*r].send(lane, Operation::Sync).await;
                asked_link.insert((*r, lane), true);
            }
            Act::Unlink(r, lane) => {
                remotes[*r].send(lane, Operation::Unlink).await;
                asked_link.insert((*r, lane), false);
                seen_linked_before_last.insert((*r, lane), false);
            }
            Act::Command(r, lane, x) => {
                // which remotes have read their linked frame (and not asked to unlink) at this moment
                for lane2 in ["v", "w"] {
                    if lane2 == "w" && x % 4 != 0 {
                        continue;
                    }
                    for (k, rem) in remotes.iter().enumerate() {
                        let up = *asked_link.get(&(k, lane2)).unwrap_or(&false)
                            && rem.count(lane2, &FrameKind::Linked) > rem.count(lane2, &FrameKind::Unlinked);
                        seen_linked_before_last.insert((k, lane2), up);
                    }
                }
                if !remotes[*r].send(lane, Operation::Command(x.to_string().into_bytes())).await {
                    problem = Some("a command could not be sent".to_string());
                }
                expected_sets_v += 1;
            }
            Act::Pause(r) => remotes[*r].paused.store(true, Ordering::Relaxed),
            Act::Resume(r) => remotes[*r].paused.store(false, Ordering::Relaxed),
            Act::Yield => tokio::task::yield_now().await,
        }
    }
    for r in remotes.iter() {
        r.paused.store(false, Ordering::Relaxed);
    }
    // the agent has handled every command
    let h = life.hist.clone();
    if !wait_until(|| h.lock().0.len() == expected_sets_v + 1, 20).await {
        problem.get_or_insert(format!("the agent handled {} of {} commands", life.hist.lock().0.len() - 1, expected_sets_v));
    }
    // quiescence: every settled stream ends with the current value (or the deadline passes), then a grace period
    let (hv, hw) = life.hist.lock().clone();
    let settled: Vec<(usize, &'static str)> = seen_linked_before_last.iter().filter(|(_, s)| **s).map(|(k, _)| *k).collect();
    let last = |lane: &str| if lane == "v" { *hv.last().unwrap() } else { *hw.last().unwrap() };
    let _ = wait_until(
        || {
            settled.iter().all(|(r, lane)| {
                let fr = remotes[*r].frames.lock();
                fr.iter().rev().find_map(|(l, k)| match k {
                    FrameKind::Event(n) if l == lane => Some(*n),
                    _ => None,
                }) == Some(last(lane))
            })
        },
        8,
    )
    .await;
    tokio::time::sleep(Duration::from_millis(30)).await;
    let mut streams = vec![];
    for (k, rem) in remotes.iter().enumerate() {
        for lane in ["v", "w"] {
            let fr = rem.frames.lock();
            if let Some((_, FrameKind::Bad(b))) = fr.iter().find(|(_, k)| matches!(k, FrameKind::Bad(_))) {
                problem.get_or_insert(format!("unreadable event body {:?}", b));
            }
            let events: Vec<i64> = fr.iter().filter_map(|(l, k)| match k {
                FrameKind::Event(n) if l == lane => Some(*n),
                _ => None,
            }).collect();
            streams.push(Stream { remote: k, lane, events, settled: *seen_linked_before_last.get(&(k, lane)).unwrap_or(&false) });
        }
    }
    life.stop.trigger();
    drop(remotes);
    let _ = tokio::time::timeout(Duration::from_secs(10), life.task).await;
    Outcome { hist_v: hv, hist_w: hw, streams, problem, trace: verif_trace::take() }
}

fn coq_ids(v: &[u64]) -> String {
    coq_list(v.iter().map(|x| x.to_string()))
}

fn main() {
    let args = parse_args();
    silence_panics();
    let mut rng = Rng::new(args.seed ^ 0xc01f);
    let mut w = CaseWriter::new(
        "From SwimV Require Import Model.WriteLoop.\nOpen Scope N_scope.",
        "wlcase",
        &["wl_corr_bad", "wl_oracle_bad"],
        args.shards,
    );
    let rt = tokio::runtime::Builder::new_current_thread().enable_all().build().unwrap();
    let mut kinds: BTreeMap<String, u64> = BTreeMap::new();
    let mut failures: Vec<String> = vec![];
    let mut nontrivial = 0u64;
    let mut samples = vec![];
    let lanes: [&'static str; 2] = ["v", "w"];
    for i in 0..args.cases {
        let nrem = rng.range(1, 3) as usize;
        let tight = i % 3 != 2;
        let lane_buffer = if tight { *rng.pick(&[24usize, 48, 96]) } else { 4096 };
        let remote_buffer = if tight { *rng.pick(&[64usize, 128, 4096]) } else { 65536 };
        let mut acts = vec![];
        for r in 0..nrem {
            for lane in lanes {
                match rng.below(4) {
                    0 => {}
                    1 => acts.push(Act::Sync(r, lane)),
                    _ => acts.push(Act::Link(r, lane)),
                }
            }
        }
        for _ in 0..3 {
            acts.push(Act::Yield);
        }
        let mut next = 1i64;
        let bursts = rng.range(1, 3);
        for _ in 0..bursts {
            for r in 0..nrem {
                if rng.below(3) == 0 {
                    acts.push(Act::Pause(r));
                }
            }
            let n = if tight { rng.range(5, 40) } else { rng.range(1, 12) };
            for _ in 0..n {
                let r = rng.usize_below(nrem);
                acts.push(Act::Command(r, if rng.below(3) == 0 { "c" } else { "v" }, next));
                next += 1;
                match rng.below(12) {
                    0 => acts.push(Act::Yield),
                    1 => acts.push(Act::Sync(rng.usize_below(nrem), *rng.pick(&lanes))),
                    2 => acts.push(Act::Link(rng.usize_below(nrem), *rng.pick(&lanes))),
                    _ => {}
                }
            }
            for r in 0..nrem {
                acts.push(Act::Resume(r));
            }
            for _ in 0..rng.range(0, 5) {
                acts.push(Act::Yield);
            }
        }
        let out = rt.block_on(run_case(&acts, nrem, lane_buffer, remote_buffer));
        let _ = (&out.hist_v, &out.hist_w, &out.streams);
        if let Some(p) = &out.problem {
            failures.push(format!("case {} (lane buffer {}, remote buffer {}): {} (actions {:?})", i, lane_buffer, remote_buffer, p, acts));
            continue;
        }
        // group the trace into iterations
        let mut its: Vec<String> = vec![];
        let mut items: std::collections::BTreeSet<u64> = Default::default();
        let mut k = 0usize;
        let tr = &out.trace;
        let mut no_writer = 0u64;
        let mut more = 0u64;
        let mut malformed = false;
        while k < tr.len() {
            let wc = match &tr[k] {
                LoopEvent::Event { write_complete } => *write_complete,
                other => {
                    failures.push(format!("case {}: the trace has {:?} where an event was expected", i, other));
                    malformed = true;
                    break;
                }
            };
            k += 1;
            if k + 2 < tr.len() + 0 && matches!(tr[k], LoopEvent::Dirty(_)) {
                if let (LoopEvent::Dirty(flagged), LoopEvent::Pass(pass), LoopEvent::After { dirty, writers, pending }) = (&tr[k], &tr[k + 1], &tr[k + 2]) {
                    for x in writers.iter().chain(pass.iter().map(|(id, _)| id)) {
                        items.insert(*x);
                    }
                    let outcome = |o: &PassOutcome| match o {
                        PassOutcome::NoWriter => "ONoWriter",
                        PassOutcome::Done => "ODone",
                        PassOutcome::RequiresEvent => "ORequires",
                        PassOutcome::DataStillAvailable => "OMore",
                        PassOutcome::NoData => "ONoData",
                    };
                    no_writer += pass.iter().filter(|(_, o)| *o == PassOutcome::NoWriter).count() as u64;
                    more += pass.iter().filter(|(_, o)| *o == PassOutcome::DataStillAvailable).count() as u64;
                    its.push(format!(
                        "{{| it_complete := {}; it_flagged := {}; it_pass := {}; it_dirty := {}; it_writers := {}; it_pending := {} |}}",
                        match wc {
                            Some(id) => format!("(Some {})", id),
                            None => "None".into(),
                        },
                        coq_ids(flagged),
                        coq_list(pass.iter().map(|(id, o)| format!("({}, {})", id, outcome(o)))),
                        coq_ids(dirty),
                        coq_ids(writers),
                        pending
                    ));
                    k += 3;
                    continue;
                }
                failures.push(format!("case {}: the trace has an incomplete pass at {}", i, k));
                malformed = true;
                break;
            }
            // an event without a pass (the loop went round or ended)
            if k < tr.len() && !matches!(tr[k], LoopEvent::Event { .. }) {
                // a pass cut short by the end of the trace
                break;
            }
            if wc.is_some() {
                // the writer came back but the loop left before putting it away: only at the end of the task
                break;
            }
        }
        if malformed {
            continue;
        }
        *kinds.entry(if tight { "small_buffers".into() } else { "roomy_buffers".to_string() }).or_default() += 1;
        *kinds.entry("iterations".into()).or_default() += its.len() as u64;
        *kinds.entry("visits_without_writer".into()).or_default() += no_writer;
        *kinds.entry("visits_with_more_to_write".into()).or_default() += more;
        if no_writer > 0 {
            nontrivial += 1;
        }
        let human = format!("case {} (lane buffer {}, remote buffer {}, {} remotes): {} iterations, {} visits without the writer, {} with more to write; actions {:?}", i, lane_buffer, remote_buffer, nrem, its.len(), no_writer, more, acts);
        if samples.len() < 3 && no_writer > 0 {
            samples.push(J::s(human.chars().take(500).collect::<String>()));
        }
        let items: Vec<u64> = items.into_iter().collect();
        w.push(format!("({}, {})", coq_ids(&items), coq_list(its.into_iter())), human);
    }
    w.finish(&args.out, "cases").unwrap();
    failures.sort();
    failures.dedup();
    let meta = J::obj(vec![
        ("evaluations", J::I(w.len() as i128)),
        ("distinct_nontrivial", J::I(nontrivial as i128)),
        ("rule", J::s("the set-up of c01e (real agent runtime + real agent: value lanes v and w, command lane c; 1-3 remotes; bursts of commands; two thirds of the cases with lane output buffers of 24-96 bytes so that an item's writer is lent out when the item is flagged again); the agent task's loop records, per iteration, the event taken (a completed write or not), the items flagged when the pass begins, each visit of the pass with what the item answered, and the flagged items / writers at hand / writes in flight after the pass; the whole trace must be a run of Model/WriteLoop.v and every pass must satisfy the oracle (no writer lost; an item visited without its writer or with more to write stays flagged; every flagged item has a write in flight); non-trivial = a flagged item was visited while its writer was lent out")),
        ("structures", J::counts(&kinds)),
        ("samples", J::A(samples)),
        ("direct_failures", J::A(failures.iter().take(40).map(|f| J::s(f.chars().take(600).collect::<String>())).collect())),
        ("direct_failure_count", J::I(failures.len() as i128)),
    ]);
    write_meta(&args.out, "meta.json", &meta);
}
