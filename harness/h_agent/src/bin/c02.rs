//! C02: the coalescing queues of map lanes: EventQueue (exact keys), MapOperationQueue (Recon keys),
//! WriteQueues (events + sync queues).

use std::collections::{BTreeMap, BTreeSet, VecDeque};

use bytes::BytesMut;
use swimos_agent::verif_hooks::lanes::{ToWrite, WriteQueues};
use swimos_agent::verif_hooks::EventQueue;
use swimos_agent_protocol::MapOperation;
use swimos_recon::compare_recon_values;
use swimos_runtime::verif_hooks::backpressure::MapOperationQueue;
use uuid::Uuid;
use vcore::*;

/// Recon key pool: (class, text).  Texts of one class are equal as Recon values, texts of different
/// classes are not (asserted against the real comparator at start-up).
const POOL: &[(u64, &str)] = &[
    (0, "a"), (0, "\"a\""), (0, " a "),
    (1, "1"), (1, " 1"),
    (2, "@a(1)"), (2, "@a(1) "), (2, "@a( 1 )"),
    (3, "{x:1,y:2}"), (3, "{ x: 1, y: 2 }"), (3, "{x:1;y:2}"),
    (4, "\"1\""),
    (5, "b"),
    (6, "@a({1})"),
];

#[derive(Clone, Debug, PartialEq, Eq, PartialOrd, Ord)]
enum Entry {
    Update(u64, u32),
    Remove(u64),
    Clear,
}
impl Entry {
    fn coq(&self) -> String {
        match self {
            Entry::Update(c, v) => format!("(EUpdate ({}, 0) {})", c, v),
            Entry::Remove(c) => format!("(ERemove ({}, 0))", c),
            Entry::Clear => "EClear".into(),
        }
    }
}

fn class_of(text: &[u8]) -> u64 {
    let s = std::str::from_utf8(text).unwrap();
    POOL.iter().find(|(_, t)| *t == s).map(|(c, _)| *c).expect("popped key not from the pool")
}

#[derive(Clone, Debug)]
enum QOp {
    Push(Entry, usize), // spelling index within the class (MapOperationQueue only)
    Pop,
}

fn spellings(c: u64) -> Vec<&'static str> {
    POOL.iter().filter(|(k, _)| *k == c).map(|(_, t)| *t).collect()
}

fn run_event_queue(start: u64, ops: &[QOp]) -> Vec<String> {
    let mut q: EventQueue<u64, u32> = EventQueue::verif_with_head_epoch(start as usize);
    ops.iter()
        .map(|op| match op {
            QOp::Push(e, _) => {
                q.push(match e {
                    Entry::Update(c, v) => MapOperation::Update { key: *c, value: *v },
                    Entry::Remove(c) => MapOperation::Remove { key: *c },
                    Entry::Clear => MapOperation::Clear,
                });
                "OPushed".to_string()
            }
            QOp::Pop => match q.pop() {
                None => "OPopped None".to_string(),
                Some(MapOperation::Update { key, value }) => format!("OPopped (Some {})", Entry::Update(key, value).coq()),
                Some(MapOperation::Remove { key }) => format!("OPopped (Some {})", Entry::Remove(key).coq()),
                Some(MapOperation::Clear) => "OPopped (Some EClear)".to_string(),
            },
        })
        .collect()
}

fn run_map_queue(start: u64, ops: &[QOp]) -> Vec<String> {
    let mut q = MapOperationQueue::verif_with_head_epoch(start as usize);
    let b = |s: &str| BytesMut::from(s.as_bytes());
    ops.iter()
        .map(|op| match op {
            QOp::Push(e, sp) => {
                let r = match e {
                    Entry::Update(c, v) => {
                        let texts = spellings(*c);
                        // values of varying length so that both capacity branches are taken
                        let val = format!("{}", v);
                        q.push(MapOperation::Update { key: b(texts[*sp % texts.len()]), value: b(&val) })
                    }
                    Entry::Remove(c) => {
                        let texts = spellings(*c);
                        q.push(MapOperation::Remove { key: b(texts[*sp % texts.len()]) })
                    }
                    Entry::Clear => q.push(MapOperation::Clear),
                };
                r.expect("valid UTF-8 key rejected");
                "OPushed".to_string()
            }
            QOp::Pop => match q.pop() {
                None => "OPopped None".to_string(),
                Some(MapOperation::Update { key, value }) => {
                    let v: u32 = std::str::from_utf8(&value).unwrap().parse().unwrap();
                    format!("OPopped (Some {})", Entry::Update(class_of(&key), v).coq())
                }
                Some(MapOperation::Remove { key }) => format!("OPopped (Some {})", Entry::Remove(class_of(&key)).coq()),
                Some(MapOperation::Clear) => "OPopped (Some EClear)".to_string(),
            },
        })
        .collect()
}

#[derive(Clone, Debug)]
enum WOp {
    Push(Entry),
    Sync(u64, Vec<u64>),
    Pop,
}

fn run_write_queues(ops: &[WOp]) -> Vec<String> {
    let mut q: WriteQueues<u64> = WriteQueues::default();
    ops.iter()
        .map(|op| match op {
            WOp::Push(e) => {
                q.push_operation(match e {
                    Entry::Update(c, _) => MapOperation::Update { key: *c, value: () },
                    Entry::Remove(c) => MapOperation::Remove { key: *c },
                    Entry::Clear => MapOperation::Clear,
                });
                "WOUnit".to_string()
            }
            WOp::Sync(id, keys) => {
                q.sync(Uuid::from_u128(*id as u128), keys.iter().copied().collect::<VecDeque<_>>());
                "WOUnit".to_string()
            }
            WOp::Pop => match q.pop() {
                None => "WOPopped None".to_string(),
                Some(ToWrite::Event(MapOperation::Update { key, .. })) => format!("WOPopped (Some (WEvent {}))", Entry::Update(key, 0).coq()),
                Some(ToWrite::Event(MapOperation::Remove { key })) => format!("WOPopped (Some (WEvent {}))", Entry::Remove(key).coq()),
                Some(ToWrite::Event(MapOperation::Clear)) => "WOPopped (Some (WEvent EClear))".to_string(),
                Some(ToWrite::SyncEvent(id, k)) => format!("WOPopped (Some (WSyncEvent {} ({}, 0)))", id.as_u128(), k),
                Some(ToWrite::Synced(id)) => format!("WOPopped (Some (WSynced {}))", id.as_u128()),
            },
        })
        .collect()
}

fn qop_coq(op: &QOp) -> String {
    match op {
        QOp::Push(e, _) => format!("QPush {} false", e.coq()),
        QOp::Pop => "QPop".into(),
    }
}
fn wop_coq(op: &WOp) -> String {
    match op {
        // the write queues carry keys only (values are read from the lane when an event is written)
        WOp::Push(Entry::Update(c, _)) => format!("WPush {}", Entry::Update(*c, 0).coq()),
        WOp::Push(e) => format!("WPush {}", e.coq()),
        WOp::Sync(id, keys) => format!("WSync {} {}", id, coq_list(keys.iter().map(|k| format!("({}, 0)", k)))),
        WOp::Pop => "WPop".into(),
    }
}

fn gen_entry(rng: &mut Rng, nclasses: u64) -> Entry {
    match rng.below(20) {
        0 => Entry::Clear,
        1..=5 => Entry::Remove(rng.below(nclasses)),
        _ => Entry::Update(rng.below(nclasses), *rng.pick(&[0u32, 1, 7, 12, 123, 4567, 1000000, 99])),
    }
}

fn main() {
    let args = parse_args();
    silence_panics();
    // tie the pool to the real comparator
    for (c1, t1) in POOL {
        for (c2, t2) in POOL {
            assert_eq!(compare_recon_values(t1, t2), c1 == c2, "pool classes disagree with compare_recon_values on {:?} / {:?}", t1, t2);
        }
    }
    let mut rng = Rng::new(args.seed);
    let mut w = CaseWriter::new(
        "From SwimV Require Import Model.MapQueue.\nOpen Scope N_scope.",
        "mcase",
        &["corr_bad", "oracle_bad"],
        args.shards,
    );
    let mut kinds: BTreeMap<String, u64> = BTreeMap::new();
    let mut distinct = BTreeSet::new();
    let mut nontrivial = 0u64;
    let mut samples = vec![];

    let mut panicked: Vec<String> = vec![];
    let mut emit_q = |which: &str, start: u64, ops: &[QOp], w: &mut CaseWriter| {
        let outs = catch(std::panic::AssertUnwindSafe(|| {
            if which == "event_queue" { run_event_queue(start, ops) } else { run_map_queue(start, ops) }
        }))
        .unwrap_or_else(|msg| {
            // a panic inside the implementation: the case is reported with no outputs at all, which
            // neither the model nor the oracle accepts
            panicked.push(format!("{} start={} ops={:?}: PANIC {}", which, start, ops, msg));
            vec![]
        });
        let term = format!(
            "CaseQueue {} {} {}",
            start,
            coq_list(ops.iter().map(qop_coq)),
            coq_list(outs.iter().cloned())
        );
        let human = format!("{} start={} ops={:?} impl={:?}", which, start, ops, outs);
        *kinds.entry(which.into()).or_default() += 1;
        // non-trivial: a push that replaces a queued entry in place, later popped
        let mut queued: BTreeSet<u64> = BTreeSet::new();
        let mut replaced = false;
        for op in ops {
            match op {
                QOp::Push(Entry::Update(c, _), _) | QOp::Push(Entry::Remove(c), _) => {
                    if !queued.insert(*c) {
                        replaced = true;
                    }
                }
                QOp::Push(Entry::Clear, _) => queued.clear(),
                QOp::Pop => {
                    // approximate: one pending class leaves
                    if let Some(c) = queued.iter().next().copied() {
                        queued.remove(&c);
                    }
                }
            }
        }
        if distinct.insert(human.clone()) && replaced {
            nontrivial += 1;
            if samples.len() < 3 {
                samples.push(J::s(human.chars().take(500).collect::<String>()));
            }
        }
        w.push(term, human);
    };

    // corpus
    let u = |c, v| QOp::Push(Entry::Update(c, v), 0);
    emit_q("event_queue", 0, &[u(1, 1), u(2, 2), u(1, 3), QOp::Pop, QOp::Push(Entry::Remove(2), 0), QOp::Pop, QOp::Pop, QOp::Pop], &mut w);
    emit_q("event_queue", u64::MAX - 1, &[u(1, 1), u(2, 2), QOp::Pop, u(3, 3), u(2, 4), u(1, 5), QOp::Pop, QOp::Pop, QOp::Pop, QOp::Pop], &mut w);
    emit_q("map_queue", u64::MAX, &[u(0, 1), QOp::Push(Entry::Update(0, 1000000), 1), QOp::Push(Entry::Update(2, 5), 2), QOp::Push(Entry::Remove(0), 2), QOp::Push(Entry::Clear, 0), u(6, 1), QOp::Push(Entry::Update(2, 9), 1), QOp::Pop, QOp::Pop, QOp::Pop, QOp::Pop], &mut w);

    for i in 0..args.cases {
        let which = if i % 2 == 0 { "event_queue" } else { "map_queue" };
        let start = match rng.below(10) {
            0 => u64::MAX,
            1 => u64::MAX - rng.below(4),
            2 => rng.next_u64(),
            _ => 0,
        };
        let nclasses = if which == "map_queue" { 7 } else { rng.range(2, 5) };
        let len = rng.range(4, 50) as usize;
        let pop_bias = rng.range(1, 4);
        let mut ops = vec![];
        for _ in 0..len {
            if rng.below(5) < pop_bias {
                ops.push(QOp::Pop);
            } else {
                ops.push(QOp::Push(gen_entry(&mut rng, nclasses), rng.usize_below(3)));
            }
        }
        // drain
        for _ in 0..(nclasses + 2) {
            ops.push(QOp::Pop);
        }
        emit_q(which, start, &ops, &mut w);
    }

    // WriteQueues
    let wcases = args.cases / 2;
    for _ in 0..wcases {
        let len = rng.range(4, 50) as usize;
        let mut ops = vec![];
        let mut next_id = 1u64;
        for _ in 0..len {
            match rng.below(10) {
                0..=3 => ops.push(WOp::Pop),
                4 => {
                    let n = rng.below(5);
                    let mut keys: Vec<u64> = (0..4).collect();
                    // a random subset in random order, no duplicates (the lane's key set)
                    for i in (1..keys.len()).rev() {
                        let j = rng.usize_below(i + 1);
                        keys.swap(i, j);
                    }
                    keys.truncate(n as usize);
                    ops.push(WOp::Sync(next_id, keys));
                    next_id += 1;
                }
                _ => ops.push(WOp::Push(gen_entry(&mut rng, 4))),
            }
        }
        for _ in 0..12 {
            ops.push(WOp::Pop);
        }
        let outs = catch(std::panic::AssertUnwindSafe(|| run_write_queues(&ops))).unwrap_or_default();
        let term = format!("CaseWrite {} {}", coq_list(ops.iter().map(wop_coq)), coq_list(outs.iter().cloned()));
        let human = format!("write_queues ops={:?} impl={:?}", ops, outs);
        *kinds.entry("write_queues".into()).or_default() += 1;
        if distinct.insert(human.clone()) && human.contains("WSyncEvent") && human.contains("WEvent") {
            nontrivial += 1;
        }
        w.push(term, human);
    }

    w.finish(&args.out, "cases").unwrap();
    let meta = J::obj(vec![
        ("evaluations", J::I(w.len() as i128)),
        ("distinct_nontrivial", J::I(nontrivial as i128)),
        ("rule", J::s("push/pop interleavings on the real EventQueue<u64,u32> (exact keys) and MapOperationQueue (keys from a pool of Recon texts in known equivalence classes, asserted against compare_recon_values; spellings vary per push; values of varying length to take both capacity branches), 30% of the queues start with an epoch counter at or near usize::MAX (wrap-around executed on the real code), every case ends by draining; WriteQueues<u64> with sync requests over random key subsets; popped keys are reported by class; non-trivial = some push replaces a queued entry in place (queues) / both sync and standard events popped (write queues); distinct by rendered case")),
        ("implementation_panics", J::I(panicked.len() as i128)),
        ("structures", J::counts(&kinds)),
        ("samples", J::A(samples)),
    ]);
    write_meta(&args.out, "meta.json", &meta);
}
