//! C02 (lane level): a real MapLane<Value, i32, M> driven through its command handlers
//! (MapMessage::Update / Remove / Clear / Drop / Take), MapLaneSync and LaneItem::write_to_buffer;
//! the frames it writes are decoded with the real MapLaneResponseDecoder.

use std::borrow::Cow;
use std::collections::{BTreeMap, BTreeSet, HashMap};
use std::hash::{Hash, Hasher};

use bytes::BytesMut;
use swimos_agent::agent_model::{AgentDescription, WriteResult};
use swimos_agent::event_handler::{
    ActionContext, DownlinkSpawnOnDone, HandlerAction, HandlerFuture, HandlerTrans, LaneSpawnOnDone, LaneSpawner,
    LinkSpawner, Spawner, StepResult,
};
use swimos_agent::lanes::map::{MapLane, MapLaneSync};
use swimos_agent::lanes::{LaneItem, ProjTransform};
use swimos_agent::AgentMetadata;
use swimos_agent_protocol::encoding::lane::MapLaneResponseDecoder;
use swimos_agent_protocol::{LaneResponse, MapMessage, MapOperation};
use swimos_api::agent::AgentConfig;
use swimos_model::Value;
use swimos_route::RouteUri;
use tokio_util::codec::Decoder;
use uuid::Uuid;
use vcore::*;

struct NoSpawn;
impl<C> Spawner<C> for NoSpawn {
    fn spawn_suspend(&self, _: HandlerFuture<C>) {
        panic!("no suspended futures expected");
    }
    fn schedule_timer(&self, _at: tokio::time::Instant, _id: u64) {
        panic!("no timer expected");
    }
}
impl<C> LinkSpawner<C> for NoSpawn {
    fn spawn_downlink(
        &self,
        _path: swimos_api::address::Address<swimos_model::Text>,
        _make_channel: swimos_agent::agent_model::downlink::BoxDownlinkChannelFactory<C>,
        _on_done: DownlinkSpawnOnDone<C>,
    ) {
        panic!("no downlinks expected");
    }
    fn register_commander(
        &self,
        _path: swimos_api::address::Address<swimos_model::Text>,
    ) -> Result<u16, swimos_api::error::CommanderRegistrationError> {
        panic!("no commanders expected");
    }
}
impl<C> LaneSpawner<C> for NoSpawn {
    fn spawn_warp_lane(
        &self,
        _name: &str,
        _kind: swimos_api::agent::WarpLaneKind,
        _on_done: LaneSpawnOnDone<C>,
    ) -> Result<(), swimos_api::error::DynamicRegistrationError> {
        panic!("no lanes expected");
    }
}

struct Agent<M> {
    lane: MapLane<Value, i32, M>,
}
impl<M> AgentDescription for Agent<M> {
    fn item_name(&self, _id: u64) -> Option<Cow<'_, str>> {
        Some(Cow::Borrowed("lane"))
    }
}
fn proj_h(a: &Agent<HashMap<Value, i32>>) -> &MapLane<Value, i32, HashMap<Value, i32>> {
    &a.lane
}
fn proj_b(a: &Agent<BTreeMap<Value, i32>>) -> &MapLane<Value, i32, BTreeMap<Value, i32>> {
    &a.lane
}

fn run_handler<C, H: HandlerAction<C>>(mut h: H, agent: &C) {
    let uri: RouteUri = "/node".parse().unwrap();
    let params = HashMap::new();
    let config = AgentConfig::default();
    let meta = AgentMetadata::new(&uri, &params, &config);
    let mut join = HashMap::new();
    let mut cmd = BytesMut::new();
    let sp = NoSpawn;
    let mut ctx = ActionContext::new(&sp, &sp, &sp, &mut join, &mut cmd);
    for _ in 0..10_000 {
        match h.step(&mut ctx, meta, agent) {
            StepResult::Continue { .. } => {}
            StepResult::Fail(e) => panic!("handler failed: {:?}", e),
            StepResult::Complete { .. } => return,
        }
    }
    panic!("handler did not complete");
}

/// The key pool: classes of values that are == (same hash, compare Equal); the class index is the
/// rank of the class in the Recon order.  Built and checked against the real Eq / Ord / Hash.
fn pool() -> Vec<Vec<Value>> {
    let mut classes: Vec<Vec<Value>> = vec![
        vec![Value::Int32Value(-5), Value::Int64Value(-5)],
        vec![Value::Int32Value(1), Value::Int64Value(1), Value::UInt64Value(1)],
        vec![Value::Int32Value(2), Value::UInt32Value(2), Value::BigInt(2.into())],
        vec![Value::text("a")],
        vec![Value::text("b")],
        vec![Value::BooleanValue(true)],
        vec![Value::Int64Value(10), Value::UInt32Value(10)],
        vec![Value::Extant],
    ];
    classes.sort_by(|a, b| a[0].cmp(&b[0]));
    let h = |v: &Value| {
        let mut s = std::collections::hash_map::DefaultHasher::new();
        v.hash(&mut s);
        s.finish()
    };
    for (i, a) in classes.iter().enumerate() {
        for (j, b) in classes.iter().enumerate() {
            for x in a {
                for y in b {
                    assert_eq!(x.cmp(y), i.cmp(&j), "pool order disagrees with Value::cmp on {:?} / {:?}", x, y);
                    assert_eq!(x == y, i == j, "pool classes disagree with Value::eq on {:?} / {:?}", x, y);
                    if i == j {
                        assert_eq!(h(x), h(y), "equal keys hash differently: {:?} / {:?}", x, y);
                    }
                }
            }
        }
    }
    classes
}

fn key_id(pool: &[Vec<Value>], v: &Value) -> (usize, usize) {
    let d = format!("{:?}", v);
    for (c, class) in pool.iter().enumerate() {
        for (s, x) in class.iter().enumerate() {
            if format!("{:?}", x) == d {
                return (c, s);
            }
        }
    }
    panic!("key {:?} is not from the pool", v)
}
fn class_id(pool: &[Vec<Value>], v: &Value) -> usize {
    pool.iter().position(|c| &c[0] == v).unwrap_or_else(|| panic!("key {:?} is not from the pool", v))
}

#[derive(Clone, Debug)]
enum LOp {
    Update(usize, usize, i32),
    Remove(usize, usize),
    Clear,
    Drop(u64),
    Take(u64),
    Sync(u64),
    Write,
    GetMap,
}
impl LOp {
    fn coq(&self) -> String {
        match self {
            LOp::Update(c, s, v) => format!("LUpdate ({}, {}) {}", c, s, v),
            LOp::Remove(c, s) => format!("LRemove ({}, {})", c, s),
            LOp::Clear => "LClear".into(),
            LOp::Drop(n) => format!("LDropTake KDrop {}", n),
            LOp::Take(n) => format!("LDropTake KTake {}", n),
            LOp::Sync(id) => format!("LSync {}", id),
            LOp::Write => "LWrite".into(),
            LOp::GetMap => "LGetMap".into(),
        }
    }
}

trait Backing: Sized + Default {
    fn entries(&self) -> Vec<(Value, i32)>;
}
impl Backing for HashMap<Value, i32> {
    fn entries(&self) -> Vec<(Value, i32)> {
        self.iter().map(|(k, v)| (k.clone(), *v)).collect()
    }
}
impl Backing for BTreeMap<Value, i32> {
    fn entries(&self) -> Vec<(Value, i32)> {
        self.iter().map(|(k, v)| (k.clone(), *v)).collect()
    }
}

macro_rules! runner {
    ($name:ident, $m:ty, $proj:ident) => {
        fn $name(pool: &[Vec<Value>], ops: &[LOp]) -> Vec<String> {
            let agent = Agent { lane: MapLane::new(0, <$m>::default()) };
            let mut dec = MapLaneResponseDecoder::<Value, i32>::default();
            ops.iter()
                .map(|op| match op {
                    LOp::Update(c, s, v) => {
                        run_handler(ProjTransform::new($proj).transform(MapMessage::Update { key: pool[*c][*s].clone(), value: *v }), &agent);
                        "LOUnit".to_string()
                    }
                    LOp::Remove(c, s) => {
                        run_handler(ProjTransform::new($proj).transform(MapMessage::<Value, i32>::Remove { key: pool[*c][*s].clone() }), &agent);
                        "LOUnit".to_string()
                    }
                    LOp::Clear => {
                        run_handler(ProjTransform::new($proj).transform(MapMessage::<Value, i32>::Clear), &agent);
                        "LOUnit".to_string()
                    }
                    LOp::Drop(n) => {
                        run_handler(ProjTransform::new($proj).transform(MapMessage::<Value, i32>::Drop(*n)), &agent);
                        "LOUnit".to_string()
                    }
                    LOp::Take(n) => {
                        run_handler(ProjTransform::new($proj).transform(MapMessage::<Value, i32>::Take(*n)), &agent);
                        "LOUnit".to_string()
                    }
                    LOp::Sync(id) => {
                        run_handler(MapLaneSync::new($proj, Uuid::from_u128(*id as u128)), &agent);
                        "LOUnit".to_string()
                    }
                    LOp::Write => {
                        let mut buf = BytesMut::new();
                        let r = agent.lane.write_to_buffer(&mut buf);
                        let flag = |r: &WriteResult| match r {
                            WriteResult::Done => "true",
                            WriteResult::DataStillAvailable => "false",
                            WriteResult::NoData => "nodata",
                            _ => panic!("unexpected write result"),
                        };
                        if matches!(r, WriteResult::NoData) {
                            assert!(buf.is_empty(), "NoData but bytes were written");
                            // NoData is only reported when nothing could be popped; the queues may
                            // or may not be empty: the model decides, the flag is read back below
                            return format!("LOWrite None {}", "true");
                        }
                        let resp = dec.decode(&mut buf).expect("lane wrote an undecodable frame").expect("lane wrote an incomplete frame");
                        assert!(buf.is_empty(), "lane wrote more than one frame");
                        let e = |op: MapOperation<Value, i32>| match op {
                            MapOperation::Update { key, value } => format!("(EUpdate ({}, 0) {})", class_id(pool, &key), value),
                            MapOperation::Remove { key } => format!("(ERemove ({}, 0))", class_id(pool, &key)),
                            MapOperation::Clear => "EClear".to_string(),
                        };
                        let body = match resp {
                            LaneResponse::StandardEvent(op) => format!("(LStd {})", e(op)),
                            LaneResponse::SyncEvent(id, MapOperation::Update { key, value }) => {
                                format!("(LSyncEv {} ({}, 0) {})", id.as_u128(), class_id(pool, &key), value)
                            }
                            LaneResponse::SyncEvent(_, other) => panic!("sync event that is not an update: {:?}", other),
                            LaneResponse::Synced(id) => format!("(LSyncedR {})", id.as_u128()),
                            LaneResponse::Initialized => panic!("unexpected Initialized"),
                        };
                        format!("LOWrite (Some {}) {}", body, flag(&r))
                    }
                    LOp::GetMap => {
                        let mut es: Vec<((usize, usize), i32)> =
                            agent.lane.get_map(|m| m.entries()).into_iter().map(|(k, v)| (key_id(pool, &k), v)).collect();
                        es.sort();
                        format!("LOMap {}", coq_list(es.iter().map(|((c, s), v)| format!("(({}, {}), {})", c, s, v))))
                    }
                })
                .collect()
        }
    };
}
runner!(run_hash, HashMap<Value, i32>, proj_h);
runner!(run_btree, BTreeMap<Value, i32>, proj_b);

fn main() {
    let args = parse_args();
    let pool = pool();
    silence_panics();
    let mut rng = Rng::new(args.seed ^ 0x1a9e);
    let mut w = CaseWriter::new(
        "From SwimV Require Import Model.MapLane.\nOpen Scope N_scope.",
        "lcase",
        &["lane_corr_bad", "lane_oracle_bad"],
        args.shards,
    );
    let mut kinds: BTreeMap<String, u64> = BTreeMap::new();
    let mut distinct = BTreeSet::new();
    let mut nontrivial = 0u64;
    let mut samples = vec![];
    let mut emit = |backing: &str, ops: &[LOp], w: &mut CaseWriter| {
        let ops: Vec<LOp> = ops
            .iter()
            .map(|o| match o {
                LOp::Update(c, s, v) => LOp::Update(*c, *s % pool[*c].len(), *v),
                LOp::Remove(c, s) => LOp::Remove(*c, *s % pool[*c].len()),
                o => o.clone(),
            })
            .collect();
        let ops = &ops[..];
        // a panic inside the implementation: the case is reported with no outputs at all, which
        // neither the model nor the oracle accepts
        let outs = catch(std::panic::AssertUnwindSafe(|| if backing == "hash" { run_hash(&pool, ops) } else { run_btree(&pool, ops) }))
            .unwrap_or_else(|msg| vec![format!("LOMap [] (* PANIC {} *)", msg.replace("*)", "* )"))]);
        let term = format!("({}, {})", coq_list(ops.iter().map(|o| o.coq())), coq_list(outs.iter().cloned()));
        let human = format!("lane[{}] ops={:?} impl={:?}", backing, ops, outs);
        *kinds.entry(backing.into()).or_default() += 1;
        for o in ops {
            let k = format!("{:?}", o);
            *kinds.entry(format!("op:{}", k.split('(').next().unwrap())).or_default() += 1;
        }
        let has_dt = ops.iter().any(|o| matches!(o, LOp::Drop(_) | LOp::Take(_)));
        if distinct.insert(human.clone()) && has_dt && human.contains("ERemove") {
            nontrivial += 1;
            if samples.len() < 3 {
                samples.push(J::s(human.chars().take(600).collect::<String>()));
            }
        }
        w.push(term, human);
    };

    // corpus
    emit("hash", &[LOp::Update(1, 0, 10), LOp::Update(3, 0, 30), LOp::Update(0, 1, 5), LOp::Update(1, 1, 11), LOp::Take(2), LOp::GetMap, LOp::Write, LOp::Write, LOp::Write, LOp::Write], &mut w);
    emit("btree", &[LOp::Update(2, 0, 1), LOp::Update(4, 0, 2), LOp::Sync(1), LOp::Update(2, 1, 3), LOp::Drop(1), LOp::Write, LOp::Write, LOp::Write, LOp::Write, LOp::Write, LOp::Write, LOp::GetMap], &mut w);

    let nclasses = pool.len();
    for i in 0..args.cases {
        let backing = if i % 2 == 0 { "hash" } else { "btree" };
        let len = rng.range(4, 40) as usize;
        let write_bias = rng.range(1, 5);
        let kc = rng.range(2, nclasses as u64) as usize;
        let mut next_id = 1u64;
        let mut ops = vec![];
        for _ in 0..len {
            if rng.below(6) < write_bias {
                ops.push(LOp::Write);
                continue;
            }
            let c = rng.usize_below(kc);
            let s = rng.usize_below(pool[c].len());
            ops.push(match rng.below(24) {
                0 => LOp::Clear,
                1..=2 => LOp::Drop(rng.below(4)),
                3..=4 => LOp::Take(rng.below(5)),
                5..=8 => LOp::Remove(c, s),
                9..=10 if backing == "btree" => {
                    next_id += 1;
                    LOp::Sync(next_id - 1)
                }
                11 => LOp::GetMap,
                _ => LOp::Update(c, s, rng.below(100) as i32),
            });
        }
        // quiesce
        for _ in 0..(3 * nclasses + 8) {
            ops.push(LOp::Write);
        }
        ops.push(LOp::GetMap);
        emit(backing, &ops, &mut w);
    }

    w.finish(&args.out, "cases").unwrap();
    let meta = J::obj(vec![
        ("evaluations", J::I(w.len() as i128)),
        ("distinct_nontrivial", J::I(nontrivial as i128)),
        ("rule", J::s("command sequences (update/remove/clear/drop/take through the real MapMessage handlers, sync through MapLaneSync) on a real MapLane<Value,i32> with HashMap and BTreeMap backing, interleaved with write_to_buffer whose frames are decoded with the real MapLaneResponseDecoder; keys from a pool of Values in classes that are == with different representations (Int32Value(1)/Int64Value(1)/UInt64Value(1)...), the class index being the rank in Value::cmp (asserted at start-up together with Eq and Hash agreement); sync requests only on the ordered backing (HashMap iteration order is not modelled); every case ends with writes until quiescent and a dump of the map; non-trivial = a drop/take that removed at least one key whose Remove reached the wire; distinct by rendered case")),
        ("structures", J::counts(&kinds)),
        ("samples", J::A(samples)),
    ]);
    write_meta(&args.out, "meta.json", &meta);
}
