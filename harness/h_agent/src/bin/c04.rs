//! C01 / C03 / C04 (runtime write side): the real WriteTaskState (Links + RemoteTracker + Uplinks) and
//! the real WriteTask futures, driven one operation at a time; each remote's channel is decoded with
//! the real RawResponseMessageDecoder.

use std::collections::{BTreeMap, BTreeSet, HashMap};
use std::num::NonZeroUsize;

use bytes::{Bytes, BytesMut};
use futures::FutureExt;
use swimos_agent_protocol::MapOperation;
use swimos_messages::protocol::{Notification, RawResponseMessageDecoder, ResponseMessage};
use swimos_agent_protocol::encoding::lane::{RawMapLaneResponseEncoder, RawValueLaneResponseEncoder};
use swimos_agent_protocol::LaneResponse;
use swimos_runtime::verif_hooks::agent::task::{ResponseReceiver, WriteState, WriteTask};
use futures::StreamExt;
use tokio::io::AsyncWriteExt;
use tokio_util::codec::Encoder;
use swimos_utilities::byte_channel::{byte_channel, ByteReader};
use tokio::io::AsyncReadExt;
use tokio_util::codec::Decoder;
use uuid::Uuid;
use vcore::*;

#[derive(Clone, Debug)]
enum Resp {
    Synced(u8), // 0 value, 1 supply, 2 map
    Value(Vec<u8>),
    Supply(Vec<u8>),
    MapUpdate(u32, u32),
    MapRemove(u32),
    MapClear,
}
impl Resp {
    fn coq(&self) -> String {
        match self {
            Resp::Synced(0) => "RSynced KValue".into(),
            Resp::Synced(1) => "RSynced KSupply".into(),
            Resp::Synced(_) => "RSynced KMap".into(),
            Resp::Value(b) => format!("RValue {}", coq_nlist(b)),
            Resp::Supply(b) => format!("RSupply {}", coq_nlist(b)),
            Resp::MapUpdate(k, v) => format!("RMap (EUpdate ({}, 0) {})", k, v),
            Resp::MapRemove(k) => format!("RMap (ERemove ({}, 0))", k),
            Resp::MapClear => "RMap EClear".into(),
        }
    }
    /// What the lane itself writes to its output channel for this response (the runtime's receiver turns it into
    /// an UplinkResponse for the write task).
    fn lane_bytes(&self, target: Option<Uuid>) -> BytesMut {
        let b = |s: String| BytesMut::from(s.as_bytes());
        let mut out = BytesMut::new();
        let wrap = |body: Bytes| match target {
            Some(id) => LaneResponse::SyncEvent(id, body),
            None => LaneResponse::StandardEvent(body),
        };
        match self {
            Resp::Synced(k) => {
                let id = target.expect("a synced marker without an addressee");
                if *k == 2 {
                    RawMapLaneResponseEncoder::default().encode(LaneResponse::<MapOperation<BytesMut, BytesMut>>::Synced(id), &mut out).unwrap();
                } else {
                    RawValueLaneResponseEncoder::default().encode(LaneResponse::<Bytes>::Synced(id), &mut out).unwrap();
                }
            }
            Resp::Value(v) | Resp::Supply(v) => RawValueLaneResponseEncoder::default().encode(wrap(Bytes::from(v.clone())), &mut out).unwrap(),
            Resp::MapUpdate(..) | Resp::MapRemove(_) | Resp::MapClear => {
                let op: MapOperation<BytesMut, BytesMut> = match self {
                    Resp::MapUpdate(k, v) => MapOperation::Update { key: b(k.to_string()), value: b(v.to_string()) },
                    Resp::MapRemove(k) => MapOperation::Remove { key: b(k.to_string()) },
                    _ => MapOperation::Clear,
                };
                let item = match target {
                    Some(id) => LaneResponse::SyncEvent(id, op),
                    None => LaneResponse::StandardEvent(op),
                };
                RawMapLaneResponseEncoder::default().encode(item, &mut out).unwrap();
            }
        }
        out
    }
}
fn coq_nlist(b: &[u8]) -> String {
    coq_list(b.iter().map(|x| x.to_string()))
}

#[derive(Clone, Debug)]
enum Op {
    AddRemote(u64),
    Link(u64, u64),
    Unlink(u64, u64),
    Unknown(u64, u64),
    Event(u64, Option<u64>, Resp),
    Done(u64),
    RemoveLane(u64),
    UnlinkAll,
    RemoveRemote(u64),
}
impl Op {
    fn coq(&self) -> String {
        match self {
            Op::AddRemote(r) => format!("OAddRemote {}", r),
            Op::Link(r, l) => format!("OLink {} {}", r, l),
            Op::Unlink(r, l) => format!("OUnlink {} {}", r, l),
            Op::Unknown(r, l) => format!("OUnknown {} {}", r, l),
            Op::Event(l, t, rs) => format!(
                "OEvent {} {} ({})",
                l,
                match t {
                    Some(r) => format!("(Some {})", r),
                    None => "None".into(),
                },
                rs.coq()
            ),
            Op::Done(r) => format!("ODone {}", r),
            Op::RemoveLane(l) => format!("ORemoveLane {}", l),
            Op::UnlinkAll => "OUnlinkAll".into(),
            Op::RemoveRemote(r) => format!("ORemoveRemote {}", r),
        }
    }
}

fn lane_name(l: u64) -> String {
    format!("l{}", l)
}
fn lane_of(name: &str) -> u64 {
    name[1..].parse().unwrap_or_else(|_| panic!("unexpected lane name {:?}", name))
}

fn parse_map_body(body: &[u8]) -> String {
    let s = std::str::from_utf8(body).expect("map event body is not UTF-8");
    if s.is_empty() {
        return "None".into();
    }
    if s == "@clear" {
        return "(Some EClear)".into();
    }
    if let Some(rest) = s.strip_prefix("@update(key:") {
        let (k, v) = rest.split_once(')').expect("malformed update body");
        let k: u32 = k.trim().parse().expect("malformed update key");
        let v: u32 = v.trim().parse().expect("malformed update value");
        return format!("(Some (EUpdate ({}, 0) {}))", k, v);
    }
    if let Some(rest) = s.strip_prefix("@remove(key:") {
        let k: u32 = rest.trim_end_matches(')').trim().parse().expect("malformed remove key");
        return format!("(Some (ERemove ({}, 0)))", k);
    }
    panic!("unexpected map event body {:?}", s)
}

struct Remote {
    reader: ByteReader,
    pending: BytesMut,
}

async fn run(nlanes: u64, kinds: &[u8], ops: &[Op]) -> (Vec<String>, Vec<String>) {
    let identity = Uuid::from_u128(999);
    let mut state = WriteState::new(identity, "/node");
    for l in 0..nlanes {
        assert_eq!(state.register_lane(&lane_name(l)), l);
    }
    // every lane's own output channel, read by the runtime's receiver for a lane of that kind
    let mut lane_io = vec![];
    for l in 0..nlanes {
        let (tx, rx) = byte_channel(NonZeroUsize::new(1 << 16).unwrap());
        let receiver = match kinds[l as usize] {
            0 => ResponseReceiver::<u64>::value_like_lane(l, None, rx),
            1 => ResponseReceiver::<u64>::supply_lane(l, None, rx),
            _ => ResponseReceiver::<u64>::map_lane(l, None, rx),
        };
        lane_io.push((tx, receiver));
    }
    let mut remotes: HashMap<u64, Remote> = HashMap::new();
    let mut inflight: HashMap<u64, WriteTask> = HashMap::new();
    let mut keep = vec![];
    let mut outs = vec![];
    let rid = |r: u64| Uuid::from_u128(r as u128);
    // the operation that started the write in flight of each remote, and per operation what the
    // writes it started eventually put on the wire
    let mut started_by: HashMap<u64, usize> = HashMap::new();
    let mut started: Vec<Vec<String>> = vec![vec![]; ops.len()];
    let mut op_index = 0usize;
    let mut start = |tasks: Vec<WriteTask>, inflight: &mut HashMap<u64, WriteTask>, started_by: &mut HashMap<u64, usize>, at: usize| {
        for t in tasks {
            let r = t.sender.remote_id().as_u128() as u64;
            assert!(inflight.insert(r, t).is_none(), "two writes in flight for one remote");
            started_by.insert(r, at);
        }
    };
    for op in ops {
        let mut frames: Vec<String> = vec![];
        match op {
            Op::AddRemote(r) => {
                let (w, reader) = byte_channel(NonZeroUsize::new(1 << 20).unwrap());
                keep.push(state.add_remote(rid(*r), w).await);
                remotes.insert(*r, Remote { reader, pending: BytesMut::new() });
            }
            Op::Link(r, l) => {
                let t = state.link(rid(*r), &lane_name(*l)).await;
                start(t.into_iter().collect(), &mut inflight, &mut started_by, op_index);
            }
            Op::Unlink(r, l) => {
                let t = state.unlink(rid(*r), &lane_name(*l)).await;
                start(t.into_iter().collect(), &mut inflight, &mut started_by, op_index);
            }
            Op::Unknown(r, l) => {
                let t = state.unknown_lane(rid(*r), &format!("u{}", l)).await;
                start(t.into_iter().collect(), &mut inflight, &mut started_by, op_index);
            }
            Op::Event(l, target, rs) => {
                // the lane writes the response, the runtime's receiver reads it and hands it to the write task
                let (tx, receiver) = &mut lane_io[*l as usize];
                tx.write_all(rs.lane_bytes(target.map(rid)).as_ref()).await.expect("lane channel closed");
                let mut idle = 0;
                let mut taken = 0;
                while idle < 3 {
                    match receiver.next().now_or_never() {
                        Some(Some(Ok(item))) => {
                            idle = 0;
                            taken += 1;
                            let (id, data) = item.into_uplink_response().expect("a lane response that is not for an uplink");
                            assert_eq!(id, *l, "a response attributed to another lane");
                            let ts = state.handle_event(id, data);
                            start(ts, &mut inflight, &mut started_by, op_index);
                        }
                        Some(Some(Err(e))) => panic!("the receiver failed: {:?}", e),
                        Some(None) => panic!("the lane channel ended"),
                        None => {
                            idle += 1;
                            tokio::task::yield_now().await;
                        }
                    }
                }
                assert_eq!(taken, 1, "one lane response must give one item");
            }
            Op::Done(r) => {
                if let Some(task) = inflight.remove(r) {
                    let (sender, buffer, result) = tokio::time::timeout(std::time::Duration::from_secs(5), task.into_future())
                        .await
                        .expect("a write did not complete although the channel has room");
                    result.expect("write failed");
                    // read what was written
                    let rem = remotes.get_mut(r).expect("write for a remote that was never added");
                    let mut chunk = [0u8; 4096];
                    // a fresh cooperative budget: the byte channel yields Pending when it is used up
                    tokio::task::yield_now().await;
                    // the byte channel's own cooperative budget makes a poll return Pending now and
                    // then although data is there: an empty poll is retried
                    let mut empty_polls = 0;
                    while empty_polls < 3 {
                        match rem.reader.read(&mut chunk).now_or_never() {
                            Some(Ok(n)) if n > 0 => {
                                rem.pending.extend_from_slice(&chunk[..n]);
                                empty_polls = 0;
                            }
                            Some(Ok(_)) => break,
                            Some(Err(e)) => panic!("remote channel failed: {}", e),
                            None => empty_polls += 1,
                        }
                    }
                    if std::env::var("C04_DEBUG").is_ok() {
                        eprintln!("done r={} read {} bytes", r, rem.pending.len());
                    }
                    let mut dec = RawResponseMessageDecoder;
                    while let Some(ResponseMessage { origin, path, envelope }) = dec.decode(&mut rem.pending).expect("undecodable frame") {
                        assert_eq!(origin, identity, "wrong origin");
                        assert_eq!(path.node.as_str(), "/node", "wrong node");
                        let name = path.lane.as_str().to_string();
                        frames.push(match envelope {
                            Notification::Linked => format!("FLinked {}", lane_of(&name)),
                            Notification::Synced => format!("FSynced {}", lane_of(&name)),
                            Notification::Unlinked(Some(b)) if b.as_ref() == b"@laneNotFound" => {
                                format!("FNotFound {}", name[1..].parse::<u64>().expect("lane-not-found for an unexpected name"))
                            }
                            Notification::Unlinked(Some(b)) if b.as_ref() == b"\"Link closed.\"" => format!("FUnlinked {} 0", lane_of(&name)),
                            Notification::Unlinked(Some(b)) if b.is_empty() => format!("FUnlinked {} 1", lane_of(&name)),
                            Notification::Unlinked(None) => format!("FUnlinked {} 1", lane_of(&name)),
                            Notification::Unlinked(Some(b)) => panic!("unexpected unlinked body {:?}", b),
                            Notification::Event(b) => {
                                let l = lane_of(&name);
                                if kinds[l as usize] == 2 {
                                    format!("FMapEvent {} {}", l, parse_map_body(b.as_ref()))
                                } else {
                                    format!("FEvent {} {}", l, coq_nlist(b.as_ref()))
                                }
                            }
                        });
                    }
                    assert!(rem.pending.is_empty(), "a write ended inside a frame");
                    let by = started_by.remove(r).expect("a write in flight that nothing started");
                    started[by].push(format!("({}, {})", r, coq_list(frames.iter().cloned())));
                    let next = state.replace(sender, buffer);
                    start(next.into_iter().collect(), &mut inflight, &mut started_by, op_index);
                }
            }
            Op::RemoveLane(l) => {
                let ts = state.remove_lane(*l);
                start(ts, &mut inflight, &mut started_by, op_index);
            }
            Op::UnlinkAll => {
                let ts = state.unlink_all();
                start(ts, &mut inflight, &mut started_by, op_index);
            }
            Op::RemoveRemote(r) => {
                state.remove_remote(rid(*r));
            }
        }
        outs.push(coq_list(frames.into_iter()));
        op_index += 1;
    }
    (outs, started.into_iter().map(|v| coq_list(v.into_iter())).collect())
}

fn main() {
    let args = parse_args();
    silence_panics();
    let mut rng = Rng::new(args.seed ^ 0xc04);
    let mut w = CaseWriter::new(
        "From SwimV Require Import Model.Uplinks.\nOpen Scope N_scope.",
        "ucase",
        &["up_corr_bad", "up_oracle_bad"],
        args.shards,
    );
    let rt = tokio::runtime::Builder::new_current_thread().enable_time().build().unwrap();
    let mut kinds_count: BTreeMap<String, u64> = BTreeMap::new();
    let mut distinct = BTreeSet::new();
    let mut nontrivial = 0u64;
    let mut samples = vec![];
    // lane kinds: 0 value, 1 supply, 2 map, 3 value
    let kinds: [u8; 4] = [0, 1, 2, 0];
    let nlanes = 4u64;

    let mut emit = |ops: &[Op], w: &mut CaseWriter| {
        let ops2 = ops.to_vec();
        let outs = catch(std::panic::AssertUnwindSafe(|| rt.block_on(run(nlanes, &kinds, &ops2))))
            .unwrap_or_else(|m| (vec![format!("[FLinked 0] (* PANIC {} *)", m.replace("*)", "* )"))], vec![]));
        let (outs, started) = outs;
        let term = format!(
            "({}, {}, {}, {})",
            nlanes,
            coq_list(ops.iter().map(|o| o.coq())),
            coq_list(outs.iter().cloned()),
            coq_list(started.iter().cloned())
        );
        let human = format!("write_state ops={:?} frames={:?}", ops, outs);
        for o in ops {
            let k = format!("{:?}", o);
            *kinds_count.entry(format!("op:{}", k.split('(').next().unwrap())).or_default() += 1;
        }
        // non-trivial: some response was queued behind a write in flight and later written
        let nt = human.contains("FSynced") && human.contains("FUnlinked") && ops.iter().filter(|o| matches!(o, Op::Event(..))).count() >= 6;
        if distinct.insert(human.clone()) && nt {
            nontrivial += 1;
            if samples.len() < 3 {
                samples.push(J::s(human.chars().take(800).collect::<String>()));
            }
        }
        w.push(term, human);
    };

    // corpus
    let v = |s: &str| Resp::Value(s.as_bytes().to_vec());
    // sync of a value lane whose synced marker is queued behind the event's write
    emit(&[Op::AddRemote(1), Op::Link(1, 0), Op::Done(1), Op::Event(0, Some(1), v("5")), Op::Event(0, Some(1), Resp::Synced(0)), Op::Done(1), Op::Done(1), Op::Done(1)], &mut w);
    // unlink + relink while the writer is away, with an event queued before and after
    emit(&[Op::AddRemote(1), Op::Link(1, 0), Op::Event(0, None, v("1")), Op::Unlink(1, 0), Op::Link(1, 0), Op::Event(0, None, v("2")), Op::Done(1), Op::Done(1), Op::Done(1), Op::Done(1), Op::Done(1), Op::Done(1)], &mut w);
    // same for a map lane
    emit(&[Op::AddRemote(1), Op::Link(1, 2), Op::Event(2, None, Resp::MapUpdate(1, 1)), Op::Unlink(1, 2), Op::Link(1, 2), Op::Event(2, None, Resp::MapUpdate(2, 2)), Op::Done(1), Op::Done(1), Op::Done(1), Op::Done(1), Op::Done(1), Op::Done(1)], &mut w);

    for _ in 0..args.cases {
        let nrem = rng.range(1, 3);
        let len = rng.range(5, 60) as usize;
        let done_bias = rng.range(1, 6);
        let mut ops: Vec<Op> = (1..=nrem).map(Op::AddRemote).collect();
        let mut cnt = 0u32;
        for _ in 0..len {
            if rng.below(8) < done_bias {
                ops.push(Op::Done(rng.range(1, nrem)));
                continue;
            }
            let r = rng.range(1, nrem);
            let l = rng.below(nlanes);
            cnt += 1;
            let mut pre: Vec<Op> = vec![];
            let next = match rng.below(40) {
                0..=5 => Op::Link(r, l),
                6..=8 => Op::Unlink(r, l),
                9 => Op::Unknown(r, rng.below(3) + 7),
                10 => Op::RemoveLane(l),
                11 if rng.below(3) == 0 => Op::UnlinkAll,
                12 if rng.below(3) == 0 => Op::RemoveRemote(r),
                13..=16 => {
                    // a sync: the lane answers the remote with its state and then synced
                    match kinds[l as usize] {
                        0 => {
                            pre.push(Op::Event(l, Some(r), Resp::Value(if rng.below(5) == 0 { vec![] } else { cnt.to_string().into_bytes() })));
                            Op::Event(l, Some(r), Resp::Synced(0))
                        }
                        1 => Op::Event(l, Some(r), Resp::Synced(1)),
                        _ => {
                            for k in 0..rng.below(3) {
                                pre.push(Op::Event(l, Some(r), Resp::MapUpdate(k as u32, cnt)));
                            }
                            Op::Event(l, Some(r), Resp::Synced(2))
                        }
                    }
                }
                _ => {
                    let target = None;
                    match kinds[l as usize] {
                        0 => Op::Event(l, target, Resp::Value(if rng.below(8) == 0 { vec![] } else { cnt.to_string().into_bytes() })),
                        1 => Op::Event(l, target, Resp::Supply(if rng.below(8) == 0 { vec![] } else { cnt.to_string().into_bytes() })),
                        _ => Op::Event(
                            l,
                            target,
                            match rng.below(8) {
                                0 => Resp::MapClear,
                                1..=2 => Resp::MapRemove(rng.below(3) as u32),
                                _ => Resp::MapUpdate(rng.below(3) as u32, cnt),
                            },
                        ),
                    }
                }
            };
            ops.extend(pre);
            ops.push(next);
        }
        if rng.below(2) == 0 {
            ops.push(Op::UnlinkAll);
        }
        for _ in 0..30 {
            for r in 1..=nrem {
                ops.push(Op::Done(r));
            }
        }
        emit(&ops, &mut w);
    }

    w.finish(&args.out, "cases").unwrap();
    let meta = J::obj(vec![
        ("evaluations", J::I(w.len() as i128)),
        ("distinct_nontrivial", J::I(nontrivial as i128)),
        ("rule", J::s("operation sequences on the real WriteTaskState (through the WriteState hook); every lane response is written as the lane writes it (RawValueLaneResponseEncoder / RawMapLaneResponseEncoder: event, sync event, synced) into the lane's own channel and read by the runtime's real ResponseReceiver for a lane of that kind, whose item is what the write task is given: 1-3 remotes, 4 lanes (value, supply, map, value); link / unlink / unknown-lane coordination messages, broadcast lane events, sync answers (targeted state + synced, implicit link when not linked), lane removal, unlink-all, remote removal; write completions (Done) placed at random with a per-case bias, so that responses pile up behind a write in flight; empty value / supply bodies included; every WriteTask future is run on a channel with room and what it wrote is decoded with the real RawResponseMessageDecoder; non-trivial = at least 6 lane events with a synced and an unlinked on the wire; distinct by rendered case")),
        ("structures", J::counts(&kinds_count)),
        ("samples", J::A(samples)),
    ]);
    write_meta(&args.out, "meta.json", &meta);
}
