//! C05: persisted state is never older than what was published; restart restores it.
//! The real agent runtime (AgentRouteTask::run_agent_with_store: init task, read / write tasks, store
//! initialisers) runs a real agent (derived lane model, AgentModel) against a recording NodePersistence; a
//! remote links, sends commands and logs every frame it receives on the same clock as the store's log.
//! Every point of that log is then used as a crash point: the agent is started again on the store as it was
//! at that point and its lanes and stores are inspected.

use std::collections::{BTreeMap, HashMap};
use std::sync::atomic::{AtomicU64, Ordering};
use std::sync::Arc;
use std::time::Duration;

use bytes::BytesMut;
use futures::{SinkExt, StreamExt};
use parking_lot::Mutex;
use swimos_agent::agent_lifecycle::HandlerContext;
use swimos_agent::agent_model::AgentModel;
use swimos_agent::event_handler::{EventHandler, HandlerActionExt};
use swimos_agent::lanes::{MapLane, ValueLane};
use swimos_agent::stores::{MapStore, ValueStore};
use swimos_agent_derive::{lifecycle, AgentLaneModel};
use swimos_api::address::RelativeAddress;
use swimos_api::error::StoreError;
use swimos_api::persistence::{KeyValue, NodePersistence, RangeConsumer};
use swimos_messages::protocol::{Notification, RawRequestMessageEncoder, RawResponseMessageDecoder, RequestMessage};
use swimos_runtime::agent::{AgentAttachmentRequest, AgentRouteChannels, AgentRouteDescriptor, AgentRouteTask, CombinedAgentConfig};
use swimos_utilities::byte_channel::{byte_channel, ByteReader, ByteWriter};
use swimos_utilities::non_zero_usize;
use swimos_utilities::trigger;
use swimos_utilities::trigger::promise;
use tokio::sync::mpsc;
use tokio_util::codec::{FramedRead, FramedWrite};
use uuid::Uuid;
use vcore::*;

// ---------------------------------------------------------------------------------------------
// the agent: persistent and transient lanes, persistent stores fed by the lifecycle

#[derive(AgentLaneModel)]
#[agent(root(::swimos_agent))]
struct PAgent {
    v: ValueLane<i64>,
    #[item(transient)]
    t: ValueLane<i64>,
    m: MapLane<i64, i64>,
    #[item(transient)]
    tm: MapLane<i64, i64>,
    s: ValueStore<i64>,
    ms: MapStore<i64, i64>,
    // two more value stores that hold what `s` holds: whatever identifiers the runtime gives the items, some value
    // store shares its number with a value lane (lanes and stores are numbered separately); they are checked here
    // and left out of the model's log
    s2: ValueStore<i64>,
    s3: ValueStore<i64>,
}
fn ps2(a: &PAgent) -> &ValueStore<i64> {
    &a.s2
}
fn ps3(a: &PAgent) -> &ValueStore<i64> {
    &a.s3
}

fn ps(a: &PAgent) -> &ValueStore<i64> {
    &a.s
}
fn pms(a: &PAgent) -> &MapStore<i64, i64> {
    &a.ms
}
fn pv(a: &PAgent) -> &ValueLane<i64> {
    &a.v
}
fn pt(a: &PAgent) -> &ValueLane<i64> {
    &a.t
}
fn pm(a: &PAgent) -> &MapLane<i64, i64> {
    &a.m
}
fn ptm(a: &PAgent) -> &MapLane<i64, i64> {
    &a.tm
}

/// What the agent held when it started (read in on_start).
#[derive(Clone, Debug, Default, PartialEq)]
struct Restored {
    v: i64,
    t: i64,
    m: Vec<(i64, i64)>,
    tm: Vec<(i64, i64)>,
    s: i64,
    ms: Vec<(i64, i64)>,
}

#[derive(Clone)]
struct PLifecycle {
    restored: Arc<Mutex<Option<Restored>>>,
}

fn sorted(m: &HashMap<i64, i64>) -> Vec<(i64, i64)> {
    let mut v: Vec<(i64, i64)> = m.iter().map(|(k, v)| (*k, *v)).collect();
    v.sort();
    v
}

#[lifecycle(PAgent, agent_root(::swimos_agent))]
impl PLifecycle {
    #[on_start]
    fn my_on_start(&self, context: HandlerContext<PAgent>) -> impl EventHandler<PAgent> + '_ {
        let out = self.restored.clone();
        context
            .get_value(pv)
            .and_then(move |v: i64| {
                context.get_value(pt).and_then(move |t: i64| {
                    context.get_map(pm).and_then(move |m: HashMap<i64, i64>| {
                        context.get_map(ptm).and_then(move |tm: HashMap<i64, i64>| {
                            context.get_value(ps).and_then(move |s: i64| {
                                context.get_map(pms).and_then(move |ms: HashMap<i64, i64>| {
                                    context.effect(move || {
                                        *out.lock() = Some(Restored { v, t, m: sorted(&m), tm: sorted(&tm), s, ms: sorted(&ms) });
                                    })
                                })
                            })
                        })
                    })
                })
            })
    }
    // the stores follow the persistent lanes (shifted, so that they are told apart)
    #[on_event(v)]
    fn v_event(&self, context: HandlerContext<PAgent>, value: &i64) -> impl EventHandler<PAgent> + '_ {
        let x = *value + 1;
        context.set_value(ps, x).followed_by(context.set_value(ps2, x)).followed_by(context.set_value(ps3, x))
    }
    #[on_update(m)]
    fn m_update(&self, context: HandlerContext<PAgent>, _map: &HashMap<i64, i64>, key: i64, _prev: Option<i64>, new_value: &i64) -> impl EventHandler<PAgent> + '_ {
        context.update(pms, key, *new_value + 1)
    }
    #[on_remove(m)]
    fn m_remove(&self, context: HandlerContext<PAgent>, _map: &HashMap<i64, i64>, key: i64, _prev: i64) -> impl EventHandler<PAgent> + '_ {
        context.remove(pms, key)
    }
    #[on_clear(m)]
    fn m_clear(&self, context: HandlerContext<PAgent>, _before: HashMap<i64, i64>) -> impl EventHandler<PAgent> + '_ {
        context.clear(pms)
    }
}

// ---------------------------------------------------------------------------------------------
// the recording store

#[derive(Clone, Debug, PartialEq)]
enum StoreOp {
    Put(String, Vec<u8>),
    Delete(String),
    Update(String, Vec<u8>, Vec<u8>),
    Remove(String, Vec<u8>),
    Clear(String),
}

#[derive(Clone, Debug)]
enum LogEntry {
    Store(StoreOp),
    /// a frame read by the remote: lane, body (None: linked / synced / unlinked)
    Frame(u64, String, FrameKind),
}

#[derive(Clone, Debug, PartialEq)]
enum FrameKind {
    Linked,
    Synced,
    Unlinked,
    Event(String),
}

type Log = Arc<Mutex<Vec<LogEntry>>>;

#[derive(Default, Clone, Debug, PartialEq)]
struct Content {
    values: BTreeMap<String, Vec<u8>>,
    maps: BTreeMap<String, BTreeMap<Vec<u8>, Vec<u8>>>,
}

impl Content {
    fn apply(&mut self, op: &StoreOp) {
        match op {
            StoreOp::Put(n, v) => {
                self.values.insert(n.clone(), v.clone());
            }
            StoreOp::Delete(n) => {
                self.values.remove(n);
            }
            StoreOp::Update(n, k, v) => {
                self.maps.entry(n.clone()).or_default().insert(k.clone(), v.clone());
            }
            StoreOp::Remove(n, k) => {
                self.maps.entry(n.clone()).or_default().remove(k);
            }
            StoreOp::Clear(n) => {
                self.maps.entry(n.clone()).or_default().clear();
            }
        }
    }
}

struct RecStore {
    names: Mutex<Vec<String>>,
    content: Mutex<Content>,
    log: Log,
    /// ids asked for (an item asks for an id iff it is persistent)
    asked: Arc<Mutex<Vec<String>>>,
}

struct VecConsumer {
    items: Vec<(Vec<u8>, Vec<u8>)>,
    next: usize,
}

impl RangeConsumer for VecConsumer {
    fn consume_next(&mut self) -> Result<Option<KeyValue<'_>>, StoreError> {
        if self.next < self.items.len() {
            let (k, v) = &self.items[self.next];
            self.next += 1;
            Ok(Some((k.as_slice(), v.as_slice())))
        } else {
            Ok(None)
        }
    }
}

impl RecStore {
    fn name(&self, id: u64) -> String {
        self.names.lock()[id as usize].clone()
    }
    fn record(&self, op: StoreOp) {
        self.content.lock().apply(&op);
        self.log.lock().push(LogEntry::Store(op));
    }
}

impl NodePersistence for RecStore {
    type MapCon<'a> = VecConsumer;
    type LaneId = u64;

    fn id_for(&self, name: &str) -> Result<u64, StoreError> {
        let mut names = self.names.lock();
        self.asked.lock().push(name.to_string());
        if let Some(i) = names.iter().position(|n| n == name) {
            Ok(i as u64)
        } else {
            names.push(name.to_string());
            Ok(names.len() as u64 - 1)
        }
    }
    fn get_value(&self, id: u64, buffer: &mut BytesMut) -> Result<Option<usize>, StoreError> {
        let name = self.name(id);
        Ok(self.content.lock().values.get(&name).map(|v| {
            buffer.extend_from_slice(v);
            v.len()
        }))
    }
    fn put_value(&mut self, id: u64, value: &[u8]) -> Result<(), StoreError> {
        self.record(StoreOp::Put(self.name(id), value.to_vec()));
        Ok(())
    }
    fn delete_value(&mut self, id: u64) -> Result<(), StoreError> {
        self.record(StoreOp::Delete(self.name(id)));
        Ok(())
    }
    fn update_map(&mut self, id: u64, key: &[u8], value: &[u8]) -> Result<(), StoreError> {
        self.record(StoreOp::Update(self.name(id), key.to_vec(), value.to_vec()));
        Ok(())
    }
    fn remove_map(&mut self, id: u64, key: &[u8]) -> Result<(), StoreError> {
        self.record(StoreOp::Remove(self.name(id), key.to_vec()));
        Ok(())
    }
    fn clear_map(&mut self, id: u64) -> Result<(), StoreError> {
        self.record(StoreOp::Clear(self.name(id)));
        Ok(())
    }
    fn read_map(&self, id: u64) -> Result<VecConsumer, StoreError> {
        let name = self.name(id);
        let items = self.content.lock().maps.get(&name).map(|m| m.iter().map(|(k, v)| (k.clone(), v.clone())).collect()).unwrap_or_default();
        Ok(VecConsumer { items, next: 0 })
    }
}

// ---------------------------------------------------------------------------------------------
// one life of the agent

#[derive(Clone, Debug)]
enum Cmd {
    SetV(i64),
    SetT(i64),
    Upd(i64, i64),
    Rem(i64),
    Clr,
    UpdT(i64, i64),
}

struct Remote {
    id: Uuid,
    tx: FramedWrite<ByteWriter, RawRequestMessageEncoder>,
    frames: mpsc::UnboundedReceiver<(String, FrameKind)>,
}

const NODE: &str = "/node";

impl Remote {
    async fn send(&mut self, lane: &str, op: swimos_messages::protocol::Operation<Vec<u8>>) -> bool {
        let msg = RequestMessage { origin: self.id, path: RelativeAddress::new(NODE, lane), envelope: op };
        self.tx.send(msg).await.is_ok()
    }
    /// Wait for a frame of that kind on that lane.
    async fn wait_for(&mut self, lane: &str, pred: impl Fn(&FrameKind) -> bool) -> Option<Vec<(String, FrameKind)>> {
        let mut seen = vec![];
        loop {
            match tokio::time::timeout(Duration::from_secs(10), self.frames.recv()).await {
                Ok(Some((l, k))) => {
                    let hit = l == lane && pred(&k);
                    seen.push((l, k));
                    if hit {
                        return Some(seen);
                    }
                }
                _ => return None,
            }
        }
    }
}

struct Life {
    task: tokio::task::JoinHandle<Result<(), String>>,
    attach: mpsc::Sender<AgentAttachmentRequest>,
    stop: trigger::Sender,
    restored: Arc<Mutex<Option<Restored>>>,
    asked: Arc<Mutex<Vec<String>>>,
    _keep: (mpsc::Sender<swimos_api::agent::HttpLaneRequest>, mpsc::Receiver<swimos_runtime::agent::LinkRequest>),
}

/// When set, the agent is configured with `default_lane_config.transient = true`: every lane is transient, whether
/// or not it carries the transient flag (the stores are not lanes and stay persistent).
static LANES_TRANSIENT: std::sync::atomic::AtomicBool = std::sync::atomic::AtomicBool::new(false);

fn start(content: Content, log: Log) -> Life {
    let restored: Arc<Mutex<Option<Restored>>> = Default::default();
    let asked: Arc<Mutex<Vec<String>>> = Default::default();
    let lifecycle = PLifecycle { restored: restored.clone() }.into_lifecycle();
    let agent = AgentModel::new(PAgent::default, lifecycle);
    let identity = AgentRouteDescriptor { identity: Uuid::from_u128(77), route: NODE.parse().unwrap(), route_params: HashMap::new() };
    let (attach_tx, attach_rx) = mpsc::channel(16);
    let (http_tx, http_rx) = mpsc::channel(16);
    let (link_tx, link_rx) = mpsc::channel(16);
    let (stop_tx, stop_rx) = trigger::trigger();
    let store = RecStore { names: Mutex::new(vec![]), content: Mutex::new(content), log, asked: asked.clone() };
    let mut config = CombinedAgentConfig::default();
    if LANES_TRANSIENT.load(Ordering::SeqCst) {
        let lane_config = config.agent_config.default_lane_config.unwrap_or_default();
        config.agent_config.default_lane_config = Some(swimos_api::agent::LaneConfig { transient: true, ..lane_config });
    }
    let fut = AgentRouteTask::new(&agent, identity, AgentRouteChannels::new(attach_rx, http_rx, link_tx), stop_rx, config, None)
        .run_agent_with_store(async move { Ok(store) });
    let task = tokio::spawn(async move { fut.await.map_err(|e| format!("{:?}", e)) });
    Life { task, attach: attach_tx, stop: stop_tx, restored, asked, _keep: (http_tx, link_rx) }
}

static NEXT_REMOTE: AtomicU64 = AtomicU64::new(1);

async fn attach(life: &Life, log: Option<Log>) -> Option<Remote> {
    let id = Uuid::from_u128(1000 + NEXT_REMOTE.fetch_add(1, Ordering::Relaxed) as u128);
    let (req_tx, req_rx) = byte_channel(non_zero_usize!(65536));
    let (resp_tx, resp_rx) = byte_channel(non_zero_usize!(65536));
    let (done_tx, _done_rx) = promise::promise();
    let (on_tx, on_rx) = trigger::trigger();
    life.attach.send(AgentAttachmentRequest::with_confirmation(id, (resp_tx, req_rx), done_tx, on_tx)).await.ok()?;
    tokio::time::timeout(Duration::from_secs(10), on_rx).await.ok()?.ok()?;
    let (ftx, frx) = mpsc::unbounded_channel();
    let num = id.as_u128() as u64;
    tokio::spawn(async move {
        let _keep = _done_rx;
        let mut reader = FramedRead::new(resp_rx, RawResponseMessageDecoder);
        while let Some(Ok(msg)) = reader.next().await {
            let lane = msg.path.lane.as_str().to_string();
            let kind = match msg.envelope {
                Notification::Linked => FrameKind::Linked,
                Notification::Synced => FrameKind::Synced,
                Notification::Unlinked(_) => FrameKind::Unlinked,
                Notification::Event(b) => FrameKind::Event(String::from_utf8_lossy(b.as_ref()).to_string()),
            };
            if let Some(log) = &log {
                log.lock().push(LogEntry::Frame(num, lane.clone(), kind.clone()));
            }
            if ftx.send((lane, kind)).is_err() {
                break;
            }
        }
    });
    Some(Remote { id, tx: FramedWrite::new(req_tx, RawRequestMessageEncoder), frames: frx })
}

const LANES: [&str; 4] = ["v", "t", "m", "tm"];

/// Sync every lane and collect what the remote is told: value lanes their value, map lanes their entries.
async fn sync_all(r: &mut Remote) -> Option<(BTreeMap<String, String>, BTreeMap<String, Vec<String>>)> {
    let mut values = BTreeMap::new();
    let mut maps = BTreeMap::new();
    for lane in LANES {
        if !r.send(lane, swimos_messages::protocol::Operation::Sync).await {
            return None;
        }
        let seen = r.wait_for(lane, |k| *k == FrameKind::Synced).await?;
        let mut events: Vec<String> = seen.into_iter().filter(|(l, _)| l == lane).filter_map(|(_, k)| if let FrameKind::Event(b) = k { Some(b) } else { None }).collect();
        if lane == "v" || lane == "t" {
            values.insert(lane.to_string(), events.pop().unwrap_or_default());
        } else {
            events.sort();
            maps.insert(lane.to_string(), events);
        }
    }
    Some((values, maps))
}

fn body(c: &Cmd) -> (&'static str, String) {
    match c {
        Cmd::SetV(x) => ("v", x.to_string()),
        Cmd::SetT(x) => ("t", x.to_string()),
        Cmd::Upd(k, x) => ("m", format!("@update(key:{}) {}", k, x)),
        Cmd::Rem(k) => ("m", format!("@remove(key:{})", k)),
        Cmd::Clr => ("m", "@clear".to_string()),
        Cmd::UpdT(k, x) => ("tm", format!("@update(key:{}) {}", k, x)),
    }
}

struct RunOut {
    log: Vec<LogEntry>,
    asked: Vec<String>,
    clean_stop_ok: bool,
    problem: Option<String>,
}

async fn first_life(cmds: &[Cmd], second_remote: bool, clean_stop: bool) -> RunOut {
    let log: Log = Default::default();
    let life = start(Content::default(), log.clone());
    let mut problem = None;
    let mut r1 = match attach(&life, Some(log.clone())).await {
        Some(r) => r,
        None => {
            return RunOut { log: vec![], asked: vec![], clean_stop_ok: false, problem: Some("the remote could not be attached".into()) };
        }
    };
    for lane in LANES {
        r1.send(lane, swimos_messages::protocol::Operation::Link).await;
        if r1.wait_for(lane, |k| *k == FrameKind::Linked).await.is_none() {
            problem = Some(format!("no linked for {}", lane));
        }
    }
    let mut r2 = None;
    if second_remote {
        if let Some(mut r) = attach(&life, Some(log.clone())).await {
            for lane in ["v", "m"] {
                r.send(lane, swimos_messages::protocol::Operation::Link).await;
                let _ = r.wait_for(lane, |k| *k == FrameKind::Linked).await;
            }
            r2 = Some(r);
        }
    }
    for (i, c) in cmds.iter().enumerate() {
        let (lane, b) = body(c);
        if !r1.send(lane, swimos_messages::protocol::Operation::Command(b.into_bytes())).await {
            problem = Some(format!("command {} could not be sent", i));
            break;
        }
        if i % 3 == 2 {
            tokio::task::yield_now().await;
        }
    }
    // quiescence: every lane answers a sync (requests of one remote are handled in order per lane)
    if problem.is_none() && sync_all(&mut r1).await.is_none() {
        problem = Some("the lanes did not answer the final sync".into());
    }
    if let Some(r) = r2.as_mut() {
        // let the second remote drain
        for lane in ["v", "m"] {
            r.send(lane, swimos_messages::protocol::Operation::Sync).await;
            let _ = r.wait_for(lane, |k| *k == FrameKind::Synced).await;
        }
    }
    let asked = life.asked.lock().clone();
    let mut clean_stop_ok = true;
    if clean_stop {
        life.stop.trigger();
        drop(r1);
        drop(r2);
        match tokio::time::timeout(Duration::from_secs(10), life.task).await {
            Ok(Ok(Ok(()))) => {}
            other => {
                clean_stop_ok = false;
                problem.get_or_insert(format!("clean stop failed: {:?}", other.map(|r| r.map_err(|e| e.to_string()))));
            }
        }
    } else {
        // kill: every task is dropped
        life.task.abort();
        let _ = life.task.await;
    }
    let l = log.lock().clone();
    RunOut { log: l, asked, clean_stop_ok, problem }
}

/// Start the agent again on `content` and look at what it holds.
async fn second_life(content: Content) -> Result<(Restored, BTreeMap<String, String>, BTreeMap<String, Vec<String>>), String> {
    let log: Log = Default::default();
    let life = start(content, log);
    let mut r = attach(&life, None).await.ok_or("the remote could not be attached after the restart")?;
    let synced = sync_all(&mut r).await.ok_or("the lanes did not answer a sync after the restart")?;
    let restored = life.restored.lock().clone().ok_or("on_start did not run after the restart")?;
    life.task.abort();
    let _ = life.task.await;
    Ok((restored, synced.0, synced.1))
}

// ---------------------------------------------------------------------------------------------
// Coq terms

fn item_index(name: &str) -> u64 {
    match name {
        "v" => 0,
        "t" => 1,
        "m" => 2,
        "tm" => 3,
        "s" => 4,
        "ms" => 5,
        _ => 9,
    }
}
fn zi(n: i64) -> String {
    format!("({})%Z", n)
}
fn parse_i(b: &[u8]) -> Option<i64> {
    std::str::from_utf8(b).ok()?.trim().parse().ok()
}
/// A map operation as it appears in an event body.
fn parse_map_event(s: &str) -> Option<String> {
    let s = s.trim();
    if s == "@clear" {
        return Some("MClear".into());
    }
    if let Some(rest) = s.strip_prefix("@update(key:") {
        let (k, v) = rest.split_once(')')?;
        return Some(format!("MUpdate {} {}", zi(k.trim().parse().ok()?), zi(v.trim().parse().ok()?)));
    }
    if let Some(rest) = s.strip_prefix("@remove(key:") {
        let k = rest.strip_suffix(')')?;
        return Some(format!("MRemove {}", zi(k.trim().parse().ok()?)));
    }
    None
}
fn coq_entry(e: &LogEntry) -> Option<String> {
    Some(match e {
        LogEntry::Store(StoreOp::Put(n, v)) => format!("LPut {} {}", item_index(n), zi(parse_i(v)?)),
        LogEntry::Store(StoreOp::Delete(n)) => format!("LDelete {}", item_index(n)),
        LogEntry::Store(StoreOp::Update(n, k, v)) => format!("LMap {} (MUpdate {} {})", item_index(n), zi(parse_i(k)?), zi(parse_i(v)?)),
        LogEntry::Store(StoreOp::Remove(n, k)) => format!("LMap {} (MRemove {})", item_index(n), zi(parse_i(k)?)),
        LogEntry::Store(StoreOp::Clear(n)) => format!("LMap {} MClear", item_index(n)),
        LogEntry::Frame(r, lane, FrameKind::Event(b)) => {
            if lane == "v" || lane == "t" {
                format!("LSentV {} {} {}", r % 1000, item_index(lane), zi(b.trim().parse().ok()?))
            } else {
                format!("LSentM {} {} ({})", r % 1000, item_index(lane), parse_map_event(b)?)
            }
        }
        LogEntry::Frame(r, lane, FrameKind::Synced) => format!("LSynced {} {}", r % 1000, item_index(lane)),
        LogEntry::Frame(r, lane, FrameKind::Linked) => format!("LLinked {} {}", r % 1000, item_index(lane)),
        LogEntry::Frame(r, lane, FrameKind::Unlinked) => format!("LUnlinked {} {}", r % 1000, item_index(lane)),
    })
}
fn coq_cmd(c: &Cmd) -> String {
    match c {
        Cmd::SetV(x) => format!("CSet 0 {}", zi(*x)),
        Cmd::SetT(x) => format!("CSet 1 {}", zi(*x)),
        Cmd::Upd(k, x) => format!("CMap 2 (MUpdate {} {})", zi(*k), zi(*x)),
        Cmd::Rem(k) => format!("CMap 2 (MRemove {})", zi(*k)),
        Cmd::Clr => "CMap 2 MClear".to_string(),
        Cmd::UpdT(k, x) => format!("CMap 3 (MUpdate {} {})", zi(*k), zi(*x)),
    }
}
fn zz(m: &[(i64, i64)]) -> String {
    coq_list(m.iter().map(|(k, v)| format!("({}, {})", zi(*k), zi(*v))))
}

fn main() {
    let args = parse_args();
    silence_panics();
    let mut rng = Rng::new(args.seed ^ 0xc05);
    let mut w = CaseWriter::new(
        "From SwimV Require Import Model.Persist.\nOpen Scope N_scope.",
        "pcase",
        &["p_corr_bad", "p_oracle_bad", "p_restart_bad"],
        args.shards,
    );
    let rt = tokio::runtime::Builder::new_current_thread().enable_all().build().unwrap();
    let mut kinds: BTreeMap<String, u64> = BTreeMap::new();
    let mut failures: Vec<String> = vec![];
    let mut nontrivial = 0u64;
    let mut samples = vec![];
    let crash_points_per_case = if args.tier == "thorough" { 6 } else { 3 };
    for i in 0..args.cases {
        let n = rng.range(1, 10) as usize;
        let mut next = 100i64;
        let mut last_v: Option<i64> = None;
        let cmds: Vec<Cmd> = (0..n)
            .map(|_| {
                next += 10;
                match rng.below(10) {
                    // (a third of the sets give the lane the value its mirror store already holds: the previous
                    // value + 1, so that two items report the same bytes one after the other)
                    0 | 1 | 2 => {
                        let x = match last_v {
                            Some(p) if rng.below(3) == 0 => p + 1,
                            _ => next,
                        };
                        last_v = Some(x);
                        Cmd::SetV(x)
                    }
                    3 => Cmd::SetT(next),
                    4 | 5 | 6 => Cmd::Upd(rng.range(0, 3) as i64, next),
                    7 => Cmd::Rem(rng.range(0, 3) as i64),
                    8 => {
                        if rng.below(2) == 0 {
                            Cmd::Clr
                        } else {
                            Cmd::Rem(rng.range(0, 3) as i64)
                        }
                    }
                    _ => Cmd::UpdT(rng.range(0, 3) as i64, next),
                }
            })
            .collect();
        let second_remote = rng.below(3) == 0;
        let clean_stop = rng.below(3) == 0;
        let out = rt.block_on(first_life(&cmds, second_remote, clean_stop));
        if let Some(p) = &out.problem {
            failures.push(format!("case {}: {} (commands {:?})", i, p, cmds));
            continue;
        }
        *kinds.entry(if clean_stop { "clean_stop".into() } else { "killed".to_string() }).or_default() += 1;
        *kinds.entry(format!("log_len_{}", (out.log.len() / 10) * 10)).or_default() += 1;
        // persistence is asked for exactly the persistent items
        let mut asked = out.asked.clone();
        asked.sort();
        asked.dedup();
        if asked != vec!["m".to_string(), "ms".to_string(), "s".to_string(), "s2".to_string(), "s3".to_string(), "v".to_string()] {
            failures.push(format!("case {}: store ids were requested for {:?} (persistent items are m, ms, s, v)", i, asked));
        }
        let _ = out.clean_stop_ok;
        // the extra mirror stores: each must have been handed exactly what `s` was handed, in order
        let puts = |name: &str| -> Vec<Vec<u8>> {
            out.log.iter().filter_map(|e| match e { LogEntry::Store(StoreOp::Put(n, v)) if n == name => Some(v.clone()), _ => None }).collect()
        };
        for extra in ["s2", "s3"] {
            if puts(extra) != puts("s") {
                failures.push(format!("case {}: the store {} was handed {:?}, the store s (set to the same values by the same handler) {:?} (commands {:?})", i, extra, puts(extra).iter().map(|b| String::from_utf8_lossy(b).to_string()).collect::<Vec<_>>(), puts("s").iter().map(|b| String::from_utf8_lossy(b).to_string()).collect::<Vec<_>>(), cmds));
            }
        }
        let is_extra = |e: &LogEntry| matches!(e, LogEntry::Store(StoreOp::Put(n, _)) | LogEntry::Store(StoreOp::Delete(n)) if n == "s2" || n == "s3");
        let model_log: Vec<LogEntry> = out.log.iter().filter(|e| !is_extra(e)).cloned().collect();
        let entries: Option<Vec<String>> = model_log.iter().map(coq_entry).collect();
        let entries = match entries {
            Some(e) => e,
            None => {
                failures.push(format!("case {}: a log entry could not be read: {:?}", i, out.log));
                continue;
            }
        };
        // crash points: the end, and a few positions of the log (after a store operation or a delivered frame)
        let mut points: Vec<usize> = vec![out.log.len()];
        for _ in 0..crash_points_per_case {
            points.push(rng.usize_below(out.log.len() + 1));
        }
        points.sort();
        points.dedup();
        let mut crashes = vec![];
        for p in points {
            // (the position in the model's log, which leaves the extra stores out)
            let at = out.log[..p].iter().filter(|e| !is_extra(e)).count();
            let mut content = Content::default();
            for e in &out.log[..p] {
                if let LogEntry::Store(op) = e {
                    content.apply(op);
                }
            }
            match rt.block_on(second_life(content)) {
                Ok((restored, values, maps)) => {
                    *kinds.entry("restarts".into()).or_default() += 1;
                    let pv = |l: &str| values.get(l).and_then(|s| s.trim().parse::<i64>().ok());
                    let pm = |l: &str| -> Option<Vec<String>> { maps.get(l).map(|es| es.iter().filter_map(|e| parse_map_event(e)).collect()) };
                    let (sv, st) = match (pv("v"), pv("t")) {
                        (Some(a), Some(b)) => (a, b),
                        _ => {
                            failures.push(format!("case {} crash point {}: a value lane did not report a value in its sync ({:?})", i, p, values));
                            continue;
                        }
                    };
                    crashes.push(format!(
                        "{{| cr_at := {}; cr_v := {}; cr_t := {}; cr_m := {}; cr_tm := {}; cr_s := {}; cr_ms := {}; cr_sync_v := {}; cr_sync_t := {}; cr_sync_m := {}; cr_sync_tm := {} |}}",
                        at,
                        zi(restored.v),
                        zi(restored.t),
                        zz(&restored.m),
                        zz(&restored.tm),
                        zi(restored.s),
                        zz(&restored.ms),
                        zi(sv),
                        zi(st),
                        coq_list(pm("m").unwrap_or_default()),
                        coq_list(pm("tm").unwrap_or_default())
                    ));
                }
                Err(e) => failures.push(format!("case {} crash point {}: {} (commands {:?})", i, p, e, cmds)),
            }
        }
        if out.log.iter().filter(|e| matches!(e, LogEntry::Store(_))).count() >= 3 {
            nontrivial += 1;
        }
        let term = format!(
            "{{| pc_mirror := true; pc_cmds := {}; pc_log := {}; pc_crashes := {} |}}",
            coq_list(cmds.iter().map(coq_cmd)),
            coq_list(entries),
            coq_list(crashes)
        );
        let human = format!("commands {:?} second_remote={} clean_stop={} log {:?}", cmds, second_remote, clean_stop, out.log);
        if samples.len() < 3 {
            samples.push(J::s(human.chars().take(700).collect::<String>()));
        }
        w.push(term, human);
    }
    // ---- every lane transient by configuration (real code only: the model's items have fixed roles) ----
    // default_lane_config.transient = true makes the lanes v and m transient as well: nothing of a lane may reach
    // the store, store ids are asked for the two stores only, and after a restart every lane is at its default
    // while the stores come back as they were handed over
    LANES_TRANSIENT.store(true, Ordering::SeqCst);
    for i in 0..(args.cases / 6).max(4) {
        let n = rng.range(2, 8) as usize;
        let mut next = 500i64;
        let cmds: Vec<Cmd> = (0..n)
            .map(|_| {
                next += 10;
                match rng.below(6) {
                    0 | 1 => Cmd::SetV(next),
                    2 => Cmd::SetT(next),
                    3 | 4 => Cmd::Upd(rng.range(0, 3) as i64, next),
                    _ => Cmd::UpdT(rng.range(0, 3) as i64, next),
                }
            })
            .collect();
        let clean_stop = rng.below(2) == 0;
        let out = rt.block_on(first_life(&cmds, false, clean_stop));
        if let Some(p) = &out.problem {
            failures.push(format!("transient-by-configuration case {}: {} (commands {:?})", i, p, cmds));
            continue;
        }
        *kinds.entry("lanes_transient_by_configuration".into()).or_default() += 1;
        let mut asked = out.asked.clone();
        asked.sort();
        asked.dedup();
        if asked != vec!["ms".to_string(), "s".to_string(), "s2".to_string(), "s3".to_string()] {
            failures.push(format!("transient-by-configuration case {}: store ids were requested for {:?} (only the stores ms, s are persistent)", i, asked));
        }
        let mut content = Content::default();
        for e in &out.log {
            if let LogEntry::Store(op) = e {
                let name = match op {
                    StoreOp::Put(n, _) | StoreOp::Delete(n) | StoreOp::Update(n, _, _) | StoreOp::Remove(n, _) | StoreOp::Clear(n) => n.clone(),
                };
                if name != "s" && name != "ms" && name != "s2" && name != "s3" {
                    failures.push(format!("transient-by-configuration case {}: the state of the transient lane {} was handed to the store ({:?}; commands {:?})", i, name, op, cmds));
                }
                content.apply(op);
            }
        }
        let expect_s = content.values.get("s").and_then(|b| parse_i(b)).unwrap_or(0);
        let mut expect_ms: Vec<(i64, i64)> = content.maps.get("ms").map(|m| m.iter().filter_map(|(k, v)| Some((parse_i(k)?, parse_i(v)?))).collect()).unwrap_or_default();
        expect_ms.sort();
        match rt.block_on(second_life(content)) {
            Ok((restored, values, maps)) => {
                *kinds.entry("restarts".into()).or_default() += 1;
                let lanes_default = restored.v == 0 && restored.t == 0 && restored.m.is_empty() && restored.tm.is_empty();
                let sync_default = ["v", "t"].iter().all(|l| values.get(*l).map(|s| s.trim() == "0").unwrap_or(false)) && ["m", "tm"].iter().all(|l| maps.get(*l).map(|es| es.is_empty()).unwrap_or(true));
                if !lanes_default || !sync_default {
                    failures.push(format!("transient-by-configuration case {}: after the restart the transient lanes are not at their defaults: on_start saw {:?}, a sync reported {:?} {:?} (commands {:?})", i, restored, values, maps, cmds));
                }
                if restored.s != expect_s || restored.ms != expect_ms {
                    failures.push(format!("transient-by-configuration case {}: the stores came back as s={} ms={:?}, handed over were s={} ms={:?}", i, restored.s, restored.ms, expect_s, expect_ms));
                }
                if expect_s != 0 || !expect_ms.is_empty() {
                    nontrivial += 1;
                }
            }
            Err(e) => failures.push(format!("transient-by-configuration case {}: {} (commands {:?})", i, e, cmds)),
        }
    }
    LANES_TRANSIENT.store(false, Ordering::SeqCst);

    w.finish(&args.out, "cases").unwrap();
    failures.sort();
    failures.dedup();
    let meta = J::obj(vec![
        ("evaluations", J::I(w.len() as i128)),
        ("distinct_nontrivial", J::I(nontrivial as i128)),
        ("rule", J::s("1-10 commands (set on a persistent and a transient value lane; update / remove / clear on a persistent map lane, update on a transient one; the lifecycle copies the persistent lanes into a value store and a map store, and the value also into two further value stores that are checked outside the model) sent by a linked remote to a real agent (derived lane model, AgentModel) running in the real agent runtime (run_agent_with_store) over a recording NodePersistence; a second remote in a third of the cases; the merged log of store operations and frames read by the remotes is checked (every published state was handed to the store first; the store ends up with the state the commands imply); then the agent is stopped (cleanly in a third of the cases, killed otherwise) and, for the end of the log and 3 (quick) / 6 (thorough) random crash points, restarted on the store as it was at that point: what on_start sees in every lane and store and what a sync reports must be the state handed to the store up to there, transient items at their defaults; a further family (real code only) runs the agent with default_lane_config.transient = true, which makes every lane transient: no lane state may reach the store, store ids are asked for the stores only, after the restart every lane is at its default and the stores are as handed over")),
        ("structures", J::counts(&kinds)),
        ("samples", J::A(samples)),
        ("direct_failures", J::A(failures.iter().take(40).map(|f| J::s(f.chars().take(600).collect::<String>())).collect())),
        ("direct_failure_count", J::I(failures.len() as i128)),
    ]);
    write_meta(&args.out, "meta.json", &meta);
}
