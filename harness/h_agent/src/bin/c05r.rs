//! C05 (runtime only): the real agent runtime (run_agent_with_store) against a scripted agent that behaves
//! like lanes are allowed to: it answers a sync with its current state before it reports the change that
//! produced that state, reports changes late, in batches. A recording NodePersistence and the remotes share
//! one clock; every point of the log is a crash point.

use std::collections::{BTreeMap, HashMap};
use std::sync::atomic::{AtomicU64, Ordering};
use std::sync::Arc;
use std::time::Duration;

use bytes::BytesMut;
use futures::{SinkExt, StreamExt};
use parking_lot::Mutex;
use futures::future::BoxFuture;
use futures::FutureExt;
use swimos_agent_protocol::encoding::lane::{MapLaneRequestDecoder, MapLaneResponseEncoder, ValueLaneRequestDecoder, ValueLaneResponseEncoder};
use swimos_agent_protocol::{LaneRequest, LaneResponse, MapMessage, MapOperation};
use swimos_api::agent::{Agent, AgentConfig, AgentContext, AgentInitResult, LaneConfig, WarpLaneKind};
use swimos_api::error::{AgentInitError, FrameIoError};
use swimos_utilities::routing::RouteUri;
use swimos_api::address::RelativeAddress;
use swimos_api::error::StoreError;
use swimos_api::persistence::{KeyValue, NodePersistence, RangeConsumer};
use swimos_messages::protocol::{Notification, RawRequestMessageEncoder, RawResponseMessageDecoder, RequestMessage};
use swimos_runtime::agent::{AgentAttachmentRequest, AgentRouteChannels, AgentRouteDescriptor, AgentRouteTask, CombinedAgentConfig};
use swimos_utilities::byte_channel::{byte_channel, ByteReader, ByteWriter};
use swimos_utilities::non_zero_usize;
use swimos_utilities::trigger;
use swimos_utilities::trigger::promise;
use tokio::sync::mpsc;
use tokio_util::codec::{FramedRead, FramedWrite};
use uuid::Uuid;
use vcore::*;

// ---------------------------------------------------------------------------------------------
// the scripted agent: lanes v (persistent value), t (transient value), m (persistent map), tm (transient map)

/// What the agent was given by the runtime's initialisers when it started.
#[derive(Clone, Debug, Default, PartialEq)]
struct Restored {
    v: i64,
    t: i64,
    m: Vec<(i64, i64)>,
    tm: Vec<(i64, i64)>,
    s: i64,
    ms: Vec<(i64, i64)>,
}

#[derive(Clone)]
struct ScriptedAgent {
    restored: Arc<Mutex<Option<Restored>>>,
    /// how many requests a lane lets pass before it reports its pending changes (0: at once)
    laziness: usize,
}

/// The value lanes hold an `Option<i64>`: `None` is written as an empty body (the number below stands for it in
/// the model, where values are opaque).
const NONE_CODE: i64 = -7777;
fn enc_v(v: i64) -> Option<i64> {
    if v == NONE_CODE {
        None
    } else {
        Some(v)
    }
}
fn dec_v(o: Option<i64>) -> i64 {
    o.unwrap_or(NONE_CODE)
}
fn parse_body(s: &str) -> Option<i64> {
    let t = s.trim();
    if t.is_empty() {
        Some(NONE_CODE)
    } else {
        t.parse().ok()
    }
}

type VRx = FramedRead<ByteReader, ValueLaneRequestDecoder<Option<i64>>>;
type VTx = FramedWrite<ByteWriter, ValueLaneResponseEncoder>;
type MRx = FramedRead<ByteReader, MapLaneRequestDecoder<i64, i64>>;
type MTx = FramedWrite<ByteWriter, MapLaneResponseEncoder>;

async fn value_lane(mut rx: VRx, mut tx: VTx, state: i64, laziness: usize) {
    let mut state: Option<i64> = enc_v(state);
    let mut pending: Option<Option<i64>> = None;
    let mut waited = 0usize;
    while let Some(Ok(req)) = rx.next().await {
        match req {
            LaneRequest::Command(x) => {
                state = x;
                pending = Some(x);
            }
            LaneRequest::Sync(id) => {
                // the current state first, as ValueLane::write_to_buffer does
                if tx.send(LaneResponse::SyncEvent(id, state)).await.is_err() {
                    return;
                }
                if tx.send(LaneResponse::<Option<i64>>::Synced(id)).await.is_err() {
                    return;
                }
                // ... and only then the change itself
                waited = laziness;
            }
            LaneRequest::InitComplete => {}
        }
        if pending.is_some() {
            if waited >= laziness {
                if tx.send(LaneResponse::StandardEvent(pending.take().unwrap())).await.is_err() {
                    return;
                }
                waited = 0;
            } else {
                waited += 1;
            }
        }
    }
}

async fn map_lane(mut rx: MRx, mut tx: MTx, mut state: BTreeMap<i64, i64>, laziness: usize) {
    let mut pending: Vec<MapOperation<i64, i64>> = vec![];
    let mut waited = 0usize;
    while let Some(Ok(req)) = rx.next().await {
        match req {
            LaneRequest::Command(MapMessage::Update { key, value }) => {
                state.insert(key, value);
                pending.push(MapOperation::Update { key, value });
            }
            LaneRequest::Command(MapMessage::Remove { key }) => {
                if state.remove(&key).is_some() {
                    pending.push(MapOperation::Remove { key });
                }
            }
            LaneRequest::Command(MapMessage::Clear) => {
                state.clear();
                pending.push(MapOperation::Clear);
            }
            LaneRequest::Command(_) => {}
            LaneRequest::Sync(id) => {
                for (k, v) in state.iter() {
                    if tx.send(LaneResponse::SyncEvent(id, MapOperation::Update { key: *k, value: *v })).await.is_err() {
                        return;
                    }
                }
                if tx.send(LaneResponse::<MapOperation<i64, i64>>::Synced(id)).await.is_err() {
                    return;
                }
                waited = laziness;
            }
            LaneRequest::InitComplete => {}
        }
        if !pending.is_empty() {
            if waited >= laziness {
                for op in pending.drain(..) {
                    if tx.send(LaneResponse::StandardEvent(op)).await.is_err() {
                        return;
                    }
                }
                waited = 0;
            } else {
                waited += 1;
            }
        }
    }
}

impl Agent for ScriptedAgent {
    fn run(
        &self,
        _route: RouteUri,
        _route_params: HashMap<String, String>,
        _config: AgentConfig,
        context: Box<dyn AgentContext + Send>,
    ) -> BoxFuture<'static, AgentInitResult> {
        let restored = self.restored.clone();
        let laziness = self.laziness;
        async move {
            let transient = LaneConfig { transient: true, ..LaneConfig::default() };
            let (v_tx, v_rx) = context.add_lane("v", WarpLaneKind::Value, LaneConfig::default()).await?;
            let (t_tx, t_rx) = context.add_lane("t", WarpLaneKind::Value, transient).await?;
            let (m_tx, m_rx) = context.add_lane("m", WarpLaneKind::Map, LaneConfig::default()).await?;
            let (tm_tx, tm_rx) = context.add_lane("tm", WarpLaneKind::Map, transient).await?;
            let mut v_rx: VRx = FramedRead::new(v_rx, Default::default());
            let mut v_tx: VTx = FramedWrite::new(v_tx, Default::default());
            let mut m_rx: MRx = FramedRead::new(m_rx, Default::default());
            let mut m_tx: MTx = FramedWrite::new(m_tx, Default::default());
            // initialisation of the persistent lanes: the stored state, then InitComplete
            let mut r = Restored::default();
            loop {
                match v_rx.next().await {
                    Some(Ok(LaneRequest::Command(x))) => r.v = dec_v(x),
                    Some(Ok(LaneRequest::InitComplete)) => break,
                    _ => return Err(AgentInitError::LaneInitializationFailure(FrameIoError::Io(std::io::ErrorKind::UnexpectedEof.into()))),
                }
            }
            let _ = v_tx.send(LaneResponse::<Option<i64>>::Initialized).await;
            let mut m = BTreeMap::new();
            loop {
                match m_rx.next().await {
                    Some(Ok(LaneRequest::Command(MapMessage::Update { key, value }))) => {
                        m.insert(key, value);
                    }
                    Some(Ok(LaneRequest::Command(MapMessage::Remove { key }))) => {
                        m.remove(&key);
                    }
                    Some(Ok(LaneRequest::Command(MapMessage::Clear))) => m.clear(),
                    Some(Ok(LaneRequest::InitComplete)) => break,
                    _ => return Err(AgentInitError::LaneInitializationFailure(FrameIoError::Io(std::io::ErrorKind::UnexpectedEof.into()))),
                }
            }
            let _ = m_tx.send(LaneResponse::<MapOperation<i64, i64>>::Initialized).await;
            r.m = m.iter().map(|(k, v)| (*k, *v)).collect();
            *restored.lock() = Some(r.clone());
            let task = async move {
                let _context = context;
                let a = value_lane(v_rx, v_tx, r.v, laziness);
                let b = value_lane(FramedRead::new(t_rx, Default::default()), FramedWrite::new(t_tx, Default::default()), 0, laziness);
                let c = map_lane(m_rx, m_tx, m, laziness);
                let d = map_lane(FramedRead::new(tm_rx, Default::default()), FramedWrite::new(tm_tx, Default::default()), BTreeMap::new(), laziness);
                futures::future::join4(a, b, c, d).await;
                Ok(())
            };
            Ok(task.boxed())
        }
        .boxed()
    }
}

// ---------------------------------------------------------------------------------------------
// the recording store

#[derive(Clone, Debug, PartialEq)]
enum StoreOp {
    Put(String, Vec<u8>),
    Delete(String),
    Update(String, Vec<u8>, Vec<u8>),
    Remove(String, Vec<u8>),
    Clear(String),
}

#[derive(Clone, Debug)]
enum LogEntry {
    Store(StoreOp),
    /// a frame read by the remote: lane, body (None: linked / synced / unlinked)
    Frame(u64, String, FrameKind),
}

#[derive(Clone, Debug, PartialEq)]
enum FrameKind {
    Linked,
    Synced,
    Unlinked,
    Event(String),
}

type Log = Arc<Mutex<Vec<LogEntry>>>;

#[derive(Default, Clone, Debug, PartialEq)]
struct Content {
    values: BTreeMap<String, Vec<u8>>,
    maps: BTreeMap<String, BTreeMap<Vec<u8>, Vec<u8>>>,
}

impl Content {
    fn apply(&mut self, op: &StoreOp) {
        match op {
            StoreOp::Put(n, v) => {
                self.values.insert(n.clone(), v.clone());
            }
            StoreOp::Delete(n) => {
                self.values.remove(n);
            }
            StoreOp::Update(n, k, v) => {
                self.maps.entry(n.clone()).or_default().insert(k.clone(), v.clone());
            }
            StoreOp::Remove(n, k) => {
                self.maps.entry(n.clone()).or_default().remove(k);
            }
            StoreOp::Clear(n) => {
                self.maps.entry(n.clone()).or_default().clear();
            }
        }
    }
}

struct RecStore {
    names: Mutex<Vec<String>>,
    content: Mutex<Content>,
    log: Log,
    /// ids asked for (an item asks for an id iff it is persistent)
    asked: Arc<Mutex<Vec<String>>>,
}

struct VecConsumer {
    items: Vec<(Vec<u8>, Vec<u8>)>,
    next: usize,
}

impl RangeConsumer for VecConsumer {
    fn consume_next(&mut self) -> Result<Option<KeyValue<'_>>, StoreError> {
        if self.next < self.items.len() {
            let (k, v) = &self.items[self.next];
            self.next += 1;
            Ok(Some((k.as_slice(), v.as_slice())))
        } else {
            Ok(None)
        }
    }
}

impl RecStore {
    fn name(&self, id: u64) -> String {
        self.names.lock()[id as usize].clone()
    }
    fn record(&self, op: StoreOp) {
        self.content.lock().apply(&op);
        self.log.lock().push(LogEntry::Store(op));
    }
}

impl NodePersistence for RecStore {
    type MapCon<'a> = VecConsumer;
    type LaneId = u64;

    fn id_for(&self, name: &str) -> Result<u64, StoreError> {
        let mut names = self.names.lock();
        self.asked.lock().push(name.to_string());
        if let Some(i) = names.iter().position(|n| n == name) {
            Ok(i as u64)
        } else {
            names.push(name.to_string());
            Ok(names.len() as u64 - 1)
        }
    }
    fn get_value(&self, id: u64, buffer: &mut BytesMut) -> Result<Option<usize>, StoreError> {
        let name = self.name(id);
        Ok(self.content.lock().values.get(&name).map(|v| {
            buffer.extend_from_slice(v);
            v.len()
        }))
    }
    fn put_value(&mut self, id: u64, value: &[u8]) -> Result<(), StoreError> {
        self.record(StoreOp::Put(self.name(id), value.to_vec()));
        Ok(())
    }
    fn delete_value(&mut self, id: u64) -> Result<(), StoreError> {
        self.record(StoreOp::Delete(self.name(id)));
        Ok(())
    }
    fn update_map(&mut self, id: u64, key: &[u8], value: &[u8]) -> Result<(), StoreError> {
        self.record(StoreOp::Update(self.name(id), key.to_vec(), value.to_vec()));
        Ok(())
    }
    fn remove_map(&mut self, id: u64, key: &[u8]) -> Result<(), StoreError> {
        self.record(StoreOp::Remove(self.name(id), key.to_vec()));
        Ok(())
    }
    fn clear_map(&mut self, id: u64) -> Result<(), StoreError> {
        self.record(StoreOp::Clear(self.name(id)));
        Ok(())
    }
    fn read_map(&self, id: u64) -> Result<VecConsumer, StoreError> {
        let name = self.name(id);
        let items = self.content.lock().maps.get(&name).map(|m| m.iter().map(|(k, v)| (k.clone(), v.clone())).collect()).unwrap_or_default();
        Ok(VecConsumer { items, next: 0 })
    }
}

// ---------------------------------------------------------------------------------------------
// one life of the agent

#[derive(Clone, Debug)]
enum Cmd {
    SetV(i64),
    SetT(i64),
    Upd(i64, i64),
    Rem(i64),
    Clr,
    UpdT(i64, i64),
    Sync(&'static str),
}

struct Remote {
    id: Uuid,
    tx: FramedWrite<ByteWriter, RawRequestMessageEncoder>,
    frames: mpsc::UnboundedReceiver<(String, FrameKind)>,
}

const NODE: &str = "/node";

impl Remote {
    async fn send(&mut self, lane: &str, op: swimos_messages::protocol::Operation<Vec<u8>>) -> bool {
        let msg = RequestMessage { origin: self.id, path: RelativeAddress::new(NODE, lane), envelope: op };
        self.tx.send(msg).await.is_ok()
    }
    /// Wait for a frame of that kind on that lane.
    async fn wait_for(&mut self, lane: &str, pred: impl Fn(&FrameKind) -> bool) -> Option<Vec<(String, FrameKind)>> {
        let mut seen = vec![];
        loop {
            match tokio::time::timeout(Duration::from_secs(10), self.frames.recv()).await {
                Ok(Some((l, k))) => {
                    let hit = l == lane && pred(&k);
                    seen.push((l, k));
                    if hit {
                        return Some(seen);
                    }
                }
                _ => return None,
            }
        }
    }
}

struct Life {
    task: tokio::task::JoinHandle<Result<(), String>>,
    attach: mpsc::Sender<AgentAttachmentRequest>,
    stop: trigger::Sender,
    restored: Arc<Mutex<Option<Restored>>>,
    asked: Arc<Mutex<Vec<String>>>,
    _keep: (mpsc::Sender<swimos_api::agent::HttpLaneRequest>, mpsc::Receiver<swimos_runtime::agent::LinkRequest>),
}

fn start(content: Content, log: Log, laziness: usize) -> Life {
    let restored: Arc<Mutex<Option<Restored>>> = Default::default();
    let asked: Arc<Mutex<Vec<String>>> = Default::default();
    let agent = ScriptedAgent { restored: restored.clone(), laziness };
    let identity = AgentRouteDescriptor { identity: Uuid::from_u128(77), route: NODE.parse().unwrap(), route_params: HashMap::new() };
    let (attach_tx, attach_rx) = mpsc::channel(16);
    let (http_tx, http_rx) = mpsc::channel(16);
    let (link_tx, link_rx) = mpsc::channel(16);
    let (stop_tx, stop_rx) = trigger::trigger();
    let store = RecStore { names: Mutex::new(vec![]), content: Mutex::new(content), log, asked: asked.clone() };
    let fut = AgentRouteTask::new(&agent, identity, AgentRouteChannels::new(attach_rx, http_rx, link_tx), stop_rx, CombinedAgentConfig::default(), None)
        .run_agent_with_store(async move { Ok(store) });
    let task = tokio::spawn(async move { fut.await.map_err(|e| format!("{:?}", e)) });
    Life { task, attach: attach_tx, stop: stop_tx, restored, asked, _keep: (http_tx, link_rx) }
}

static NEXT_REMOTE: AtomicU64 = AtomicU64::new(1);

async fn attach(life: &Life, log: Option<Log>) -> Option<Remote> {
    let id = Uuid::from_u128(1000 + NEXT_REMOTE.fetch_add(1, Ordering::Relaxed) as u128);
    let (req_tx, req_rx) = byte_channel(non_zero_usize!(65536));
    let (resp_tx, resp_rx) = byte_channel(non_zero_usize!(65536));
    let (done_tx, _done_rx) = promise::promise();
    let (on_tx, on_rx) = trigger::trigger();
    life.attach.send(AgentAttachmentRequest::with_confirmation(id, (resp_tx, req_rx), done_tx, on_tx)).await.ok()?;
    tokio::time::timeout(Duration::from_secs(10), on_rx).await.ok()?.ok()?;
    let (ftx, frx) = mpsc::unbounded_channel();
    let num = id.as_u128() as u64;
    tokio::spawn(async move {
        let _keep = _done_rx;
        let mut reader = FramedRead::new(resp_rx, RawResponseMessageDecoder);
        while let Some(Ok(msg)) = reader.next().await {
            let lane = msg.path.lane.as_str().to_string();
            let kind = match msg.envelope {
                Notification::Linked => FrameKind::Linked,
                Notification::Synced => FrameKind::Synced,
                Notification::Unlinked(_) => FrameKind::Unlinked,
                Notification::Event(b) => FrameKind::Event(String::from_utf8_lossy(b.as_ref()).to_string()),
            };
            if let Some(log) = &log {
                log.lock().push(LogEntry::Frame(num, lane.clone(), kind.clone()));
            }
            if ftx.send((lane, kind)).is_err() {
                break;
            }
        }
    });
    Some(Remote { id, tx: FramedWrite::new(req_tx, RawRequestMessageEncoder), frames: frx })
}

const LANES: [&str; 4] = ["v", "t", "m", "tm"];

/// Sync every lane and collect what the remote is told: value lanes their value, map lanes their entries.
async fn sync_all(r: &mut Remote) -> Option<(BTreeMap<String, String>, BTreeMap<String, Vec<String>>)> {
    let mut values = BTreeMap::new();
    let mut maps = BTreeMap::new();
    for lane in LANES {
        if !r.send(lane, swimos_messages::protocol::Operation::Sync).await {
            return None;
        }
        let seen = r.wait_for(lane, |k| *k == FrameKind::Synced).await?;
        let mut events: Vec<String> = seen.into_iter().filter(|(l, _)| l == lane).filter_map(|(_, k)| if let FrameKind::Event(b) = k { Some(b) } else { None }).collect();
        if lane == "v" || lane == "t" {
            values.insert(lane.to_string(), events.pop().unwrap_or_default());
        } else {
            events.sort();
            maps.insert(lane.to_string(), events);
        }
    }
    Some((values, maps))
}

fn body(c: &Cmd) -> (&'static str, String) {
    match c {
        Cmd::SetV(x) => ("v", if *x == NONE_CODE { String::new() } else { x.to_string() }),
        Cmd::SetT(x) => ("t", if *x == NONE_CODE { String::new() } else { x.to_string() }),
        Cmd::Upd(k, x) => ("m", format!("@update(key:{}) {}", k, x)),
        Cmd::Rem(k) => ("m", format!("@remove(key:{})", k)),
        Cmd::Clr => ("m", "@clear".to_string()),
        Cmd::UpdT(k, x) => ("tm", format!("@update(key:{}) {}", k, x)),
        Cmd::Sync(l) => (l, String::new()),
    }
}

struct RunOut {
    log: Vec<LogEntry>,
    asked: Vec<String>,
    clean_stop_ok: bool,
    problem: Option<String>,
}

async fn first_life(cmds: &[Cmd], second_remote: bool, clean_stop: bool, laziness: usize) -> RunOut {
    let log: Log = Default::default();
    let life = start(Content::default(), log.clone(), laziness);
    let mut problem = None;
    let mut r1 = match attach(&life, Some(log.clone())).await {
        Some(r) => r,
        None => {
            let why = tokio::time::timeout(Duration::from_secs(3), life.task).await;
            return RunOut { log: vec![], asked: vec![], clean_stop_ok: false, problem: Some(format!("the remote could not be attached: {:?}", why)) };
        }
    };
    for lane in LANES {
        r1.send(lane, swimos_messages::protocol::Operation::Link).await;
        if r1.wait_for(lane, |k| *k == FrameKind::Linked).await.is_none() {
            problem = Some(format!("no linked for {}", lane));
        }
    }
    let mut r2 = None;
    if second_remote {
        if let Some(mut r) = attach(&life, Some(log.clone())).await {
            for lane in ["v", "m"] {
                r.send(lane, swimos_messages::protocol::Operation::Link).await;
                let _ = r.wait_for(lane, |k| *k == FrameKind::Linked).await;
            }
            r2 = Some(r);
        }
    }
    for (i, c) in cmds.iter().enumerate() {
        let (lane, b) = body(c);
        let op = if matches!(c, Cmd::Sync(_)) { swimos_messages::protocol::Operation::Sync } else { swimos_messages::protocol::Operation::Command(b.into_bytes()) };
        if !r1.send(lane, op).await {
            problem = Some(format!("command {} could not be sent", i));
            break;
        }
        if i % 3 == 2 {
            tokio::task::yield_now().await;
        }
    }
    // quiescence: every lane answers a sync (requests of one remote are handled in order per lane)
    if problem.is_none() && sync_all(&mut r1).await.is_none() {
        problem = Some("the lanes did not answer the final sync".into());
    }
    if let Some(r) = r2.as_mut() {
        // let the second remote drain
        for lane in ["v", "m"] {
            r.send(lane, swimos_messages::protocol::Operation::Sync).await;
            let _ = r.wait_for(lane, |k| *k == FrameKind::Synced).await;
        }
    }
    let asked = life.asked.lock().clone();
    let mut clean_stop_ok = true;
    if clean_stop {
        life.stop.trigger();
        drop(r1);
        drop(r2);
        match tokio::time::timeout(Duration::from_secs(10), life.task).await {
            Ok(Ok(Ok(()))) => {}
            other => {
                clean_stop_ok = false;
                problem.get_or_insert(format!("clean stop failed: {:?}", other.map(|r| r.map_err(|e| e.to_string()))));
            }
        }
    } else {
        // kill: every task is dropped
        life.task.abort();
        let _ = life.task.await;
    }
    let l = log.lock().clone();
    RunOut { log: l, asked, clean_stop_ok, problem }
}

/// Start the agent again on `content` and look at what it holds.
async fn second_life(content: Content) -> Result<(Restored, BTreeMap<String, String>, BTreeMap<String, Vec<String>>), String> {
    let log: Log = Default::default();
    let life = start(content, log, 0);
    let mut r = attach(&life, None).await.ok_or("the remote could not be attached after the restart")?;
    let synced = sync_all(&mut r).await.ok_or("the lanes did not answer a sync after the restart")?;
    let restored = life.restored.lock().clone().ok_or("on_start did not run after the restart")?;
    life.task.abort();
    let _ = life.task.await;
    Ok((restored, synced.0, synced.1))
}

// ---------------------------------------------------------------------------------------------
// Coq terms

fn item_index(name: &str) -> u64 {
    match name {
        "v" => 0,
        "t" => 1,
        "m" => 2,
        "tm" => 3,
        "s" => 4,
        "ms" => 5,
        _ => 9,
    }
}
fn zi(n: i64) -> String {
    format!("({})%Z", n)
}
fn parse_i(b: &[u8]) -> Option<i64> {
    parse_body(std::str::from_utf8(b).ok()?)
}
/// A map operation as it appears in an event body.
fn parse_map_event(s: &str) -> Option<String> {
    let s = s.trim();
    if s == "@clear" {
        return Some("MClear".into());
    }
    if let Some(rest) = s.strip_prefix("@update(key:") {
        let (k, v) = rest.split_once(')')?;
        return Some(format!("MUpdate {} {}", zi(k.trim().parse().ok()?), zi(v.trim().parse().ok()?)));
    }
    if let Some(rest) = s.strip_prefix("@remove(key:") {
        let k = rest.strip_suffix(')')?;
        return Some(format!("MRemove {}", zi(k.trim().parse().ok()?)));
    }
    None
}
fn coq_entry(e: &LogEntry) -> Option<String> {
    Some(match e {
        LogEntry::Store(StoreOp::Put(n, v)) => format!("LPut {} {}", item_index(n), zi(parse_i(v)?)),
        LogEntry::Store(StoreOp::Delete(n)) => format!("LDelete {}", item_index(n)),
        LogEntry::Store(StoreOp::Update(n, k, v)) => format!("LMap {} (MUpdate {} {})", item_index(n), zi(parse_i(k)?), zi(parse_i(v)?)),
        LogEntry::Store(StoreOp::Remove(n, k)) => format!("LMap {} (MRemove {})", item_index(n), zi(parse_i(k)?)),
        LogEntry::Store(StoreOp::Clear(n)) => format!("LMap {} MClear", item_index(n)),
        LogEntry::Frame(r, lane, FrameKind::Event(b)) => {
            if lane == "v" || lane == "t" {
                format!("LSentV {} {} {}", r % 1000, item_index(lane), zi(parse_body(b)?))
            } else {
                format!("LSentM {} {} ({})", r % 1000, item_index(lane), parse_map_event(b)?)
            }
        }
        LogEntry::Frame(r, lane, FrameKind::Synced) => format!("LSynced {} {}", r % 1000, item_index(lane)),
        LogEntry::Frame(r, lane, FrameKind::Linked) => format!("LLinked {} {}", r % 1000, item_index(lane)),
        LogEntry::Frame(r, lane, FrameKind::Unlinked) => format!("LUnlinked {} {}", r % 1000, item_index(lane)),
    })
}
fn coq_cmd(c: &Cmd) -> String {
    match c {
        Cmd::SetV(x) => format!("CSet 0 {}", zi(*x)),
        Cmd::SetT(x) => format!("CSet 1 {}", zi(*x)),
        Cmd::Upd(k, x) => format!("CMap 2 (MUpdate {} {})", zi(*k), zi(*x)),
        Cmd::Rem(k) => format!("CMap 2 (MRemove {})", zi(*k)),
        Cmd::Clr => "CMap 2 MClear".to_string(),
        Cmd::UpdT(k, x) => format!("CMap 3 (MUpdate {} {})", zi(*k), zi(*x)),
        Cmd::Sync(_) => "CSet 9 (0)%Z".to_string(),
    }
}
fn zz(m: &[(i64, i64)]) -> String {
    coq_list(m.iter().map(|(k, v)| format!("({}, {})", zi(*k), zi(*v))))
}

fn main() {
    let args = parse_args();
    silence_panics();
    let mut rng = Rng::new(args.seed ^ 0xc05);
    let mut w = CaseWriter::new(
        "From SwimV Require Import Model.Persist.\nOpen Scope N_scope.",
        "pcase",
        &["p_corr_bad", "p_oracle_bad", "p_restart_bad"],
        args.shards,
    );
    let rt = tokio::runtime::Builder::new_current_thread().enable_all().build().unwrap();
    let mut kinds: BTreeMap<String, u64> = BTreeMap::new();
    let mut failures: Vec<String> = vec![];
    let mut nontrivial = 0u64;
    let mut samples = vec![];
    let crash_points_per_case = if args.tier == "thorough" { 6 } else { 3 };
    for i in 0..args.cases {
        let n = rng.range(1, 10) as usize;
        let mut next = 100i64;
        let cmds: Vec<Cmd> = (0..n)
            .map(|_| {
                next += 10;
                match rng.below(14) {
                    10 | 11 => Cmd::Sync("v"),
                    12 | 13 => Cmd::Sync("m"),
                    0 | 1 | 2 => Cmd::SetV(if rng.below(5) == 0 { NONE_CODE } else { next }),
                    3 => Cmd::SetT(next),
                    4 | 5 | 6 => Cmd::Upd(rng.range(0, 3) as i64, next),
                    7 => Cmd::Rem(rng.range(0, 3) as i64),
                    8 => {
                        if rng.below(2) == 0 {
                            Cmd::Clr
                        } else {
                            Cmd::Rem(rng.range(0, 3) as i64)
                        }
                    }
                    _ => Cmd::UpdT(rng.range(0, 3) as i64, next),
                }
            })
            .collect();
        let second_remote = rng.below(3) == 0;
        let clean_stop = rng.below(3) == 0;
        let laziness = *rng.pick(&[0usize, 0, 1, 2, 3]);
        *kinds.entry(format!("laziness_{}", laziness)).or_default() += 1;
        let out = rt.block_on(first_life(&cmds, second_remote, clean_stop, laziness));
        if let Some(p) = &out.problem {
            failures.push(format!("case {}: {} (commands {:?})", i, p, cmds));
            continue;
        }
        *kinds.entry(if clean_stop { "clean_stop".into() } else { "killed".to_string() }).or_default() += 1;
        *kinds.entry(format!("log_len_{}", (out.log.len() / 10) * 10)).or_default() += 1;
        // persistence is asked for exactly the persistent items
        let mut asked = out.asked.clone();
        asked.sort();
        asked.dedup();
        if asked != vec!["m".to_string(), "v".to_string()] {
            failures.push(format!("case {}: store ids were requested for {:?} (persistent items are m, v)", i, asked));
        }
        let _ = out.clean_stop_ok;
        let entries: Option<Vec<String>> = out.log.iter().map(coq_entry).collect();
        let entries = match entries {
            Some(e) => e,
            None => {
                failures.push(format!("case {}: a log entry could not be read: {:?}", i, out.log));
                continue;
            }
        };
        // crash points: the end, and a few positions of the log (after a store operation or a delivered frame)
        let mut points: Vec<usize> = vec![out.log.len()];
        for _ in 0..crash_points_per_case {
            points.push(rng.usize_below(out.log.len() + 1));
        }
        points.sort();
        points.dedup();
        let mut crashes = vec![];
        for p in points {
            let mut content = Content::default();
            for e in &out.log[..p] {
                if let LogEntry::Store(op) = e {
                    content.apply(op);
                }
            }
            match rt.block_on(second_life(content)) {
                Ok((restored, values, maps)) => {
                    *kinds.entry("restarts".into()).or_default() += 1;
                    let pv = |l: &str| values.get(l).and_then(|s| parse_body(s));
                    let pm = |l: &str| -> Option<Vec<String>> { maps.get(l).map(|es| es.iter().filter_map(|e| parse_map_event(e)).collect()) };
                    let (sv, st) = match (pv("v"), pv("t")) {
                        (Some(a), Some(b)) => (a, b),
                        _ => {
                            failures.push(format!("case {} crash point {}: a value lane did not report a value in its sync ({:?})", i, p, values));
                            continue;
                        }
                    };
                    crashes.push(format!(
                        "{{| cr_at := {}; cr_v := {}; cr_t := {}; cr_m := {}; cr_tm := {}; cr_s := {}; cr_ms := {}; cr_sync_v := {}; cr_sync_t := {}; cr_sync_m := {}; cr_sync_tm := {} |}}",
                        p,
                        zi(restored.v),
                        zi(restored.t),
                        zz(&restored.m),
                        zz(&restored.tm),
                        zi(restored.s),
                        zz(&restored.ms),
                        zi(sv),
                        zi(st),
                        coq_list(pm("m").unwrap_or_default()),
                        coq_list(pm("tm").unwrap_or_default())
                    ));
                }
                Err(e) => failures.push(format!("case {} crash point {}: {} (commands {:?})", i, p, e, cmds)),
            }
        }
        if out.log.iter().filter(|e| matches!(e, LogEntry::Store(_))).count() >= 3 {
            nontrivial += 1;
        }
        let term = format!(
            "{{| pc_mirror := false; pc_cmds := {}; pc_log := {}; pc_crashes := {} |}}",
            coq_list(cmds.iter().map(coq_cmd)),
            coq_list(entries),
            coq_list(crashes)
        );
        let human = format!("commands {:?} second_remote={} clean_stop={} log {:?}", cmds, second_remote, clean_stop, out.log);
        if samples.len() < 3 {
            samples.push(J::s(human.chars().take(700).collect::<String>()));
        }
        w.push(term, human);
    }
    w.finish(&args.out, "cases").unwrap();
    failures.sort();
    failures.dedup();
    let meta = J::obj(vec![
        ("evaluations", J::I(w.len() as i128)),
        ("distinct_nontrivial", J::I(nontrivial as i128)),
        ("rule", J::s("(runtime with a scripted agent whose lanes answer a sync with their current state before they report the change that produced it, and report changes 0-3 requests late) 1-10 commands and syncs (set on a persistent and a transient value lane; update / remove / clear on a persistent map lane, update on a transient one; the lifecycle copies the persistent lanes into a value store and a map store) sent by a linked remote to a real agent (derived lane model, AgentModel) running in the real agent runtime (run_agent_with_store) over a recording NodePersistence; a second remote in a third of the cases; the merged log of store operations and frames read by the remotes is checked (every published state was handed to the store first; the store ends up with the state the commands imply); then the agent is stopped (cleanly in a third of the cases, killed otherwise) and, for the end of the log and 3 (quick) / 6 (thorough) random crash points, restarted on the store as it was at that point: what on_start sees in every lane and store and what a sync reports must be the state handed to the store up to there, transient items at their defaults")),
        ("structures", J::counts(&kinds)),
        ("samples", J::A(samples)),
        ("direct_failures", J::A(failures.iter().take(40).map(|f| J::s(f.chars().take(600).collect::<String>())).collect())),
        ("direct_failure_count", J::I(failures.len() as i128)),
    ]);
    write_meta(&args.out, "meta.json", &meta);
}
