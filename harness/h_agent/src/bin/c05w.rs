//! C05 (the write task on its own): the agent runtime's real write_task over scripted lane channels, a
//! recording NodePersistence and remotes that log every frame on the same clock as the store; time is
//! virtual, so that the inactivity timeout, the votes of the other tasks, lane events and the stop message can
//! be put in any order.  Oracle: nothing a remote reads of a persistent lane that had not been handed to the
//! store before.

use std::collections::BTreeMap;
use std::sync::Arc;
use std::time::Duration;

use bytes::BytesMut;
use futures::{SinkExt, StreamExt};
use parking_lot::Mutex;
use swimos_agent_protocol::encoding::lane::{MapLaneResponseEncoder, ValueLaneResponseEncoder};
use swimos_agent_protocol::{LaneResponse, MapOperation};
use swimos_api::agent::UplinkKind;
use swimos_api::error::StoreError;
use swimos_api::persistence::{KeyValue, NodePersistence, RangeConsumer};
use swimos_messages::protocol::{Notification, RawResponseMessageDecoder};
use swimos_runtime::agent::AgentRuntimeConfig;
use swimos_runtime::verif_hooks::agent::task::{run_write_task, WriteTaskInput};
use swimos_runtime::verif_hooks::timeout_coord::agent_timeout_coordinator;
use swimos_utilities::byte_channel::{byte_channel, ByteWriter};
use swimos_utilities::non_zero_usize;
use swimos_utilities::trigger::promise;
use tokio::sync::mpsc;
use tokio_util::codec::{FramedRead, FramedWrite};
use uuid::Uuid;
use vcore::*;

#[derive(Clone, Debug)]
enum LogEntry {
    Put(String, Vec<u8>),
    Delete(String),
    Update(String, Vec<u8>, Vec<u8>),
    Remove(String, Vec<u8>),
    Clear(String),
    Frame(u64, String, String),
    /// the remote's channel was closed by the agent
    Closed(u64), // remote, lane, kind / body
    Gone(u64),
}
type Log = Arc<Mutex<Vec<LogEntry>>>;

struct RecStore {
    names: Mutex<Vec<String>>,
    log: Log,
}
struct NoItems;
impl RangeConsumer for NoItems {
    fn consume_next(&mut self) -> Result<Option<KeyValue<'_>>, StoreError> {
        Ok(None)
    }
}
impl RecStore {
    fn name(&self, id: u64) -> String {
        self.names.lock()[id as usize].clone()
    }
}
impl NodePersistence for RecStore {
    type MapCon<'a> = NoItems;
    type LaneId = u64;
    fn id_for(&self, name: &str) -> Result<u64, StoreError> {
        let mut names = self.names.lock();
        if let Some(i) = names.iter().position(|n| n == name) {
            Ok(i as u64)
        } else {
            names.push(name.to_string());
            Ok(names.len() as u64 - 1)
        }
    }
    fn get_value(&self, _id: u64, _buffer: &mut BytesMut) -> Result<Option<usize>, StoreError> {
        Ok(None)
    }
    fn put_value(&mut self, id: u64, value: &[u8]) -> Result<(), StoreError> {
        self.log.lock().push(LogEntry::Put(self.name(id), value.to_vec()));
        Ok(())
    }
    fn delete_value(&mut self, id: u64) -> Result<(), StoreError> {
        self.log.lock().push(LogEntry::Delete(self.name(id)));
        Ok(())
    }
    fn update_map(&mut self, id: u64, key: &[u8], value: &[u8]) -> Result<(), StoreError> {
        self.log.lock().push(LogEntry::Update(self.name(id), key.to_vec(), value.to_vec()));
        Ok(())
    }
    fn remove_map(&mut self, id: u64, key: &[u8]) -> Result<(), StoreError> {
        self.log.lock().push(LogEntry::Remove(self.name(id), key.to_vec()));
        Ok(())
    }
    fn clear_map(&mut self, id: u64) -> Result<(), StoreError> {
        self.log.lock().push(LogEntry::Clear(self.name(id)));
        Ok(())
    }
    fn read_map(&self, _id: u64) -> Result<NoItems, StoreError> {
        Ok(NoItems)
    }
}

#[derive(Clone, Debug)]
enum Act {
    /// a lane reports a change: "v" / "t" a value, "m" an update of key (n mod 3)
    Event(&'static str, i64),
    /// a value lane answers a sync request of that remote with its current value
    SyncAnswer(&'static str, u64),
    Clear,
    Link(u64, &'static str),
    Unlink(u64, &'static str),
    /// the inactivity timeout passes
    Timeout,
    /// the read task and the HTTP task vote to stop / withdraw their votes
    OthersVote,
    OthersRescind,
    Stop,
    Settle,
    /// time passes (seconds)
    Advance(u64),
    /// the remote goes away: it drops its end of the channel (the write task notices at its next write to it)
    Depart(u64),
}

const NODE: &str = "/node";
const INACTIVE: Duration = Duration::from_secs(30);

async fn settle() {
    for _ in 0..60 {
        tokio::task::yield_now().await;
    }
}

async fn run_case(acts: &[Act], nremotes: u64, stop_delay: usize, prune_secs: u64) -> (Vec<LogEntry>, Option<String>) {
    let log: Log = Default::default();
    let store = RecStore { names: Mutex::new(vec![]), log: log.clone() };
    let (v_tx, v_rx) = byte_channel(non_zero_usize!(65536));
    let (t_tx, t_rx) = byte_channel(non_zero_usize!(65536));
    let (m_tx, m_rx) = byte_channel(non_zero_usize!(65536));
    let mut v_tx = FramedWrite::new(v_tx, ValueLaneResponseEncoder::default());
    let mut t_tx = FramedWrite::new(t_tx, ValueLaneResponseEncoder::default());
    let mut m_tx = FramedWrite::new(m_tx, MapLaneResponseEncoder::default());
    let (msg_tx, msg_rx) = mpsc::unbounded_channel();
    let (write_voter, read_voter, http_voter, mut unanimous) = agent_timeout_coordinator();
    let config = AgentRuntimeConfig { inactive_timeout: INACTIVE, prune_remote_delay: Duration::from_secs(prune_secs), ..Default::default() };
    let lanes = vec![
        ("v".to_string(), UplinkKind::Value, false, v_rx),
        ("t".to_string(), UplinkKind::Value, true, t_rx),
        ("m".to_string(), UplinkKind::Map, false, m_rx),
    ];
    let mut task = tokio::spawn(run_write_task(Uuid::from_u128(77), NODE, config, lanes, msg_rx, write_voter, store));
    let mut keep: Vec<(ByteWriter, promise::Receiver<swimos_runtime::agent::DisconnectionReason>)> = vec![];
    let _ = &mut keep;
    let mut completions = vec![];
    let mut reader_tasks: Vec<Option<tokio::task::JoinHandle<()>>> = vec![];
    for r in 1..=nremotes {
        let (w, reader) = byte_channel(non_zero_usize!(65536));
        let (done_tx, done_rx) = promise::promise();
        completions.push(done_rx);
        if msg_tx.send(WriteTaskInput::Remote { id: Uuid::from_u128(r as u128), writer: w, completion: done_tx }).is_err() {
            return (vec![], Some("the write task ended before a remote could be attached".into()));
        }
        let log = log.clone();
        let reader_task = tokio::spawn(async move {
            let mut reader = FramedRead::new(reader, RawResponseMessageDecoder);
            while let Some(Ok(msg)) = reader.next().await {
                let lane = msg.path.lane.as_str().to_string();
                let kind = match msg.envelope {
                    Notification::Linked => "linked".to_string(),
                    Notification::Synced => "synced".to_string(),
                    Notification::Unlinked(_) => "unlinked".to_string(),
                    Notification::Event(b) => format!("event {}", String::from_utf8_lossy(b.as_ref())),
                };
                log.lock().push(LogEntry::Frame(r, lane, kind));
            }
            log.lock().push(LogEntry::Closed(r));
        });
        reader_tasks.push(Some(reader_task));
    }
    settle().await;
    let mut current_v = 0i64;
    let mut current_t = 0i64;
    let mut problem = None;
    let mut ended = false;
    // the runtime tells the write task to stop once the vote is unanimous - a little later
    let mut stop_in: Option<usize> = None;
    for act in acts {
        if ended {
            break;
        }
        if let Some(k) = stop_in {
            if k == 0 {
                let _ = msg_tx.send(WriteTaskInput::Stop);
                settle().await;
                break;
            }
            stop_in = Some(k - 1);
        }
        match act {
            Act::Event("v", n) => {
                current_v = *n;
                let _ = v_tx.send(LaneResponse::StandardEvent(*n)).await;
            }
            Act::Event("t", n) => {
                current_t = *n;
                let _ = t_tx.send(LaneResponse::StandardEvent(*n)).await;
            }
            Act::Event(_, n) => {
                let _ = m_tx.send(LaneResponse::StandardEvent(MapOperation::Update { key: n.rem_euclid(3), value: *n })).await;
            }
            Act::Clear => {
                let _ = m_tx.send(LaneResponse::StandardEvent(MapOperation::<i64, i64>::Clear)).await;
            }
            Act::SyncAnswer(lane, r) => {
                let id = Uuid::from_u128(*r as u128);
                let (tx, cur) = if *lane == "v" { (&mut v_tx, current_v) } else { (&mut t_tx, current_t) };
                let _ = tx.send(LaneResponse::SyncEvent(id, cur)).await;
                let _ = tx.send(LaneResponse::<i64>::Synced(id)).await;
            }
            Act::Link(r, lane) => {
                let _ = msg_tx.send(WriteTaskInput::Link { origin: Uuid::from_u128(*r as u128), lane: lane.to_string() });
            }
            Act::Unlink(r, lane) => {
                let _ = msg_tx.send(WriteTaskInput::Unlink { origin: Uuid::from_u128(*r as u128), lane: lane.to_string() });
            }
            Act::Timeout => {
                tokio::time::advance(INACTIVE + Duration::from_millis(5)).await;
            }
            Act::OthersVote => {
                let _ = read_voter.vote();
                let _ = http_voter.vote();
            }
            Act::OthersRescind => {
                let _ = read_voter.rescind();
                let _ = http_voter.rescind();
            }
            Act::Stop => {
                let _ = msg_tx.send(WriteTaskInput::Stop);
            }
            Act::Settle => {}
            Act::Advance(secs) => {
                tokio::time::advance(Duration::from_secs(*secs)).await;
            }
            Act::Depart(r) => {
                if let Some(t) = reader_tasks.get_mut(*r as usize - 1).and_then(|t| t.take()) {
                    // everything that has arrived is read first; then the remote's end is dropped
                    settle().await;
                    t.abort();
                    let _ = t.await;
                    log.lock().push(LogEntry::Gone(*r));
                }
            }
        }
        settle().await;
        if stop_in.is_none() && futures::FutureExt::now_or_never(&mut unanimous).is_some() {
            stop_in = Some(stop_delay);
        }
        if task.is_finished() {
            ended = true;
        }
    }
    if !task.is_finished() {
        let _ = msg_tx.send(WriteTaskInput::Stop);
        settle().await;
    }
    tokio::time::advance(Duration::from_secs(2)).await;
    settle().await;
    match tokio::time::timeout(Duration::from_secs(600), &mut task).await {
        Ok(Ok(Ok(()))) => {}
        Ok(Ok(Err(e))) => problem = Some(format!("the write task failed: {:?}", e)),
        Ok(Err(e)) => problem = Some(format!("the write task panicked: {:?}", e)),
        Err(_) => {
            task.abort();
            problem = Some("the write task did not stop after the stop message".into());
        }
    }
    settle().await;
    drop(completions);
    let l = log.lock().clone();
    (l, problem)
}

fn item_index(name: &str) -> u64 {
    match name {
        "v" => 0,
        "t" => 1,
        "m" => 2,
        _ => 9,
    }
}
fn zi(n: i64) -> String {
    format!("({})%Z", n)
}
fn parse_i(b: &[u8]) -> Option<i64> {
    std::str::from_utf8(b).ok()?.trim().parse().ok()
}
fn parse_map_event(s: &str) -> Option<String> {
    let s = s.trim();
    if s == "@clear" {
        return Some("MClear".into());
    }
    if let Some(rest) = s.strip_prefix("@update(key:") {
        let (k, v) = rest.split_once(')')?;
        return Some(format!("MUpdate {} {}", zi(k.trim().parse().ok()?), zi(v.trim().parse().ok()?)));
    }
    if let Some(rest) = s.strip_prefix("@remove(key:") {
        let k = rest.strip_suffix(')')?;
        return Some(format!("MRemove {}", zi(k.trim().parse().ok()?)));
    }
    None
}
fn coq_entry(e: &LogEntry) -> Option<String> {
    Some(match e {
        LogEntry::Put(n, v) => format!("LPut {} {}", item_index(n), zi(parse_i(v)?)),
        LogEntry::Delete(n) => format!("LDelete {}", item_index(n)),
        LogEntry::Update(n, k, v) => format!("LMap {} (MUpdate {} {})", item_index(n), zi(parse_i(k)?), zi(parse_i(v)?)),
        LogEntry::Remove(n, k) => format!("LMap {} (MRemove {})", item_index(n), zi(parse_i(k)?)),
        LogEntry::Clear(n) => format!("LMap {} MClear", item_index(n)),
        LogEntry::Closed(r) => format!("LClosed {}", r),
        LogEntry::Gone(r) => format!("LGone {}", r),
        LogEntry::Frame(r, lane, kind) => {
            if let Some(b) = kind.strip_prefix("event ") {
                if lane == "m" {
                    format!("LSentM {} {} ({})", r, item_index(lane), parse_map_event(b)?)
                } else {
                    format!("LSentV {} {} {}", r, item_index(lane), zi(b.trim().parse().ok()?))
                }
            } else if kind == "linked" {
                format!("LLinked {} {}", r, item_index(lane))
            } else if kind == "synced" {
                format!("LSynced {} {}", r, item_index(lane))
            } else {
                format!("LUnlinked {} {}", r, item_index(lane))
            }
        }
    })
}

fn main() {
    let args = parse_args();
    silence_panics();
    let mut rng = Rng::new(args.seed ^ 0xc05e);
    let mut w = CaseWriter::new(
        "From SwimV Require Import Model.Persist.\nOpen Scope N_scope.",
        "pcase",
        &["w_oracle_bad", "w_links_bad"],
        args.shards,
    );
    let mut kinds: BTreeMap<String, u64> = BTreeMap::new();
    let mut failures: Vec<String> = vec![];
    let mut nontrivial = 0u64;
    let mut samples = vec![];
    let lanes: [&'static str; 3] = ["v", "t", "m"];

    let mut emit = |acts: Vec<Act>, nrem: u64, delay: usize, prune_secs: u64, w: &mut CaseWriter, failures: &mut Vec<String>| {
        let acts2 = acts.clone();
        let (log, problem) = match catch(std::panic::AssertUnwindSafe(|| {
            let rt = tokio::runtime::Builder::new_current_thread().enable_all().start_paused(true).build().unwrap();
            rt.block_on(run_case(&acts2, nrem, delay, prune_secs))
        })) {
            Ok(x) => x,
            Err(m) => {
                failures.push(format!("actions {:?}: the harness or the write task panicked: {}", acts, m));
                return;
            }
        };
        if let Some(p) = problem {
            failures.push(format!("actions {:?}: {}", acts, p));
            return;
        }
        let entries: Vec<String> = match log.iter().map(coq_entry).collect::<Option<Vec<_>>>() {
            Some(e) => e,
            None => {
                failures.push(format!("actions {:?}: unreadable log {:?}", acts, log));
                return;
            }
        };
        let voted_then_event = acts.iter().position(|a| matches!(a, Act::Timeout)).map(|p| acts[p..].iter().any(|a| matches!(a, Act::Event(..)))).unwrap_or(false);
        if voted_then_event {
            *kinds.entry("event_after_the_write_task_voted".into()).or_default() += 1;
        }
        if acts.iter().any(|a| matches!(a, Act::OthersVote)) && voted_then_event {
            *kinds.entry("event_after_unanimity".into()).or_default() += 1;
            nontrivial += 1;
        }
        if log.iter().any(|e| matches!(e, LogEntry::Frame(_, _, k) if k.starts_with("event"))) {
            *kinds.entry("a_remote_read_an_event".into()).or_default() += 1;
        }
        let human = format!("actions {:?} (stop {} actions after unanimity) -> log {:?}", acts, delay, log);
        if samples.len() < 3 && voted_then_event {
            samples.push(J::s(human.chars().take(700).collect::<String>()));
        }
        // what each scripted lane reported (events and sync answers), for the provenance of the store's content
        let mut reported: Vec<String> = vec![];
        let (mut cur_v, mut cur_t) = (0i64, 0i64);
        for a in &acts {
            match a {
                Act::Event("v", n) => {
                    cur_v = *n;
                    reported.push(format!("CSet 0 {}", zi(*n)));
                }
                Act::Event("t", n) => {
                    cur_t = *n;
                    reported.push(format!("CSet 1 {}", zi(*n)));
                }
                Act::Event(_, n) => reported.push(format!("CMap 2 (MUpdate {} {})", zi(n.rem_euclid(3)), zi(*n))),
                Act::Clear => reported.push("CMap 2 MClear".to_string()),
                Act::SyncAnswer(lane, _) => reported.push(if *lane == "v" { format!("CSet 0 {}", zi(cur_v)) } else { format!("CSet 1 {}", zi(cur_t)) }),
                _ => {}
            }
        }
        if acts.iter().any(|a| matches!(a, Act::Event("t", _))) && log.iter().any(|e| matches!(e, LogEntry::Put(..))) {
            *kinds.entry("transient_lane_event_and_a_value_stored".into()).or_default() += 1;
        }
        w.push(format!("{{| pc_mirror := false; pc_cmds := {}; pc_log := {}; pc_crashes := [] |}}", coq_list(reported), coq_list(entries)), human);
    };

    // corpus: an event that arrives after the vote to stop has become unanimous
    emit(vec![Act::Link(1, "v"), Act::Event("v", 1), Act::Timeout, Act::OthersVote, Act::Event("v", 2), Act::Settle], 1, 1, 3600, &mut w, &mut failures);
    emit(vec![Act::Link(1, "v"), Act::Event("v", 1), Act::OthersVote, Act::Timeout, Act::Event("v", 2), Act::Settle], 1, 1, 3600, &mut w, &mut failures);
    emit(vec![Act::Link(1, "m"), Act::Event("m", 4), Act::Timeout, Act::Event("m", 5), Act::OthersVote, Act::Event("m", 6), Act::Stop], 1, 2, 3600, &mut w, &mut failures);
    emit(vec![Act::Link(1, "v"), Act::Event("v", 1), Act::Timeout, Act::OthersVote, Act::OthersRescind, Act::Event("v", 2), Act::Stop, Act::Event("v", 3)], 1, 1, 3600, &mut w, &mut failures);

    // corpus: a remote that links again while its pruning is pending must stay
    emit(vec![Act::Link(1, "v"), Act::Unlink(1, "v"), Act::Advance(7), Act::Link(1, "v"), Act::Advance(21), Act::Event("v", 5), Act::Settle], 1, 1, 20, &mut w, &mut failures);
    emit(vec![Act::Link(1, "v"), Act::Link(2, "v"), Act::Unlink(1, "v"), Act::Advance(21), Act::Event("v", 5), Act::Settle], 2, 1, 20, &mut w, &mut failures);

    // one remote has gone away unnoticed, another holds two links, and the agent stops
    emit(vec![Act::Link(1, "v"), Act::Link(1, "m"), Act::Link(2, "v"), Act::Settle, Act::Depart(2), Act::Stop, Act::Settle], 2, 1, 3600, &mut w, &mut failures);
    emit(vec![Act::Link(1, "v"), Act::Link(1, "m"), Act::Link(1, "t"), Act::Link(2, "m"), Act::Event("m", 4), Act::Depart(2), Act::Event("v", 7), Act::Stop], 2, 0, 3600, &mut w, &mut failures);

    for _ in 0..args.cases {
        let nrem = rng.range(1, 3);
        let mut acts = vec![];
        for r in 1..=nrem {
            for lane in lanes {
                if rng.below(3) != 0 {
                    acts.push(Act::Link(r, lane));
                }
            }
        }
        // half of the cases prune idle remotes after 20 s (the inactivity timeout is 30 s)
        let prune_secs = if rng.below(2) == 0 { 3600 } else { 20 };
        let mut next = 10i64;
        let n = rng.range(3, 14);
        for _ in 0..n {
            let r = rng.range(1, nrem);
            let lane = *rng.pick(&lanes);
            acts.push(match rng.below(22) {
                0..=7 => {
                    next += 1;
                    Act::Event(lane, next)
                }
                8 => Act::Clear,
                9 => Act::SyncAnswer(if rng.below(2) == 0 { "v" } else { "t" }, r),
                10 => Act::Link(r, lane),
                11 => Act::Unlink(r, lane),
                12..=14 => Act::Timeout,
                15..=16 => Act::OthersVote,
                17 => Act::OthersRescind,
                18 => Act::Stop,
                19 if prune_secs < 3600 => Act::Advance(*rng.pick(&[7u64, 13, 21])),
                20 if nrem > 1 => Act::Depart(r),
                _ => if prune_secs < 3600 && rng.below(2) == 0 { Act::Advance(*rng.pick(&[7u64, 13])) } else { Act::Settle },
            });
        }
        let delay = rng.below(3) as usize;
        emit(acts, nrem, delay, prune_secs, &mut w, &mut failures);
    }

    w.finish(&args.out, "cases").unwrap();
    failures.sort();
    failures.dedup();
    let meta = J::obj(vec![
        ("evaluations", J::I(w.len() as i128)),
        ("distinct_nontrivial", J::I(nontrivial as i128)),
        ("rule", J::s("the runtime's real write_task (hook run_write_task) over three scripted lanes (persistent value, transient value, persistent map), a recording NodePersistence and 1-2 remotes whose frames are logged on the store's clock; virtual time; 3-14 actions out of: a lane event (40%), a map clear, a targeted sync answer, link, unlink, the inactivity timeout passing (15%), the other two voters voting (10%) / rescinding, the stop message, and - in the half of the cases in which idle remotes are pruned after 20 s - 7, 13 or 21 s passing; the task is told to stop 0-2 actions after the vote has become unanimous; the log must satisfy log_ok of Model/Persist.v (everything a remote read of a persistent lane had been handed to the store before) and provenance_ok (whatever reaches the store under an item's id was reported by that item; nothing is deleted) and links_ok (C04: per remote and lane linked, then events / synced, then unlinked; the agent closes a remote's channel only when none of its links is open); non-trivial = a lane event after the write task voted and the others voted too")),
        ("structures", J::counts(&kinds)),
        ("samples", J::A(samples)),
        ("direct_failures", J::A(failures.iter().take(40).map(|f| J::s(f.chars().take(500).collect::<String>())).collect())),
        ("direct_failure_count", J::I(failures.len() as i128)),
    ]);
    write_meta(&args.out, "meta.json", &meta);
}
