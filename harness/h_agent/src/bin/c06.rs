//! C06: event handlers run one at a time, depth first, in the documented order.
//! A real agent (derived AgentLaneModel, `#[lifecycle]` handlers, AgentModel task) interprets generated
//! handler programs; the trace it records is compared with the model (Model/Handlers.v).

use std::collections::{BTreeMap, HashMap};
use std::sync::Arc;
use std::time::Duration;

use bytes::BytesMut;
use futures::future::{ready, BoxFuture};
use futures::{FutureExt, SinkExt, StreamExt};
use parking_lot::Mutex;
use swimos_agent::agent_lifecycle::HandlerContext;
use swimos_agent::agent_model::AgentModel;
use swimos_agent::event_handler::{
    ActionContext, BoxEventHandler, EventHandler, EventHandlerError, HandlerAction, HandlerActionExt, StepResult, UnitHandler,
};
use swimos_agent::lanes::{MapLane, ValueLane};
use swimos_agent::AgentMetadata;
use swimos_agent_derive::{lifecycle, AgentLaneModel};
use swimos_agent_protocol::encoding::lane::{
    MapLaneRequestEncoder, RawMapLaneResponseDecoder, RawValueLaneRequestEncoder, RawValueLaneResponseDecoder,
};
use swimos_agent_protocol::{LaneRequest, LaneResponse, MapMessage};
use swimos_api::agent::{
    Agent, AgentConfig, AgentContext, DownlinkKind, HttpLaneRequestChannel, LaneConfig, StoreKind, WarpLaneKind,
};
use swimos_api::error::{AgentRuntimeError, DownlinkRuntimeError, OpenStoreError};
use swimos_utilities::byte_channel::{byte_channel, ByteReader, ByteWriter};
use swimos_utilities::non_zero_usize;
use swimos_utilities::routing::RouteUri;
use tokio_util::codec::{FramedRead, FramedWrite};
use uuid::Uuid;
use vcore::*;

// ---------------------------------------------------------------------------------------------
// programs

#[derive(Clone, Debug)]
enum H {
    Unit,
    Eff(u64),
    Fail,
    SetV(usize, i64),
    GetV(usize),
    Copy(usize, usize, i64),
    UpdM(usize, i64, i64),
    RemM(usize, i64),
    ClrM(usize),
    /// transform_entry(l, k, |v| Some(v.unwrap_or(0) + d))
    TrnM(usize, i64, i64),
    GetM(usize, i64),
    Seq(Box<H>, Box<H>),
    /// a.and_then(|()| b)
    Then(Box<H>, Box<H>),
    /// suspend a future (yielding `yields` times) that results in the handler `body` (index into the table)
    Suspend(usize, u32),
    /// a result transformer around a handler: 0 `a.discard()`, 1 `Some(a).discard()`, 2 `a.map(|_| ())`
    Wrap(Box<H>, u8),
}

#[derive(Clone, Debug, PartialEq)]
enum Ev {
    Eff(u64),
    Got(usize, i64),
    GotM(usize, i64, Option<i64>),
    OnEvent(usize, i64),
    OnSet(usize, i64, Option<i64>),
    OnUpdate(usize, i64, Option<i64>, i64),
    OnRemove(usize, i64, i64),
    OnClear(usize, Vec<(i64, i64)>),
}

const SPAWN: u64 = 1_000_000;
const BEGIN: u64 = 2_000_000;

#[derive(Clone, Debug, Default)]
struct Program {
    ev: [Option<H>; 3],
    se: [Option<H>; 3],
    up: [Option<H>; 2],
    re: [Option<H>; 2],
    cl: [Option<H>; 2],
    on_start: Option<H>,
    on_stop: Option<H>,
    suspended: Vec<H>,
}

#[derive(Clone, Debug)]
enum Cmd {
    Set(usize, i64),
    Upd(usize, i64, i64),
    Rem(usize, i64),
    Clr(usize),
}

// ---------------------------------------------------------------------------------------------
// the agent

#[derive(AgentLaneModel)]
#[agent(root(::swimos_agent))]
struct TestAgent {
    #[item(transient)]
    v0: ValueLane<i64>,
    #[item(transient)]
    v1: ValueLane<i64>,
    #[item(transient)]
    v2: ValueLane<i64>,
    #[item(transient)]
    m0: MapLane<i64, i64>,
    #[item(transient)]
    m1: MapLane<i64, i64>,
}

fn pv0(a: &TestAgent) -> &ValueLane<i64> {
    &a.v0
}
fn pv1(a: &TestAgent) -> &ValueLane<i64> {
    &a.v1
}
fn pv2(a: &TestAgent) -> &ValueLane<i64> {
    &a.v2
}
fn pm0(a: &TestAgent) -> &MapLane<i64, i64> {
    &a.m0
}
fn pm1(a: &TestAgent) -> &MapLane<i64, i64> {
    &a.m1
}
const VL: [fn(&TestAgent) -> &ValueLane<i64>; 3] = [pv0, pv1, pv2];
const ML: [fn(&TestAgent) -> &MapLane<i64, i64>; 2] = [pm0, pm1];

type Trace = Arc<Mutex<Vec<Ev>>>;

struct FailHandler;
impl HandlerAction<TestAgent> for FailHandler {
    type Completion = ();
    fn step(&mut self, _: &mut ActionContext<TestAgent>, _: AgentMetadata, _: &TestAgent) -> StepResult<()> {
        StepResult::Fail(EventHandlerError::EffectError(Box::new(std::io::Error::new(std::io::ErrorKind::Other, "generated failure"))))
    }
}

#[derive(Clone)]
struct Shared {
    program: Arc<Program>,
    trace: Trace,
}

fn build(sh: &Shared, ctx: HandlerContext<TestAgent>, h: &H) -> BoxEventHandler<'static, TestAgent> {
    let trace = sh.trace.clone();
    match h {
        H::Unit => UnitHandler::default().boxed(),
        H::Eff(t) => {
            let t = *t;
            ctx.effect(move || trace.lock().push(Ev::Eff(t))).boxed()
        }
        H::Fail => FailHandler.boxed(),
        H::SetV(l, v) => ctx.set_value(VL[*l], *v).boxed(),
        H::GetV(l) => {
            let l = *l;
            ctx.get_value(VL[l]).and_then(move |v: i64| ctx.effect(move || trace.lock().push(Ev::Got(l, v)))).boxed()
        }
        H::Copy(s, d, delta) => {
            let (d, delta) = (*d, *delta);
            ctx.get_value(VL[*s]).and_then(move |v: i64| ctx.set_value(VL[d], v + delta)).boxed()
        }
        H::UpdM(l, k, v) => ctx.update(ML[*l], *k, *v).boxed(),
        H::RemM(l, k) => ctx.remove(ML[*l], *k).boxed(),
        H::ClrM(l) => ctx.clear(ML[*l]).boxed(),
        H::TrnM(l, k, d) => {
            let d = *d;
            ctx.transform_entry(ML[*l], *k, move |v: Option<&i64>| Some(v.copied().unwrap_or(0) + d)).boxed()
        }
        H::GetM(l, k) => {
            let (l, k) = (*l, *k);
            ctx.get_entry(ML[l], k).and_then(move |v: Option<i64>| ctx.effect(move || trace.lock().push(Ev::GotM(l, k, v)))).boxed()
        }
        H::Seq(a, b) => build(sh, ctx, a).followed_by(build(sh, ctx, b)).boxed(),
        H::Then(a, b) => {
            let sh2 = sh.clone();
            let b2 = (**b).clone();
            build(sh, ctx, a).and_then(move |_: ()| build(&sh2, ctx, &b2)).boxed()
        }
        H::Wrap(a, kind) => match kind {
            0 => build(sh, ctx, a).discard().boxed(),
            1 => Some(build(sh, ctx, a)).discard().boxed(),
            _ => build(sh, ctx, a).map(|_: ()| ()).boxed(),
        },
        H::Suspend(i, yields) => {
            let (i, yields) = (*i, *yields);
            let sh2 = sh.clone();
            let spawn = ctx.effect(move || trace.lock().push(Ev::Eff(SPAWN + i as u64)));
            spawn
                .followed_by(ctx.suspend(async move {
                    for _ in 0..yields {
                        tokio::task::yield_now().await;
                    }
                    let body = H::Seq(Box::new(H::Eff(BEGIN + i as u64)), Box::new(sh2.program.suspended[i].clone()));
                    build(&sh2, ctx, &body)
                }))
                .boxed()
        }
    }
}

fn body(sh: &Shared, ctx: HandlerContext<TestAgent>, first: Ev, h: &Option<H>) -> BoxEventHandler<'static, TestAgent> {
    let trace = sh.trace.clone();
    let record = ctx.effect(move || trace.lock().push(first));
    match h {
        Some(h) => record.followed_by(build(sh, ctx, h)).boxed(),
        None => record.followed_by(UnitHandler::default()).boxed(),
    }
}

fn sorted(m: &HashMap<i64, i64>) -> Vec<(i64, i64)> {
    let mut v: Vec<(i64, i64)> = m.iter().map(|(k, v)| (*k, *v)).collect();
    v.sort();
    v
}

#[derive(Clone)]
struct TestLifecycle(Shared);

#[lifecycle(TestAgent, agent_root(::swimos_agent))]
impl TestLifecycle {
    #[on_start]
    fn my_on_start(&self, context: HandlerContext<TestAgent>) -> impl EventHandler<TestAgent> + '_ {
        match &self.0.program.on_start {
            Some(h) => build(&self.0, context, h),
            None => UnitHandler::default().boxed(),
        }
    }
    #[on_stop]
    fn my_on_stop(&self, context: HandlerContext<TestAgent>) -> impl EventHandler<TestAgent> + '_ {
        match &self.0.program.on_stop {
            Some(h) => build(&self.0, context, h),
            None => UnitHandler::default().boxed(),
        }
    }
    #[on_event(v0)]
    fn v0_event(&self, context: HandlerContext<TestAgent>, value: &i64) -> impl EventHandler<TestAgent> + '_ {
        body(&self.0, context, Ev::OnEvent(0, *value), &self.0.program.ev[0])
    }
    #[on_set(v0)]
    fn v0_set(&self, context: HandlerContext<TestAgent>, value: &i64, prev: Option<i64>) -> impl EventHandler<TestAgent> + '_ {
        body(&self.0, context, Ev::OnSet(0, *value, prev), &self.0.program.se[0])
    }
    #[on_event(v1)]
    fn v1_event(&self, context: HandlerContext<TestAgent>, value: &i64) -> impl EventHandler<TestAgent> + '_ {
        body(&self.0, context, Ev::OnEvent(1, *value), &self.0.program.ev[1])
    }
    #[on_set(v1)]
    fn v1_set(&self, context: HandlerContext<TestAgent>, value: &i64, prev: Option<i64>) -> impl EventHandler<TestAgent> + '_ {
        body(&self.0, context, Ev::OnSet(1, *value, prev), &self.0.program.se[1])
    }
    #[on_event(v2)]
    fn v2_event(&self, context: HandlerContext<TestAgent>, value: &i64) -> impl EventHandler<TestAgent> + '_ {
        body(&self.0, context, Ev::OnEvent(2, *value), &self.0.program.ev[2])
    }
    #[on_set(v2)]
    fn v2_set(&self, context: HandlerContext<TestAgent>, value: &i64, prev: Option<i64>) -> impl EventHandler<TestAgent> + '_ {
        body(&self.0, context, Ev::OnSet(2, *value, prev), &self.0.program.se[2])
    }
    #[on_update(m0)]
    fn m0_update(
        &self,
        context: HandlerContext<TestAgent>,
        _map: &HashMap<i64, i64>,
        key: i64,
        prev: Option<i64>,
        new_value: &i64,
    ) -> impl EventHandler<TestAgent> + '_ {
        body(&self.0, context, Ev::OnUpdate(0, key, prev, *new_value), &self.0.program.up[0])
    }
    #[on_remove(m0)]
    fn m0_remove(&self, context: HandlerContext<TestAgent>, _map: &HashMap<i64, i64>, key: i64, prev: i64) -> impl EventHandler<TestAgent> + '_ {
        body(&self.0, context, Ev::OnRemove(0, key, prev), &self.0.program.re[0])
    }
    #[on_clear(m0)]
    fn m0_clear(&self, context: HandlerContext<TestAgent>, before: HashMap<i64, i64>) -> impl EventHandler<TestAgent> + '_ {
        body(&self.0, context, Ev::OnClear(0, sorted(&before)), &self.0.program.cl[0])
    }
    #[on_update(m1)]
    fn m1_update(
        &self,
        context: HandlerContext<TestAgent>,
        _map: &HashMap<i64, i64>,
        key: i64,
        prev: Option<i64>,
        new_value: &i64,
    ) -> impl EventHandler<TestAgent> + '_ {
        body(&self.0, context, Ev::OnUpdate(1, key, prev, *new_value), &self.0.program.up[1])
    }
    #[on_remove(m1)]
    fn m1_remove(&self, context: HandlerContext<TestAgent>, _map: &HashMap<i64, i64>, key: i64, prev: i64) -> impl EventHandler<TestAgent> + '_ {
        body(&self.0, context, Ev::OnRemove(1, key, prev), &self.0.program.re[1])
    }
    #[on_clear(m1)]
    fn m1_clear(&self, context: HandlerContext<TestAgent>, before: HashMap<i64, i64>) -> impl EventHandler<TestAgent> + '_ {
        body(&self.0, context, Ev::OnClear(1, sorted(&before)), &self.0.program.cl[1])
    }
}

// ---------------------------------------------------------------------------------------------
// the runtime side

type Io = (ByteWriter, ByteReader);

fn next_id() -> Uuid {
    static N: std::sync::atomic::AtomicU64 = std::sync::atomic::AtomicU64::new(1);
    Uuid::from_u128(N.fetch_add(1, std::sync::atomic::Ordering::Relaxed) as u128)
}

#[derive(Default, Clone)]
struct Ctx {
    lanes: Arc<Mutex<HashMap<String, Io>>>,
}

impl AgentContext for Ctx {
    fn command_channel(&self) -> BoxFuture<'static, Result<ByteWriter, DownlinkRuntimeError>> {
        let (tx, rx) = byte_channel(non_zero_usize!(4096));
        std::mem::forget(rx);
        ready(Ok(tx)).boxed()
    }
    fn add_lane(&self, name: &str, _kind: WarpLaneKind, _config: LaneConfig) -> BoxFuture<'static, Result<(ByteWriter, ByteReader), AgentRuntimeError>> {
        let (tx_in, rx_in) = byte_channel(non_zero_usize!(65536));
        let (tx_out, rx_out) = byte_channel(non_zero_usize!(65536));
        self.lanes.lock().insert(name.to_string(), (tx_in, rx_out));
        ready(Ok((tx_out, rx_in))).boxed()
    }
    fn add_http_lane(&self, _name: &str) -> BoxFuture<'static, Result<HttpLaneRequestChannel, AgentRuntimeError>> {
        panic!("no http lanes")
    }
    fn open_downlink(&self, _: Option<&str>, _: &str, _: &str, _: DownlinkKind) -> BoxFuture<'static, Result<(ByteWriter, ByteReader), DownlinkRuntimeError>> {
        panic!("no downlinks")
    }
    fn add_store(&self, _name: &str, _kind: StoreKind) -> BoxFuture<'static, Result<(ByteWriter, ByteReader), OpenStoreError>> {
        ready(Err(OpenStoreError::StoresNotSupported)).boxed()
    }
}

struct Outcome {
    failed: bool,
    trace: Vec<Ev>,
    /// trace length after on_start and after each command was known to be processed
    marks: Vec<usize>,
    values: Vec<(usize, i64)>,
    problem: Option<String>,
}

async fn run_case(program: Arc<Program>, batches: &[Vec<Cmd>]) -> Outcome {
    let trace: Trace = Default::default();
    let shared = Shared { program: program.clone(), trace: trace.clone() };
    let lifecycle = TestLifecycle(shared).into_lifecycle();
    let model = AgentModel::new(TestAgent::default, lifecycle);
    let ctx = Ctx::default();
    let route = RouteUri::try_from("/node").unwrap();
    if std::env::var("C06_DEBUG").is_ok() { eprintln!("starting agent"); }
    let init = model.run(route, HashMap::new(), AgentConfig::DEFAULT, Box::new(ctx.clone())).await;
    let task = match init {
        Ok(t) => t,
        Err(e) => {
            // on_start failed
            return Outcome { failed: true, trace: trace.lock().clone(), marks: vec![], values: vec![], problem: Some(format!("init: {:?}", e)) };
        }
    };
    if std::env::var("C06_DEBUG").is_ok() { eprintln!("initialised"); }
    let mut handle = tokio::spawn(task);
    let mut lanes = std::mem::take(&mut *ctx.lanes.lock());
    let mut vtx = vec![];
    let mut vrx = vec![];
    for n in ["v0", "v1", "v2"] {
        let (tx, rx) = lanes.remove(n).expect("value lane not registered");
        vtx.push(FramedWrite::new(tx, RawValueLaneRequestEncoder::default()));
        vrx.push(FramedRead::new(rx, RawValueLaneResponseDecoder::default()));
    }
    let mut mtx = vec![];
    let mut mrx = vec![];
    for n in ["m0", "m1"] {
        let (tx, rx) = lanes.remove(n).expect("map lane not registered");
        mtx.push(FramedWrite::new(tx, MapLaneRequestEncoder::default()));
        mrx.push(FramedRead::new(rx, RawMapLaneResponseDecoder::default()));
    }
    let mut marks = vec![trace.lock().len()];
    let mut failed = false;
    let mut ended = false;
    let mut problem = None;
    let mut values = vec![];

    // wait for Synced(id) on a value lane; returns the synced value
    async fn sync_value(
        tx: &mut FramedWrite<ByteWriter, RawValueLaneRequestEncoder>,
        rx: &mut FramedRead<ByteReader, RawValueLaneResponseDecoder>,
    ) -> Option<i64> {
        let id = next_id();
        let req: LaneRequest<BytesMut> = LaneRequest::Sync(id);
        tx.send(req).await.ok()?;
        let mut val = None;
        loop {
            match rx.next().await? {
                Ok(LaneResponse::SyncEvent(i, body)) if i == id => {
                    val = std::str::from_utf8(body.as_ref()).ok().and_then(|s| s.parse::<i64>().ok());
                }
                Ok(LaneResponse::Synced(i)) if i == id => return val,
                Ok(_) => {}
                Err(_) => return None,
            }
        }
    }
    async fn sync_map(
        tx: &mut FramedWrite<ByteWriter, MapLaneRequestEncoder>,
        rx: &mut FramedRead<ByteReader, RawMapLaneResponseDecoder>,
    ) -> Option<()> {
        let id = next_id();
        let req: LaneRequest<MapMessage<i64, i64>> = LaneRequest::Sync(id);
        tx.send(req).await.ok()?;
        loop {
            let n = rx.next().await;
            if n.is_none() && std::env::var("C06_DEBUG").is_ok() { eprintln!("map lane output ended"); }
            match n? {
                Ok(LaneResponse::Synced(i)) if i == id => return Some(()),
                Ok(_) => {}
                Err(e) => {
                    if std::env::var("C06_DEBUG").is_ok() { eprintln!("map lane response error: {:?}", e); }
                    return None;
                }
            }
        }
    }

    for batch in batches {
        if std::env::var("C06_DEBUG").is_ok() { eprintln!("commands {:?}", batch); }
        let cmd = batch;
        // the commands of a batch are all sent before anything is awaited: the runtime picks the order
        let step = async {
            let mut vals = std::collections::BTreeSet::new();
            let mut maps = std::collections::BTreeSet::new();
            for cmd in batch {
                match cmd {
                    Cmd::Set(l, v) => {
                        let mut b = BytesMut::new();
                        b.extend_from_slice(v.to_string().as_bytes());
                        vtx[*l].send(LaneRequest::Command(b)).await.ok()?;
                        vals.insert(*l);
                    }
                    Cmd::Upd(l, k, v) => {
                        mtx[*l].send(LaneRequest::Command(MapMessage::Update { key: *k, value: *v })).await.ok()?;
                        maps.insert(*l);
                    }
                    Cmd::Rem(l, k) => {
                        let m: MapMessage<i64, i64> = MapMessage::Remove { key: *k };
                        mtx[*l].send(LaneRequest::Command(m)).await.ok()?;
                        maps.insert(*l);
                    }
                    Cmd::Clr(l) => {
                        let m: MapMessage<i64, i64> = MapMessage::Clear;
                        mtx[*l].send(LaneRequest::Command(m)).await.ok()?;
                        maps.insert(*l);
                    }
                }
            }
            for l in vals {
                sync_value(&mut vtx[l], &mut vrx[l]).await?;
            }
            for l in maps {
                sync_map(&mut mtx[l], &mut mrx[l]).await?;
            }
            Some(())
        };
        let r = tokio::select! {
            r = tokio::time::timeout(Duration::from_secs(10), step) => r,
            done = &mut handle => {
                // the agent stopped on its own: a handler failed
                failed = true;
                ended = true;
                if std::env::var("C06_DEBUG").is_ok() { eprintln!("agent ended: {:?}", done); }
                if let Ok(Ok(())) = done { problem = Some("the agent task ended without an error while commands were outstanding".into()); }
                break;
            }
        };
        match r {
            Ok(Some(())) => marks.push(trace.lock().len()),
            Ok(None) => {
                // the channel closed: the agent is stopping because a handler failed
                failed = true;
                break;
            }
            Err(_) => {
                problem = Some(format!("timeout waiting for {:?}", cmd));
                break;
            }
        }
    }
    if !failed && problem.is_none() {
        // let outstanding suspended handlers run: every spawned one has begun and the trace is quiet
        for _ in 0..2000 {
            let (spawned, begun) = {
                let t = trace.lock();
                (
                    t.iter().filter(|e| matches!(e, Ev::Eff(x) if *x >= SPAWN && *x < BEGIN)).count(),
                    t.iter().filter(|e| matches!(e, Ev::Eff(x) if *x >= BEGIN)).count(),
                )
            };
            if spawned == begun || handle.is_finished() {
                break;
            }
            tokio::time::sleep(Duration::from_millis(1)).await;
        }
        // a last round of syncs: everything suspended has been run to completion when the lanes answer
        for l in 0..3 {
            match tokio::time::timeout(Duration::from_secs(10), sync_value(&mut vtx[l], &mut vrx[l])).await {
                Ok(Some(v)) => values.push((l, v)),
                Ok(None) => {
                    failed = true;
                    break;
                }
                Err(_) => {
                    problem = Some("timeout in the final sync".into());
                    break;
                }
            }
        }
        marks.push(trace.lock().len());
    }
    if std::env::var("C06_DEBUG").is_ok() { eprintln!("stopping"); }
    // stop: drop every sender
    drop(vtx);
    drop(mtx);
    let res = if ended { Ok(Ok(Err(()))) } else { tokio::time::timeout(Duration::from_secs(10), &mut handle).await.map(|r| r.map(|x| x.map_err(|e| { if std::env::var("C06_DEBUG").is_ok() { eprintln!("agent ended: {:?}", e); } }))) };
    match res {
        Ok(Ok(Ok(()))) => {}
        Ok(Ok(Err(()))) => failed = true,
        Ok(Err(e)) => problem = Some(format!("agent task panicked: {}", e)),
        Err(_) => {
            problem = Some("the agent did not stop".into());
            handle.abort();
        }
    }
    drop(vrx);
    drop(mrx);
    if values.len() < 3 {
        values.clear();
    }
    let t = trace.lock().clone();
    Outcome { failed, trace: t, marks, values, problem }
}

// ---------------------------------------------------------------------------------------------
// generation

struct Gen<'a> {
    rng: &'a mut Rng,
    next_eff: u64,
    suspended: Vec<H>,
    allow_fail: bool,
    allow_suspend: bool,
}

impl<'a> Gen<'a> {
    /// A handler that may modify only items of rank below `rank` (value lanes 0..3, map lanes 3..5).
    fn handler(&mut self, rank: usize, depth: u32) -> H {
        let top = if depth == 0 { 9 } else { 13 };
        match self.rng.below(top) {
            0 => {
                self.next_eff += 1;
                H::Eff(self.next_eff)
            }
            1 => H::GetV(self.rng.usize_below(3)),
            2 => H::GetM(self.rng.usize_below(2), self.rng.range(0, 2) as i64),
            3 | 4 if rank > 0 => {
                let l = self.rng.usize_below(rank.min(3));
                H::SetV(l, self.rng.range(1, 9) as i64)
            }
            5 if rank > 0 => {
                let d = self.rng.usize_below(rank.min(3));
                H::Copy(self.rng.usize_below(3), d, self.rng.range(1, 3) as i64)
            }
            6 if rank > 3 => {
                let l = self.rng.usize_below(rank - 3);
                if self.rng.below(3) == 0 {
                    H::TrnM(l, self.rng.range(0, 2) as i64, self.rng.range(1, 9) as i64)
                } else {
                    H::UpdM(l, self.rng.range(0, 2) as i64, self.rng.range(1, 9) as i64)
                }
            }
            7 if rank > 3 => {
                let l = self.rng.usize_below(rank - 3);
                if self.rng.below(3) == 0 {
                    H::ClrM(l)
                } else {
                    H::RemM(l, self.rng.range(0, 2) as i64)
                }
            }
            8 => {
                if self.allow_fail && self.rng.below(30) == 0 {
                    H::Fail
                } else if self.allow_suspend && depth > 0 && self.rng.below(3) == 0 {
                    // the suspended handler is a new top-level handler; it stays below the rank of its spawner and
                    // spawns nothing itself, so that the chain of handlers is finite
                    self.allow_suspend = false;
                    let body = self.handler(rank, depth - 1);
                    self.allow_suspend = true;
                    self.suspended.push(body);
                    H::Suspend(self.suspended.len() - 1, self.rng.below(3) as u32)
                } else {
                    H::Unit
                }
            }
            _ if depth > 0 => {
                let a = Box::new(self.handler(rank, depth - 1));
                let b = Box::new(self.handler(rank, depth - 1));
                let seq = if self.rng.below(3) == 0 { H::Then(a, b) } else { H::Seq(a, b) };
                if self.rng.below(4) == 0 {
                    H::Wrap(Box::new(seq), self.rng.below(3) as u8)
                } else {
                    seq
                }
            }
            _ => H::Unit,
        }
    }
}

fn gen_case(rng: &mut Rng, structured: bool) -> (Program, Vec<Vec<Cmd>>) {
    let mut g = Gen { rng, next_eff: 0, suspended: vec![], allow_fail: true, allow_suspend: true };
    let mut p = Program::default();
    let density = if structured { 1 } else { 2 };
    for l in 0..3 {
        if g.rng.below(density) == 0 {
            p.ev[l] = Some(g.handler(l, 2));
        }
        if g.rng.below(density) == 0 {
            p.se[l] = Some(g.handler(l, 2));
        }
    }
    for l in 0..2 {
        if g.rng.below(density) == 0 {
            p.up[l] = Some(g.handler(3 + l, 2));
        }
        if g.rng.below(2) == 0 {
            p.re[l] = Some(g.handler(3 + l, 2));
        }
        if g.rng.below(2) == 0 {
            p.cl[l] = Some(g.handler(3 + l, 1));
        }
    }
    if g.rng.below(2) == 0 {
        p.on_start = Some(g.handler(5, 3));
    }
    if g.rng.below(2) == 0 {
        g.allow_suspend = false;
        p.on_stop = Some(g.handler(5, 2));
    }
    let n = g.rng.range(1, 5) as usize;
    let mut cmds: Vec<Vec<Cmd>> = vec![];
    let mut unique = 1000i64;
    for _ in 0..n {
        // a third of the time several commands are outstanding at once (values are unique, so that the order the
        // runtime chose can be read off the trace)
        let k = if g.rng.below(3) == 0 { g.rng.range(2, 4) as usize } else { 1 };
        let mut batch = vec![];
        for _ in 0..k {
            unique += 10;
            batch.push(match g.rng.below(if k > 1 { 4 } else { 6 }) {
                0 | 1 => Cmd::Set(if structured { 2 } else { g.rng.usize_below(3) }, unique),
                2 | 3 => Cmd::Upd(if structured { 1 } else { g.rng.usize_below(2) }, g.rng.range(0, 2) as i64, unique),
                4 => Cmd::Rem(g.rng.usize_below(2), g.rng.range(0, 2) as i64),
                _ => Cmd::Clr(g.rng.usize_below(2)),
            });
        }
        cmds.push(batch);
    }
    p.suspended = g.suspended;
    (p, cmds)
}

// ---------------------------------------------------------------------------------------------
// Coq terms

fn z(n: i64) -> String {
    format!("({})%Z", n)
}
fn oz(n: &Option<i64>) -> String {
    match n {
        Some(n) => format!("(Some {})", z(*n)),
        None => "None".into(),
    }
}
fn coq_ev(e: &Ev) -> String {
    match e {
        Ev::Eff(t) => format!("EEff {}", t),
        Ev::Got(l, v) => format!("EGot {} {}", l, z(*v)),
        Ev::GotM(l, k, v) => format!("EGotM {} {} {}", l, z(*k), oz(v)),
        Ev::OnEvent(l, v) => format!("EOnEvent {} {}", l, z(*v)),
        Ev::OnSet(l, v, p) => format!("EOnSet {} {} {}", l, z(*v), oz(p)),
        Ev::OnUpdate(l, k, p, v) => format!("EOnUpdate {} {} {} {}", l, z(*k), oz(p), z(*v)),
        Ev::OnRemove(l, k, p) => format!("EOnRemove {} {} {}", l, z(*k), z(*p)),
        Ev::OnClear(l, m) => format!("EOnClear {} {}", l, coq_list(m.iter().map(|(k, v)| format!("({}, {})", z(*k), z(*v))))),
    }
}
fn coq_h(h: &H) -> String {
    match h {
        H::Unit => "HUnit".into(),
        H::Eff(t) => format!("(HRecord (EEff {}))", t),
        H::Fail => "HFail".into(),
        H::SetV(l, v) => format!("(HSetV {} {})", l, z(*v)),
        H::GetV(l) => format!("(HGetV {})", l),
        H::Copy(s, d, delta) => format!("(HCopy {} {} {})", s, d, z(*delta)),
        H::UpdM(l, k, v) => format!("(HUpdM {} {} {})", l, z(*k), z(*v)),
        H::RemM(l, k) => format!("(HRemM {} {})", l, z(*k)),
        H::ClrM(l) => format!("(HClrM {})", l),
        H::TrnM(l, k, d) => format!("(HTrnM {} {} {})", l, z(*k), z(*d)),
        H::GetM(l, k) => format!("(HGetM {} {})", l, z(*k)),
        H::Seq(a, b) => format!("(HSeq {} {})", coq_h(a), coq_h(b)),
        H::Then(a, b) => format!("(HThen {} {})", coq_h(a), coq_h(b)),
        H::Wrap(a, _) => format!("(HWrap {})", coq_h(a)),
        // the spawn is an effect; the body becomes a top-level handler where the runtime ran it
        H::Suspend(i, _) => format!("(HRecord (EEff {}))", SPAWN + *i as u64),
    }
}
fn table<const N: usize>(t: &[Option<H>; N]) -> String {
    coq_list(t.iter().enumerate().filter_map(|(i, h)| h.as_ref().map(|h| format!("({}, {})", i, coq_h(h)))))
}
fn cmd_h(c: &Cmd) -> H {
    match c {
        Cmd::Set(l, v) => H::SetV(*l, *v),
        Cmd::Upd(l, k, v) => H::UpdM(*l, *k, *v),
        Cmd::Rem(l, k) => H::RemM(*l, *k),
        Cmd::Clr(l) => H::ClrM(*l),
    }
}

/// The top-level handlers in the order the agent ran them, reconstructed from the trace: within the window
/// of a command, the suspended handlers that began there are placed by the position of their first event
/// relative to the command's own first event.  `true` marks a handler run for a lane command (a failure of
/// such a handler is contained: the agent logs it and carries on).
fn observed_tops(p: &Program, cmds: &[Vec<Cmd>], out: &Outcome) -> Vec<(bool, H)> {
    let mut tops = vec![(false, p.on_start.clone().unwrap_or(H::Unit))];
    let begin_body = |i: usize| H::Seq(Box::new(H::Eff(BEGIN + i as u64)), Box::new(p.suspended[i].clone()));
    let len = out.trace.len();
    // windows: (lo, hi, the command run in it)
    let mut windows: Vec<(usize, usize, Option<&Vec<Cmd>>)> = vec![];
    let mut lo = 0usize;
    for (w, hi) in out.marks.iter().enumerate() {
        let cmd = if w >= 1 && w - 1 < cmds.len() { Some(&cmds[w - 1]) } else { None };
        windows.push((lo, *hi, cmd));
        lo = *hi;
    }
    // what happened after the last mark: on_stop, or the command during which the agent failed
    let pending = if out.failed && !out.marks.is_empty() && out.marks.len() - 1 < cmds.len() { Some(&cmds[out.marks.len() - 1]) } else { None };
    windows.push((lo, len, pending));
    for (lo, hi, cmd) in windows {
        let hi = hi.min(len);
        let begins: Vec<(usize, usize)> = (lo..hi)
            .filter_map(|pos| match &out.trace[pos] {
                Ev::Eff(x) if *x >= BEGIN => Some((pos, (*x - BEGIN) as usize)),
                _ => None,
            })
            .collect();
        match cmd {
            None => {
                for (_, i) in &begins {
                    tops.push((false, begin_body(*i)));
                }
            }
            Some(batch) => {
                let first = |c: &Cmd, e: &Ev| match (c, e) {
                    (Cmd::Set(l, v), Ev::OnEvent(l2, v2)) => l == l2 && v == v2,
                    (Cmd::Upd(l, k, v), Ev::OnUpdate(l2, k2, _, v2)) => l == l2 && k == k2 && v == v2,
                    (Cmd::Rem(l, k), Ev::OnRemove(l2, k2, _)) => l == l2 && k == k2,
                    (Cmd::Clr(l), Ev::OnClear(l2, _)) => l == l2,
                    _ => false,
                };
                // (position of the first event, what ran): commands and suspended handlers of this window
                let mut order: Vec<(usize, usize, (bool, H))> = vec![];
                for (n, c) in batch.iter().enumerate() {
                    let cpos = (lo..hi).find(|pos| first(c, &out.trace[*pos]));
                    let silent = matches!(c, Cmd::Rem(..));
                    match cpos {
                        Some(pos) => order.push((pos, n, (true, cmd_h(c)))),
                        // a remove of an absent key leaves no trace and changes nothing: placed first
                        None if silent && (hi < len || !out.failed) => order.push((lo, n, (true, cmd_h(c)))),
                        None => {}
                    }
                }
                for (pos, i) in &begins {
                    order.push((*pos, usize::MAX, (false, begin_body(*i))));
                }
                order.sort_by_key(|(pos, n, _)| (*pos, *n));
                for (_, _, t) in order {
                    tops.push(t);
                }
            }
        }
    }
    // on_stop runs when the agent was stopped by closing its lanes (it may be what failed)
    if out.marks.len() == cmds.len() + 2 {
        tops.push((false, p.on_stop.clone().unwrap_or(H::Unit)));
    }
    tops
}

fn main() {
    let args = parse_args();
    if std::env::var("SHOW_PANICS").is_err() {
        silence_panics();
    }
    let mut rng = Rng::new(args.seed ^ 0xc06);
    let mut w = CaseWriter::new(
        "From SwimV Require Import Model.Handlers.\nOpen Scope N_scope.",
        "hcase",
        &["h_corr_bad", "h_oracle_bad"],
        args.shards,
    );
    let rt = tokio::runtime::Builder::new_current_thread().enable_all().build().unwrap();
    let mut kinds: BTreeMap<String, u64> = BTreeMap::new();
    let mut failures: Vec<String> = vec![];
    let mut nontrivial = 0u64;
    let mut samples = vec![];
    for i in 0..args.cases {
        let (p, cmds) = gen_case(&mut rng, i % 3 == 0);
        let p = Arc::new(p);
        let out = rt.block_on(run_case(p.clone(), &cmds));
        if let Some(pr) = &out.problem {
            if !(out.failed && pr.starts_with("init:")) {
                failures.push(format!("case {}: {} (program {:?}, commands {:?})", i, pr, p, cmds));
                continue;
            }
        }
        let tops = if out.marks.is_empty() { vec![(false, p.on_start.clone().unwrap_or(H::Unit))] } else { observed_tops(&p, &cmds, &out) };
        let depth = out.trace.iter().filter(|e| matches!(e, Ev::OnEvent(..) | Ev::OnUpdate(..) | Ev::OnRemove(..) | Ev::OnClear(..))).count();
        *kinds.entry(if out.failed { "failed".into() } else { "completed".to_string() }).or_default() += 1;
        *kinds.entry(format!("lifecycle_events_{}", depth.min(12))).or_default() += 1;
        if p.suspended.iter().enumerate().any(|(i, _)| out.trace.contains(&Ev::Eff(BEGIN + i as u64))) {
            *kinds.entry("ran_suspended".into()).or_default() += 1;
        }
        if depth > cmds.iter().map(|b| b.len()).sum::<usize>() {
            nontrivial += 1;
        }
        if cmds.iter().any(|b| b.len() > 1) {
            *kinds.entry("concurrent_commands".into()).or_default() += 1;
        }
        let term = format!(
            "{{| hc_lc := mk_lc {} {} {} {} {}; hc_tops := {}; hc_failed := {}; hc_trace := {}; hc_values_after := {}; hc_values := {} |}}",
            table(&p.ev),
            table(&p.se),
            table(&p.up),
            table(&p.re),
            table(&p.cl),
            coq_list(tops.iter().map(|(c, h)| format!("{} {}", if *c { "TCmd" } else { "TMain" }, coq_h(h)))),
            out.failed,
            coq_list(out.trace.iter().map(coq_ev)),
            tops.len().saturating_sub(1),
            coq_list(out.values.iter().map(|(l, v)| format!("({}, {})", l, z(*v))))
        );
        let human = format!("program {:?} commands {:?} -> failed={} trace {:?} values {:?}", p, cmds, out.failed, out.trace, out.values);
        if samples.len() < 4 && depth > 2 {
            samples.push(J::s(human.chars().take(700).collect::<String>()));
        }
        w.push(term, human);
    }
    w.finish(&args.out, "cases").unwrap();
    failures.sort();
    failures.dedup();
    let meta = J::obj(vec![
        ("evaluations", J::I(w.len() as i128)),
        ("distinct_nontrivial", J::I(nontrivial as i128)),
        ("rule", J::s("generated handler programs (effects, get / set / copy on three value lanes, get / update / remove / clear on two map lanes, followed_by and and_then compositions, failing handlers, suspended futures that yield 0-2 times) as the bodies of on_start, on_stop and of every lane's on_event / on_set / on_update / on_remove / on_clear, acyclic by rank; 1-5 rounds of commands sent to the lanes of a real AgentModel task, a round being one command or 2-4 commands outstanding at once, each round followed by a sync of the lanes used; the recorded trace, the failure flag and the final lane values must be what the model's run_handler machine and the reference interpreter compute for the top-level handlers in the order the runtime ran them; non-trivial = a cascade (more lifecycle events than commands)")),
        ("structures", J::counts(&kinds)),
        ("samples", J::A(samples)),
        ("direct_failures", J::A(failures.iter().take(40).map(|f| J::s(f.chars().take(600).collect::<String>())).collect())),
        ("direct_failure_count", J::I(failures.len() as i128)),
    ]);
    write_meta(&args.out, "meta.json", &meta);
}
