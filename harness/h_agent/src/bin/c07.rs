//! C07: a shared downlink serves every consumer a complete, ordered session.
//! The real ValueDownlinkRuntime / MapDownlinkRuntime (attach, read and write tasks) between a simulated
//! remote socket and several consumers attaching at generated moments.

use std::collections::BTreeMap;
use std::time::Duration;

use bytes::BytesMut;
use futures::{FutureExt, SinkExt, StreamExt};
use swimos_agent_protocol::encoding::downlink::{DownlinkOperationEncoder, MapNotificationDecoder, ValueNotificationDecoder};
use swimos_agent_protocol::encoding::map::MapOperationEncoder;
use swimos_agent_protocol::{DownlinkNotification, DownlinkOperation, MapMessage, MapOperation};
use swimos_api::address::RelativeAddress;
use swimos_messages::protocol::{
    Notification, Operation, RawRequestMessageDecoder, RawResponseMessageEncoder, ResponseMessage,
};
use swimos_model::Text;
use swimos_runtime::downlink::failure::AlwaysAbortStrategy;
use swimos_runtime::downlink::{AttachAction, DownlinkOptions, DownlinkRuntimeConfig, IdentifiedAddress, MapDownlinkRuntime, ValueDownlinkRuntime};
use swimos_utilities::byte_channel::{byte_channel, ByteReader, ByteWriter};
use swimos_utilities::non_zero_usize;
use swimos_utilities::trigger;
use tokio::sync::mpsc;
use tokio_util::codec::{FramedRead, FramedWrite};
use uuid::Uuid;
use vcore::*;

/// The number that stands for an absent value (an event with an empty body) on a value downlink.
const ABSENT: i64 = -7777;

#[derive(Clone, Debug)]
enum Act {
    Attach { sync: bool },
    Remote(RMsg),
    Command(usize, i64),
    /// the remote reads every frame it can get
    RemoteRead,
    /// these consumers go away together (both halves of their channels are dropped)
    Drop(Vec<usize>),
    /// time passes (seconds; only on a paused clock)
    Advance(u64),
}

#[derive(Clone, Debug, PartialEq)]
enum RMsg {
    Linked,
    Synced,
    Event(i64),
    Unlinked,
}

#[derive(Clone, Debug, PartialEq)]
enum Note {
    Linked,
    Synced,
    Event(i64),
    Unlinked,
}

#[derive(Clone, Debug, PartialEq)]
enum Frame {
    Link,
    Sync,
    Unlink,
    Command(i64),
}

enum ConsumerRx {
    /// the value is an `Option<i64>`: `None` is an event with an empty body (ABSENT stands for it in the model)
    Value(FramedRead<ByteReader, ValueNotificationDecoder<Option<i64>>>),
    Map(FramedRead<ByteReader, MapNotificationDecoder<i64, i64>>),
}

enum ConsumerTx {
    Value(FramedWrite<ByteWriter, DownlinkOperationEncoder>),
    Map(FramedWrite<ByteWriter, MapOperationEncoder>),
}

struct Consumer {
    rx: Option<ConsumerRx>,
    tx: Option<ConsumerTx>,
    seen: Vec<Note>,
}

async fn settle() {
    for _ in 0..40 {
        tokio::task::yield_now().await;
    }
}

struct Outcome {
    seen: Vec<Vec<Note>>,
    frames: Vec<Frame>,
    /// the order in which things were given to the write task: producers and commands
    wevs: Vec<String>,
    problem: Option<String>,
    /// how many of the actions were carried out (the runtime may stop of its own accord on a paused clock)
    executed: usize,
}

/// For map downlinks an event / command number n stands for `update key (n mod 3) -> n`.
async fn run_case(map: bool, acts: &[Act], socket_buffer: usize, expect_stop: bool) -> Outcome {
    let (req_tx, req_rx) = mpsc::channel::<AttachAction>(16);
    // socket: the runtime writes requests to out_tx, reads responses from in_rx
    let (out_tx, out_rx) = byte_channel(std::num::NonZeroUsize::new(socket_buffer).unwrap());
    let (in_tx, in_rx) = byte_channel(non_zero_usize!(65536));
    let (stop_tx, stop_rx) = trigger::trigger();
    let address = IdentifiedAddress { identity: Uuid::from_u128(5), address: RelativeAddress::new(Text::new("/node"), Text::new("lane")) };
    let config = DownlinkRuntimeConfig {
        empty_timeout: Duration::from_secs(60),
        attachment_queue_size: non_zero_usize!(16),
        abort_on_bad_frames: true,
        remote_buffer_size: non_zero_usize!(4096),
        downlink_buffer_size: non_zero_usize!(65536),
    };
    let mut task = if map {
        let rt = MapDownlinkRuntime::new(req_rx, (out_tx, in_rx), stop_rx, address, config, AlwaysAbortStrategy);
        tokio::spawn(rt.run())
    } else {
        let rt = ValueDownlinkRuntime::new(req_rx, (out_tx, in_rx), stop_rx, address, config);
        tokio::spawn(rt.run())
    };
    let mut remote_tx = FramedWrite::new(in_tx, RawResponseMessageEncoder);
    let mut remote_rx = FramedRead::new(out_rx, RawRequestMessageDecoder);
    let mut consumers: Vec<Consumer> = vec![];
    let mut frames = vec![];
    let mut wevs = vec![];
    let mut problem = None;
    let mut ended = false;
    settle().await;

    macro_rules! collect_notes {
        () => {
        for k in consumers.iter_mut() {
            loop {
                let next: Option<Option<Result<Note, String>>> = match &mut k.rx {
                    None => None,
                    Some(ConsumerRx::Value(rx)) => rx.next().now_or_never().map(|o| {
                        o.map(|r| {
                            r.map(|n| match n {
                                DownlinkNotification::Linked => Note::Linked,
                                DownlinkNotification::Synced => Note::Synced,
                                DownlinkNotification::Unlinked => Note::Unlinked,
                                DownlinkNotification::Event { body } => Note::Event(body.unwrap_or(ABSENT)),
                            })
                            .map_err(|e| format!("{:?}", e))
                        })
                    }),
                    Some(ConsumerRx::Map(rx)) => rx.next().now_or_never().map(|o| {
                        o.map(|r| {
                            r.map(|n| match n {
                                DownlinkNotification::Linked => Note::Linked,
                                DownlinkNotification::Synced => Note::Synced,
                                DownlinkNotification::Unlinked => Note::Unlinked,
                                DownlinkNotification::Event { body: MapMessage::Update { value, .. } } => Note::Event(value),
                                DownlinkNotification::Event { .. } => Note::Event(-1),
                            })
                            .map_err(|e| format!("{:?}", e))
                        })
                    }),
                };
                match next {
                    Some(Some(Ok(n))) => k.seen.push(n),
                    Some(Some(Err(e))) => {
                        problem = Some(format!("a consumer could not read a notification: {}", e));
                        break;
                    }
                    _ => break,
                }
            }
        }
        };
    }
    let mut executed = 0usize;
    let mut finished = false;
    for act in acts {
        match act {
            Act::Advance(secs) => {
                tokio::time::advance(Duration::from_secs(*secs)).await;
            }
            Act::Attach { sync } => {
                let (n_tx, n_rx) = byte_channel(non_zero_usize!(65536));
                let (c_tx, c_rx) = byte_channel(non_zero_usize!(65536));
                let opts = if *sync { DownlinkOptions::SYNC } else { DownlinkOptions::empty() };
                if ended || req_tx.send(AttachAction::new((n_tx, c_rx), opts)).await.is_err() {
                    // the runtime has stopped (after unlinked): nobody can join any more
                    ended = true;
                    continue;
                }
                consumers.push(Consumer {
                    rx: Some(if map { ConsumerRx::Map(FramedRead::new(n_rx, Default::default())) } else { ConsumerRx::Value(FramedRead::new(n_rx, Default::default())) }),
                    tx: Some(if map { ConsumerTx::Map(FramedWrite::new(c_tx, Default::default())) } else { ConsumerTx::Value(FramedWrite::new(c_tx, Default::default())) }),
                    seen: vec![],
                });
                wevs.push(format!("WProducer {}", sync));
            }
            Act::Remote(m) => {
                let path = RelativeAddress::new("/node", "lane");
                let body = |n: i64| if map { format!("@update(key:{}) {}", n.rem_euclid(3), n) } else if n == ABSENT { String::new() } else { n.to_string() };
                let envelope: Notification<Vec<u8>, Vec<u8>> = match m {
                    RMsg::Linked => Notification::Linked,
                    RMsg::Synced => Notification::Synced,
                    RMsg::Unlinked => Notification::Unlinked(None),
                    RMsg::Event(n) => Notification::Event(body(*n).into_bytes()),
                };
                let msg = ResponseMessage { origin: Uuid::from_u128(5), path, envelope };
                if remote_tx.send(msg).await.is_err() {
                    settle().await;
                    if task.is_finished() {
                        finished = true;
                    } else {
                        problem = Some("the runtime closed the socket".to_string());
                    }
                    break;
                }
            }
            Act::Command(c, n) => {
                if let Some(k) = consumers.get_mut(*c) {
                    let ok = match &mut k.tx {
                        Some(ConsumerTx::Value(tx)) => tx.send(DownlinkOperation { body: *n }).await.is_ok(),
                        // (Model/DlRuntime.v op_given) clear when n mod 8 = 7, remove of key n mod 3 when n mod 8 = 6, else update
                        Some(ConsumerTx::Map(tx)) => {
                            let op = match n.rem_euclid(8) {
                                7 => MapOperation::Clear,
                                6 => MapOperation::Remove { key: n.rem_euclid(3) },
                                _ => MapOperation::Update { key: n.rem_euclid(3), value: *n },
                            };
                            tx.send(op).await.is_ok()
                        }
                        None => false,
                    };
                    if ok {
                        wevs.push(format!("WCommand ({})%Z", n));
                    }
                }
            }
            Act::RemoteRead => {}
            Act::Drop(cs) => {
                for c in cs {
                    if let Some(k) = consumers.get_mut(*c) {
                        k.rx = None;
                        k.tx = None;
                    }
                }
            }
        }
        settle().await;
        if matches!(act, Act::RemoteRead) {
            // take everything the runtime has written, letting it go on writing
            let mut idle = 0;
            for _ in 0..50 {
                match remote_rx.next().now_or_never() {
                    Some(Some(Ok(req))) => {
                        idle = 0;
                        frames.push(match req.envelope {
                            Operation::Link => Frame::Link,
                            Operation::Sync => Frame::Sync,
                            Operation::Unlink => Frame::Unlink,
                            Operation::Command(b) => {
                                let s = String::from_utf8_lossy(b.as_ref()).to_string();
                                // (op_sent) a clear is -100, a remove of key k is -(200 + k), an update its value
                                let n = if !map {
                                    s.trim().parse().ok()
                                } else if s.trim() == "@clear" {
                                    Some(-100)
                                } else if let Some(rest) = s.trim().strip_prefix("@remove(key:") {
                                    rest.trim_end_matches(')').trim().parse::<i64>().ok().map(|k| -(200 + k))
                                } else {
                                    s.rsplit(' ').next().and_then(|x| x.trim().parse().ok())
                                };
                                match n {
                                    Some(n) => Frame::Command(n),
                                    None => {
                                        problem = Some(format!("unreadable command body {:?}", s));
                                        Frame::Command(-1)
                                    }
                                }
                            }
                        });
                        wevs.push("WWritten".to_string());
                        settle().await;
                    }
                    Some(Some(Err(e))) => {
                        // a frame cut off by the runtime stopping is the end of the stream
                        if !format!("{:?}", e).contains("bytes remaining") {
                            problem = Some(format!("bad request frame: {:?}", e));
                        }
                        break;
                    }
                    Some(None) => break,
                    None => {
                        idle += 1;
                        if idle >= 2 {
                            break;
                        }
                        settle().await;
                    }
                }
            }
        }
        // collect what the consumers have been told
        collect_notes!();
        executed += 1;
        if problem.is_some() {
            break;
        }
        if task.is_finished() {
            // the runtime is gone (unlinked, or both halves voted to stop): what it told the consumers last
            finished = true;
            settle().await;
            collect_notes!();
            break;
        }
    }
    // Whether an idle runtime stops is not demanded: no property states it, and the read half arms its idle timer
    // only when its loop comes round again (after the flush that finds the last consumer gone it waits for the
    // next message or consumer first), so a quiet lane keeps an abandoned downlink alive.
    let _ = expect_stop;
    let mut joined = false;
    if finished && problem.is_none() {
        // The runtime may only be gone for a reason: the remote unlinked, or (on a paused clock) nobody was attached.
        // A task that panicked, or stopped under the feet of an attached consumer, is a failure.
        let unlinked = acts[..executed.min(acts.len())].iter().any(|a| matches!(a, Act::Remote(RMsg::Unlinked)));
        let live = consumers.iter().filter(|k| k.rx.is_some()).count();
        let joined_now = (&mut task).now_or_never();
        joined = joined_now.is_some();
        match joined_now {
            Some(Err(e)) if e.is_panic() => problem = Some("the downlink runtime task panicked".to_string()),
            _ => {
                if !unlinked && live > 0 {
                    problem = Some(format!("the downlink runtime stopped although {} consumers were attached and the remote had not unlinked", live));
                }
            }
        }
    }
    stop_tx.trigger();
    drop(req_tx);
    if !joined {
        let _ = tokio::time::timeout(Duration::from_secs(5), &mut task).await;
    }
    Outcome { seen: consumers.into_iter().map(|k| k.seen).collect(), frames, wevs, problem, executed }
}

fn coq_note(n: &Note) -> String {
    match n {
        Note::Linked => "NLinked".into(),
        Note::Synced => "NSynced".into(),
        Note::Unlinked => "NUnlinked".into(),
        Note::Event(b) => format!("NEvent ({})%Z", b),
    }
}

fn main() {
    let args = parse_args();
    silence_panics();
    let mut rng = Rng::new(args.seed ^ 0xc07);
    let mut w = CaseWriter::new(
        "From SwimV Require Import Model.DlRuntime.\nOpen Scope N_scope.",
        "dcase",
        &["dl_corr_bad", "dl_oracle_bad"],
        args.shards,
    );
    let rt = tokio::runtime::Builder::new_current_thread().enable_all().build().unwrap();
    let mut kinds: BTreeMap<String, u64> = BTreeMap::new();
    let mut failures: Vec<String> = vec![];
    let mut nontrivial = 0u64;
    let mut samples = vec![];
    // on a paused clock: the runtime's own stop (nobody attached for the whole timeout on both halves)
    let ev = |n: i64| Act::Remote(RMsg::Event(n));
    let corpus: Vec<(bool, Vec<Act>, bool)> = vec![
        // the last consumer goes away, the read half notices at the next event, the timeout passes twice: gone
        (false, vec![Act::Attach { sync: false }, Act::Remote(RMsg::Linked), Act::RemoteRead, ev(101), Act::Drop(vec![0]), ev(102), Act::Advance(70), Act::Advance(70)], true),
        (true, vec![Act::Attach { sync: true }, Act::Remote(RMsg::Linked), Act::RemoteRead, ev(101), Act::Remote(RMsg::Synced), Act::Drop(vec![0]), ev(102), Act::Advance(70), Act::Advance(70)], true),
        // nobody ever attaches
        (false, vec![Act::Advance(70), Act::Advance(70)], true),
        // a consumer stays: however much time passes the runtime stays and goes on serving it
        (false, vec![Act::Attach { sync: false }, Act::Remote(RMsg::Linked), Act::RemoteRead, ev(101), Act::Advance(70), Act::Advance(70), ev(102), Act::Advance(70), ev(103), Act::RemoteRead], false),
        // a consumer arrives after the read half has voted (the write half has not): the vote is withdrawn
        (false, vec![Act::Remote(RMsg::Linked), Act::Advance(70), Act::Attach { sync: false }, Act::RemoteRead, ev(101), Act::Advance(70), ev(102), Act::RemoteRead], false),
        // one of two goes away: the other is still served after the timeout
        (false, vec![Act::Attach { sync: false }, Act::Attach { sync: true }, Act::Remote(RMsg::Linked), Act::RemoteRead, ev(101), Act::Remote(RMsg::Synced), Act::Drop(vec![1]), ev(102), Act::Advance(70), Act::Advance(70), ev(103), Act::RemoteRead], false),
    ];
    for i in 0..args.cases + corpus.len() {
        let from_corpus = if i >= args.cases { Some(&corpus[i - args.cases]) } else { None };
        let map = from_corpus.map(|c| c.0).unwrap_or(i % 3 == 2);
        let timed = from_corpus.is_some() || i % 5 == 4;
        let expect_stop = from_corpus.map(|c| c.2).unwrap_or(false);
        // (map downlinks: every other case has a slow socket, so that operations pile up in the map queue)
        let slow_socket = from_corpus.is_none() && (i % 4 == 1 || (i % 3 == 2 && i % 2 == 1));
        // a session: consumers attach at any moment; the remote answers link, events, sync at any moment
        let n = rng.range(4, 16) as usize;
        let mut acts: Vec<Act> = vec![];
        let mut attached = 0usize;
        let mut next_event = 100i64;
        let mut next_cmd = 500i64;
        let mut linked = false;
        let mut unlinked = false;
        let mut dropped: Vec<usize> = vec![];
        for _ in 0..n {
            let pick = rng.below(if timed { 14 } else { 12 });
            match pick {
                0 | 1 | 2 if attached < 4 => {
                    acts.push(Act::Attach { sync: rng.below(3) != 0 });
                    attached += 1;
                }
                3 if !linked => {
                    acts.push(Act::Remote(RMsg::Linked));
                    linked = true;
                }
                4 | 5 if linked && !unlinked => {
                    next_event += 1;
                    // on a value downlink one event in six carries the absent value (an empty body)
                    let n = if !map && rng.below(6) == 0 { ABSENT } else { next_event };
                    acts.push(Act::Remote(RMsg::Event(n)));
                }
                6 if linked && !unlinked => acts.push(Act::Remote(RMsg::Synced)),
                7 | 8 if attached > dropped.len() => {
                    next_cmd += 1;
                    let live: Vec<usize> = (0..attached).filter(|c| !dropped.contains(c)).collect();
                    acts.push(Act::Command(*rng.pick(&live), next_cmd));
                }
                9 => acts.push(Act::RemoteRead),
                12 | 13 => acts.push(Act::Advance(*rng.pick(&[25u64, 70]))),
                11 if attached >= 2 && rng.below(2) == 0 => {
                    // one to three consumers go away at the same moment
                    let mut cs: Vec<usize> = (0..attached).filter(|c| !dropped.contains(c) && rng.below(2) == 0).collect();
                    cs.truncate(3);
                    if !cs.is_empty() {
                        dropped.extend(cs.iter().cloned());
                        acts.push(Act::Drop(cs));
                    }
                }
                10 if linked && !unlinked && rng.below(4) == 0 => {
                    acts.push(Act::Remote(RMsg::Unlinked));
                    unlinked = true;
                }
                _ => {
                    if !linked {
                        acts.push(Act::Remote(RMsg::Linked));
                        linked = true;
                    } else {
                        acts.push(Act::RemoteRead);
                    }
                }
            }
            if !slow_socket && !matches!(acts.last(), Some(Act::RemoteRead)) && matches!(acts.last(), Some(Act::Attach { .. }) | Some(Act::Command(..))) {
                // an attentive remote: everything written is read at once
                acts.push(Act::RemoteRead);
            }
        }
        if slow_socket && rng.below(2) == 0 {
            // the socket stays blocked while commands pile up and a consumer that needs a sync joins
            if attached == 0 {
                acts.push(Act::Attach { sync: true });
                attached += 1;
                acts.push(Act::RemoteRead);
            }
            if !linked {
                acts.push(Act::Remote(RMsg::Linked));
            }
            // (a map downlink gets longer piles with the numbers, and so the keys and kinds of operation, at random)
            let is_map = i % 3 == 2;
            for _ in 0..(if is_map { rng.range(3, 8) } else { rng.range(2, 4) }) {
                next_cmd += if is_map { rng.range(1, 9) as i64 } else { 1 };
                acts.push(Act::Command(rng.usize_below(attached), next_cmd));
            }
            if attached < 4 {
                acts.push(Act::Attach { sync: true });
                attached += 1;
            }
            for _ in 0..(if is_map { rng.range(0, 5) } else { rng.range(0, 2) }) {
                next_cmd += if is_map { rng.range(1, 9) as i64 } else { 1 };
                acts.push(Act::Command(rng.usize_below(attached), next_cmd));
            }
        }
        acts.push(Act::RemoteRead);
        acts.push(Act::RemoteRead);
        if let Some(c) = from_corpus {
            acts = c.1.clone();
        }
        let out = if timed {
            // a clock of its own that only moves when told to
            let prt = tokio::runtime::Builder::new_current_thread().enable_all().start_paused(true).build().unwrap();
            prt.block_on(run_case(map, &acts, if slow_socket { 48 } else { 65536 }, expect_stop))
        } else {
            rt.block_on(run_case(map, &acts, if slow_socket { 48 } else { 65536 }, false))
        };
        // what was not carried out (the runtime stopped of its own accord) is not part of the case
        let stopped_itself = out.executed < acts.len() && out.problem.is_none();
        acts.truncate(out.executed.max(if out.problem.is_some() { acts.len() } else { 0 }));
        let dropped: Vec<usize> = acts.iter().flat_map(|a| match a { Act::Drop(cs) => cs.clone(), _ => vec![] }).collect();
        if timed {
            *kinds.entry("paused_clock".into()).or_default() += 1;
            if stopped_itself || (expect_stop && out.problem.is_none()) {
                *kinds.entry("the_runtime_stopped_of_its_own_accord".into()).or_default() += 1;
            }
        }
        if let Some(p) = &out.problem {
            failures.push(format!("case {}: {} (actions {:?})", i, p, acts));
            continue;
        }
        *kinds.entry(if map { "map".into() } else if slow_socket { "value_slow_socket".into() } else { "value".to_string() }).or_default() += 1;
        let late = acts.iter().position(|a| matches!(a, Act::Remote(RMsg::Linked))).map(|p| acts[p..].iter().any(|a| matches!(a, Act::Attach { .. }))).unwrap_or(false);
        if late {
            *kinds.entry("late_joiner".into()).or_default() += 1;
            nontrivial += 1;
        }
        if !dropped.is_empty() {
            *kinds.entry("consumers_dropped".into()).or_default() += 1;
        }
        if acts.iter().any(|a| matches!(a, Act::Drop(cs) if cs.len() >= 2)) {
            *kinds.entry("two_or_more_dropped_together".into()).or_default() += 1;
        }
        let mut cid = 0usize;
        let revs: Vec<String> = acts
            .iter()
            .filter_map(|a| match a {
                Act::Attach { sync } => {
                    cid += 1;
                    Some(format!("RConsumer {} {}", cid - 1, sync))
                }
                Act::Remote(RMsg::Linked) => Some("RMessage RLinked".into()),
                Act::Remote(RMsg::Synced) => Some("RMessage RSynced".into()),
                Act::Remote(RMsg::Unlinked) => Some("RMessage RUnlinked".into()),
                Act::Remote(RMsg::Event(n)) => Some(format!("RMessage (REvent ({})%Z)", n)),
                _ => None,
            })
            .collect();
        let frames: Vec<String> = out
            .frames
            .iter()
            .map(|f| match f {
                Frame::Link => "FLink".to_string(),
                Frame::Sync => "FSync".to_string(),
                Frame::Unlink => "FLink".to_string(),
                Frame::Command(n) => format!("FCommand ({})%Z", n),
            })
            .collect();
        let term = format!(
            "{{| dc_single := {}; dc_revs := {}; dc_seen := {}; dc_dropped := {}; dc_wevs := {}; dc_frames := {}; dc_check_frames := {}; dc_drained := {} |}}",
            !map,
            coq_list(revs),
            coq_list(out.seen.iter().enumerate().map(|(c, l)| format!("({}, {})", c, coq_list(l.iter().map(coq_note))))),
            coq_list(dropped.iter().map(|c| c.to_string())),
            coq_list(out.wevs.iter().cloned()),
            coq_list(frames),
            !timed && !slow_socket && !map && !acts.iter().any(|a| matches!(a, Act::Remote(RMsg::Unlinked))),
            !(timed && (stopped_itself || expect_stop)) && !acts.iter().any(|a| matches!(a, Act::Remote(RMsg::Unlinked)))
        );
        let human = format!("map={} slow_socket={} actions {:?} -> consumers {:?} remote {:?}", map, slow_socket, acts, out.seen, out.frames);
        if samples.len() < 3 && late {
            samples.push(J::s(human.chars().take(700).collect::<String>()));
        }
        w.push(term, human);
    }
    w.finish(&args.out, "cases").unwrap();
    failures.sort();
    failures.dedup();
    let meta = J::obj(vec![
        ("evaluations", J::I(w.len() as i128)),
        ("distinct_nontrivial", J::I(nontrivial as i128)),
        ("rule", J::s("sessions of 4-16 actions against the real ValueDownlinkRuntime (two thirds) / MapDownlinkRuntime: up to four consumers attach at generated moments with or without SYNC, one to three of them go away together at generated moments (what a consumer that went away had seen must be a prefix of its session; the others' sessions must be unaffected), the simulated remote sends linked / events / synced / unlinked at generated moments, consumers send commands, the remote reads the socket either at once or (a quarter of the value cases, half of the map cases, 48 byte socket buffer) only now and then; map commands are updates, removes and clears on three keys (per key and across a clear the operations sent must be, in order, operations given, and once everything is read the remote's replica must be the one all the operations given produce); what every consumer was told must be what the model's read task produces; what the remote received must be what the model's write task sends (attentive remote) and always satisfy the oracle (link first, commands a subsequence in order, sessions well formed, events in order); non-trivial = a consumer joined after the link was up")),
        ("structures", J::counts(&kinds)),
        ("samples", J::A(samples)),
        ("direct_failures", J::A(failures.iter().take(40).map(|f| J::s(f.chars().take(600).collect::<String>())).collect())),
        ("direct_failure_count", J::I(failures.len() as i128)),
    ]);
    write_meta(&args.out, "meta.json", &meta);
}
