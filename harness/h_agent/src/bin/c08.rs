//! C08: value and map downlinks, stand-alone client (swimos_downlink tasks) and agent-hosted
//! (HostedMapDownlink / HostedValueDownlink), driven with notification sequences through their byte
//! channels; every lifecycle callback is recorded with its arguments.

use std::cell::RefCell;
use std::collections::{BTreeMap, BTreeSet, HashMap};
use std::num::NonZeroUsize;
use std::sync::Arc;

use bytes::BytesMut;
use futures::{FutureExt, SinkExt};
use parking_lot::Mutex;
use swimos_agent::agent_model::downlink::verif_hooks::{MapDownlinkFactory, ValueDownlinkFactory};
use swimos_agent::agent_model::downlink::{BoxDownlinkChannel, DownlinkChannelEvent, DownlinkChannelFactory};
use swimos_agent::agent_model::AgentDescription;
use swimos_agent::config::{MapDownlinkConfig, SimpleDownlinkConfig};
use swimos_agent::downlink_lifecycle::{
    OnDownlinkClear, OnDownlinkEvent, OnDownlinkRemove, OnDownlinkSet, OnDownlinkUpdate, OnFailed, OnLinked, OnSynced,
    OnUnlinked,
};
use swimos_agent::event_handler::{
    ActionContext, DownlinkSpawnOnDone, HandlerAction, HandlerActionExt, HandlerFuture, LaneSpawnOnDone, LaneSpawner,
    LinkSpawner, LocalBoxEventHandler, SideEffect, Spawner, StepResult,
};
use swimos_agent::AgentMetadata;
use swimos_agent_protocol::encoding::downlink::DownlinkNotificationEncoder;
use swimos_agent_protocol::encoding::map::MapMessageEncoder;
use swimos_agent_protocol::{DownlinkNotification, MapMessage, MapOperation};
use swimos_api::address::Address;
use swimos_api::agent::AgentConfig;
use swimos_client_api::{Downlink, DownlinkConfig};
use swimos_downlink::lifecycle::{BasicMapDownlinkLifecycle, BasicValueDownlinkLifecycle};
use swimos_downlink::{DownlinkTask, MapDownlinkModel, ValueDownlinkModel, ValueDownlinkSet};
use swimos_model::Text;
use swimos_route::RouteUri;
use swimos_utilities::byte_channel::{byte_channel, ByteWriter};
use swimos_utilities::{circular_buffer, trigger};
use tokio::sync::mpsc;
use tokio_util::codec::{Encoder, FramedWrite};
use vcore::*;

const BUF: usize = 1 << 16;

// ---------------------------------------------------------------------------------------------
#[derive(Clone, Debug)]
enum Msg {
    Update(i32, i32),
    Remove(i32),
    Clear,
    Take(u64),
    Drop(u64),
}
#[derive(Clone, Debug)]
enum Note {
    Linked,
    Synced,
    Event(Msg),
    Unlinked,
    Local(Msg),
}
impl Msg {
    fn coq(&self) -> String {
        match self {
            Msg::Update(k, v) => format!("(MUpdate {} {})", k, v),
            Msg::Remove(k) => format!("(MRemove {})", k),
            Msg::Clear => "MClear".into(),
            Msg::Take(n) => format!("(MTake {})", n),
            Msg::Drop(n) => format!("(MDrop {})", n),
        }
    }
    fn to_message(&self) -> MapMessage<i32, i32> {
        match self {
            Msg::Update(k, v) => MapMessage::Update { key: *k, value: *v },
            Msg::Remove(k) => MapMessage::Remove { key: *k },
            Msg::Clear => MapMessage::Clear,
            Msg::Take(n) => MapMessage::Take(*n),
            Msg::Drop(n) => MapMessage::Drop(*n),
        }
    }
    fn to_operation(&self) -> MapOperation<i32, i32> {
        match self {
            Msg::Update(k, v) => MapOperation::Update { key: *k, value: *v },
            Msg::Remove(k) => MapOperation::Remove { key: *k },
            _ => MapOperation::Clear,
        }
    }
}
impl Note {
    fn coq(&self) -> String {
        match self {
            Note::Linked => "NLinked".into(),
            Note::Synced => "NSynced".into(),
            Note::Event(m) => format!("NEvent {}", m.coq()),
            Note::Unlinked => "NUnlinked".into(),
            Note::Local(m) => format!("NLocal {}", m.coq()),
        }
    }
}

fn kv_coq<'a, I: IntoIterator<Item = (&'a i32, &'a i32)>>(it: I) -> String {
    let mut v: Vec<(i32, i32)> = it.into_iter().map(|(k, v)| (*k, *v)).collect();
    v.sort();
    coq_list(v.into_iter().map(|(k, v)| format!("({}, {})", k, v)))
}
fn opt_coq(o: Option<i32>) -> String {
    match o {
        Some(v) => format!("(Some {})", v),
        None => "None".into(),
    }
}

type Rec = Arc<Mutex<Vec<String>>>;

struct MapWriter {
    sender: FramedWrite<ByteWriter, DownlinkNotificationEncoder>,
    encoder: MapMessageEncoder,
    buffer: BytesMut,
}
impl MapWriter {
    fn new(w: ByteWriter) -> Self {
        MapWriter { sender: FramedWrite::new(w, Default::default()), encoder: Default::default(), buffer: BytesMut::new() }
    }
    async fn send(&mut self, n: &Note) -> bool {
        let frame = match n {
            Note::Linked => DownlinkNotification::Linked,
            Note::Synced => DownlinkNotification::Synced,
            Note::Unlinked => DownlinkNotification::Unlinked,
            Note::Event(m) => {
                self.encoder.encode(m.to_message(), &mut self.buffer).expect("encoding failed");
                DownlinkNotification::Event { body: self.buffer.split().freeze() }
            }
            Note::Local(_) => unreachable!(),
        };
        self.sender.send(frame).await.is_ok()
    }
}

async fn quiesce() {
    for _ in 0..48 {
        tokio::task::yield_now().await;
    }
}

/// What happens around the downlink that the lifecycle must not be able to tell: the downlink's own
/// handle is dropped (the client tasks then only read), the far end of the output channel goes away (the next
/// write fails), a value downlink is set locally.
#[derive(Clone, Debug, Default)]
struct Env {
    drop_handle_at: Option<usize>,
    close_out_at: Option<usize>,
    local_sets_at: Vec<usize>,
}

fn gen_env(rng: &mut Rng, len: usize) -> Env {
    let mut e = Env::default();
    match rng.below(6) {
        0 => e.drop_handle_at = Some(0),
        1 => e.drop_handle_at = Some(rng.usize_below(len + 1)),
        _ => {}
    }
    if rng.below(6) == 0 {
        e.close_out_at = Some(rng.usize_below(len + 1));
    }
    if rng.below(3) == 0 {
        for _ in 0..rng.range(1, 4) {
            e.local_sets_at.push(rng.usize_below(len + 1));
        }
    }
    e
}

// ---- client map ----
async fn run_client_map(ewns: bool, tou: bool, notes: &[Note], env: &Env) -> Vec<Vec<String>> {
    let rec: Rec = Default::default();
    let lifecycle = BasicMapDownlinkLifecycle::<i32, i32>::default()
        .with(rec.clone())
        .on_linked_blocking(|r| r.lock().push("CLinked".into()))
        .on_synced_blocking(|r, map| r.lock().push(format!("CSynced {}", kv_coq(map.iter()))))
        .on_update_blocking(|r, key, map, old, new| {
            r.lock().push(format!("CUpdate {} {} {} {}", key, kv_coq(map.iter()), opt_coq(old), new))
        })
        .on_removed_blocking(|r, key, map, removed| r.lock().push(format!("CRemove {} {} {}", key, kv_coq(map.iter()), removed)))
        .on_clear_blocking(|r, old| r.lock().push(format!("CClear {}", kv_coq(old.iter()))))
        .on_unlink_blocking(|r| r.lock().push("CUnlinked".into()));
    let (set_tx, set_rx) = mpsc::channel::<MapOperation<i32, i32>>(64);
    let model = MapDownlinkModel::new(set_rx, lifecycle);
    let (in_tx, in_rx) = byte_channel(NonZeroUsize::new(BUF).unwrap());
    let (out_tx, out_rx) = byte_channel(NonZeroUsize::new(BUF).unwrap());
    let config = DownlinkConfig { events_when_not_synced: ewns, terminate_on_unlinked: tou, buffer_size: NonZeroUsize::new(1024).unwrap() };
    let task = tokio::spawn(DownlinkTask::new(model).run(Address::text(None, "/node", "lane"), config, in_rx, out_tx));
    let mut writer = MapWriter::new(in_tx);
    let mut outs = vec![];
    let mut sink = [0u8; 4096];
    let mut set_tx = Some(set_tx);
    let mut out_rx = Some(out_rx);
    for (i, n) in notes.iter().enumerate() {
        if env.drop_handle_at == Some(i) {
            set_tx = None;
            quiesce().await;
        }
        if env.close_out_at == Some(i) {
            out_rx = None;
        }
        match n {
            Note::Local(m) => {
                if let Some(tx) = &set_tx {
                    let _ = tx.send(m.to_operation()).await;
                }
            }
            n => {
                let _ = writer.send(n).await;
            }
        }
        quiesce().await;
        // keep the output channel drained
        if let Some(out_rx) = out_rx.as_mut() {
            while let Some(Ok(k)) = tokio::io::AsyncReadExt::read(out_rx, &mut sink).now_or_never() {
                if k == 0 {
                    break;
                }
            }
        }
        outs.push(std::mem::take(&mut *rec.lock()));
    }
    task.abort();
    outs
}

// ---- hosted ----
struct NoSpawn;
impl<C> Spawner<C> for NoSpawn {
    fn spawn_suspend(&self, _: HandlerFuture<C>) {
        panic!("no suspended futures expected");
    }
    fn schedule_timer(&self, _at: tokio::time::Instant, _id: u64) {
        panic!("no timer expected");
    }
}
impl<C> LinkSpawner<C> for NoSpawn {
    fn spawn_downlink(
        &self,
        _path: Address<Text>,
        _make_channel: swimos_agent::agent_model::downlink::BoxDownlinkChannelFactory<C>,
        _on_done: DownlinkSpawnOnDone<C>,
    ) {
        panic!("no downlinks expected");
    }
    fn register_commander(&self, _path: Address<Text>) -> Result<u16, swimos_api::error::CommanderRegistrationError> {
        panic!("no commanders expected");
    }
}
impl<C> LaneSpawner<C> for NoSpawn {
    fn spawn_warp_lane(
        &self,
        _name: &str,
        _kind: swimos_api::agent::WarpLaneKind,
        _on_done: LaneSpawnOnDone<C>,
    ) -> Result<(), swimos_api::error::DynamicRegistrationError> {
        panic!("no lanes expected");
    }
}

struct FakeAgent;
impl AgentDescription for FakeAgent {}

fn run_handler<H: HandlerAction<FakeAgent>>(mut h: H, agent: &FakeAgent) {
    let uri: RouteUri = "/node".parse().unwrap();
    let params = HashMap::new();
    let config = AgentConfig::default();
    let meta = AgentMetadata::new(&uri, &params, &config);
    let mut join = HashMap::new();
    let mut cmd = BytesMut::new();
    let sp = NoSpawn;
    let mut ctx = ActionContext::new(&sp, &sp, &sp, &mut join, &mut cmd);
    for _ in 0..100_000 {
        match h.step(&mut ctx, meta, agent) {
            StepResult::Continue { .. } => {}
            StepResult::Fail(e) => panic!("handler failed: {:?}", e),
            StepResult::Complete { .. } => return,
        }
    }
    panic!("handler did not complete");
}

struct RecLc {
    rec: Rec,
    value: bool,
}
macro_rules! side {
    ($self:ident, $s:expr) => {{
        let s: String = $s;
        SideEffect::from(move || {
            $self.rec.lock().push(s);
        })
        .boxed_local()
    }};
}
impl OnLinked<FakeAgent> for RecLc {
    type OnLinkedHandler<'a> = LocalBoxEventHandler<'a, FakeAgent> where Self: 'a;
    fn on_linked(&self) -> Self::OnLinkedHandler<'_> {
        side!(self, if self.value { "VCLinked".to_string() } else { "CLinked".to_string() })
    }
}
impl OnUnlinked<FakeAgent> for RecLc {
    type OnUnlinkedHandler<'a> = LocalBoxEventHandler<'a, FakeAgent> where Self: 'a;
    fn on_unlinked(&self) -> Self::OnUnlinkedHandler<'_> {
        side!(self, if self.value { "VCUnlinked".to_string() } else { "CUnlinked".to_string() })
    }
}
impl OnFailed<FakeAgent> for RecLc {
    type OnFailedHandler<'a> = LocalBoxEventHandler<'a, FakeAgent> where Self: 'a;
    fn on_failed(&self) -> Self::OnFailedHandler<'_> {
        side!(self, "CFailed".to_string())
    }
}
impl OnSynced<HashMap<i32, i32>, FakeAgent> for RecLc {
    type OnSyncedHandler<'a> = LocalBoxEventHandler<'a, FakeAgent> where Self: 'a;
    fn on_synced<'a>(&'a self, value: &HashMap<i32, i32>) -> Self::OnSyncedHandler<'a> {
        side!(self, format!("CSynced {}", kv_coq(value.iter())))
    }
}
impl OnDownlinkUpdate<i32, i32, HashMap<i32, i32>, FakeAgent> for RecLc {
    type OnUpdateHandler<'a> = LocalBoxEventHandler<'a, FakeAgent> where Self: 'a;
    fn on_update<'a>(&'a self, key: i32, map: &HashMap<i32, i32>, previous: Option<i32>, new_value: &i32) -> Self::OnUpdateHandler<'a> {
        side!(self, format!("CUpdate {} {} {} {}", key, kv_coq(map.iter()), opt_coq(previous), new_value))
    }
}
impl OnDownlinkRemove<i32, i32, HashMap<i32, i32>, FakeAgent> for RecLc {
    type OnRemoveHandler<'a> = LocalBoxEventHandler<'a, FakeAgent> where Self: 'a;
    fn on_remove<'a>(&'a self, key: i32, map: &HashMap<i32, i32>, removed: i32) -> Self::OnRemoveHandler<'a> {
        side!(self, format!("CRemove {} {} {}", key, kv_coq(map.iter()), removed))
    }
}
impl OnDownlinkClear<HashMap<i32, i32>, FakeAgent> for RecLc {
    type OnClearHandler<'a> = LocalBoxEventHandler<'a, FakeAgent> where Self: 'a;
    fn on_clear(&self, map: HashMap<i32, i32>) -> Self::OnClearHandler<'_> {
        side!(self, format!("CClear {}", kv_coq(map.iter())))
    }
}
impl OnSynced<i32, FakeAgent> for RecLc {
    type OnSyncedHandler<'a> = LocalBoxEventHandler<'a, FakeAgent> where Self: 'a;
    fn on_synced<'a>(&'a self, value: &i32) -> Self::OnSyncedHandler<'a> {
        side!(self, format!("VCSynced {}", value))
    }
}
impl OnDownlinkEvent<i32, FakeAgent> for RecLc {
    type OnEventHandler<'a> = LocalBoxEventHandler<'a, FakeAgent> where Self: 'a;
    fn on_event<'a>(&'a self, value: &i32) -> Self::OnEventHandler<'a> {
        side!(self, format!("VCEvent {}", value))
    }
}
impl OnDownlinkSet<i32, FakeAgent> for RecLc {
    type OnSetHandler<'a> = LocalBoxEventHandler<'a, FakeAgent> where Self: 'a;
    fn on_set<'a>(&'a self, previous: Option<i32>, new_value: &i32) -> Self::OnSetHandler<'a> {
        side!(self, format!("VCSet {} {}", opt_coq(previous), new_value))
    }
}

/// Drive a hosted channel until it has nothing ready; returns false once it has terminated.
async fn pump(chan: &mut BoxDownlinkChannel<FakeAgent>, agent: &FakeAgent) -> bool {
    let mut idle = 0;
    while idle < 3 {
        match chan.await_ready().now_or_never() {
            Some(Some(Ok(DownlinkChannelEvent::HandlerReady))) | Some(Some(Err(_))) => {
                if let Some(h) = chan.next_event(agent) {
                    run_handler(h, agent);
                }
                idle = 0;
            }
            Some(Some(Ok(_))) => {
                idle = 0;
            }
            Some(None) => return false,
            None => {
                idle += 1;
                quiesce().await;
            }
        }
    }
    true
}

async fn run_hosted_map(ewns: bool, tou: bool, notes: &[Note], env: &Env) -> Vec<Vec<String>> {
    let agent = FakeAgent;
    let rec: Rec = Default::default();
    let lc = RecLc { rec: rec.clone(), value: false };
    let (in_tx, in_rx) = byte_channel(NonZeroUsize::new(BUF).unwrap());
    let (out_tx, out_rx) = byte_channel(NonZeroUsize::new(BUF).unwrap());
    let (_stop_tx, stop_rx) = trigger::trigger();
    let (write_tx, write_rx) = mpsc::unbounded_channel::<MapOperation<i32, i32>>();
    let mut write_tx = Some(write_tx);
    let mut out_rx = Some(out_rx);
    let config = MapDownlinkConfig { events_when_not_synced: ewns, terminate_on_unlinked: tou };
    let fac = MapDownlinkFactory::<i32, i32, HashMap<i32, i32>, _>::new(Address::text(None, "/node", "lane"), lc, config, stop_rx, write_rx);
    let mut chan = fac.create(&agent, out_tx, in_rx);
    let mut writer = MapWriter::new(in_tx);
    let mut outs = vec![];
    let mut alive = true;
    let mut sink = [0u8; 4096];
    for (i, n) in notes.iter().enumerate() {
        if env.drop_handle_at == Some(i) {
            write_tx = None;
            if alive {
                alive = pump(&mut chan, &agent).await;
            }
        }
        if env.close_out_at == Some(i) {
            out_rx = None;
        }
        if alive {
            match n {
                Note::Local(m) => {
                    if let Some(tx) = &write_tx {
                        let _ = tx.send(m.to_operation());
                    }
                }
                n => {
                    let _ = writer.send(n).await;
                }
            }
            alive = pump(&mut chan, &agent).await;
            if let Some(out_rx) = out_rx.as_mut() {
                while let Some(Ok(k)) = tokio::io::AsyncReadExt::read(out_rx, &mut sink).now_or_never() {
                    if k == 0 {
                        break;
                    }
                }
            }
        }
        outs.push(std::mem::take(&mut *rec.lock()));
    }
    outs
}

// ---- value ----
#[derive(Clone, Debug)]
enum VNote {
    Linked,
    Synced,
    Event(i32),
    Unlinked,
}
impl VNote {
    fn coq(&self) -> String {
        match self {
            VNote::Linked => "VLinked".into(),
            VNote::Synced => "VSynced".into(),
            VNote::Event(v) => format!("VEvent {}", v),
            VNote::Unlinked => "VUnlinked".into(),
        }
    }
    fn frame(&self) -> DownlinkNotification<Vec<u8>> {
        match self {
            VNote::Linked => DownlinkNotification::Linked,
            VNote::Synced => DownlinkNotification::Synced,
            VNote::Event(v) => DownlinkNotification::Event { body: v.to_string().into_bytes() },
            VNote::Unlinked => DownlinkNotification::Unlinked,
        }
    }
}

async fn run_client_value(ewns: bool, tou: bool, notes: &[VNote], env: &Env) -> Vec<Vec<String>> {
    let rec: Rec = Default::default();
    let lifecycle = BasicValueDownlinkLifecycle::<i32>::default()
        .with(rec.clone())
        .on_linked_blocking(|r| r.lock().push("VCLinked".into()))
        .on_synced_blocking(|r, v| r.lock().push(format!("VCSynced {}", v)))
        .on_event_blocking(|r, v| r.lock().push(format!("VCEvent {}", v)))
        .on_set_blocking(|r, before, after| r.lock().push(format!("VCSet {} {}", opt_coq(before.copied()), after)))
        .on_unlinked_blocking(|r| r.lock().push("VCUnlinked".into()));
    let (set_tx, set_rx) = mpsc::channel::<ValueDownlinkSet<i32>>(16);
    let model = ValueDownlinkModel::new(set_rx, lifecycle);
    let (in_tx, in_rx) = byte_channel(NonZeroUsize::new(BUF).unwrap());
    let (out_tx, out_rx) = byte_channel(NonZeroUsize::new(BUF).unwrap());
    let mut set_tx = Some(set_tx);
    let mut out_rx = Some(out_rx);
    let config = DownlinkConfig { events_when_not_synced: ewns, terminate_on_unlinked: tou, buffer_size: NonZeroUsize::new(1024).unwrap() };
    let task = tokio::spawn(DownlinkTask::new(model).run(Address::text(None, "/node", "lane"), config, in_rx, out_tx));
    let mut sender = FramedWrite::new(in_tx, DownlinkNotificationEncoder::default());
    let mut outs = vec![];
    for (i, n) in notes.iter().enumerate() {
        if env.drop_handle_at == Some(i) {
            set_tx = None;
            quiesce().await;
        }
        if env.close_out_at == Some(i) {
            out_rx = None;
        }
        if let Some(tx) = &set_tx {
            for _ in env.local_sets_at.iter().filter(|k| **k == i) {
                let _ = tx.try_send(ValueDownlinkSet { to: 1000 + i as i32 });
            }
            quiesce().await;
        }
        let _ = sender.send(n.frame()).await;
        quiesce().await;
        outs.push(std::mem::take(&mut *rec.lock()));
    }
    drop(out_rx);
    task.abort();
    outs
}

async fn run_hosted_value(ewns: bool, tou: bool, notes: &[VNote], env: &Env) -> Vec<Vec<String>> {
    let agent = FakeAgent;
    let rec: Rec = Default::default();
    let lc = RecLc { rec: rec.clone(), value: true };
    let (in_tx, in_rx) = byte_channel(NonZeroUsize::new(BUF).unwrap());
    let (out_tx, out_rx) = byte_channel(NonZeroUsize::new(BUF).unwrap());
    let (_stop_tx, stop_rx) = trigger::trigger();
    let (write_tx, write_rx) = circular_buffer::channel::<i32>(NonZeroUsize::new(8).unwrap());
    let mut write_tx = Some(write_tx);
    let mut out_rx = Some(out_rx);
    let config = SimpleDownlinkConfig { events_when_not_synced: ewns, terminate_on_unlinked: tou };
    let state: RefCell<Option<i32>> = RefCell::new(None);
    let fac = ValueDownlinkFactory::new(Address::text(None, "/node", "lane"), lc, state, config, stop_rx, write_rx);
    let mut chan: BoxDownlinkChannel<FakeAgent> = fac.create(&agent, out_tx, in_rx);
    let mut sender = FramedWrite::new(in_tx, DownlinkNotificationEncoder::default());
    let mut outs = vec![];
    let mut alive = true;
    for (i, n) in notes.iter().enumerate() {
        if env.drop_handle_at == Some(i) {
            write_tx = None;
            if alive {
                alive = pump(&mut chan, &agent).await;
            }
        }
        if env.close_out_at == Some(i) {
            out_rx = None;
        }
        if alive {
            if let Some(tx) = write_tx.as_mut() {
                for _ in env.local_sets_at.iter().filter(|k| **k == i) {
                    let _ = tx.try_send(1000 + i as i32);
                }
                alive = pump(&mut chan, &agent).await;
            }
        }
        if alive {
            let _ = sender.send(n.frame()).await;
            alive = pump(&mut chan, &agent).await;
        }
        outs.push(std::mem::take(&mut *rec.lock()));
    }
    drop(out_rx);
    outs
}

// ---------------------------------------------------------------------------------------------
fn gen_msg(rng: &mut Rng, nkeys: u64) -> Msg {
    match rng.below(20) {
        0..=1 => Msg::Clear,
        2..=3 => Msg::Take(rng.below(nkeys + 2)),
        4..=5 => Msg::Drop(rng.below(nkeys + 2)),
        6..=9 => Msg::Remove(key_at(rng.below(nkeys))),
        _ => Msg::Update(key_at(rng.below(nkeys)), rng.below(50) as i32),
    }
}

/// A sequence a well-behaved lane can produce, with local writes sprinkled in.
fn gen_legal(rng: &mut Rng, nkeys: u64, len: usize, locals: bool) -> Vec<Note> {
    let mut out = vec![];
    let mut state = 0; // 0 unlinked, 1 linked, 2 synced
    while out.len() < len {
        if locals && rng.below(8) == 0 {
            let m = match rng.below(5) {
                0 => Msg::Clear,
                1 => Msg::Remove(key_at(rng.below(nkeys))),
                _ => Msg::Update(key_at(rng.below(nkeys)), 100 + rng.below(50) as i32),
            };
            out.push(Note::Local(m));
            continue;
        }
        match state {
            0 => {
                out.push(Note::Linked);
                state = 1;
            }
            1 => match rng.below(10) {
                0 => {
                    out.push(Note::Unlinked);
                    state = 0;
                }
                1..=2 => {
                    out.push(Note::Synced);
                    state = 2;
                }
                _ => out.push(Note::Event(gen_msg(rng, nkeys))),
            },
            _ => match rng.below(12) {
                0 => {
                    out.push(Note::Unlinked);
                    state = 0;
                }
                _ => out.push(Note::Event(gen_msg(rng, nkeys))),
            },
        }
    }
    out
}

fn gen_any(rng: &mut Rng, nkeys: u64, len: usize) -> Vec<Note> {
    (0..len)
        .map(|_| match rng.below(8) {
            0 => Note::Linked,
            1 => Note::Synced,
            2 => Note::Unlinked,
            _ => Note::Event(gen_msg(rng, nkeys)),
        })
        .collect()
}

fn gen_vlegal(rng: &mut Rng, len: usize) -> Vec<VNote> {
    let mut out = vec![];
    let mut state = 0; // 0 unlinked, 1 linked no value, 2 linked with value, 3 synced
    while out.len() < len {
        match state {
            0 => {
                out.push(VNote::Linked);
                state = 1;
            }
            1 => {
                if rng.below(8) == 0 {
                    out.push(VNote::Unlinked);
                    state = 0;
                } else {
                    out.push(VNote::Event(rng.below(50) as i32));
                    state = 2;
                }
            }
            2 => match rng.below(6) {
                0 => {
                    out.push(VNote::Unlinked);
                    state = 0;
                }
                1..=2 => {
                    out.push(VNote::Synced);
                    state = 3;
                }
                _ => out.push(VNote::Event(rng.below(50) as i32)),
            },
            _ => match rng.below(8) {
                0 => {
                    out.push(VNote::Unlinked);
                    state = 0;
                }
                _ => out.push(VNote::Event(rng.below(50) as i32)),
            },
        }
    }
    out
}

/// The keys of the map downlinks: their numeric order is not the order of their texts ("10" < "2" < "9").
fn key_at(i: u64) -> i32 {
    [-1, 10, 2, 33, 9, 0, 100, 25][(i % 8) as usize]
}

fn main() {
    let args = parse_args();
    silence_panics();
    let mut rng = Rng::new(args.seed ^ 0xc08);
    let mut w = CaseWriter::new(
        "From SwimV Require Import Model.Downlink.\nOpen Scope N_scope.",
        "dcase",
        &["dl_corr_bad", "dl_oracle_bad", "dl_known"],
        args.shards,
    );
    let rt = tokio::runtime::Builder::new_current_thread().enable_time().build().unwrap();
    let mut kinds: BTreeMap<String, u64> = BTreeMap::new();
    let mut distinct = BTreeSet::new();
    let mut nontrivial = 0u64;
    let mut samples = vec![];

    // integer keys are printed shifted by one so that key -1 is representable in N
    let shift = |s: String| s;
    let _ = shift;

    let cfg_coq = |ewns: bool, tou: bool| format!("{{| events_when_not_synced := {}; terminate_on_unlinked := {} |}}", ewns, tou);
    let render = |outs: &Vec<Vec<String>>| coq_list(outs.iter().map(|cs| coq_list(cs.iter().cloned())));

    let mut emit_map = |hosted: bool, ewns: bool, tou: bool, notes: &[Note], legal: bool, env: &Env, w: &mut CaseWriter| {
        // keys are offset by +1 in the Coq term (keys range over -1..): done by generating keys >= 0 only
        let notes2 = notes.to_vec();
        let outs = catch(std::panic::AssertUnwindSafe(|| {
            if hosted {
                rt.block_on(run_hosted_map(ewns, tou, &notes2, env))
            } else {
                rt.block_on(run_client_map(ewns, tou, &notes2, env))
            }
        }))
        .unwrap_or_else(|m| vec![vec![format!("CLinked (* PANIC {} *)", m.replace("*)", "* )"))]]);
        let term = format!(
            "CaseMap {} {} {} {}",
            if hosted { "Hosted" } else { "Client" },
            cfg_coq(ewns, tou),
            coq_list(notes.iter().map(|n| n.coq())),
            render(&outs)
        );
        let human = format!("map[{}] ewns={} tou={} env={:?} notes={:?} callbacks={:?}", if hosted { "hosted" } else { "client" }, ewns, tou, env, notes, outs);
        *kinds.entry(format!("map_{}_{}", if hosted { "hosted" } else { "client" }, if legal { "legal" } else { "any" })).or_default() += 1;
        if env.drop_handle_at.is_some() {
            *kinds.entry("map_handle_dropped".into()).or_default() += 1;
        }
        if env.close_out_at.is_some() {
            *kinds.entry("map_output_closed".into()).or_default() += 1;
        }
        let nt = legal && !ewns && human.contains("Take") && human.contains("CSynced");
        if distinct.insert(human.clone()) && nt {
            nontrivial += 1;
            if samples.len() < 3 {
                samples.push(J::s(human.chars().take(700).collect::<String>()));
            }
        }
        w.push(term, human);
    };

    // corpus
    let up = |k, v| Note::Event(Msg::Update(k, v));
    for hosted in [false, true] {
        // clear before sync with callbacks suppressed must still clear
        emit_map(hosted, false, false, &[Note::Linked, up(1, 1), up(2, 2), Note::Event(Msg::Clear), up(3, 3), Note::Synced], true, &Env::default(), &mut w);
        // take / drop before sync with callbacks suppressed; then after sync
        emit_map(hosted, false, false, &[Note::Linked, up(1, 1), up(2, 2), up(3, 3), Note::Event(Msg::Take(2)), Note::Synced, up(4, 4), up(5, 5), Note::Event(Msg::Drop(1)), Note::Event(Msg::Take(1))], true, &Env::default(), &mut w);
        // local writes do not touch the state
        emit_map(hosted, true, false, &[Note::Linked, up(1, 1), Note::Synced, Note::Local(Msg::Update(1, 7)), up(1, 7), Note::Local(Msg::Remove(1)), Note::Event(Msg::Remove(1))], true, &Env::default(), &mut w);
    }

    for i in 0..args.cases {
        let hosted = i % 2 == 1;
        let ewns = rng.below(2) == 0;
        let tou = rng.below(3) == 0;
        let nkeys = rng.range(2, 5);
        let len = rng.range(3, 30) as usize;
        let legal = rng.below(5) != 0;
        let structured = legal && rng.below(3) == 0;
        let notes: Vec<Note> = if structured {
            // fill the map while linked, reshape it before sync, then sync and observe
            let k = rng.range(2, 6);
            let mut ns = vec![Note::Linked];
            for key in 0..k {
                ns.push(Note::Event(Msg::Update(key_at(key), rng.below(50) as i32)));
            }
            for _ in 0..rng.range(1, 3) {
                ns.push(Note::Event(match rng.below(6) {
                    0 => Msg::Clear,
                    1..=2 => Msg::Take(rng.below(k + 2)),
                    3..=4 => Msg::Drop(rng.below(k + 2)),
                    _ => Msg::Remove(key_at(rng.below(k))),
                }));
            }
            ns.push(Note::Synced);
            for _ in 0..rng.range(1, 5) {
                ns.push(Note::Event(gen_msg(&mut rng, k)));
            }
            ns
        } else if legal {
            gen_legal(&mut rng, nkeys, len, true)
        } else {
            gen_any(&mut rng, nkeys, len)
        };
        // keys must be >= 0 for the N-valued model
        let notes: Vec<Note> = notes
            .into_iter()
            .map(|n| {
                let fix = |m: Msg| match m {
                    Msg::Update(k, v) => Msg::Update(k + 1, v),
                    Msg::Remove(k) => Msg::Remove(k + 1),
                    m => m,
                };
                match n {
                    Note::Event(m) => Note::Event(fix(m)),
                    Note::Local(m) => Note::Local(fix(m)),
                    n => n,
                }
            })
            .collect();
        let env = gen_env(&mut rng, notes.len());
        emit_map(hosted, ewns, tou, &notes, legal, &env, &mut w);
    }

    // value downlinks
    for i in 0..args.cases / 2 {
        let hosted = i % 2 == 1;
        let ewns = rng.below(2) == 0;
        let tou = rng.below(3) == 0;
        let len = rng.range(3, 25) as usize;
        let legal = rng.below(5) != 0;
        let notes: Vec<VNote> = if legal {
            gen_vlegal(&mut rng, len)
        } else {
            (0..len)
                .map(|_| match rng.below(6) {
                    0 => VNote::Linked,
                    1 => VNote::Synced,
                    2 => VNote::Unlinked,
                    _ => VNote::Event(rng.below(50) as i32),
                })
                .collect()
        };
        let notes2 = notes.clone();
        let env = gen_env(&mut rng, notes.len());
        if env.drop_handle_at.is_some() {
            *kinds.entry("value_handle_dropped".into()).or_default() += 1;
        }
        if env.close_out_at.is_some() {
            *kinds.entry("value_output_closed".into()).or_default() += 1;
        }
        if !env.local_sets_at.is_empty() {
            *kinds.entry("value_local_sets".into()).or_default() += 1;
        }
        let outs = catch(std::panic::AssertUnwindSafe(|| {
            if hosted {
                rt.block_on(run_hosted_value(ewns, tou, &notes2, &env))
            } else {
                rt.block_on(run_client_value(ewns, tou, &notes2, &env))
            }
        }))
        .unwrap_or_else(|m| vec![vec![format!("VCLinked (* PANIC {} *)", m.replace("*)", "* )"))]]);
        let term = format!(
            "CaseValue {} {} {} {}",
            if hosted { "Hosted" } else { "Client" },
            cfg_coq(ewns, tou),
            coq_list(notes.iter().map(|n| n.coq())),
            render(&outs)
        );
        let human = format!("value[{}] ewns={} tou={} env={:?} notes={:?} callbacks={:?}", if hosted { "hosted" } else { "client" }, ewns, tou, env, notes, outs);
        *kinds.entry(format!("value_{}_{}", if hosted { "hosted" } else { "client" }, if legal { "legal" } else { "any" })).or_default() += 1;
        if distinct.insert(human.clone()) && legal && !ewns && human.contains("VCSynced") {
            nontrivial += 1;
        }
        w.push(term, human);
    }

    w.finish(&args.out, "cases").unwrap();
    let meta = J::obj(vec![
        ("evaluations", J::I(w.len() as i128)),
        ("distinct_nontrivial", J::I(nontrivial as i128)),
        ("rule", J::s("notification sequences fed through the byte channels of the real client downlink tasks (swimos_downlink DownlinkTask::run, map and value) and of the real hosted downlinks (MapDownlinkFactory / ValueDownlinkFactory channels driven by await_ready / next_event, handlers stepped to completion), all four settings of events_when_not_synced x terminate_on_unlinked, 80% legal sequences (linked, events incl. take/drop/clear over 2-5 keys, optional synced, events, unlinked, relink) with local writes through the downlink's own handle interleaved (maps: in the sequence; values: at up to 3 positions in a third of the cases), 20% arbitrary sequences; in a third of the cases the downlink's own handle is dropped before or during the sequence (the client tasks then run read-only), in a sixth the far end of the output channel goes away; every lifecycle callback is recorded with all its arguments (maps through their sorted view) and compared per notification; non-trivial = legal map sequence with callbacks suppressed before sync that contains a Take and reaches synced (maps) / reaches synced with suppressed events (values); distinct by rendered case")),
        ("structures", J::counts(&kinds)),
        ("samples", J::A(samples)),
    ]);
    write_meta(&args.out, "meta.json", &meta);
}
