//! C14: the paths that must not coalesce: SupplyLane, SupplyBackpressure and the ad hoc command path
//! of the real external_links_task (CommandOutput / CmdChannelWriter behind stalled targets).

use std::borrow::Cow;
use std::collections::{BTreeMap, BTreeSet, HashMap};
use std::num::NonZeroUsize;
use std::time::Duration;

use bytes::{Bytes, BytesMut};
use futures::{FutureExt, SinkExt};
use swimos_agent::agent_model::{AgentDescription, WriteResult};
use swimos_agent::event_handler::{
    ActionContext, DownlinkSpawnOnDone, HandlerAction, HandlerFuture, LaneSpawnOnDone, LaneSpawner, LinkSpawner,
    Spawner, StepResult,
};
use swimos_agent::lanes::supply::{Supply, SupplyLane, SupplyLaneSync};
use swimos_agent::lanes::LaneItem;
use swimos_agent::AgentMetadata;
use swimos_agent_protocol::encoding::command::RawCommandMessageEncoder;
use swimos_agent_protocol::encoding::lane::ValueLaneResponseDecoder;
use swimos_agent_protocol::{CommandMessage, DownlinkOperation, LaneResponse};
use swimos_api::address::Address;
use swimos_api::agent::AgentConfig;
use swimos_messages::protocol::{Operation, RawRequestMessageDecoder, RequestMessage};
use swimos_route::RouteUri;
use swimos_runtime::agent::{CommanderKey, CommanderRequest, LinkRequest};
use swimos_runtime::verif_hooks::agent::task::{
    external_links_task, CommandChannelRequest, ExternalLinkRequest, LinksTaskConfig, LinksTaskState, NoReport,
};
use swimos_runtime::verif_hooks::backpressure::{BackpressureStrategy, SupplyBackpressure};
use swimos_utilities::byte_channel::{byte_channel, ByteReader};
use swimos_utilities::future::RetryStrategy;
use tokio::io::AsyncReadExt;
use tokio::sync::{mpsc, oneshot};
use tokio_util::codec::{Decoder, FramedWrite};
use uuid::Uuid;
use vcore::*;

// ---------------------------------------------------------------------------------------------
struct NoSpawn;
impl<C> Spawner<C> for NoSpawn {
    fn spawn_suspend(&self, _: HandlerFuture<C>) {
        panic!("no suspended futures expected");
    }
    fn schedule_timer(&self, _at: tokio::time::Instant, _id: u64) {
        panic!("no timer expected");
    }
}
impl<C> LinkSpawner<C> for NoSpawn {
    fn spawn_downlink(
        &self,
        _path: Address<swimos_model::Text>,
        _make_channel: swimos_agent::agent_model::downlink::BoxDownlinkChannelFactory<C>,
        _on_done: DownlinkSpawnOnDone<C>,
    ) {
        panic!("no downlinks expected");
    }
    fn register_commander(
        &self,
        _path: Address<swimos_model::Text>,
    ) -> Result<u16, swimos_api::error::CommanderRegistrationError> {
        panic!("no commanders expected");
    }
}
impl<C> LaneSpawner<C> for NoSpawn {
    fn spawn_warp_lane(
        &self,
        _name: &str,
        _kind: swimos_api::agent::WarpLaneKind,
        _on_done: LaneSpawnOnDone<C>,
    ) -> Result<(), swimos_api::error::DynamicRegistrationError> {
        panic!("no lanes expected");
    }
}

struct Agent {
    lane: SupplyLane<i32>,
}
impl AgentDescription for Agent {
    fn item_name(&self, _id: u64) -> Option<Cow<'_, str>> {
        Some(Cow::Borrowed("lane"))
    }
}
fn proj(a: &Agent) -> &SupplyLane<i32> {
    &a.lane
}

fn run_handler<C, H: HandlerAction<C>>(mut h: H, agent: &C) {
    let uri: RouteUri = "/node".parse().unwrap();
    let params = HashMap::new();
    let config = AgentConfig::default();
    let meta = AgentMetadata::new(&uri, &params, &config);
    let mut join = HashMap::new();
    let mut cmd = BytesMut::new();
    let sp = NoSpawn;
    let mut ctx = ActionContext::new(&sp, &sp, &sp, &mut join, &mut cmd);
    for _ in 0..1000 {
        match h.step(&mut ctx, meta, agent) {
            StepResult::Continue { .. } => {}
            StepResult::Fail(e) => panic!("handler failed: {:?}", e),
            StepResult::Complete { .. } => return,
        }
    }
    panic!("handler did not complete");
}

#[derive(Clone, Debug)]
enum SOp {
    Push(i32),
    Sync(u64),
    Write,
}

fn run_supply(ops: &[SOp]) -> Vec<String> {
    let agent = Agent { lane: SupplyLane::new(0) };
    let mut dec = ValueLaneResponseDecoder::<i32>::default();
    ops.iter()
        .map(|op| match op {
            SOp::Push(v) => {
                run_handler(Supply::new(proj, *v), &agent);
                "SUnit".to_string()
            }
            SOp::Sync(id) => {
                run_handler(SupplyLaneSync::new(proj, Uuid::from_u128(*id as u128)), &agent);
                "SUnit".to_string()
            }
            SOp::Write => {
                let mut buf = BytesMut::new();
                let r = agent.lane.write_to_buffer(&mut buf);
                let more = match r {
                    WriteResult::Done => "false",
                    WriteResult::DataStillAvailable => "true",
                    _ => panic!("unexpected write result"),
                };
                if buf.is_empty() {
                    return format!("SWrote None {}", more);
                }
                let resp = dec.decode(&mut buf).expect("undecodable frame").expect("incomplete frame");
                assert!(buf.is_empty(), "more than one frame written");
                match resp {
                    LaneResponse::StandardEvent(v) => format!("SWrote (Some (SEvent {})) {}", v, more),
                    LaneResponse::Synced(id) => format!("SWrote (Some (SSynced {})) {}", id.as_u128(), more),
                    other => panic!("unexpected response {:?}", other),
                }
            }
        })
        .collect()
}

#[derive(Clone, Debug)]
enum BOp {
    Push(Vec<u8>),
    Prepare,
}

fn run_supply_bp(ops: &[BOp]) -> Vec<String> {
    let mut bp = SupplyBackpressure::default();
    // the target buffer is reused between writes, as in the uplink (it may hold the previous frame)
    let mut target = BytesMut::new();
    ops.iter()
        .map(|op| match op {
            BOp::Push(b) => {
                bp.push_operation(DownlinkOperation::new(Bytes::from(b.clone()))).unwrap();
                "BUnit".to_string()
            }
            BOp::Prepare => {
                bp.prepare_write(&mut target);
                format!("BWrote {} {}", coq_bytes(&target), bp.has_data())
            }
        })
        .collect()
}

// ---------------------------------------------------------------------------------------------
const HOSTS: &[&str] = &["ws://h0:80", "ws://h1:9001", "wss://h2:443"];
const TARGETS: &[(&str, &str)] = &[("/n0", "l0"), ("/n0", "l1"), ("/n1", "l0"), ("/n2", "lane")];

#[derive(Clone, Debug)]
enum TOp {
    Send { host: Option<usize>, target: usize, body: u64, ow: bool, registered: bool },
    Open,
    Drain,
}
impl TOp {
    fn coq(&self) -> String {
        match self {
            TOp::Send { host, target, body, ow, .. } => format!(
                "TSend {} {} {} {}",
                match host {
                    Some(h) => format!("(Some {})", h),
                    None => "None".into(),
                },
                target,
                body,
                ow
            ),
            TOp::Open => "TOpen".into(),
            TOp::Drain => "TDrain".into(),
        }
    }
}

async fn quiesce() {
    for _ in 0..64 {
        tokio::task::yield_now().await;
    }
}

fn key_coq(k: &CommanderKey) -> String {
    match k {
        CommanderKey::Remote(shp) => {
            let s = shp.to_string();
            format!("KRemote {}", HOSTS.iter().position(|h| *h == s).unwrap_or_else(|| panic!("unknown host {}", s)))
        }
        CommanderKey::Local(addr) => {
            let t = TARGETS
                .iter()
                .position(|(n, l)| *n == addr.node.as_str() && *l == addr.lane.as_str())
                .expect("unknown local target");
            format!("KLocal {}", t)
        }
    }
}

async fn run_links(ops: &[TOp], command_buffer: usize) -> Vec<String> {
    let id = Uuid::from_u128(7);
    let (chan_tx, chan_rx) = mpsc::channel(8);
    let (links_tx, mut links_rx) = mpsc::channel::<LinkRequest>(64);
    let state = LinksTaskState::new(links_tx);
    let config = LinksTaskConfig {
        // the size of the agent's command channel: small ones split every command frame between reads
        buffer_size: NonZeroUsize::new(command_buffer).unwrap(),
        retry_strategy: RetryStrategy::none(),
        timeout_delay: Duration::from_secs(3600),
    };
    let task = tokio::spawn(external_links_task(id, chan_rx, state, config, None::<NoReport>));
    let (tx, rx) = oneshot::channel();
    chan_tx.send(ExternalLinkRequest::Command(CommandChannelRequest::new(tx))).await.expect("task gone");
    let writer = rx.await.expect("request dropped").expect("no command channel");
    let mut agent_tx = FramedWrite::new(writer, RawCommandMessageEncoder::default());
    let mut readers: Vec<(CommanderKey, ByteReader, BytesMut)> = vec![];
    let mut registered: HashMap<(Option<usize>, usize), u16> = HashMap::new();
    let mut outs = vec![];
    for op in ops {
        match op {
            TOp::Send { host, target, body, ow, registered: reg } => {
                let (node, lane) = TARGETS[*target];
                let addr = Address::new(host.map(|h| HOSTS[h]), node, lane);
                let body_text = body.to_string();
                if *reg {
                    let next = registered.len() as u16;
                    let rid = match registered.get(&(*host, *target)) {
                        Some(r) => *r,
                        None => {
                            registered.insert((*host, *target), next);
                            agent_tx
                                .send(CommandMessage::<&str, &[u8]>::register(addr.clone(), next))
                                .await
                                .expect("agent channel closed");
                            next
                        }
                    };
                    agent_tx
                        .send(CommandMessage::<&str, &[u8]>::registered(rid, body_text.as_bytes(), *ow))
                        .await
                        .expect("agent channel closed");
                } else {
                    agent_tx
                        .send(CommandMessage::<&str, &[u8]>::ad_hoc(addr, body_text.as_bytes(), *ow))
                        .await
                        .expect("agent channel closed");
                }
                quiesce().await;
                outs.push("TUnit".to_string());
            }
            TOp::Open => {
                while let Ok(req) = links_rx.try_recv() {
                    match req {
                        LinkRequest::Commander(CommanderRequest { key, promise, .. }) => {
                            let (w, r) = byte_channel(NonZeroUsize::new(1).unwrap());
                            promise.send(Ok(w)).expect("task dropped the channel request");
                            readers.push((key, r, BytesMut::new()));
                        }
                        LinkRequest::Downlink(_) => panic!("unexpected downlink request"),
                    }
                }
                quiesce().await;
                outs.push("TUnit".to_string());
            }
            TOp::Drain => {
                let mut received = vec![];
                for (key, reader, pending) in readers.iter_mut() {
                    let mut idle = 0;
                    let mut chunk = [0u8; 256];
                    while idle < 3 {
                        match reader.read(&mut chunk).now_or_never() {
                            Some(Ok(n)) if n > 0 => {
                                pending.extend_from_slice(&chunk[..n]);
                                idle = 0;
                                for _ in 0..4 {
                                    tokio::task::yield_now().await;
                                }
                            }
                            Some(Ok(_)) => panic!("target channel closed"),
                            Some(Err(e)) => panic!("target channel failed: {}", e),
                            None => {
                                idle += 1;
                                quiesce().await;
                            }
                        }
                    }
                    let mut dec = RawRequestMessageDecoder;
                    let mut recs = vec![];
                    while let Some(RequestMessage { origin, path, envelope }) =
                        dec.decode(pending).expect("target received an undecodable frame")
                    {
                        assert_eq!(origin, id, "wrong origin");
                        let t = TARGETS
                            .iter()
                            .position(|(n, l)| *n == path.node.as_str() && *l == path.lane.as_str())
                            .expect("unknown target");
                        match envelope {
                            Operation::Command(body) => {
                                let b: u64 = std::str::from_utf8(body.as_ref()).unwrap().parse().unwrap();
                                recs.push(format!("{{| r_target := {}; r_body := {} |}}", t, b));
                            }
                            _ => panic!("target received something that is not a command"),
                        }
                    }
                    assert!(pending.is_empty(), "target stream does not end on a frame boundary after a drain");
                    if !recs.is_empty() {
                        received.push(format!("({}, {})", key_coq(key), coq_list(recs.into_iter())));
                    }
                }
                outs.push(format!("TDrained {}", coq_list(received.into_iter())));
            }
        }
    }
    drop(agent_tx);
    drop(chan_tx);
    task.abort();
    outs
}

fn main() {
    let args = parse_args();
    silence_panics();
    let mut rng = Rng::new(args.seed ^ 0xc14);
    let mut w = CaseWriter::new(
        "From SwimV Require Import Lib.Hex Model.NoCoalesce.\nOpen Scope N_scope.",
        "ncase",
        &["nc_corr_bad", "nc_oracle_bad"],
        args.shards,
    );
    let mut kinds: BTreeMap<String, u64> = BTreeMap::new();
    let mut distinct = BTreeSet::new();
    let mut nontrivial = 0u64;
    let mut samples = vec![];
    let rt = tokio::runtime::Builder::new_current_thread().enable_time().build().unwrap();

    let mut links_cases = 0usize;
    let small_channel = std::cell::Cell::new(0u64);
    let mut emit_links = |ops: &[TOp], w: &mut CaseWriter, nontrivial: &mut u64| {
        let ops2 = ops.to_vec();
        let command_buffer = [1usize << 20, 64, 24, 17, 9, 5, 3][links_cases % 7];
        links_cases += 1;
        if command_buffer < 64 {
            small_channel.set(small_channel.get() + 1);
        }
        let outs = catch(std::panic::AssertUnwindSafe(|| rt.block_on(run_links(&ops2, command_buffer)))).unwrap_or_else(|m| vec![format!("TUnit (* PANIC {} *)", m.replace("*)", "* )"))]);
        let term = format!("CaseLinks {} {}", coq_list(ops.iter().map(|o| o.coq())), coq_list(outs.iter().cloned()));
        let human = format!("links ops={:?} impl={:?}", ops, outs);
        // non-trivial: at least two sends between an open and the next drain (the writer is away)
        let mut since = 0;
        let mut opened = false;
        let mut nt = false;
        for o in ops {
            match o {
                TOp::Open => {
                    opened = true;
                }
                TOp::Send { .. } => {
                    if opened {
                        since += 1;
                    }
                }
                TOp::Drain => {
                    if since >= 3 {
                        nt = true;
                    }
                    since = 0;
                }
            }
        }
        if distinct.insert(human.clone()) && nt {
            *nontrivial += 1;
            if samples.len() < 3 {
                samples.push(J::s(human.chars().take(700).collect::<String>()));
            }
        }
        w.push(term, human);
    };

    // corpus: the writer's buffer must not be sent twice
    let s = |host, target, body, ow| TOp::Send { host, target, body, ow, registered: false };
    emit_links(&[s(Some(0), 0, 1, false), TOp::Open, TOp::Drain, s(Some(0), 0, 2, false), s(Some(0), 1, 3, false), s(Some(0), 0, 4, false), TOp::Drain, TOp::Drain], &mut w, &mut nontrivial);
    emit_links(&[s(None, 0, 1, true), s(None, 0, 2, true), TOp::Open, s(None, 0, 3, true), s(None, 0, 4, false), s(None, 0, 5, true), s(None, 0, 6, true), TOp::Drain], &mut w, &mut nontrivial);
    *kinds.entry("links".into()).or_default() += 2;

    let nlinks = args.cases;
    for _ in 0..nlinks {
        let len = rng.range(3, 30) as usize;
        let nhosts = rng.range(0, 3) as usize; // 0: local targets only
        let ntargets = rng.range(1, 4) as usize;
        let ow_bias = rng.below(4);
        let use_registered = rng.below(3) == 0;
        let mut ops = vec![];
        let mut body = 0u64;
        for _ in 0..len {
            match rng.below(10) {
                0 => ops.push(TOp::Open),
                1..=2 => {
                    if rng.below(2) == 0 {
                        ops.push(TOp::Open);
                    }
                    ops.push(TOp::Drain);
                }
                _ => {
                    body += 1;
                    let host = if nhosts == 0 || rng.below(4) == 0 { None } else { Some(rng.usize_below(nhosts)) };
                    ops.push(TOp::Send {
                        host,
                        target: rng.usize_below(ntargets),
                        body,
                        ow: rng.below(4) < ow_bias,
                        registered: use_registered && rng.below(2) == 0,
                    });
                }
            }
        }
        ops.push(TOp::Open);
        ops.push(TOp::Drain);
        *kinds.entry("links".into()).or_default() += 1;
        emit_links(&ops, &mut w, &mut nontrivial);
    }

    // supply lane
    for _ in 0..args.cases / 2 {
        let len = rng.range(3, 60) as usize;
        let mut ops = vec![];
        let mut v = 0;
        let mut id = 0;
        let burst = rng.below(3) == 0;
        for _ in 0..len {
            match rng.below(10) {
                0..=3 if !burst => ops.push(SOp::Write),
                4 => {
                    id += 1;
                    ops.push(SOp::Sync(id));
                }
                _ => {
                    v += 1;
                    ops.push(SOp::Push(v));
                }
            }
        }
        for _ in 0..(len + 2) {
            ops.push(SOp::Write);
        }
        let outs = catch(std::panic::AssertUnwindSafe(|| run_supply(&ops))).unwrap_or_default();
        let coq_ops = ops.iter().map(|o| match o {
            SOp::Push(v) => format!("SPush {}", v),
            SOp::Sync(i) => format!("SSync {}", i),
            SOp::Write => "SWrite".to_string(),
        });
        let term = format!("CaseSupply {} {}", coq_list(coq_ops), coq_list(outs.iter().cloned()));
        let human = format!("supply ops={:?} impl={:?}", ops, outs);
        *kinds.entry("supply_lane".into()).or_default() += 1;
        if distinct.insert(human.clone()) && burst {
            nontrivial += 1;
        }
        w.push(term, human);
    }

    // supply backpressure
    for _ in 0..args.cases / 2 {
        let len = rng.range(3, 40) as usize;
        let mut ops = vec![];
        for _ in 0..len {
            if rng.below(3) == 0 {
                ops.push(BOp::Prepare);
            } else {
                let n = *rng.pick(&[0usize, 0, 1, 2, 7, 8, 9, 16, 40]);
                ops.push(BOp::Push((0..n).map(|_| rng.below(256) as u8).collect()));
            }
        }
        for _ in 0..(len + 1) {
            ops.push(BOp::Prepare);
        }
        let outs = catch(std::panic::AssertUnwindSafe(|| run_supply_bp(&ops))).unwrap_or_default();
        let coq_ops = ops.iter().map(|o| match o {
            BOp::Push(b) => format!("BPush {}", coq_bytes(b)),
            BOp::Prepare => "BPrepare".to_string(),
        });
        let term = format!("CaseSupplyBp {} {}", coq_list(coq_ops), coq_list(outs.iter().cloned()));
        let human = format!("supply_bp ops={:?} impl={:?}", ops, outs);
        *kinds.entry("supply_backpressure".into()).or_default() += 1;
        if distinct.insert(human.clone()) && human.contains("Push([])") {
            nontrivial += 1;
        }
        w.push(term, human);
    }

    w.finish(&args.out, "cases").unwrap();
    *kinds.entry("links_with_a_command_channel_smaller_than_a_frame".into()).or_default() += small_channel.get();
    let meta = J::obj(vec![
        ("evaluations", J::I(w.len() as i128)),
        ("distinct_nontrivial", J::I(nontrivial as i128)),
        ("rule", J::s("links: the real external_links_task on a current-thread runtime; the agent side sends Addressed / Register+Registered command frames (unique bodies, random overwrite flags, up to 2 remote hosts sharing one output each and up to 4 local targets) and lets the task run until idle; the agent's command channel holds 2^20, 64, 24, 17, 9, 5 or 3 bytes in turn (the smaller ones split every command frame between reads); target channels have capacity 1 so a write never completes before its target reads; Open answers the outstanding channel requests, Drain lets every target read until nothing arrives and decodes the stream with the real RawRequestMessageDecoder; non-trivial = 3 or more sends while a write is in flight. supply lane: Supply / SupplyLaneSync handlers and write_to_buffer on a real SupplyLane<i32>, frames decoded with the real decoder; bursts without writes. supply backpressure: push_operation / prepare_write / has_data on the real SupplyBackpressure with empty and 8-byte-boundary bodies. distinct by rendered case")),
        ("structures", J::counts(&kinds)),
        ("samples", J::A(samples)),
    ]);
    write_meta(&args.out, "meta.json", &meta);
}
