//! C14, commands an agent sends, on the agent's side: a real agent (derived lane model, `#[lifecycle]`, AgentModel task)
//! creates commanders in on_start and later, and sends through them and ad hoc; the harness is the runtime's end of the
//! command channel: it resolves the messages as the runtime does (a Register binds an id to an address) and every
//! command must be forwarded once, in order, to the lane it was meant for; the messages are also compared with
//! Model/Commanders.v.

use std::collections::{BTreeMap, HashMap};
use std::sync::Arc;
use std::time::Duration;

use bytes::BytesMut;
use futures::future::{ready, BoxFuture};
use futures::{FutureExt, SinkExt, StreamExt};
use parking_lot::Mutex;
use swimos_agent::agent_lifecycle::HandlerContext;
use swimos_agent::agent_model::AgentModel;
use swimos_agent::commander::Commander;
use swimos_agent::event_handler::{BoxEventHandler, EventHandler, HandlerActionExt, UnitHandler};
use swimos_agent::lanes::{CommandLane, ValueLane};
use swimos_agent_derive::{lifecycle, AgentLaneModel};
use swimos_agent_protocol::encoding::command::RawCommandMessageDecoder;
use swimos_agent_protocol::encoding::lane::{RawValueLaneRequestEncoder, RawValueLaneResponseDecoder};
use swimos_agent_protocol::{CommandMessage, LaneRequest, LaneResponse};
use swimos_api::address::Address;
use swimos_api::agent::{Agent, AgentConfig, AgentContext, DownlinkKind, HttpLaneRequestChannel, LaneConfig, StoreKind, WarpLaneKind};
use swimos_api::error::{AgentRuntimeError, DownlinkRuntimeError, OpenStoreError};
use swimos_model::Text;
use swimos_utilities::byte_channel::{byte_channel, ByteReader, ByteWriter};
use swimos_utilities::non_zero_usize;
use swimos_utilities::routing::RouteUri;
use tokio_util::codec::{FramedRead, FramedWrite};
use vcore::*;

const TARGETS: [(&str, &str); 4] = [("/node", "lane"), ("/other", "other_lane"), ("/node", "second"), ("/third node", "l")];

#[derive(AgentLaneModel)]
#[agent(root(::swimos_agent))]
struct CAgent {
    #[item(transient)]
    c: CommandLane<i64>,
    #[item(transient)]
    done: ValueLane<i64>,
}
fn pdone(a: &CAgent) -> &ValueLane<i64> {
    &a.done
}

/// A command number: target = n mod 4, way = (n / 4) mod 3 (0 ad hoc, 1 through a commander without overwriting,
/// 2 through a commander with overwriting permitted).
fn target_of(n: i64) -> usize {
    (n % 4) as usize
}
fn way_of(n: i64) -> i64 {
    (n / 4) % 3
}

#[derive(Clone)]
struct CLifecycle {
    at_start: Vec<usize>,
    commanders: Arc<Mutex<HashMap<usize, Commander<CAgent>>>>,
}

impl CLifecycle {
    fn register(&self, context: HandlerContext<CAgent>, t: usize) -> BoxEventHandler<'static, CAgent> {
        let cs = self.commanders.clone();
        context
            .create_commander(None, TARGETS[t].0, TARGETS[t].1)
            .and_then(move |c: Commander<CAgent>| {
                context.effect(move || {
                    cs.lock().insert(t, c);
                })
            })
            .boxed()
    }
}

#[lifecycle(CAgent, agent_root(::swimos_agent))]
impl CLifecycle {
    #[on_start]
    fn my_start(&self, context: HandlerContext<CAgent>) -> impl EventHandler<CAgent> + '_ {
        let mut h: BoxEventHandler<'static, CAgent> = UnitHandler::default().boxed();
        for t in &self.at_start {
            h = h.followed_by(self.register(context, *t)).boxed();
        }
        h
    }
    #[on_command(c)]
    fn on_c(&self, context: HandlerContext<CAgent>, value: &i64) -> impl EventHandler<CAgent> + '_ {
        let n = *value;
        let t = target_of(n);
        let send: BoxEventHandler<'static, CAgent> = if way_of(n) == 0 {
            context.send_command(None, TARGETS[t].0, TARGETS[t].1, n).boxed()
        } else {
            let overwrite = way_of(n) == 2;
            let known = self.commanders.lock().get(&t).copied();
            match known {
                Some(c) => {
                    if overwrite {
                        c.send(n).boxed()
                    } else {
                        c.send_queued(n).boxed()
                    }
                }
                None => {
                    let cs = self.commanders.clone();
                    self.register(context, t)
                        .and_then(move |_: ()| {
                            let c = cs.lock().get(&t).copied().expect("the commander was just stored");
                            if overwrite {
                                c.send(n).boxed()
                            } else {
                                c.send_queued(n).boxed()
                            }
                        })
                        .boxed()
                }
            }
        };
        send.followed_by(context.set_value(pdone, n))
    }
}

type Io = (ByteWriter, ByteReader);

#[derive(Default, Clone)]
struct Ctx {
    lanes: Arc<Mutex<HashMap<String, Io>>>,
    commands: Arc<Mutex<Option<ByteReader>>>,
}

impl AgentContext for Ctx {
    fn command_channel(&self) -> BoxFuture<'static, Result<ByteWriter, DownlinkRuntimeError>> {
        let (tx, rx) = byte_channel(non_zero_usize!(65536));
        *self.commands.lock() = Some(rx);
        ready(Ok(tx)).boxed()
    }
    fn add_lane(&self, name: &str, _kind: WarpLaneKind, _config: LaneConfig) -> BoxFuture<'static, Result<(ByteWriter, ByteReader), AgentRuntimeError>> {
        let (tx_in, rx_in) = byte_channel(non_zero_usize!(65536));
        let (tx_out, rx_out) = byte_channel(non_zero_usize!(65536));
        self.lanes.lock().insert(name.to_string(), (tx_in, rx_out));
        ready(Ok((tx_out, rx_in))).boxed()
    }
    fn add_http_lane(&self, _name: &str) -> BoxFuture<'static, Result<HttpLaneRequestChannel, AgentRuntimeError>> {
        panic!("no http lanes")
    }
    fn open_downlink(&self, _: Option<&str>, _: &str, _: &str, _: DownlinkKind) -> BoxFuture<'static, Result<(ByteWriter, ByteReader), DownlinkRuntimeError>> {
        panic!("no downlinks")
    }
    fn add_store(&self, _name: &str, _kind: StoreKind) -> BoxFuture<'static, Result<(ByteWriter, ByteReader), OpenStoreError>> {
        ready(Err(OpenStoreError::StoresNotSupported)).boxed()
    }
}

/// What was forwarded to which address, as the runtime would resolve the command channel.
async fn run_case(at_start: Vec<usize>, cmds: &[i64]) -> Result<(Vec<(String, i64, bool)>, Vec<String>), String> {
    let lifecycle = CLifecycle { at_start, commanders: Default::default() }.into_lifecycle();
    let model = AgentModel::new(CAgent::default, lifecycle);
    let ctx = Ctx::default();
    let route = RouteUri::try_from("/agent").unwrap();
    let task = model.run(route, HashMap::new(), AgentConfig::DEFAULT, Box::new(ctx.clone())).await.map_err(|e| format!("init: {:?}", e))?;
    let handle = tokio::spawn(task);
    let mut lanes = std::mem::take(&mut *ctx.lanes.lock());
    let (c_tx, _c_rx) = lanes.remove("c").ok_or("command lane not registered")?;
    let (_d_tx, d_rx) = lanes.remove("done").ok_or("value lane not registered")?;
    let mut c_tx = FramedWrite::new(c_tx, RawValueLaneRequestEncoder::default());
    let mut d_rx = FramedRead::new(d_rx, RawValueLaneResponseDecoder::default());
    for n in cmds {
        let req: LaneRequest<BytesMut> = LaneRequest::Command(BytesMut::from(n.to_string().as_bytes()));
        c_tx.send(req).await.map_err(|e| format!("command lane closed: {:?}", e))?;
        // the handler of the command has run when the value lane reports the number
        loop {
            match tokio::time::timeout(Duration::from_secs(10), d_rx.next()).await {
                Ok(Some(Ok(LaneResponse::StandardEvent(body)))) => {
                    if std::str::from_utf8(body.as_ref()).ok().and_then(|s| s.parse::<i64>().ok()) == Some(*n) {
                        break;
                    }
                }
                Ok(Some(Ok(_))) => {}
                other => return Err(format!("the agent did not report command {}: {:?}", n, other.map(|o| o.map(|r| r.map(|_| ())))))
            }
        }
    }
    // everything the agent has put on the command channel
    let rx = ctx.commands.lock().take().ok_or("the agent never asked for the command channel")?;
    let mut msgs = FramedRead::new(rx, RawCommandMessageDecoder::<Text>::default());
    let mut ids: BTreeMap<u16, Address<Text>> = BTreeMap::new();
    let mut forwarded = vec![];
    let mut raw: Vec<String> = vec![];
    let show = |a: &Address<Text>| format!("{}:{}", a.node, a.lane);
    let index = |a: &Address<Text>| TARGETS.iter().position(|(n, l)| a.host.is_none() && a.node.as_str() == *n && a.lane.as_str() == *l).map(|i| i as u64).unwrap_or(99);
    // (the byte channel's cooperative budget makes a poll return Pending now and then although data is there: an
    // empty poll is retried)
    let mut idle = 0;
    loop {
        match msgs.next().now_or_never() {
            Some(Some(Ok(CommandMessage::Register { address, id }))) => {
                raw.push(format!("MRegister {} {}", index(&address), id));
                if let Some(old) = ids.insert(id, address.clone()) {
                    if old != address {
                        // (the runtime rebinds the id: what was registered first loses its address)
                    }
                }
            }
            Some(Some(Ok(CommandMessage::Addressed { target, command, overwrite_permitted }))) => {
                let n = std::str::from_utf8(command.as_ref()).ok().and_then(|s| s.parse::<i64>().ok()).ok_or("unreadable command body")?;
                raw.push(format!("MAddressed {} ({})%Z {}", index(&target), n, overwrite_permitted));
                forwarded.push((show(&target), n, overwrite_permitted));
            }
            Some(Some(Ok(CommandMessage::Registered { target, command, overwrite_permitted }))) => {
                let n = std::str::from_utf8(command.as_ref()).ok().and_then(|s| s.parse::<i64>().ok()).ok_or("unreadable command body")?;
                raw.push(format!("MRegistered {} ({})%Z {}", target, n, overwrite_permitted));
                match ids.get(&target) {
                    Some(a) => forwarded.push((show(a), n, overwrite_permitted)),
                    None => return Err(format!("command {} sent through the id {} that was never registered", n, target)),
                }
            }
            Some(Some(Err(e))) => return Err(format!("bad command message: {:?}", e)),
            Some(None) => break,
            None => {
                idle += 1;
                if idle >= 4 {
                    break;
                }
                tokio::task::yield_now().await;
                continue;
            }
        }
        idle = 0;
    }
    handle.abort();
    let _ = handle.await;
    Ok((forwarded, raw))
}

fn main() {
    let args = parse_args();
    silence_panics();
    let mut rng = Rng::new(args.seed ^ 0xc14_a6e);
    let rt = tokio::runtime::Builder::new_current_thread().enable_all().build().unwrap();
    let mut kinds: BTreeMap<String, u64> = BTreeMap::new();
    let mut failures: Vec<String> = vec![];
    let mut nontrivial = 0u64;
    let mut total = 0u64;
    let mut w = CaseWriter::new("From SwimV Require Import Model.Commanders.\nOpen Scope N_scope.", "ccase", &["cmd_corr_bad", "cmd_oracle_bad"], args.shards);
    let mut cases: Vec<(Vec<usize>, Vec<i64>)> = vec![
        // a commander from on_start, another created later, then the first one again
        (vec![0], vec![4, 4 + 1, 16 + 4]),
        (vec![], vec![4, 5, 6, 4 + 12, 5 + 12]),
        (vec![0, 1], vec![0, 1, 2, 3, 8, 9, 10, 11]),
    ];
    for _ in 0..args.cases {
        let at_start: Vec<usize> = (0..4).filter(|_| rng.below(3) == 0).collect();
        let n = rng.range(1, 12);
        let mut seq = 0i64;
        let cmds: Vec<i64> = (0..n)
            .map(|_| {
                seq += 1;
                // number = 12 * seq + 4 * way + target: unique and increasing
                12 * seq + 4 * (rng.below(3) as i64) + rng.below(4) as i64
            })
            .collect();
        cases.push((at_start, cmds));
    }
    for (at_start, cmds) in &cases {
        total += 1;
        let expected: Vec<(String, i64, bool)> = cmds.iter().map(|n| (format!("{}:{}", TARGETS[target_of(*n)].0, TARGETS[target_of(*n)].1), *n, way_of(*n) != 1)).collect();
        match catch(std::panic::AssertUnwindSafe(|| rt.block_on(run_case(at_start.clone(), cmds)))) {
            Ok(Ok((got, raw))) => {
                // the same history for the model: which handles the lifecycle holds decides whether it creates first
                let mut held: Vec<usize> = at_start.clone();
                let mut ops: Vec<String> = at_start.iter().map(|t| format!("ACreate {}", t)).collect();
                for n in cmds {
                    let t = target_of(*n);
                    if way_of(*n) == 0 {
                        ops.push(format!("AAdHoc {} ({})%Z", t, n));
                    } else {
                        if !held.contains(&t) {
                            held.push(t);
                            ops.push(format!("ACreate {}", t));
                        }
                        ops.push(format!("ASend {} ({})%Z {}", t, n, way_of(*n) == 2));
                    }
                }
                w.push(format!("({}, {})", coq_list(ops), coq_list(raw.clone())), format!("commanders created in on_start for targets {:?}, commands {:?}: command channel {:?}", at_start, cmds, raw));
                if got != expected {
                    failures.push(format!("commanders created in on_start for targets {:?}, commands {:?}: forwarded {:?}, meant were {:?}", at_start, cmds, got, expected));
                }
                let later = cmds.iter().any(|n| way_of(*n) != 0 && !at_start.contains(&target_of(*n)));
                if !at_start.is_empty() && later {
                    nontrivial += 1;
                    *kinds.entry("commanders_before_and_after_start".into()).or_default() += 1;
                }
                for n in cmds {
                    *kinds.entry(["ad_hoc", "commander_queued", "commander_overwriting"][way_of(*n) as usize].to_string()).or_default() += 1;
                }
            }
            Ok(Err(e)) => failures.push(format!("commanders at start {:?}, commands {:?}: {}", at_start, cmds, e)),
            Err(m) => failures.push(format!("commanders at start {:?}, commands {:?} panicked: {}", at_start, cmds, m)),
        }
    }
    std::fs::create_dir_all(&args.out).unwrap();
    w.finish(&args.out, "cases").unwrap();
    let meta = J::obj(vec![
        ("evaluations", J::I(total as i128)),
        ("distinct_nontrivial", J::I(nontrivial as i128)),
        ("rule", J::s("a real agent (derived lane model, lifecycle, AgentModel task) with a command lane: commanders for 0-4 of four target lanes are created in on_start, the others when first needed; 1-12 commands tell it to send their number to a target ad hoc, through the target's commander without overwriting, or with overwriting permitted; the harness reads the agent's command channel with the real RawCommandMessageDecoder and resolves it as the runtime does (Register binds an id to an address, Registered goes to the address bound to its id): what is forwarded must be, in order, each number to the lane it was meant for with its overwrite flag (direct oracle), the messages must be those of Model/Commanders.v (correspondence) and resolve to the intended deliveries there too (oracle); non-trivial = commanders created both in on_start and later")),
        ("structures", J::counts(&kinds)),
        ("samples", J::A(vec![])),
        ("direct_failures", J::A(failures.iter().take(40).map(|f| J::s(f.chars().take(600).collect::<String>())).collect())),
        ("direct_failure_count", J::I(failures.len() as i128)),
    ]);
    write_meta(&args.out, "meta.json", &meta);
}
