//! C17, the agent runtime's HTTP task (hook run_http_task) as one of the three parties of the agent's stop vote: the
//! harness holds the other two votes and plays the HTTP lanes (which may be slow to take requests). Time is the paused
//! tokio clock. Oracle (real code only): the stop becomes unanimous only while the HTTP task is idle (no request in its
//! hands, nothing received for the inactivity timeout), and it does become unanimous when it is.
use std::collections::BTreeMap;
use std::num::NonZeroUsize;
use std::time::Duration;

use bytes::Bytes;
use http::Uri;
use swimos_api::agent::{HttpLaneRequest, HttpResponseReceiver};
use swimos_api::http::{HttpRequest, Method, Version};
use swimos_model::Text;
use swimos_runtime::verif_hooks::agent::task::HttpLaneRuntimeSpec;
use swimos_runtime::agent::AgentRuntimeConfig;
use swimos_runtime::verif_hooks::agent::task::run_http_task;
use swimos_runtime::verif_hooks::timeout_coord::{agent_timeout_coordinator, VoteResult};
use swimos_utilities::trigger;
use tokio::sync::{mpsc, oneshot};
use vcore::*;

const TIMEOUT_MS: u64 = 1000;

thread_local! {
    /// requests answered by the task itself (404) in the history that is running
    static ANSWERED: std::cell::Cell<u64> = std::cell::Cell::new(0);
}

#[derive(Clone, Debug)]
enum Op {
    Register(u8),
    Request(u8),    // for the lane of that number (registered or not)
    Take(u8),       // the lane takes one request out of its channel
    Advance(u64),   // milliseconds
    OthersVote,     // both other parties vote
    OthersRescind,  // both withdraw
}

async fn settle() {
    for _ in 0..12 {
        tokio::task::yield_now().await;
    }
}

struct Lane {
    rx: mpsc::Receiver<HttpLaneRequest>,
    taken: u64,
}

/// Runs one history; Err(description) when the oracle fails.
async fn run(ops: &[Op], cap: usize, stats: &mut BTreeMap<String, u64>) -> Result<(), String> {
    tokio::time::pause();
    ANSWERED.with(|a| a.set(0));
    let (v_http, v_a, v_b, _receiver) = agent_timeout_coordinator();
    let (stop_tx, stop_rx) = trigger::trigger();
    let (req_tx, req_rx) = mpsc::channel::<HttpLaneRequest>(64);
    let (reg_tx, reg_rx) = mpsc::channel::<HttpLaneRuntimeSpec>(8);
    let config = AgentRuntimeConfig { inactive_timeout: Duration::from_millis(TIMEOUT_MS), lane_http_request_channel_size: NonZeroUsize::new(cap).unwrap(), ..Default::default() };
    let task = tokio::spawn(run_http_task(stop_rx, config, req_rx, reg_rx, v_http));
    let start = tokio::time::Instant::now();
    settle().await; // the task starts waiting (its inactivity timer runs from now)
    let now_ms = || start.elapsed().as_millis() as u64;
    let mut lanes: BTreeMap<u8, Lane> = BTreeMap::new();
    let mut responses: Vec<HttpResponseReceiver> = vec![];
    let mut sent = 0u64; // requests given to the task
    let mut last_event = 0u64; // when the task last had a request to deal with (by the clock)
    let mut last_reset = 0u64; // when its inactivity timer last started anew (a request or a lane registration)
    let mut others_voted = false;
    let mut result = Ok(());
    for (i, op) in ops.iter().enumerate() {
        // requests the task has in its hands: given to it, and neither in a lane's channel, nor taken by a lane, nor
        // answered (no such lane)
        let in_hand = |lanes: &BTreeMap<u8, Lane>, responses: &mut Vec<HttpResponseReceiver>, sent: u64| -> u64 {
            let delivered: u64 = lanes.values().map(|l| l.taken + l.rx.len() as u64).sum();
            responses.retain_mut(|r| match r.try_recv() {
                Ok(_) => {
                    ANSWERED.with(|a| a.set(a.get() + 1));
                    false
                }
                Err(_) => true,
            });
            sent - delivered - ANSWERED.with(|a| a.get())
        };
        match op {
            Op::Register(l) => {
                // (while the task waits for a lane to take a request it answers nothing else)
                if !lanes.contains_key(l) && in_hand(&lanes, &mut responses, sent) == 0 {
                    let (tx, mut rx) = oneshot::channel();
                    if reg_tx.try_send(HttpLaneRuntimeSpec::new(Text::new(&format!("lane{}", l)), tx)).is_err() {
                        continue;
                    }
                    settle().await;
                    match rx.try_recv() {
                        Ok(Ok(rx)) => {
                            lanes.insert(*l, Lane { rx, taken: 0 });
                            // a registration is no request: a vote that is outstanding stays; the timer starts anew
                            last_reset = now_ms();
                        }
                        other => {
                            result = Err(format!("op {}: a lane registration was not answered: {:?}", i, other.map(|r| r.map(|_| ()))));
                            break;
                        }
                    }
                }
            }
            Op::Request(l) => {
                let uri: Uri = format!("http://example:8080/path/to_agent?lane=lane{}", l).parse().unwrap();
                let (request, response_rx) = HttpLaneRequest::new(HttpRequest { method: Method::GET, version: Version::HTTP_1_1, uri, headers: vec![], payload: Bytes::from("body") });
                if req_tx.try_send(request).is_err() {
                    continue;
                }
                responses.push(response_rx);
                sent += 1;
                settle().await;
                last_event = now_ms();
                last_reset = now_ms();
            }
            Op::Take(l) => {
                if let Some(lane) = lanes.get_mut(l) {
                    if let Ok(req) = lane.rx.try_recv() {
                        lane.taken += 1;
                        drop(req);
                        let before = in_hand(&lanes, &mut responses, sent);
                        settle().await;
                        if in_hand(&lanes, &mut responses, sent) < before {
                            // a request the task was holding went into the lane: the task was busy until now
                            last_event = now_ms();
                            last_reset = now_ms();
                        }
                    }
                }
            }
            Op::Advance(ms) => {
                // one step to each timer deadline on the way, so that `now` is exact when the task votes
                let target = now_ms() + *ms;
                let mut ended_at = None;
                while now_ms() < target {
                    let step = (target - now_ms()).min(10);
                    tokio::time::advance(Duration::from_millis(step)).await;
                    settle().await;
                    if task.is_finished() {
                        ended_at = Some(now_ms());
                        break;
                    }
                }
                if let Some(t) = ended_at {
                    // the task's own vote completed the stop (the others had voted)
                    let held = in_hand(&lanes, &mut responses, sent);
                    *stats.entry("task_vote_completed_the_stop".into()).or_default() += 1;
                    if !others_voted {
                        result = Err(format!("op {}: the HTTP task ended at {} ms although the other parties had no vote outstanding", i, t));
                    } else if held > 0 {
                        result = Err(format!("op {}: the HTTP task completed the stop while holding {} request(s)", i, held));
                    } else if t - last_event < TIMEOUT_MS {
                        result = Err(format!("op {}: the HTTP task voted {} ms after it last had work (timeout {} ms)", i, t - last_event, TIMEOUT_MS));
                    }
                    break;
                }
            }
            Op::OthersRescind => {
                if others_voted {
                    let r1 = v_a.rescind();
                    let r2 = v_b.rescind();
                    if r1 == VoteResult::Unanimous || r2 == VoteResult::Unanimous {
                        // (the task ends as soon as its own vote completes the stop, which Advance notices)
                        result = Err(format!("op {}: a withdrawal was answered Unanimous although the HTTP task had not completed the stop", i));
                        break;
                    }
                    others_voted = false;
                }
            }
            Op::OthersVote => {
                if others_voted {
                    continue;
                }
                let held = in_hand(&lanes, &mut responses, sent);
                let idle_for = now_ms() - last_event;
                let r1 = v_a.vote();
                let r2 = v_b.vote();
                others_voted = true;
                let unanimous = r1 == VoteResult::Unanimous || r2 == VoteResult::Unanimous;
                *stats.entry(format!("others_vote:{}", if unanimous { "unanimous" } else { "pending" })).or_default() += 1;
                if unanimous && held > 0 {
                    result = Err(format!("op {}: the stop became unanimous while the HTTP task was holding {} request(s) for a lane that had not taken them", i, held));
                    break;
                }
                if unanimous && idle_for < TIMEOUT_MS {
                    result = Err(format!("op {}: the stop became unanimous {} ms after the HTTP task last had work (timeout {} ms)", i, idle_for, TIMEOUT_MS));
                    break;
                }
                if !unanimous && held == 0 && now_ms() - last_reset > TIMEOUT_MS + 5 {
                    result = Err(format!("op {}: the HTTP task had been idle for {} ms (timeout {} ms) and both other parties voted, yet the stop is not unanimous", i, idle_for, TIMEOUT_MS));
                    break;
                }
                if unanimous {
                    if held == 0 {
                        *stats.entry("stopped_when_idle".into()).or_default() += 1;
                    }
                    break;
                }
            }
        }
    }
    stop_tx.trigger();
    drop(req_tx);
    drop(reg_tx);
    task.abort();
    let _ = task.await;
    result
}

fn main() {
    let args = parse_args();
    silence_panics();
    let mut rng = Rng::new(args.seed ^ 0xc17_477);
    let mut stats: BTreeMap<String, u64> = BTreeMap::new();
    let mut failures: Vec<String> = vec![];
    let mut nontrivial = 0u64;
    let mut total = 0u64;

    let mut histories: Vec<(usize, Vec<Op>)> = vec![
        // the task has voted, then a request arrives for a lane whose channel is full, then the others vote
        (1, vec![Op::Register(1), Op::Request(1), Op::Advance(1500), Op::Request(1), Op::OthersVote, Op::Take(1), Op::Take(1), Op::OthersRescind, Op::Advance(1500), Op::OthersVote]),
        // idle from the start
        (1, vec![Op::Advance(1200), Op::OthersVote]),
        // a request for a lane that does not exist is work too
        (2, vec![Op::Advance(1200), Op::Request(7), Op::OthersVote, Op::OthersRescind, Op::Advance(1200), Op::OthersVote]),
        // the others vote first, the task later
        (1, vec![Op::Register(1), Op::OthersVote, Op::Advance(400), Op::Request(1), Op::Advance(700), Op::OthersRescind, Op::OthersVote, Op::Advance(600), Op::OthersRescind, Op::OthersVote]),
    ];
    for _ in 0..args.cases {
        let cap = rng.range(1, 3) as usize;
        let n = rng.range(4, 24) as usize;
        let mut ops = vec![Op::Register(1)];
        for _ in 0..n {
            ops.push(match rng.below(16) {
                0 => Op::Register(rng.range(1, 2) as u8),
                1..=5 => Op::Request(rng.range(1, 3) as u8),
                6..=8 => Op::Take(rng.range(1, 2) as u8),
                9..=11 => Op::Advance(*rng.pick(&[100u64, 400, 700, 990, 1010, 1500, 2500])),
                12..=13 => Op::OthersVote,
                _ => Op::OthersRescind,
            });
        }
        ops.push(Op::Advance(1500));
        ops.push(Op::OthersRescind);
        ops.push(Op::OthersVote);
        histories.push((cap, ops));
    }
    for (cap, ops) in &histories {
        total += 1;
        let rt = tokio::runtime::Builder::new_current_thread().enable_time().build().unwrap();
        let mut st = BTreeMap::new();
        match catch(std::panic::AssertUnwindSafe(|| rt.block_on(run(ops, *cap, &mut st)))) {
            Ok(Ok(())) => {}
            Ok(Err(e)) => failures.push(format!("HTTP task, lane channels of {}: {} (history {:?})", cap, e, ops)),
            Err(m) => failures.push(format!("HTTP task history {:?} panicked: {}", ops, m)),
        }
        if st.contains_key("others_vote:unanimous") && st.contains_key("others_vote:pending") {
            nontrivial += 1;
        }
        for (k, v) in st {
            *stats.entry(k).or_default() += v;
        }
    }
    std::fs::create_dir_all(&args.out).unwrap();
    let meta = J::obj(vec![
        ("evaluations", J::I(total as i128)),
        ("distinct_nontrivial", J::I(nontrivial as i128)),
        ("rule", J::s("the real HTTP task of the agent runtime as one of the three parties of the agent's stop vote (agent_timeout_coordinator), inactivity timeout 1000 ms on the paused tokio clock, lane request channels of 1-3: histories of lane registrations, requests for registered and unknown lanes, lanes taking requests late (so that the task waits with a request in its hands), clock advances around the timeout, the two other parties voting and withdrawing together; every time they vote: unanimity only if the task holds no request and has had no work for the timeout, and unanimity whenever that is so (real code only; the vote protocol itself is Model/Voter.v); non-trivial = a history in which the others' vote was answered both ways")),
        ("structures", J::counts(&stats)),
        ("samples", J::A(vec![])),
        ("direct_failures", J::A(failures.iter().take(40).map(|f| J::s(f.chars().take(600).collect::<String>())).collect())),
        ("direct_failure_count", J::I(failures.len() as i128)),
    ]);
    write_meta(&args.out, "meta.json", &meta);
}
