//! C20 at the level of the write task: the real WriteTaskState (Links + RemoteTracker) with the agent's aggregate
//! reporter and one reporter per lane attached (hook WriteState::with_reporting / register_lane_reported), driven one
//! operation at a time; after every operation a snapshot of every reporter is taken (link count shown, events
//! consumed) and compared with Model/LinkReports.v.

use std::collections::{BTreeMap, BTreeSet, HashMap};
use std::num::NonZeroUsize;

use bytes::Bytes;
use swimos_api::agent::UplinkKind;
use swimos_runtime::agent::reporting::{UplinkReportReader, UplinkReporter};
use swimos_runtime::verif_hooks::agent::task::{LaneData, UplinkResponse, WriteState, WriteTask};
use swimos_utilities::byte_channel::{byte_channel, ByteReader};
use uuid::Uuid;
use vcore::*;

#[derive(Clone, Debug)]
enum Op {
    AddRemote(u64),
    Link(u64, u64),
    Unlink(u64, u64),
    Event(u64, Option<u64>, bool), // lane, target, synced marker instead of a value
    Done(u64),
    RemoveLane(u64),
    UnlinkAll,
    RemoveRemote(u64),
}
impl Op {
    fn coq(&self, n: u32) -> String {
        match self {
            Op::AddRemote(r) => format!("OAddRemote {}", r),
            Op::Link(r, l) => format!("OLink {} {}", r, l),
            Op::Unlink(r, l) => format!("OUnlink {} {}", r, l),
            Op::Event(l, t, synced) => format!(
                "OEvent {} {} ({})",
                l,
                match t {
                    Some(r) => format!("(Some {})", r),
                    None => "None".into(),
                },
                if *synced { "RSynced KValue".to_string() } else { format!("RValue [{}]", 48 + n % 10) }
            ),
            Op::Done(r) => format!("ODone {}", r),
            Op::RemoveLane(l) => format!("ORemoveLane {}", l),
            Op::UnlinkAll => "OUnlinkAll".into(),
            Op::RemoveRemote(r) => format!("ORemoveRemote {}", r),
        }
    }
}

fn lane_name(l: u64) -> String {
    format!("l{}", l)
}

/// Per operation: (link counts of the lanes, of the agent), (events consumed from the lanes, from the agent).
async fn run(nlanes: u64, ops: &[Op]) -> (Vec<String>, Vec<String>) {
    let identity = Uuid::from_u128(999);
    let agg = UplinkReporter::default();
    let agg_reader = agg.reader();
    let mut state = WriteState::with_reporting(identity, "/node", agg);
    let mut readers: Vec<UplinkReportReader> = vec![];
    for l in 0..nlanes {
        let rep = UplinkReporter::default();
        readers.push(rep.reader());
        assert_eq!(state.register_lane_reported(&lane_name(l), rep), l);
    }
    let mut keep_readers: Vec<ByteReader> = vec![];
    let mut keep = vec![];
    let mut inflight: HashMap<u64, WriteTask> = HashMap::new();
    let rid = |r: u64| Uuid::from_u128(r as u128);
    let start = |tasks: Vec<WriteTask>, inflight: &mut HashMap<u64, WriteTask>| {
        for t in tasks {
            let r = t.sender.remote_id().as_u128() as u64;
            assert!(inflight.insert(r, t).is_none(), "two writes in flight for one remote");
        }
    };
    let mut reps = vec![];
    let mut evs = vec![];
    for (i, op) in ops.iter().enumerate() {
        match op {
            Op::AddRemote(r) => {
                let (w, reader) = byte_channel(NonZeroUsize::new(1 << 20).unwrap());
                keep.push(state.add_remote(rid(*r), w).await);
                keep_readers.push(reader);
            }
            Op::Link(r, l) => {
                let t = state.link(rid(*r), &lane_name(*l)).await;
                start(t.into_iter().collect(), &mut inflight);
            }
            Op::Unlink(r, l) => {
                let t = state.unlink(rid(*r), &lane_name(*l)).await;
                start(t.into_iter().collect(), &mut inflight);
            }
            Op::Event(l, target, synced) => {
                let resp = if *synced { UplinkResponse::Synced(UplinkKind::Value) } else { UplinkResponse::Value(Bytes::from(vec![48 + (i as u32 % 10) as u8])) };
                let ts = state.handle_event(*l, LaneData::new(target.map(rid), resp));
                start(ts, &mut inflight);
            }
            Op::Done(r) => {
                if let Some(task) = inflight.remove(r) {
                    let (sender, buffer, result) = tokio::time::timeout(std::time::Duration::from_secs(5), task.into_future())
                        .await
                        .expect("a write did not complete although the channel has room");
                    result.expect("write failed");
                    let next = state.replace(sender, buffer);
                    start(next.into_iter().collect(), &mut inflight);
                }
            }
            Op::RemoveLane(l) => {
                let ts = state.remove_lane(*l);
                start(ts, &mut inflight);
            }
            Op::UnlinkAll => {
                let ts = state.unlink_all();
                start(ts, &mut inflight);
            }
            Op::RemoveRemote(r) => {
                inflight.remove(r);
                state.remove_remote(rid(*r));
            }
        }
        // a removed lane's reporter is gone: nothing is shown for it, which is no link and no event
        let snaps: Vec<(u64, u64)> = readers.iter().map(|r| r.snapshot().map(|s| (s.link_count, s.event_count)).unwrap_or((0, 0))).collect();
        let a = agg_reader.snapshot().expect("the aggregate reporter is gone");
        reps.push(format!("({}, {})", coq_list(snaps.iter().map(|s| s.0.to_string())), a.link_count));
        evs.push(format!("({}, {})", coq_list(snaps.iter().map(|s| s.1.to_string())), a.event_count));
    }
    (reps, evs)
}

fn main() {
    let args = parse_args();
    silence_panics();
    let mut rng = Rng::new(args.seed ^ 0xc20_77);
    let mut w = CaseWriter::new("From SwimV Require Import Model.LinkReports.\nOpen Scope N_scope.", "rcase", &["rep_corr_bad", "rep_oracle_bad"], args.shards);
    let rt = tokio::runtime::Builder::new_current_thread().enable_time().build().unwrap();
    let mut kinds_count: BTreeMap<String, u64> = BTreeMap::new();
    let mut distinct = BTreeSet::new();
    let mut nontrivial = 0u64;
    let mut samples = vec![];

    let mut emit = |nlanes: u64, ops: &[Op], w: &mut CaseWriter| {
        let ops2 = ops.to_vec();
        let (reps, evs) = catch(std::panic::AssertUnwindSafe(|| rt.block_on(run(nlanes, &ops2)))).unwrap_or_else(|m| (vec![format!("([], 0) (* PANIC {} *)", m.replace("*)", "* )"))], vec![]));
        let term = format!(
            "({}, {}, {}, {})",
            nlanes,
            coq_list(ops.iter().enumerate().map(|(i, o)| o.coq(i as u32))),
            coq_list(reps.iter().cloned()),
            coq_list(evs.iter().cloned())
        );
        let human = format!("write_state with reporters lanes={} ops={:?} link counts={:?} events={:?}", nlanes, ops, reps, evs);
        for o in ops {
            let k = format!("{:?}", o);
            *kinds_count.entry(format!("op:{}", k.split('(').next().unwrap())).or_default() += 1;
        }
        // non-trivial: links of at least two remotes shown at some point, and a remote or lane removed while linked
        let two = reps.iter().any(|r| r.ends_with(", 2)") || r.ends_with(", 3)") || r.ends_with(", 4)") || r.ends_with(", 5)"));
        let removal = ops.iter().any(|o| matches!(o, Op::RemoveRemote(_) | Op::RemoveLane(_) | Op::UnlinkAll));
        if distinct.insert(format!("{:?}", ops)) && two && removal {
            nontrivial += 1;
            if samples.len() < 3 {
                samples.push(J::s(human.chars().take(700).collect::<String>()));
            }
        }
        w.push(term, human);
    };

    // corpus: a link request and a sync answer for a remote that was never attached / has gone away
    emit(2, &[Op::Link(2, 0), Op::AddRemote(1), Op::Link(1, 0), Op::Event(0, None, false), Op::Done(1), Op::Done(1)], &mut w);
    emit(2, &[Op::AddRemote(1), Op::Link(1, 0), Op::RemoveRemote(1), Op::Event(0, Some(1), false), Op::Event(0, Some(1), true), Op::Event(0, None, false)], &mut w);
    emit(2, &[Op::AddRemote(1), Op::AddRemote(2), Op::Link(1, 0), Op::Link(2, 0), Op::Link(2, 1), Op::Event(0, None, false), Op::RemoveRemote(2), Op::Event(0, None, false), Op::Link(2, 1), Op::RemoveLane(0), Op::Event(1, None, false)], &mut w);
    emit(1, &[Op::AddRemote(1), Op::Event(0, Some(1), false), Op::Event(0, Some(1), true), Op::Unlink(1, 0), Op::Unlink(1, 0), Op::Done(1), Op::UnlinkAll], &mut w);

    for _ in 0..args.cases {
        let nlanes = rng.range(1, 4);
        let nrem = rng.range(1, 4);
        let len = rng.range(4, 40) as usize;
        let done_bias = rng.range(1, 5);
        // some remotes are attached at the start, the others (if at all) somewhere in the middle
        let mut ops: Vec<Op> = vec![];
        let mut attached: BTreeSet<u64> = BTreeSet::new();
        for r in 1..=nrem {
            if rng.below(4) != 0 {
                ops.push(Op::AddRemote(r));
                attached.insert(r);
            }
        }
        // a lane that was removed has failed: its output is gone (no more events) and the read task has dropped it
        // too (no more requests by its name); the window in which only one of the tasks knows is not exercised
        let mut dead: BTreeSet<u64> = BTreeSet::new();
        for _ in 0..len {
            if rng.below(10) < done_bias {
                ops.push(Op::Done(rng.range(1, nrem)));
                continue;
            }
            let r = rng.range(1, nrem);
            let l = rng.below(nlanes);
            if dead.contains(&l) {
                continue;
            }
            ops.push(match rng.below(30) {
                0..=7 => Op::Link(r, l),
                8..=10 => Op::Unlink(r, l),
                // an identifier is attached at most once at a time (the runtime asserts it)
                11..=12 if !attached.contains(&r) => {
                    attached.insert(r);
                    Op::AddRemote(r)
                }
                13 => {
                    dead.insert(l);
                    Op::RemoveLane(l)
                }
                14 if rng.below(2) == 0 => Op::UnlinkAll,
                15..=16 => {
                    attached.remove(&r);
                    Op::RemoveRemote(r)
                }
                17..=21 => Op::Event(l, Some(r), rng.below(2) == 0),
                _ => Op::Event(l, None, false),
            });
        }
        emit(nlanes, &ops, &mut w);
    }

    // ---- the read task's lane senders: every command received for a lane is counted, whether or not the lane takes
    // it (real code only) ----
    let mut failures: Vec<String> = vec![];
    {
        use bytes::Bytes;
        use swimos_runtime::verif_hooks::agent::task::LaneSender;
        for i in 0..(args.cases / 4).max(8) {
            let map = i % 2 == 1;
            let n = rng.range(1, 12) as usize;
            let close_at = if rng.below(3) == 0 { Some(rng.usize_below(n)) } else { None };
            let reporter = UplinkReporter::default();
            let reader = reporter.reader();
            let (tx, rx) = byte_channel(NonZeroUsize::new(1 << 16).unwrap());
            let mut rx = Some(rx);
            let mut sender = LaneSender::new(tx, if map { UplinkKind::Map } else { UplinkKind::Value }, Some(reporter));
            let mut received = 0u64;
            let mut counted = 0u64;
            let mut refused = 0u64;
            let r = catch(std::panic::AssertUnwindSafe(|| {
                rt.block_on(async {
                    for j in 0..n {
                        if close_at == Some(j) {
                            rx = None; // the lane has gone away
                        }
                        // a well-formed command, or (map lanes) one whose header is not a map message
                        let body: Bytes = if map {
                            match rng.below(4) {
                                0 => Bytes::from_static(b"@nonsense(key:\"key\") 5"),
                                1 => Bytes::from_static(b"@clear"),
                                _ => Bytes::from(format!("@update(key:{}) {}", j, j * 3)),
                            }
                        } else {
                            Bytes::from(j.to_string())
                        };
                        received += 1;
                        if sender.feed_frame(body).await.is_err() {
                            refused += 1;
                        }
                        let _ = sender.flush().await;
                        if rng.below(3) == 0 {
                            counted += reader.snapshot().map(|s| s.command_count).unwrap_or(0);
                        }
                    }
                    counted += reader.snapshot().map(|s| s.command_count).unwrap_or(0);
                })
            }));
            *kinds_count.entry(format!("lane_sender:{}", if map { "map" } else { "value" })).or_default() += 1;
            if refused > 0 {
                *kinds_count.entry("lane_sender:some_commands_refused".into()).or_default() += 1;
            }
            match r {
                Ok(()) if counted == received => {}
                Ok(()) => failures.push(format!("lane sender ({} lane, channel closed at {:?}): {} commands were received for the lane ({} of them refused by it), the snapshots of its reporter add up to {}", if map { "map" } else { "value" }, close_at, received, refused, counted)),
                Err(m) => failures.push(format!("lane sender panicked: {}", m)),
            }
        }
    }

    w.finish(&args.out, "cases").unwrap();
    let meta = J::obj(vec![
        ("evaluations", J::I(w.len() as i128)),
        ("distinct_nontrivial", J::I(nontrivial as i128)),
        ("rule", J::s("operation sequences on the real WriteTaskState with the aggregate reporter and a reporter per lane attached: 1-4 lanes, 1-4 remotes of which some are attached late or never; link / unlink requests (also for remotes that are not attached or have been removed), broadcast events, targeted answers (implicit links; also for remotes that have gone away), write completions, lane removal, unlink-all, remote removal, re-attachment; after every operation a snapshot of every reporter: link counts shown and events consumed, compared with Model/LinkReports.v (correspondence) and with the number of links whose remote exists (oracle); non-trivial = two or more links shown at some point and a remote, a lane or all links removed; a second family (real code only) feeds the read task's LaneSender of a value and of a map lane with commands, some with a header that is no map message, the lane going away at a generated moment: the snapshots of the lane's reporter must add up to the number of commands received for the lane")),
        ("structures", J::counts(&kinds_count)),
        ("samples", J::A(samples)),
        ("direct_failures", J::A(failures.iter().take(40).map(|f| J::s(f.chars().take(500).collect::<String>())).collect())),
        ("direct_failure_count", J::I(failures.len() as i128)),
    ]);
    write_meta(&args.out, "meta.json", &meta);
}
