//! C10: real encoders / decoders of the byte-bodied frame codecs, driven like `FramedRead`
//! (append a chunk, decode until `Ok(None)`), under generated chunkings and byte mutations.

use std::collections::{BTreeMap, BTreeSet};
use std::panic::AssertUnwindSafe;

use bytes::{Bytes, BytesMut};
use swimos_agent_protocol::encoding::{command::*, downlink::*, lane::*, map::*, store::*};
use swimos_agent_protocol::{
    CommandMessage, DownlinkOperation, LaneRequest, LaneResponse, MapMessage, MapOperation, StoreInitMessage,
    StoreInitialized, StoreResponse,
};
use swimos_api::address::{Address, RelativeAddress};
use swimos_messages::protocol::{
    BytesRequestMessage, BytesResponseMessage, Notification, Operation, RawRequestMessageDecoder,
    RawRequestMessageEncoder, RawResponseMessageDecoder, RawResponseMessageEncoder, RequestMessage, ResponseMessage,
};
use swimos_model::Text;
use swimos_utilities::encoding::WithLengthBytesCodec;
use tokio_util::codec::{Decoder, Encoder};
use uuid::Uuid;
use vcore::*;

#[derive(Clone, Debug, PartialEq, Eq, PartialOrd, Ord)]
enum MapOp {
    Update(Vec<u8>, Vec<u8>),
    Remove(Vec<u8>),
    Clear,
    Take(u64),
    Drop(u64),
}

#[derive(Clone, Debug, PartialEq, Eq, PartialOrd, Ord)]
enum Msg {
    WL(Vec<u8>),
    MO(MapOp),
    MM(MapOp),
    LReqCommand(Box<Msg>),
    LReqSync(u128),
    LReqInitComplete,
    LRespEvent(Box<Msg>),
    LRespInitialized,
    LRespSyncEvent(u128, Box<Msg>),
    LRespSynced(u128),
    SInitCommand(Box<Msg>),
    SInitComplete,
    SInitialized,
    SResp(Box<Msg>),
    CRegister(Option<String>, String, String, u16),
    CAddressed(Option<String>, String, String, Vec<u8>, bool),
    CRegistered(u16, Vec<u8>, bool),
    Req(u128, String, String, ReqOp),
    Resp(u128, String, String, RespOp),
}

#[derive(Clone, Debug, PartialEq, Eq, PartialOrd, Ord)]
enum ReqOp {
    Link,
    Sync,
    Unlink,
    Command(Vec<u8>),
}
#[derive(Clone, Debug, PartialEq, Eq, PartialOrd, Ord)]
enum RespOp {
    Linked,
    Synced,
    Unlinked(Option<Vec<u8>>),
    Event(Vec<u8>),
}

#[derive(Clone, Copy, Debug, PartialEq, Eq, PartialOrd, Ord)]
enum Inner {
    WL,
    MO,
    MM,
}

#[derive(Clone, Copy, Debug, PartialEq, Eq, PartialOrd, Ord)]
enum Codec {
    WL,
    MO,
    MM,
    LaneReq(Inner),
    LaneResp(Inner),
    StoreInit(Inner),
    StoreInitialized,
    StoreResp(Inner),
    DlOp,
    Cmd,
    Req,
    Resp,
}

fn cb(b: &[u8]) -> String {
    coq_bytes(b)
}
fn cs(s: &str) -> String {
    coq_bytes(s.as_bytes())
}
fn cob(o: &Option<Vec<u8>>) -> String {
    match o {
        Some(b) => format!("(Some {})", cb(b)),
        None => "None".into(),
    }
}
fn cos(o: &Option<String>) -> String {
    match o {
        Some(b) => format!("(Some {})", cs(b)),
        None => "None".into(),
    }
}

impl MapOp {
    fn coq(&self) -> String {
        match self {
            MapOp::Update(k, v) => format!("(MUpdate {} {})", cb(k), cb(v)),
            MapOp::Remove(k) => format!("(MRemove {})", cb(k)),
            MapOp::Clear => "MClear".into(),
            MapOp::Take(n) => format!("(MTake {}%N)", n),
            MapOp::Drop(n) => format!("(MDrop {}%N)", n),
        }
    }
}

impl Msg {
    fn coq(&self) -> String {
        match self {
            Msg::WL(b) => format!("(WL {})", cb(b)),
            Msg::MO(o) => format!("(MO {})", o.coq()),
            Msg::MM(o) => format!("(MM {})", o.coq()),
            Msg::LReqCommand(m) => format!("(LReqCommand {})", m.coq()),
            Msg::LReqSync(id) => format!("(LReqSync {}%N)", id),
            Msg::LReqInitComplete => "LReqInitComplete".into(),
            Msg::LRespEvent(m) => format!("(LRespEvent {})", m.coq()),
            Msg::LRespInitialized => "LRespInitialized".into(),
            Msg::LRespSyncEvent(id, m) => format!("(LRespSyncEvent {}%N {})", id, m.coq()),
            Msg::LRespSynced(id) => format!("(LRespSynced {}%N)", id),
            Msg::SInitCommand(m) => format!("(SInitCommand {})", m.coq()),
            Msg::SInitComplete => "SInitComplete".into(),
            Msg::SInitialized => "SInitialized".into(),
            Msg::SResp(m) => format!("(SResp {})", m.coq()),
            Msg::CRegister(h, n, l, id) => format!("(CRegister {} {} {} {}%N)", cos(h), cs(n), cs(l), id),
            Msg::CAddressed(h, n, l, b, ow) => format!("(CAddressed {} {} {} {} {})", cos(h), cs(n), cs(l), cb(b), ow),
            Msg::CRegistered(id, b, ow) => format!("(CRegistered {}%N {} {})", id, cb(b), ow),
            Msg::Req(o, n, l, op) => format!(
                "(Req {}%N {} {} {})",
                o,
                cs(n),
                cs(l),
                match op {
                    ReqOp::Link => "OpLink".to_string(),
                    ReqOp::Sync => "OpSync".to_string(),
                    ReqOp::Unlink => "OpUnlink".to_string(),
                    ReqOp::Command(b) => format!("(OpCommand {})", cb(b)),
                }
            ),
            Msg::Resp(o, n, l, op) => format!(
                "(Resp {}%N {} {} {})",
                o,
                cs(n),
                cs(l),
                match op {
                    RespOp::Linked => "NLinked".to_string(),
                    RespOp::Synced => "NSynced".to_string(),
                    RespOp::Unlinked(b) => format!("(NUnlinked {})", cob(b)),
                    RespOp::Event(b) => format!("(NEvent {})", cb(b)),
                }
            ),
        }
    }
}

impl Inner {
    fn coq(&self) -> &'static str {
        match self {
            Inner::WL => "IWL",
            Inner::MO => "IMO",
            Inner::MM => "IMM",
        }
    }
}
impl Codec {
    fn coq(&self) -> String {
        match self {
            Codec::WL => "CWL".into(),
            Codec::MO => "CMO".into(),
            Codec::MM => "CMM".into(),
            Codec::LaneReq(i) => format!("(CLaneReq {})", i.coq()),
            Codec::LaneResp(i) => format!("(CLaneResp {})", i.coq()),
            Codec::StoreInit(i) => format!("(CStoreInit {})", i.coq()),
            Codec::StoreInitialized => "CStoreInitialized".into(),
            Codec::StoreResp(i) => format!("(CStoreResp {})", i.coq()),
            Codec::DlOp => "CDlOp".into(),
            Codec::Cmd => "CCmd".into(),
            Codec::Req => "CReq".into(),
            Codec::Resp => "CResp".into(),
        }
    }
}

// ---- conversions to the real message types ----

fn to_mapop(o: &MapOp) -> MapOperation<Vec<u8>, Vec<u8>> {
    match o {
        MapOp::Update(k, v) => MapOperation::Update { key: k.clone(), value: v.clone() },
        MapOp::Remove(k) => MapOperation::Remove { key: k.clone() },
        MapOp::Clear => MapOperation::Clear,
        _ => panic!("not an operation"),
    }
}
fn to_mapmsg(o: &MapOp) -> MapMessage<Vec<u8>, Vec<u8>> {
    match o {
        MapOp::Update(k, v) => MapMessage::Update { key: k.clone(), value: v.clone() },
        MapOp::Remove(k) => MapMessage::Remove { key: k.clone() },
        MapOp::Clear => MapMessage::Clear,
        MapOp::Take(n) => MapMessage::Take(*n),
        MapOp::Drop(n) => MapMessage::Drop(*n),
    }
}
fn from_mapop(o: MapOperation<BytesMut, BytesMut>) -> MapOp {
    match o {
        MapOperation::Update { key, value } => MapOp::Update(key.to_vec(), value.to_vec()),
        MapOperation::Remove { key } => MapOp::Remove(key.to_vec()),
        MapOperation::Clear => MapOp::Clear,
    }
}
fn from_mapmsg(o: MapMessage<BytesMut, BytesMut>) -> MapOp {
    match o {
        MapMessage::Update { key, value } => MapOp::Update(key.to_vec(), value.to_vec()),
        MapMessage::Remove { key } => MapOp::Remove(key.to_vec()),
        MapMessage::Clear => MapOp::Clear,
        MapMessage::Take(n) => MapOp::Take(n),
        MapMessage::Drop(n) => MapOp::Drop(n),
    }
}

fn wl(m: &Msg) -> Vec<u8> {
    match m {
        Msg::WL(b) => b.clone(),
        _ => panic!("expected WL"),
    }
}
fn mo(m: &Msg) -> &MapOp {
    match m {
        Msg::MO(o) | Msg::MM(o) => o,
        _ => panic!("expected map op"),
    }
}

fn lane_req<T>(m: &Msg, f: impl Fn(&Msg) -> T) -> LaneRequest<T> {
    match m {
        Msg::LReqCommand(x) => LaneRequest::Command(f(x)),
        Msg::LReqSync(id) => LaneRequest::Sync(Uuid::from_u128(*id)),
        Msg::LReqInitComplete => LaneRequest::InitComplete,
        _ => panic!("not a lane request"),
    }
}
fn lane_resp<T>(m: &Msg, f: impl Fn(&Msg) -> T) -> LaneResponse<T> {
    match m {
        Msg::LRespEvent(x) => LaneResponse::StandardEvent(f(x)),
        Msg::LRespInitialized => LaneResponse::Initialized,
        Msg::LRespSyncEvent(id, x) => LaneResponse::SyncEvent(Uuid::from_u128(*id), f(x)),
        Msg::LRespSynced(id) => LaneResponse::Synced(Uuid::from_u128(*id)),
        _ => panic!("not a lane response"),
    }
}
fn store_init<T>(m: &Msg, f: impl Fn(&Msg) -> T) -> StoreInitMessage<T> {
    match m {
        Msg::SInitCommand(x) => StoreInitMessage::Command(f(x)),
        Msg::SInitComplete => StoreInitMessage::InitComplete,
        _ => panic!("not a store init message"),
    }
}

fn encode_real(c: Codec, m: &Msg, dst: &mut BytesMut) {
    match c {
        Codec::WL | Codec::DlOp => WithLengthBytesCodec.encode(wl(m), dst).unwrap(),
        Codec::MO => RawMapOperationEncoder.encode(to_mapop(mo(m)), dst).unwrap(),
        Codec::MM => RawMapMessageEncoder::default().encode(to_mapmsg(mo(m)), dst).unwrap(),
        Codec::LaneReq(Inner::WL) => RawValueLaneRequestEncoder::default().encode(lane_req(m, wl), dst).unwrap(),
        Codec::LaneReq(Inner::MM) => RawMapLaneRequestEncoder::default()
            .encode(lane_req(m, |x| to_mapmsg(mo(x))), dst)
            .unwrap(),
        Codec::LaneResp(Inner::WL) => RawValueLaneResponseEncoder::default().encode(lane_resp(m, wl), dst).unwrap(),
        Codec::LaneResp(Inner::MO) => RawMapLaneResponseEncoder::default()
            .encode(lane_resp(m, |x| to_mapop(mo(x))), dst)
            .unwrap(),
        Codec::StoreInit(Inner::WL) => RawValueStoreInitEncoder::default().encode(store_init(m, wl), dst).unwrap(),
        Codec::StoreInit(Inner::MM) => RawMapStoreInitEncoder::default()
            .encode(store_init(m, |x| to_mapmsg(mo(x))), dst)
            .unwrap(),
        Codec::StoreInitialized => StoreInitializedCodec.encode(StoreInitialized, dst).unwrap(),
        Codec::StoreResp(Inner::WL) => {
            // ValueStoreResponseEncoder writes Recon; the raw layout is tag + length-prefixed body
            if let Msg::SResp(x) = m {
                dst.extend_from_slice(&[3u8]);
                WithLengthBytesCodec.encode(wl(x), dst).unwrap();
            }
        }
        Codec::StoreResp(Inner::MO) => {
            if let Msg::SResp(x) = m {
                dst.extend_from_slice(&[3u8]);
                RawMapOperationEncoder.encode(to_mapop(mo(x)), dst).unwrap();
            }
        }
        Codec::Cmd => {
            let msg: CommandMessage<String, Vec<u8>> = match m {
                Msg::CRegister(h, n, l, id) => CommandMessage::Register {
                    address: Address::new(h.clone(), n.clone(), l.clone()),
                    id: *id,
                },
                Msg::CAddressed(h, n, l, b, ow) => CommandMessage::Addressed {
                    target: Address::new(h.clone(), n.clone(), l.clone()),
                    command: b.clone(),
                    overwrite_permitted: *ow,
                },
                Msg::CRegistered(id, b, ow) => CommandMessage::Registered {
                    target: *id,
                    command: b.clone(),
                    overwrite_permitted: *ow,
                },
                _ => panic!("not a command message"),
            };
            RawCommandMessageEncoder::default().encode(msg, dst).unwrap()
        }
        Codec::Req => {
            if let Msg::Req(o, n, l, op) = m {
                let path = RelativeAddress::new(n.clone(), l.clone());
                let msg: RequestMessage<String, Vec<u8>> = RequestMessage {
                    origin: Uuid::from_u128(*o),
                    path,
                    envelope: match op {
                        ReqOp::Link => Operation::Link,
                        ReqOp::Sync => Operation::Sync,
                        ReqOp::Unlink => Operation::Unlink,
                        ReqOp::Command(b) => Operation::Command(b.clone()),
                    },
                };
                RawRequestMessageEncoder.encode(msg, dst).unwrap()
            }
        }
        Codec::Resp => {
            if let Msg::Resp(o, n, l, op) = m {
                let path = RelativeAddress::new(n.clone(), l.clone());
                let msg: ResponseMessage<String, Vec<u8>, Vec<u8>> = ResponseMessage {
                    origin: Uuid::from_u128(*o),
                    path,
                    envelope: match op {
                        RespOp::Linked => Notification::Linked,
                        RespOp::Synced => Notification::Synced,
                        RespOp::Unlinked(b) => Notification::Unlinked(b.clone()),
                        RespOp::Event(b) => Notification::Event(b.clone()),
                    },
                };
                RawResponseMessageEncoder.encode(msg, dst).unwrap()
            }
        }
        other => panic!("no such codec instance {:?}", other),
    }
}

type DecFn = Box<dyn FnMut(&mut BytesMut) -> Result<Option<Msg>, ()>>;

fn make_decoder(c: Codec) -> DecFn {
    fn lr<T>(r: LaneRequest<T>, f: impl Fn(T) -> Msg) -> Msg {
        match r {
            LaneRequest::Command(x) => Msg::LReqCommand(Box::new(f(x))),
            LaneRequest::Sync(id) => Msg::LReqSync(id.as_u128()),
            LaneRequest::InitComplete => Msg::LReqInitComplete,
        }
    }
    fn lp<T>(r: LaneResponse<T>, f: impl Fn(T) -> Msg) -> Msg {
        match r {
            LaneResponse::StandardEvent(x) => Msg::LRespEvent(Box::new(f(x))),
            LaneResponse::Initialized => Msg::LRespInitialized,
            LaneResponse::SyncEvent(id, x) => Msg::LRespSyncEvent(id.as_u128(), Box::new(f(x))),
            LaneResponse::Synced(id) => Msg::LRespSynced(id.as_u128()),
        }
    }
    fn si<T>(r: StoreInitMessage<T>, f: impl Fn(T) -> Msg) -> Msg {
        match r {
            StoreInitMessage::Command(x) => Msg::SInitCommand(Box::new(f(x))),
            StoreInitMessage::InitComplete => Msg::SInitComplete,
        }
    }
    let w = |b: BytesMut| Msg::WL(b.to_vec());
    match c {
        Codec::WL => {
            let mut d = WithLengthBytesCodec;
            Box::new(move |b| d.decode(b).map(|o| o.map(w)).map_err(|_| ()))
        }
        Codec::DlOp => {
            let mut d = DownlinkOperationDecoder;
            Box::new(move |b| {
                d.decode(b)
                    .map(|o| o.map(|DownlinkOperation { body }: DownlinkOperation<Bytes>| Msg::WL(body.to_vec())))
                    .map_err(|_| ())
            })
        }
        Codec::MO => {
            let mut d = RawMapOperationDecoder;
            Box::new(move |b| d.decode(b).map(|o| o.map(|x| Msg::MO(from_mapop(x)))).map_err(|_| ()))
        }
        Codec::MM => {
            let mut d = RawMapMessageDecoder::default();
            Box::new(move |b| d.decode(b).map(|o| o.map(|x| Msg::MM(from_mapmsg(x)))).map_err(|_| ()))
        }
        Codec::LaneReq(Inner::WL) => {
            let mut d = RawValueLaneRequestDecoder::default();
            Box::new(move |b| d.decode(b).map(|o| o.map(|x| lr(x, w))).map_err(|_| ()))
        }
        Codec::LaneReq(Inner::MM) => {
            let mut d = RawMapLaneRequestDecoder::default();
            Box::new(move |b| d.decode(b).map(|o| o.map(|x| lr(x, |y| Msg::MM(from_mapmsg(y))))).map_err(|_| ()))
        }
        Codec::LaneResp(Inner::WL) => {
            let mut d = RawValueLaneResponseDecoder::default();
            Box::new(move |b| d.decode(b).map(|o| o.map(|x| lp(x, w))).map_err(|_| ()))
        }
        Codec::LaneResp(Inner::MO) => {
            let mut d = RawMapLaneResponseDecoder::default();
            Box::new(move |b| d.decode(b).map(|o| o.map(|x| lp(x, |y| Msg::MO(from_mapop(y))))).map_err(|_| ()))
        }
        Codec::StoreInit(Inner::WL) => {
            let mut d = RawValueStoreInitDecoder::default();
            Box::new(move |b| d.decode(b).map(|o| o.map(|x| si(x, w))).map_err(|_| ()))
        }
        Codec::StoreInit(Inner::MM) => {
            let mut d = RawMapStoreInitDecoder::default();
            Box::new(move |b| d.decode(b).map(|o| o.map(|x| si(x, |y| Msg::MM(from_mapmsg(y))))).map_err(|_| ()))
        }
        Codec::StoreInitialized => {
            let mut d = StoreInitializedCodec;
            Box::new(move |b| d.decode(b).map(|o| o.map(|_| Msg::SInitialized)).map_err(|_| ()))
        }
        Codec::StoreResp(Inner::WL) => {
            let mut d = RawValueStoreResponseDecoder::default();
            Box::new(move |b| {
                d.decode(b)
                    .map(|o| o.map(|StoreResponse { message }| Msg::SResp(Box::new(Msg::WL(message.to_vec())))))
                    .map_err(|_| ())
            })
        }
        Codec::StoreResp(Inner::MO) => {
            let mut d = RawMapStoreResponseDecoder::default();
            Box::new(move |b| {
                d.decode(b)
                    .map(|o| o.map(|StoreResponse { message }| Msg::SResp(Box::new(Msg::MO(from_mapop(message))))))
                    .map_err(|_| ())
            })
        }
        Codec::Cmd => {
            let mut d = RawCommandMessageDecoder::<Text>::default();
            Box::new(move |b| {
                d.decode(b)
                    .map(|o| {
                        o.map(|m| match m {
                            CommandMessage::Register { address: Address { host, node, lane }, id } => {
                                Msg::CRegister(host.map(|h| h.to_string()), node.to_string(), lane.to_string(), id)
                            }
                            CommandMessage::Addressed { target: Address { host, node, lane }, command, overwrite_permitted } => {
                                Msg::CAddressed(
                                    host.map(|h| h.to_string()),
                                    node.to_string(),
                                    lane.to_string(),
                                    command.to_vec(),
                                    overwrite_permitted,
                                )
                            }
                            CommandMessage::Registered { target, command, overwrite_permitted } => {
                                Msg::CRegistered(target, command.to_vec(), overwrite_permitted)
                            }
                        })
                    })
                    .map_err(|_| ())
            })
        }
        Codec::Req => {
            let mut d = RawRequestMessageDecoder;
            Box::new(move |b| {
                d.decode(b)
                    .map(|o| {
                        o.map(|BytesRequestMessage { origin, path, envelope }| {
                            Msg::Req(
                                origin.as_u128(),
                                path.node.as_str().to_string(),
                                path.lane.as_str().to_string(),
                                match envelope {
                                    Operation::Link => ReqOp::Link,
                                    Operation::Sync => ReqOp::Sync,
                                    Operation::Unlink => ReqOp::Unlink,
                                    Operation::Command(b) => ReqOp::Command(b.to_vec()),
                                },
                            )
                        })
                    })
                    .map_err(|_| ())
            })
        }
        Codec::Resp => {
            let mut d = RawResponseMessageDecoder;
            Box::new(move |b| {
                d.decode(b)
                    .map(|o| {
                        o.map(|BytesResponseMessage { origin, path, envelope }| {
                            Msg::Resp(
                                origin.as_u128(),
                                path.node.as_str().to_string(),
                                path.lane.as_str().to_string(),
                                match envelope {
                                    Notification::Linked => RespOp::Linked,
                                    Notification::Synced => RespOp::Synced,
                                    Notification::Unlinked(b) => RespOp::Unlinked(b.map(|x| x.to_vec())),
                                    Notification::Event(b) => RespOp::Event(b.to_vec()),
                                },
                            )
                        })
                    })
                    .map_err(|_| ())
            })
        }
        other => panic!("no such codec instance {:?}", other),
    }
}

/// FramedRead-style driving; returns the per-call trace as Coq terms.
fn run_decoder(c: Codec, chunks: &[Vec<u8>]) -> (Vec<String>, String) {
    let mut dec = make_decoder(c);
    let mut buf = BytesMut::new();
    let mut trace = vec![];
    let mut summary = String::new();
    'outer: for ch in chunks {
        buf.extend_from_slice(ch);
        loop {
            let r = std::panic::catch_unwind(AssertUnwindSafe(|| dec(&mut buf)));
            match r {
                Ok(Ok(None)) => {
                    trace.push(format!("(DNone, {}%N)", buf.len()));
                    summary.push('n');
                    break;
                }
                Ok(Ok(Some(m))) => {
                    trace.push(format!("(DSome {}, {}%N)", m.coq(), buf.len()));
                    summary.push('s');
                }
                Ok(Err(())) => {
                    trace.push(format!("(DErr, {}%N)", buf.len()));
                    summary.push('e');
                    break 'outer;
                }
                Err(_) => {
                    trace.push(format!("(DPanic, {}%N)", buf.len()));
                    summary.push('p');
                    break 'outer;
                }
            }
        }
    }
    (trace, summary)
}

// ---- generators ----

fn body(rng: &mut Rng) -> Vec<u8> {
    let n = match rng.below(10) {
        0 => 0,
        1 => 1,
        2..=6 => rng.range(2, 12),
        7 | 8 => rng.range(12, 60),
        _ => rng.range(60, 300),
    } as usize;
    rng.bytes(n)
}
fn name(rng: &mut Rng) -> String {
    let pool = ["", "a", "lane", "/node", "/unit/1", "swimos.example:9001", "x_y-z"];
    rng.pick(&pool).to_string()
}
fn mapop(rng: &mut Rng, allow_td: bool) -> MapOp {
    match rng.below(if allow_td { 7 } else { 5 }) {
        0 | 1 => MapOp::Update(body(rng), body(rng)),
        2 | 3 => MapOp::Remove(body(rng)),
        4 => MapOp::Clear,
        5 => MapOp::Take(rng.next_u64() >> rng.below(64)),
        _ => MapOp::Drop(rng.next_u64() >> rng.below(64)),
    }
}
fn inner_msg(rng: &mut Rng, i: Inner) -> Msg {
    match i {
        Inner::WL => Msg::WL(body(rng)),
        Inner::MO => Msg::MO(mapop(rng, false)),
        Inner::MM => Msg::MM(mapop(rng, true)),
    }
}
fn id128(rng: &mut Rng) -> u128 {
    match rng.below(4) {
        0 => 0,
        1 => u128::MAX,
        _ => ((rng.next_u64() as u128) << 64) | rng.next_u64() as u128,
    }
}
fn gen_msg(rng: &mut Rng, c: Codec) -> Msg {
    match c {
        Codec::WL | Codec::DlOp => Msg::WL(body(rng)),
        Codec::MO => Msg::MO(mapop(rng, false)),
        Codec::MM => Msg::MM(mapop(rng, true)),
        Codec::LaneReq(i) => match rng.below(5) {
            0 => Msg::LReqSync(id128(rng)),
            1 => Msg::LReqInitComplete,
            _ => Msg::LReqCommand(Box::new(inner_msg(rng, i))),
        },
        Codec::LaneResp(i) => match rng.below(6) {
            0 => Msg::LRespInitialized,
            1 => Msg::LRespSynced(id128(rng)),
            2 | 3 => Msg::LRespSyncEvent(id128(rng), Box::new(inner_msg(rng, i))),
            _ => Msg::LRespEvent(Box::new(inner_msg(rng, i))),
        },
        Codec::StoreInit(i) => match rng.below(4) {
            0 => Msg::SInitComplete,
            _ => Msg::SInitCommand(Box::new(inner_msg(rng, i))),
        },
        Codec::StoreInitialized => Msg::SInitialized,
        Codec::StoreResp(i) => Msg::SResp(Box::new(inner_msg(rng, i))),
        Codec::Cmd => {
            let host = if rng.chance(1, 2) { Some(name(rng)) } else { None };
            match rng.below(3) {
                0 => Msg::CRegister(host, name(rng), name(rng), rng.next_u64() as u16),
                1 => Msg::CAddressed(host, name(rng), name(rng), body(rng), rng.chance(1, 2)),
                _ => Msg::CRegistered(rng.next_u64() as u16, body(rng), rng.chance(1, 2)),
            }
        }
        Codec::Req => Msg::Req(
            id128(rng),
            name(rng),
            name(rng),
            match rng.below(5) {
                0 => ReqOp::Link,
                1 => ReqOp::Sync,
                2 => ReqOp::Unlink,
                _ => ReqOp::Command(body(rng)),
            },
        ),
        Codec::Resp => Msg::Resp(
            id128(rng),
            name(rng),
            name(rng),
            match rng.below(6) {
                0 => RespOp::Linked,
                1 => RespOp::Synced,
                2 => RespOp::Unlinked(None),
                3 => RespOp::Unlinked(Some({
                    let mut b = body(rng);
                    if b.is_empty() {
                        b.push(7);
                    }
                    b
                })),
                _ => RespOp::Event(body(rng)),
            },
        ),
    }
}

fn all_codecs() -> Vec<Codec> {
    vec![
        Codec::WL,
        Codec::MO,
        Codec::MM,
        Codec::LaneReq(Inner::WL),
        Codec::LaneReq(Inner::MM),
        Codec::LaneResp(Inner::WL),
        Codec::LaneResp(Inner::MO),
        Codec::StoreInit(Inner::WL),
        Codec::StoreInit(Inner::MM),
        Codec::StoreInitialized,
        Codec::StoreResp(Inner::WL),
        Codec::StoreResp(Inner::MO),
        Codec::DlOp,
        Codec::Cmd,
        Codec::Req,
        Codec::Resp,
    ]
}

fn chunking(rng: &mut Rng, data: &[u8]) -> Vec<Vec<u8>> {
    let mut out = vec![];
    let mut i = 0;
    let mode = rng.below(4);
    while i < data.len() {
        let n = match mode {
            0 => 1,
            1 => rng.range(1, 4),
            2 => rng.range(1, 40),
            _ => rng.range(1, data.len() as u64),
        } as usize;
        let j = (i + n).min(data.len());
        out.push(data[i..j].to_vec());
        i = j;
    }
    if out.is_empty() {
        out.push(vec![]);
    }
    out
}

/// Positions whose corruption cannot turn a length field into a multi-gigabyte value: decoders
/// that `reserve` from an unvalidated length abort the whole process on such values (see
/// KNOWN_FINDINGS, C10), which no harness can survive, so those positions are only mutated when
/// `--wild 1` is given (after the repair they are handled like any other byte).
fn safe_pos(c: Codec, i: usize, wild: bool) -> bool {
    if wild {
        return true;
    }
    match c {
        Codec::DlOp => i >= 6,
        Codec::Req | Codec::Resp => i < 16 || i == 19 || i == 23 || i >= 30,
        _ => true,
    }
}

fn mutate(rng: &mut Rng, c: Codec, data: &mut Vec<u8>, wild: bool) {
    if data.is_empty() {
        data.push(rng.next_u64() as u8);
        return;
    }
    match rng.below(6) {
        0 => {
            // corrupt the first byte (tag / flags / length MSB)
            if safe_pos(c, 0, wild) {
                data[0] = *rng.pick(&[0u8, 1, 2, 3, 4, 5, 6, 7, 9, 0x80, 0xff]);
            }
        }
        1 => {
            // an absurd 8-byte length at a plausible position: near 2^64 (overflow) or 2^63
            let pos = *rng.pick(&[0usize, 1, 9, 17]);
            let near_max = [u64::MAX, u64::MAX - 7, u64::MAX - 8, u64::MAX - 9];
            let mid = [1u64 << 63, (1 << 63) - 1, 1 << 40];
            if pos + 8 <= data.len() && (0..8).all(|k| safe_pos(c, pos + k, true)) {
                let reserves = matches!(c, Codec::DlOp | Codec::Req | Codec::Resp);
                let v = if reserves && !wild {
                    if matches!(c, Codec::DlOp) && pos == 0 { *rng.pick(&near_max) } else { return }
                } else if rng.chance(2, 3) {
                    *rng.pick(&near_max)
                } else {
                    *rng.pick(&mid)
                };
                // lengths around 2^40..2^63 make `split_to`/reserve-free decoders just wait
                if matches!(c, Codec::Req | Codec::Resp) {
                    return;
                }
                data[pos..pos + 8].copy_from_slice(&v.to_be_bytes());
            }
        }
        2 => {
            // small change of the low byte of a length field
            let pos = *rng.pick(&[7usize, 8, 16, 19, 23, 24, 31]);
            if pos < data.len() && safe_pos(c, pos, wild) {
                data[pos] = data[pos].wrapping_add(*rng.pick(&[1u8, 2, 0xff, 0xfe]));
            }
        }
        3 => {
            let n = rng.usize_below(data.len());
            data.truncate(n);
        }
        4 => {
            let i = rng.usize_below(data.len());
            if safe_pos(c, i, wild) {
                data[i] ^= 1 << rng.below(8);
            }
        }
        _ => {
            // the 3-bit operation tag of a routed message (a response tag on the request channel
            // and vice versa) / a non-UTF-8 byte
            if matches!(c, Codec::Req | Codec::Resp) && data.len() >= 32 {
                data[24] ^= 0x80;
            } else {
                let i = rng.usize_below(data.len());
                if safe_pos(c, i, wild) {
                    data[i] = 0xff;
                }
            }
        }
    }
}

fn main() {
    let args = parse_args();
    silence_panics();
    let mut rng = Rng::new(args.seed);
    let mut w = CaseWriter::new(
        "From SwimV Require Import Lib.Hex Model.Codec.\nOpen Scope N_scope.",
        "ccase",
        &["corr_bad", "oracle_bad"],
        args.shards.min(300),
    );
    let mut per_codec: BTreeMap<String, u64> = BTreeMap::new();
    let mut outcomes: BTreeMap<String, u64> = BTreeMap::new();
    let mut distinct = BTreeSet::new();
    let mut nontrivial = 0u64;
    let mut samples = vec![];

    let mut emit = |c: Codec, msgs: &[Msg], encoded: Option<&[u8]>, chunks: &[Vec<u8>], w: &mut CaseWriter| {
        let (trace, summary) = run_decoder(c, chunks);
        let term = format!(
            "{{| cc_codec := {}; cc_msgs := {}; cc_encoded := {}; cc_chunks := {}; cc_trace := {} |}}",
            c.coq(),
            coq_list(msgs.iter().map(|m| m.coq())),
            match encoded {
                Some(e) => format!("(Some {})", cb(e)),
                None => "None".into(),
            },
            coq_list(chunks.iter().map(|ch| cb(ch))),
            coq_list(trace.iter().cloned())
        );
        let human = format!(
            "codec={:?} msgs={:?} encoded={} chunks={:?} trace={}",
            c,
            msgs,
            encoded.map(hex_of).unwrap_or_else(|| "-".into()),
            chunks.iter().map(|c| hex_of(c)).collect::<Vec<_>>(),
            summary
        );
        *per_codec.entry(format!("{:?}", c)).or_default() += 1;
        for ch in summary.chars() {
            *outcomes.entry(ch.to_string()).or_default() += 1;
        }
        // non-trivial: an item completed by a chunk other than the one that started it
        let nt = summary.contains("ns") && msgs.len() > 1;
        if distinct.insert(human.clone()) && nt {
            nontrivial += 1;
            if samples.len() < 3 {
                samples.push(J::s(human.chars().take(600).collect::<String>()));
            }
        }
        w.push(term, human);
    };

    let codecs = all_codecs();
    let wild = args.extra.get("wild").map(|v| v == "1").unwrap_or(true);
    // corpus: fragmented registration (flags | header | strings | id) and other hand-made streams
    {
        let m = Msg::CRegister(Some("h".into()), "/node".into(), "lane".into(), 7);
        let mut dst = BytesMut::new();
        encode_real(Codec::Cmd, &m, &mut dst);
        let data = dst.to_vec();
        for cut in [1usize, 5, 17, 25, data.len() - 1] {
            let chunks = vec![data[..cut].to_vec(), data[cut..].to_vec()];
            emit(Codec::Cmd, std::slice::from_ref(&m), Some(&data), &chunks, &mut w);
        }
        // map update whose key length field is absurd
        let mut bad = vec![];
        bad.extend_from_slice(&30u64.to_be_bytes());
        bad.push(0);
        bad.extend_from_slice(&u64::MAX.to_be_bytes());
        bad.extend_from_slice(&[0u8; 21]);
        emit(Codec::MO, &[], None, &[bad.clone()], &mut w);
        emit(Codec::LaneResp(Inner::MO), &[], None, &[[vec![3u8], bad].concat()], &mut w);
        // length prefix that overflows
        let mut bad2 = u64::MAX.to_be_bytes().to_vec();
        bad2.extend_from_slice(&[1, 2, 3]);
        emit(Codec::WL, &[], None, &[bad2.clone()], &mut w);
        emit(Codec::DlOp, &[], None, &[bad2], &mut w);
        // a response tag on the request channel
        let m = Msg::Resp(1, "/n".into(), "l".into(), RespOp::Event(vec![1, 2, 3]));
        let mut dst = BytesMut::new();
        encode_real(Codec::Resp, &m, &mut dst);
        emit(Codec::Req, &[], None, &[dst.to_vec()], &mut w);
        let m = Msg::Req(1, "/n".into(), "l".into(), ReqOp::Command(vec![1, 2, 3]));
        let mut dst = BytesMut::new();
        encode_real(Codec::Req, &m, &mut dst);
        emit(Codec::Resp, &[], None, &[dst.to_vec()], &mut w);
    }

    for i in 0..args.cases {
        let c = codecs[i % codecs.len()];
        let n = rng.range(1, 6) as usize;
        let msgs: Vec<Msg> = (0..n).map(|_| gen_msg(&mut rng, c)).collect();
        let mut dst = BytesMut::new();
        for m in &msgs {
            encode_real(c, m, &mut dst);
        }
        let data = dst.to_vec();
        match rng.below(10) {
            0..=5 => {
                let chunks = chunking(&mut rng, &data);
                emit(c, &msgs, Some(&data), &chunks, &mut w);
            }
            6 | 7 => {
                // every single split point of a short stream (bounded)
                let one: Vec<Msg> = msgs.iter().take(2).cloned().collect();
                let mut d2 = BytesMut::new();
                for m in &one {
                    encode_real(c, m, &mut d2);
                }
                let d2 = d2.to_vec();
                let step = (d2.len() / 24).max(1);
                let mut cut = 0;
                while cut <= d2.len() {
                    let chunks = vec![d2[..cut].to_vec(), d2[cut..].to_vec()];
                    emit(c, &one, Some(&d2), &chunks, &mut w);
                    cut += step;
                }
            }
            _ => {
                let mut bad = data.clone();
                mutate(&mut rng, c, &mut bad, wild);
                let chunks = if rng.chance(1, 2) { vec![bad.clone()] } else { chunking(&mut rng, &bad) };
                emit(c, &[], None, &chunks, &mut w);
            }
        }
    }

    w.finish(&args.out, "cases").unwrap();
    let meta = J::obj(vec![
        ("evaluations", J::I(w.len() as i128)),
        ("distinct_nontrivial", J::I(nontrivial as i128)),
        ("rule", J::s("per codec instance (16 of them, round robin): 1..6 random messages encoded by the real encoder, then 60% random chunkings (1-byte, 1..3, 1..39, arbitrary), 20% every (strided) single split point of the first two messages, 20% byte mutations (tag, absurd or slightly wrong lengths, truncation, bit flips, wrong-direction tags); the real decoder is driven like FramedRead and every call's (result, bytes left) is recorded; corpus: fragmented command registration, absurd key length, overflowing length prefix, response tag on the request channel; non-trivial = more than one message and some item completed by a later chunk than the one that started it; distinct by rendered case")),
        ("per_codec", J::counts(&per_codec)),
        ("call_outcomes", J::counts(&outcomes)),
        ("samples", J::A(samples)),
    ]);
    write_meta(&args.out, "meta.json", &meta);
}
