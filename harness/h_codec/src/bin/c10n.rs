//! C10, the downlink notification codec (api/swimos_agent_protocol/src/downlink/mod.rs): DownlinkNotificationEncoder
//! against ValueNotificationDecoder / MapNotificationDecoder.  The body of an event is Recon text (or a map message
//! whose key and value are Recon text) read by an incremental recogniser, which the codec model (Model/Codec.v) does
//! not contain: this family is an oracle on the real code only.  Every sequence is decoded under every single split
//! point and under random multi-splits down to one byte per read; what comes out must be exactly what went in, all of
//! it without any byte after the last frame, nothing left in the buffer; mutated streams must not panic or hang.
use std::collections::BTreeMap;
use std::panic::AssertUnwindSafe;

use bytes::BytesMut;
use swimos_agent_protocol::encoding::downlink::*;
use swimos_agent_protocol::encoding::lane::*;
use swimos_agent_protocol::encoding::map::*;
use swimos_agent_protocol::encoding::store::*;
use swimos_agent_protocol::encoding::command::*;
use swimos_agent_protocol::{CommandMessage, DownlinkNotification, LaneRequest, LaneResponse, MapMessage, MapOperation, StoreInitMessage};
use swimos_api::address::Address;
use swimos_model::Text;
use uuid::Uuid;
use swimos_model::{Attr, Item, Value};
use tokio_util::codec::{Decoder, Encoder};
use vcore::*;

#[derive(Clone, Debug, PartialEq)]
enum Note {
    Linked,
    Synced,
    Unlinked,
    /// the body as written and the value it denotes
    Event(String, Value),
}

#[derive(Clone, Debug, PartialEq)]
enum MNote {
    Linked,
    Synced,
    Unlinked,
    Event(MapMessage<i64, Value>),
}

fn value_pool() -> Vec<(String, Value)> {
    vec![
        ("".to_string(), Value::Extant),
        ("0".to_string(), Value::Int32Value(0)),
        ("-17".to_string(), Value::Int32Value(-17)),
        ("4294967296".to_string(), Value::Int64Value(4294967296)),
        ("true".to_string(), Value::BooleanValue(true)),
        ("a".to_string(), Value::text("a")),
        ("\"two words\"".to_string(), Value::text("two words")),
        ("\"\"".to_string(), Value::text("")),
        ("1.5".to_string(), Value::Float64Value(1.5)),
        ("%AQID".to_string(), Value::Data(swimos_model::Blob::from_vec(vec![1, 2, 3]))),
        ("{}".to_string(), Value::Record(vec![], vec![])),
        ("@tag".to_string(), Value::Record(vec![Attr::of("tag")], vec![])),
        ("@tag{1,2}".to_string(), Value::Record(vec![Attr::of("tag")], vec![Item::of(1), Item::of(2)])),
        ("{a:1,b:\"x y\"}".to_string(), Value::Record(vec![], vec![Item::slot("a", 1), Item::slot("b", "x y")])),
        ("@update(key:3) 4".to_string(), Value::Record(vec![Attr::of(("update", Value::Record(vec![], vec![Item::slot("key", 3)])))], vec![Item::of(4)])),
    ]
}

fn gen_notes(rng: &mut Rng, pool: &[(String, Value)]) -> Vec<Note> {
    let n = rng.range(1, 5) as usize;
    (0..n)
        .map(|_| match rng.below(8) {
            0 => Note::Linked,
            1 => Note::Synced,
            2 => Note::Unlinked,
            3 => Note::Event(pool[0].0.clone(), pool[0].1.clone()), // the empty body
            _ => {
                let (t, v) = &pool[rng.usize_below(pool.len())];
                Note::Event(t.clone(), v.clone())
            }
        })
        .collect()
}

fn encode_notes(notes: &[Note]) -> (Vec<u8>, Vec<usize>) {
    let mut ends = vec![];
    let mut dst = BytesMut::new();
    let mut enc = DownlinkNotificationEncoder;
    for n in notes {
        let item: DownlinkNotification<Vec<u8>> = match n {
            Note::Linked => DownlinkNotification::Linked,
            Note::Synced => DownlinkNotification::Synced,
            Note::Unlinked => DownlinkNotification::Unlinked,
            Note::Event(t, _) => DownlinkNotification::Event { body: t.as_bytes().to_vec() },
        };
        enc.encode(item, &mut dst).unwrap();
        ends.push(dst.len());
    }
    (dst.to_vec(), ends)
}

fn gen_mnotes(rng: &mut Rng, pool: &[(String, Value)]) -> Vec<(MNote, Vec<u8>)> {
    let n = rng.range(1, 5) as usize;
    (0..n)
        .map(|_| match rng.below(8) {
            0 => (MNote::Linked, vec![]),
            1 => (MNote::Synced, vec![]),
            2 => (MNote::Unlinked, vec![]),
            k => {
                let key = rng.below(2000) as i64 - 1000;
                let (t, v) = &pool[rng.usize_below(pool.len())];
                let (typed, raw): (MapMessage<i64, Value>, MapMessage<Vec<u8>, Vec<u8>>) = match k {
                    3 => (MapMessage::Clear, MapMessage::Clear),
                    4 => (MapMessage::Remove { key }, MapMessage::Remove { key: key.to_string().into_bytes() }),
                    5 => {
                        let c = rng.below(100);
                        if rng.below(2) == 0 {
                            (MapMessage::Take(c), MapMessage::Take(c))
                        } else {
                            (MapMessage::Drop(c), MapMessage::Drop(c))
                        }
                    }
                    _ => (MapMessage::Update { key, value: v.clone() }, MapMessage::Update { key: key.to_string().into_bytes(), value: t.as_bytes().to_vec() }),
                };
                let mut body = BytesMut::new();
                RawMapMessageEncoder::default().encode(raw, &mut body).unwrap();
                (MNote::Event(typed), body.to_vec())
            }
        })
        .collect()
}

fn encode_mnotes(notes: &[(MNote, Vec<u8>)]) -> (Vec<u8>, Vec<usize>) {
    let mut ends = vec![];
    let mut dst = BytesMut::new();
    let mut enc = DownlinkNotificationEncoder;
    for (n, body) in notes {
        let item: DownlinkNotification<Vec<u8>> = match n {
            MNote::Linked => DownlinkNotification::Linked,
            MNote::Synced => DownlinkNotification::Synced,
            MNote::Unlinked => DownlinkNotification::Unlinked,
            MNote::Event(_) => DownlinkNotification::Event { body: body.clone() },
        };
        enc.encode(item, &mut dst).unwrap();
        ends.push(dst.len());
    }
    (dst.to_vec(), ends)
}

/// Feed the chunks as FramedRead does (append, decode until Ok(None)); no end-of-input call: every complete frame
/// has to come out once its last byte is there.
/// `ends`: where each frame ends in the stream (None: a mutated stream, nothing is known).  A message has to come out
/// as soon as the last byte of its frame has been fed, and not before.
fn run<D: Decoder>(dec: &mut D, chunks: &[Vec<u8>], budget: usize, ends: Option<&[usize]>) -> Result<(Vec<D::Item>, usize), String>
where
    D::Error: std::fmt::Debug,
{
    let mut buf = BytesMut::new();
    let mut out = vec![];
    let mut steps = 0usize;
    let mut fed = 0usize;
    for ch in chunks {
        buf.extend_from_slice(ch);
        fed += ch.len();
        loop {
            steps += 1;
            if steps > budget {
                return Err("the decoder does not come to rest (hang)".into());
            }
            match dec.decode(&mut buf) {
                Ok(Some(m)) => out.push(m),
                Ok(None) => break,
                Err(e) => return Err(format!("error {:?} after {} items", e, out.len())),
            }
        }
        if let Some(ends) = ends {
            let complete = ends.iter().filter(|e| **e <= fed).count();
            if out.len() != complete {
                return Err(format!("after {} bytes {} messages had come out although {} frames were complete", fed, out.len(), complete));
            }
        }
    }
    Ok((out, buf.len()))
}

fn splits(rng: &mut Rng, data: &[u8]) -> Vec<Vec<Vec<u8>>> {
    let mut all = vec![vec![data.to_vec()]];
    for cut in 1..data.len() {
        all.push(vec![data[..cut].to_vec(), data[cut..].to_vec()]);
    }
    // one byte per read, and random multi-splits
    all.push(data.iter().map(|b| vec![*b]).collect());
    for _ in 0..3 {
        let mut chunks = vec![];
        let mut i = 0;
        while i < data.len() {
            let k = (rng.range(1, 4) as usize).min(data.len() - i);
            chunks.push(data[i..i + k].to_vec());
            i += k;
        }
        all.push(chunks);
    }
    all
}

fn note_of(n: DownlinkNotification<Value>) -> Note {
    match n {
        DownlinkNotification::Linked => Note::Linked,
        DownlinkNotification::Synced => Note::Synced,
        DownlinkNotification::Unlinked => Note::Unlinked,
        DownlinkNotification::Event { body } => Note::Event(String::new(), body),
    }
}
fn mnote_of(n: DownlinkNotification<MapMessage<i64, Value>>) -> MNote {
    match n {
        DownlinkNotification::Linked => MNote::Linked,
        DownlinkNotification::Synced => MNote::Synced,
        DownlinkNotification::Unlinked => MNote::Unlinked,
        DownlinkNotification::Event { body } => MNote::Event(body),
    }
}
fn same(a: &Note, b: &Note) -> bool {
    match (a, b) {
        (Note::Event(_, x), Note::Event(_, y)) => x == y,
        _ => a == b,
    }
}

fn main() {
    let args = parse_args();
    silence_panics();
    let mut rng = Rng::new(args.seed ^ 0xc10_d1);
    let pool = value_pool();
    let mut kinds: BTreeMap<String, u64> = BTreeMap::new();
    let mut failures: Vec<String> = vec![];
    let mut evals = 0u64;
    let mut nontrivial = 0u64;

    // ---- value notifications ----
    let mut corpus: Vec<Vec<Note>> = vec![
        vec![Note::Event(pool[0].0.clone(), pool[0].1.clone())],
        vec![Note::Linked, Note::Event(pool[0].0.clone(), pool[0].1.clone())],
        vec![Note::Event("1".into(), Value::Int32Value(1)), Note::Event(pool[0].0.clone(), pool[0].1.clone()), Note::Synced, Note::Event(pool[0].0.clone(), pool[0].1.clone())],
        vec![Note::Linked, Note::Synced, Note::Unlinked],
    ];
    for _ in 0..args.cases {
        corpus.push(gen_notes(&mut rng, &pool));
    }
    for notes in &corpus {
        let (data, ends) = encode_notes(notes);
        if notes.iter().any(|n| matches!(n, Note::Event(t, _) if t.is_empty())) {
            *kinds.entry("value:with_an_empty_event_body".into()).or_default() += 1;
        }
        if matches!(notes.last(), Some(Note::Event(..))) {
            *kinds.entry("value:ends_with_an_event".into()).or_default() += 1;
        }
        nontrivial += 1;
        for chunks in splits(&mut rng, &data) {
            evals += 1;
            *kinds.entry("value:chunkings".into()).or_default() += 1;
            let r = catch(AssertUnwindSafe(|| run(&mut ValueNotificationDecoder::<Value>::default(), &chunks, 20 * (data.len() + 4), Some(&ends))));
            match r {
                Ok(Ok((out, left))) => {
                    let got: Vec<Note> = out.into_iter().map(note_of).collect();
                    if got.len() != notes.len() || !got.iter().zip(notes.iter()).all(|(a, b)| same(a, b)) || left != 0 {
                        failures.push(format!("value notifications {:?} in chunks of {:?}: decoded {:?} with {} bytes left", notes, chunks.iter().map(|c| c.len()).collect::<Vec<_>>(), got, left));
                    }
                }
                Ok(Err(e)) => failures.push(format!("value notifications {:?} in chunks of {:?}: {}", notes, chunks.iter().map(|c| c.len()).collect::<Vec<_>>(), e)),
                Err(m) => failures.push(format!("value notifications {:?}: the decoder panicked: {}", notes, m)),
            }
        }
        // byte-level mutations: no panic, no hang (errors are fine)
        for _ in 0..2 {
            let mut d = data.clone();
            if d.is_empty() {
                continue;
            }
            let p = rng.usize_below(d.len());
            match rng.below(3) {
                0 => d[p] = rng.below(256) as u8,
                1 => {
                    d.remove(p);
                }
                _ => d.insert(p, rng.below(256) as u8),
            }
            evals += 1;
            *kinds.entry("value:mutated".into()).or_default() += 1;
            let chunks: Vec<Vec<u8>> = if rng.below(2) == 0 { vec![d.clone()] } else { d.iter().map(|b| vec![*b]).collect() };
            let r = catch(AssertUnwindSafe(|| run(&mut ValueNotificationDecoder::<Value>::default(), &chunks, 20 * (d.len() + 4), None)));
            match r {
                Ok(Err(e)) if e.contains("hang") => failures.push(format!("mutated value notification stream {:02x?}: {}", d, e)),
                Err(m) => failures.push(format!("mutated value notification stream {:02x?}: the decoder panicked: {}", d, m)),
                _ => {}
            }
        }
    }

    // ---- map notifications ----
    for _ in 0..args.cases {
        let notes = gen_mnotes(&mut rng, &pool);
        let (data, ends) = encode_mnotes(&notes);
        let expected: Vec<MNote> = notes.iter().map(|(n, _)| n.clone()).collect();
        nontrivial += 1;
        for chunks in splits(&mut rng, &data) {
            evals += 1;
            *kinds.entry("map:chunkings".into()).or_default() += 1;
            let r = catch(AssertUnwindSafe(|| run(&mut MapNotificationDecoder::<i64, Value>::default(), &chunks, 20 * (data.len() + 4), Some(&ends))));
            match r {
                Ok(Ok((out, left))) => {
                    let got: Vec<MNote> = out.into_iter().map(mnote_of).collect();
                    if got != expected || left != 0 {
                        failures.push(format!("map notifications {:?} in chunks of {:?}: decoded {:?} with {} bytes left", expected, chunks.iter().map(|c| c.len()).collect::<Vec<_>>(), got, left));
                    }
                }
                Ok(Err(e)) => failures.push(format!("map notifications {:?} in chunks of {:?}: {}", expected, chunks.iter().map(|c| c.len()).collect::<Vec<_>>(), e)),
                Err(m) => failures.push(format!("map notifications {:?}: the decoder panicked: {}", expected, m)),
            }
        }
    }

    // ---- the typed codecs: Recon-bodied frames read by incremental recognisers ----
    macro_rules! family {
        ($name:expr, $gen:expr, $enc:expr, $dec:expr) => {{
            for _ in 0..(args.cases / 3).max(10) {
                let n = rng.range(1, 4) as usize;
                let msgs: Vec<_> = (0..n).map(|_| $gen(&mut rng)).collect();
                let mut dst = BytesMut::new();
                let mut e = $enc;
                let mut ends = vec![];
                for m in &msgs {
                    e.encode(m.clone(), &mut dst).unwrap();
                    ends.push(dst.len());
                }
                let data = dst.to_vec();
                nontrivial += 1;
                for chunks in splits(&mut rng, &data) {
                    evals += 1;
                    *kinds.entry(format!("{}:chunkings", $name)).or_default() += 1;
                    let r = catch(AssertUnwindSafe(|| run(&mut $dec, &chunks, 20 * (data.len() + 4), Some(&ends))));
                    let sizes = chunks.iter().map(|c| c.len()).collect::<Vec<_>>();
                    match r {
                        Ok(Ok((out, left))) => {
                            if out != msgs || left != 0 {
                                failures.push(format!("{} {:?} in chunks of {:?}: decoded {:?} with {} bytes left", $name, msgs, sizes, out, left));
                            }
                        }
                        Ok(Err(e)) => failures.push(format!("{} {:?} in chunks of {:?}: {}", $name, msgs, sizes, e)),
                        Err(m) => failures.push(format!("{} {:?}: the decoder panicked: {}", $name, msgs, m)),
                    }
                }
            }
        }};
    }
    let vals: Vec<Value> = pool.iter().map(|(_, v)| v.clone()).collect();
    let val = |rng: &mut Rng| vals[rng.usize_below(vals.len())].clone();
    let key = |rng: &mut Rng| -> i64 { [0i64, 7, -921, 1234567890123, -1][rng.usize_below(5)] };
    let mop = |rng: &mut Rng| -> MapOperation<i64, Value> {
        match rng.below(5) {
            0 => MapOperation::Clear,
            1 => MapOperation::Remove { key: key(rng) },
            _ => MapOperation::Update { key: key(rng), value: val(rng) },
        }
    };
    let mmsg = |rng: &mut Rng| -> MapMessage<i64, Value> {
        match rng.below(7) {
            0 => MapMessage::Clear,
            1 => MapMessage::Remove { key: key(rng) },
            2 => MapMessage::Take(rng.below(300)),
            3 => MapMessage::Drop(rng.below(300)),
            _ => MapMessage::Update { key: key(rng), value: val(rng) },
        }
    };
    let id = |rng: &mut Rng| Uuid::from_u128(rng.next_u64() as u128 * 0x1_0000_0001);
    family!("typed_map_operation", mop, MapOperationEncoder, MapOperationDecoder::<i64, Value>::default());
    family!("typed_map_message", mmsg, MapMessageEncoder::default(), MapMessageDecoder::<i64, Value>::default());
    family!(
        "typed_value_lane_request",
        |rng: &mut Rng| match rng.below(5) {
            0 => LaneRequest::InitComplete,
            1 => LaneRequest::Sync(id(rng)),
            _ => LaneRequest::Command(val(rng)),
        },
        ValueLaneRequestEncoder::default(),
        ValueLaneRequestDecoder::<Value>::default()
    );
    family!(
        "typed_map_lane_request",
        |rng: &mut Rng| match rng.below(5) {
            0 => LaneRequest::InitComplete,
            1 => LaneRequest::Sync(id(rng)),
            _ => LaneRequest::Command(mmsg(rng)),
        },
        MapLaneRequestEncoder::default(),
        MapLaneRequestDecoder::<i64, Value>::default()
    );
    family!(
        "typed_value_lane_response",
        |rng: &mut Rng| match rng.below(6) {
            0 => LaneResponse::Initialized,
            1 => LaneResponse::Synced(id(rng)),
            2 => LaneResponse::SyncEvent(id(rng), val(rng)),
            _ => LaneResponse::StandardEvent(val(rng)),
        },
        ValueLaneResponseEncoder::default(),
        ValueLaneResponseDecoder::<Value>::default()
    );
    family!(
        "typed_map_lane_response",
        |rng: &mut Rng| match rng.below(6) {
            0 => LaneResponse::Initialized,
            1 => LaneResponse::Synced(id(rng)),
            2 => LaneResponse::SyncEvent(id(rng), mop(rng)),
            _ => LaneResponse::StandardEvent(mop(rng)),
        },
        MapLaneResponseEncoder::default(),
        MapLaneResponseDecoder::<i64, Value>::default()
    );

    // store initialisation (the runtime writes the stored bytes, the agent reads typed values)
    let texts: Vec<(String, Value)> = pool.clone();
    for _ in 0..(args.cases / 3).max(10) {
        let n = rng.range(1, 4) as usize;
        let mut expected: Vec<StoreInitMessage<Value>> = vec![];
        let mut dst = BytesMut::new();
        let mut ends = vec![];
        for _ in 0..n {
            if rng.below(4) == 0 {
                expected.push(StoreInitMessage::InitComplete);
                RawValueStoreInitEncoder::default().encode(StoreInitMessage::<Vec<u8>>::InitComplete, &mut dst).unwrap();
            } else {
                let (t, v) = &texts[rng.usize_below(texts.len())];
                expected.push(StoreInitMessage::Command(v.clone()));
                RawValueStoreInitEncoder::default().encode(StoreInitMessage::Command(t.as_bytes().to_vec()), &mut dst).unwrap();
            }
            ends.push(dst.len());
        }
        let data = dst.to_vec();
        nontrivial += 1;
        for chunks in splits(&mut rng, &data) {
            evals += 1;
            *kinds.entry("typed_value_store_init:chunkings".into()).or_default() += 1;
            let sizes = chunks.iter().map(|c| c.len()).collect::<Vec<_>>();
            match catch(AssertUnwindSafe(|| run(&mut ValueStoreInitDecoder::<Value>::default(), &chunks, 20 * (data.len() + 4), Some(&ends)))) {
                Ok(Ok((out, left))) => {
                    if out != expected || left != 0 {
                        failures.push(format!("typed_value_store_init {:?} in chunks of {:?}: decoded {:?} with {} bytes left", expected, sizes, out, left));
                    }
                }
                Ok(Err(e)) => failures.push(format!("typed_value_store_init {:?} in chunks of {:?}: {}", expected, sizes, e)),
                Err(m) => failures.push(format!("typed_value_store_init {:?}: the decoder panicked: {}", expected, m)),
            }
        }
    }
    for _ in 0..(args.cases / 3).max(10) {
        let n = rng.range(1, 4) as usize;
        let mut expected: Vec<StoreInitMessage<MapMessage<i64, Value>>> = vec![];
        let mut dst = BytesMut::new();
        let mut ends = vec![];
        for _ in 0..n {
            if rng.below(4) == 0 {
                expected.push(StoreInitMessage::InitComplete);
                RawMapStoreInitEncoder::default().encode(StoreInitMessage::<MapMessage<Vec<u8>, Vec<u8>>>::InitComplete, &mut dst).unwrap();
            } else {
                let k = key(&mut rng);
                let (t, v) = &texts[rng.usize_below(texts.len())];
                expected.push(StoreInitMessage::Command(MapMessage::Update { key: k, value: v.clone() }));
                RawMapStoreInitEncoder::default()
                    .encode(StoreInitMessage::Command(MapMessage::Update { key: k.to_string().into_bytes(), value: t.as_bytes().to_vec() }), &mut dst)
                    .unwrap();
            }
            ends.push(dst.len());
        }
        let data = dst.to_vec();
        nontrivial += 1;
        for chunks in splits(&mut rng, &data) {
            evals += 1;
            *kinds.entry("typed_map_store_init:chunkings".into()).or_default() += 1;
            let sizes = chunks.iter().map(|c| c.len()).collect::<Vec<_>>();
            match catch(AssertUnwindSafe(|| run(&mut MapStoreInitDecoder::<i64, Value>::default(), &chunks, 20 * (data.len() + 4), Some(&ends)))) {
                Ok(Ok((out, left))) => {
                    if out != expected || left != 0 {
                        failures.push(format!("typed_map_store_init {:?} in chunks of {:?}: decoded {:?} with {} bytes left", expected, sizes, out, left));
                    }
                }
                Ok(Err(e)) => failures.push(format!("typed_map_store_init {:?} in chunks of {:?}: {}", expected, sizes, e)),
                Err(m) => failures.push(format!("typed_map_store_init {:?}: the decoder panicked: {}", expected, m)),
            }
        }
    }
    // ad hoc commands with Recon bodies
    family!(
        "typed_command_message",
        |rng: &mut Rng| -> CommandMessage<Text, Value> {
            let host = if rng.below(2) == 0 { Some(Text::new("ws://h:1")) } else { None };
            let addr = Address::new(host, Text::new(["/n", "/node/a", "/é"][rng.usize_below(3)]), Text::new(["l", "lane", ""][rng.usize_below(3)]));
            match rng.below(4) {
                0 => CommandMessage::register(addr, rng.below(65536) as u16),
                1 => CommandMessage::registered(rng.below(65536) as u16, val(rng), rng.below(2) == 0),
                _ => CommandMessage::ad_hoc(addr, val(rng), rng.below(2) == 0),
            }
        },
        CommandMessageEncoder::default(),
        CommandMessageDecoder::<Text, Value>::default()
    );

    // ---- routed request / response frames longer than the 64 KiB the decoders reserve at a time ----
    // (Model/Codec.v covers these codecs, and ProtoFrameProofs every fragmentation; frames of this size are not
    // evaluated inside Coq, so they are fed to the real decoders here)
    {
        use swimos_messages::protocol::{Notification, Operation, RawRequestMessageDecoder, RawRequestMessageEncoder, RawResponseMessageDecoder, RawResponseMessageEncoder, RequestMessage, ResponseMessage};
        use swimos_api::address::RelativeAddress;
        let origin = Uuid::from_u128(0x1234_5678_9abc_def0);
        for (li, len) in [60_000usize, 65_500, 65_504, 65_536, 66_000, 100_000, 300_000].iter().enumerate() {
            let body: Vec<u8> = (0..*len).map(|i| b'a' + ((i * 7 + li) % 23) as u8).collect();
            for chunk in [1000usize, 4096, 8192, 65_536, 70_000] {
                evals += 1;
                *kinds.entry("routed_large_frames:chunkings".into()).or_default() += 1;
                // request: a command with the large body, then a sync
                let mut bytes = BytesMut::new();
                let mut ends = vec![];
                let msgs = vec![
                    RequestMessage { origin, path: RelativeAddress::new("/node", "lane"), envelope: Operation::Command(body.as_slice()) },
                    RequestMessage { origin, path: RelativeAddress::new("/node", "lane"), envelope: Operation::Sync },
                ];
                for m in &msgs {
                    RawRequestMessageEncoder.encode(m, &mut bytes).unwrap();
                    ends.push(bytes.len());
                }
                let chunks: Vec<Vec<u8>> = bytes.chunks(chunk).map(|c| c.to_vec()).collect();
                let r = catch(AssertUnwindSafe(|| run(&mut RawRequestMessageDecoder, &chunks, 10_000, Some(&ends))));
                match r {
                    Ok(Ok((out, left))) => {
                        let ok = out.len() == 2
                            && left == 0
                            && matches!(&out[0].envelope, Operation::Command(b) if b.as_ref() == body.as_slice())
                            && matches!(&out[1].envelope, Operation::Sync)
                            && out.iter().all(|m| m.origin == origin && m.path.node.as_str() == "/node" && m.path.lane.as_str() == "lane");
                        if !ok {
                            failures.push(format!("routed request frames, command body of {} bytes in reads of {}: {} messages came out, {} bytes left, or they differ from what was written", len, chunk, out.len(), left));
                        } else {
                            nontrivial += 1;
                        }
                    }
                    Ok(Err(e)) => failures.push(format!("routed request frames, command body of {} bytes in reads of {}: {}", len, chunk, e)),
                    Err(m) => failures.push(format!("routed request frames, command body of {} bytes in reads of {}: the decoder panicked: {}", len, chunk, m)),
                }
                // response: an event with the large body, then synced
                let mut bytes = BytesMut::new();
                let mut ends = vec![];
                let msgs: Vec<ResponseMessage<&str, &[u8], &[u8]>> = vec![
                    ResponseMessage { origin, path: RelativeAddress::new("/node", "lane"), envelope: Notification::Event(body.as_slice()) },
                    ResponseMessage { origin, path: RelativeAddress::new("/node", "lane"), envelope: Notification::Synced },
                ];
                for m in &msgs {
                    RawResponseMessageEncoder.encode(m, &mut bytes).unwrap();
                    ends.push(bytes.len());
                }
                let chunks: Vec<Vec<u8>> = bytes.chunks(chunk).map(|c| c.to_vec()).collect();
                let r = catch(AssertUnwindSafe(|| run(&mut RawResponseMessageDecoder, &chunks, 10_000, Some(&ends))));
                match r {
                    Ok(Ok((out, left))) => {
                        let ok = out.len() == 2
                            && left == 0
                            && matches!(&out[0].envelope, Notification::Event(b) if b.as_ref() == body.as_slice())
                            && matches!(&out[1].envelope, Notification::Synced)
                            && out.iter().all(|m| m.origin == origin && m.path.node.as_str() == "/node" && m.path.lane.as_str() == "lane");
                        if !ok {
                            failures.push(format!("routed response frames, event body of {} bytes in reads of {}: {} messages came out, {} bytes left, or they differ from what was written", len, chunk, out.len(), left));
                        }
                    }
                    Ok(Err(e)) => failures.push(format!("routed response frames, event body of {} bytes in reads of {}: {}", len, chunk, e)),
                    Err(m) => failures.push(format!("routed response frames, event body of {} bytes in reads of {}: the decoder panicked: {}", len, chunk, m)),
                }
            }
        }
    }

    failures.sort();
    failures.dedup();
    // no model cases: an empty shard keeps the driver's pipeline uniform
    let w = CaseWriter::new("From SwimV Require Import Model.Codec.\nOpen Scope N_scope.", "ccase", &["corr_bad"], args.shards);
    w.finish(&args.out, "cases").unwrap();
    let meta = J::obj(vec![
        ("evaluations", J::I(evals as i128)),
        ("distinct_nontrivial", J::I(nontrivial as i128)),
        ("rule", J::s("downlink notification codec, real code only: sequences of 1-5 notifications (linked / synced / unlinked / event; event bodies from a pool of Recon texts including the empty body, numbers, texts, blobs, records with attributes; map events update / remove / clear / take / drop with Recon keys and values) written by DownlinkNotificationEncoder and read by ValueNotificationDecoder<Value> / MapNotificationDecoder<i64, Value> under every single split point, one byte per read and three random multi-splits: exactly the notifications written come out, each as soon as the last byte of its frame has been fed and not before, nothing is left in the buffer; two byte mutations per sequence must not panic or hang; routed request / response frames (swimos_messages) with bodies of 60 000 to 300 000 bytes, i.e. around and beyond the 64 KiB the decoders reserve at a time, in reads of 1000 to 70 000 bytes")),
        ("structures", J::counts(&kinds)),
        ("samples", J::A(vec![])),
        ("direct_failures", J::A(failures.iter().take(40).map(|f| J::s(f.chars().take(600).collect::<String>())).collect())),
        ("direct_failure_count", J::I(failures.len() as i128)),
    ]);
    write_meta(&args.out, "meta.json", &meta);
}
