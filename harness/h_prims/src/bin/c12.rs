//! C12: drives the real byte channel by hand (one poll per op) with counting wakers.

use std::collections::{BTreeMap, BTreeSet};
use std::future::Future;
use std::num::NonZeroUsize;
use std::pin::Pin;
use std::sync::atomic::{AtomicU64, Ordering};
use std::sync::Arc;
use std::task::{Context, Poll, Wake, Waker};

use swimos_byte_channel::{byte_channel, ByteReader, ByteWriter, RunWithBudget};
use tokio::io::{AsyncRead, AsyncWrite, ReadBuf};
use vcore::*;

#[derive(Clone, Debug, PartialEq, Eq, PartialOrd, Ord)]
enum Op {
    PollRead(usize),
    PollWrite(Vec<u8>),
    Flush,
    Shutdown,
    DropReader,
    DropWriter,
    SetBudget(u64),
}

impl Op {
    fn coq(&self) -> String {
        match self {
            Op::PollRead(n) => format!("PollRead {}", n),
            Op::PollWrite(bs) => format!("PollWrite {}", coq_bytes(bs)),
            Op::Flush => "Flush".into(),
            Op::Shutdown => "Shutdown".into(),
            Op::DropReader => "DropReader".into(),
            Op::DropWriter => "DropWriter".into(),
            Op::SetBudget(b) => format!("SetBudget {}%N", b),
        }
    }
    fn kind(&self) -> &'static str {
        match self {
            Op::PollRead(_) => "poll_read",
            Op::PollWrite(_) => "poll_write",
            Op::Flush => "flush",
            Op::Shutdown => "shutdown",
            Op::DropReader => "drop_reader",
            Op::DropWriter => "drop_writer",
            Op::SetBudget(_) => "set_budget",
        }
    }
}

struct Count(AtomicU64);
impl Wake for Count {
    fn wake(self: Arc<Self>) {
        self.0.fetch_add(1, Ordering::SeqCst);
    }
    fn wake_by_ref(self: &Arc<Self>) {
        self.0.fetch_add(1, Ordering::SeqCst);
    }
}

struct Nop;
impl Wake for Nop {
    fn wake(self: Arc<Self>) {}
}

/// Poll a closure once inside `RunWithBudget` so that the thread-local budget is set to `b`.
fn set_budget(b: u64) {
    let w = Waker::from(Arc::new(Nop));
    let mut cx = Context::from_waker(&w);
    let fut = RunWithBudget::with_budget(
        NonZeroUsize::new(b as usize).unwrap(),
        std::future::ready(()),
    );
    let mut fut = Box::pin(fut);
    let _ = fut.as_mut().poll(&mut cx);
}

/// Bring the thread-local budget back to `None` (its initial value).
fn reset_budget() {
    set_budget(1);
    let (mut tx, _rx) = byte_channel(NonZeroUsize::new(1).unwrap());
    let w = Waker::from(Arc::new(Nop));
    let mut cx = Context::from_waker(&w);
    // budget 1 -> consume gives 0 -> None + Pending
    let r = Pin::new(&mut tx).poll_flush(&mut cx);
    assert!(r.is_pending());
}

/// The wakers of one half: every poll brings a waker of its own (as when a half is polled by hand and then awaited,
/// or moved to another task). `registered` is the waker of the latest poll that really parked (Pending without
/// waking itself): the one a wake-up owed to this half has to reach. A wake-up that goes to an older waker of the
/// half reaches nobody and is not counted.
struct Half {
    wakers: Vec<Arc<Count>>,
    registered: Option<usize>,
}
impl Half {
    fn new() -> Half {
        Half { wakers: vec![], registered: None }
    }
    fn fresh(&mut self) -> (usize, Waker) {
        let c = Arc::new(Count(AtomicU64::new(0)));
        self.wakers.push(c.clone());
        (self.wakers.len() - 1, Waker::from(c))
    }
    fn counts(&self) -> Vec<u64> {
        self.wakers.iter().map(|c| c.0.load(Ordering::SeqCst)).collect()
    }
    /// (wake-ups that reached the registered waker or the waker of this very poll, wake-ups that went elsewhere)
    fn delta(&self, before: &[u64], own: Option<usize>) -> (u64, u64) {
        let mut good = 0;
        let mut stale = 0;
        for (i, c) in self.wakers.iter().enumerate() {
            let d = c.0.load(Ordering::SeqCst) - before.get(i).copied().unwrap_or(0);
            if Some(i) == self.registered || Some(i) == own {
                good += d;
            } else {
                stale += d;
            }
        }
        (good, stale)
    }
}

fn run_impl(cap: usize, ops: &[Op], stale_total: &mut u64) -> Vec<String> {
    reset_budget();
    let (tx, rx) = byte_channel(NonZeroUsize::new(cap).unwrap());
    let mut tx: Option<ByteWriter> = Some(tx);
    let mut rx: Option<ByteReader> = Some(rx);
    let mut rh = Half::new();
    let mut wh = Half::new();
    let mut outs = vec![];
    let mut step = 0usize;
    for op in ops {
        let r0 = rh.counts();
        let w0 = wh.counts();
        let mut own_r: Option<usize> = None;
        let mut own_w: Option<usize> = None;
        let res: String = match op {
            Op::PollRead(n) => match rx.as_mut() {
                None => "RSkip".into(),
                Some(rx) => {
                    // the caller's buffer already holds 0-2 bytes of its own (as on the second poll of a
                    // read_exact): room for n more; what is read is what is added behind them
                    let prefill = (step * 7 + *n) % 3;
                    step += 1;
                    let mut store = vec![0u8; prefill + *n];
                    let mut buf = ReadBuf::new(&mut store);
                    buf.put_slice(&vec![0xEEu8; prefill]);
                    let (i, rw) = rh.fresh();
                    own_r = Some(i);
                    let mut cx = Context::from_waker(&rw);
                    match Pin::new(rx).poll_read(&mut cx, &mut buf) {
                        Poll::Pending => "RPending".into(),
                        Poll::Ready(Ok(())) => {
                            if buf.filled()[..prefill].iter().any(|b| *b != 0xEE) {
                                "RBroken (* the bytes already in the caller's buffer were overwritten *)".into()
                            } else {
                                format!("RRead {}", coq_bytes(&buf.filled()[prefill..]))
                            }
                        }
                        Poll::Ready(Err(_)) => "RBroken".into(),
                    }
                }
            },
            Op::PollWrite(bs) => match tx.as_mut() {
                None => "RSkip".into(),
                Some(tx) => {
                    let (i, ww) = wh.fresh();
                    own_w = Some(i);
                    let mut cx = Context::from_waker(&ww);
                    match Pin::new(tx).poll_write(&mut cx, bs) {
                        Poll::Pending => "RPending".into(),
                        Poll::Ready(Ok(k)) => format!("RWrote {}", k),
                        Poll::Ready(Err(_)) => "RBroken".into(),
                    }
                }
            },
            Op::Flush => match tx.as_mut() {
                None => "RSkip".into(),
                Some(tx) => {
                    let (i, ww) = wh.fresh();
                    own_w = Some(i);
                    let mut cx = Context::from_waker(&ww);
                    match Pin::new(tx).poll_flush(&mut cx) {
                        Poll::Pending => "RPending".into(),
                        Poll::Ready(Ok(())) => "ROk".into(),
                        Poll::Ready(Err(_)) => "RBroken".into(),
                    }
                }
            },
            Op::Shutdown => match tx.as_mut() {
                None => "RSkip".into(),
                Some(tx) => {
                    let (i, ww) = wh.fresh();
                    own_w = Some(i);
                    let mut cx = Context::from_waker(&ww);
                    match Pin::new(tx).poll_shutdown(&mut cx) {
                        Poll::Pending => "RPending".into(),
                        Poll::Ready(Ok(())) => "ROk".into(),
                        Poll::Ready(Err(_)) => "RBroken".into(),
                    }
                }
            },
            Op::DropReader => match rx.take() {
                None => "RSkip".into(),
                Some(r) => {
                    drop(r);
                    "ROk".into()
                }
            },
            Op::DropWriter => match tx.take() {
                None => "RSkip".into(),
                Some(t) => {
                    drop(t);
                    "ROk".into()
                }
            },
            Op::SetBudget(b) => {
                set_budget(*b);
                "ROk".into()
            }
        };
        let (dr, sr) = rh.delta(&r0, own_r);
        let (dw, sw) = wh.delta(&w0, own_w);
        *stale_total += sr + sw;
        // the poll really parked (Pending, its own waker untouched): its waker is the one to wake from now on
        if res == "RPending" {
            if let Some(i) = own_r {
                if rh.wakers[i].0.load(Ordering::SeqCst) == 0 {
                    rh.registered = Some(i);
                }
            }
            if let Some(i) = own_w {
                if wh.wakers[i].0.load(Ordering::SeqCst) == 0 {
                    wh.registered = Some(i);
                }
            }
        }
        outs.push(format!("({}, {}%N, {}%N)", res, dr, dw));
    }
    outs
}

struct Gen {
    next_byte: u8,
}
impl Gen {
    fn bytes(&mut self, n: usize) -> Vec<u8> {
        (0..n)
            .map(|_| {
                self.next_byte = self.next_byte.wrapping_add(1);
                self.next_byte
            })
            .collect()
    }
}

fn main() {
    let args = parse_args();
    let mut rng = Rng::new(args.seed);
    let mut w = CaseWriter::new(
        "From SwimV Require Import Lib.Hex Model.Conduit.",
        "case",
        &["corr_bad", "oracle_bad"],
        args.shards,
    );
    let mut kinds: BTreeMap<String, u64> = BTreeMap::new();
    let mut caps: BTreeMap<usize, u64> = BTreeMap::new();
    let mut results: BTreeMap<String, u64> = BTreeMap::new();
    let mut distinct = BTreeSet::new();
    let mut nontrivial = 0u64;
    let mut samples = vec![];
    let mut stale_wakes = 0u64;

    let mut emit = |cap: usize, ops: &[Op], w: &mut CaseWriter| {
        // a panic inside the channel is a result too (the model never gives it, so the case fails the comparison)
        let outs = catch(std::panic::AssertUnwindSafe(|| run_impl(cap, ops, &mut stale_wakes))).unwrap_or_else(|m| vec![format!("(RBroken (* PANIC {} *), 0%N, 0%N)", m.replace("*)", "* )"))]);
        let term = format!(
            "({}%nat, {}, {})",
            cap,
            coq_list(ops.iter().map(|o| o.coq())),
            coq_list(outs.iter().cloned())
        );
        let human = format!("cap={} ops={:?} impl={:?}", cap, ops, outs);
        for o in ops {
            *kinds.entry(o.kind().into()).or_default() += 1;
        }
        for o in &outs {
            let k = o.trim_start_matches('(').split(|c| c == ' ' || c == ',').next().unwrap().to_string();
            *results.entry(k).or_default() += 1;
        }
        *caps.entry(cap).or_default() += 1;
        // non-trivial: a genuine park (Pending with no self-wake) followed later by a wake
        let mut parked = false;
        let mut nt = false;
        for o in &outs {
            if o.starts_with("(RPending, 0%N, 0%N)") {
                parked = true;
            } else if parked && !o.ends_with("0%N, 0%N)") {
                nt = true;
            }
        }
        if distinct.insert((cap, ops.to_vec())) && nt {
            nontrivial += 1;
            if samples.len() < 4 {
                samples.push(J::s(human.clone()));
            }
        }
        w.push(term, human);
    };

    // 1. corpus
    let corpus: Vec<(usize, Vec<Op>)> = vec![
        (2, vec![Op::PollRead(4), Op::PollWrite(vec![1, 2, 3]), Op::PollWrite(vec![3]), Op::PollRead(1), Op::PollRead(4), Op::PollRead(4)]),
        (1, vec![Op::PollWrite(vec![9]), Op::PollWrite(vec![8]), Op::DropReader, Op::PollWrite(vec![7])]),
        (3, vec![Op::PollWrite(vec![1, 2]), Op::DropWriter, Op::PollRead(1), Op::PollRead(5), Op::PollRead(5)]),
        (2, vec![Op::SetBudget(2), Op::PollRead(1), Op::PollRead(1), Op::PollWrite(vec![5]), Op::PollRead(1)]),
        (2, vec![Op::PollRead(0), Op::PollWrite(vec![]), Op::PollRead(3), Op::Shutdown, Op::PollRead(3)]),
        (1, vec![Op::SetBudget(1), Op::Shutdown, Op::Shutdown, Op::PollWrite(vec![1])]),
    ];
    for (c, ops) in &corpus {
        emit(*c, ops, &mut w);
    }

    // 2. exhaustive to a depth bound over small capacities and request sizes
    let depth: usize = args.extra.get("depth").map(|d| d.parse().unwrap()).unwrap_or(4);
    let mut exhaustive = 0u64;
    for cap in [1usize, 2, 3] {
        let mut g = Gen { next_byte: 0 };
        let mut alphabet = vec![Op::Flush, Op::Shutdown, Op::DropReader, Op::DropWriter];
        for n in [0usize, 1, 2, 4] {
            alphabet.push(Op::PollRead(n));
        }
        for n in [0usize, 1, 2, 4] {
            alphabet.push(Op::PollWrite(g.bytes(n)));
        }
        let d = depth;
        let mut idx = vec![0usize; d];
        'outer: loop {
            let ops: Vec<Op> = idx.iter().map(|&k| alphabet[k].clone()).collect();
            emit(cap, &ops, &mut w);
            exhaustive += 1;
            let mut p = d;
            loop {
                if p == 0 {
                    break 'outer;
                }
                p -= 1;
                idx[p] += 1;
                if idx[p] < alphabet.len() {
                    break;
                }
                idx[p] = 0;
            }
        }
    }

    // 3. random
    for _ in 0..args.cases {
        let cap = if rng.chance(1, 2) { rng.range(1, 4) } else { rng.range(1, 64) } as usize;
        let len = rng.range(4, 60) as usize;
        let mut g = Gen { next_byte: rng.next_u64() as u8 };
        let with_budget = rng.chance(1, 3);
        let mut ops = vec![];
        for _ in 0..len {
            let r = rng.below(100);
            let op = if r < 38 {
                let n = match rng.below(4) {
                    0 => 0,
                    1 => 1,
                    2 => rng.range(1, cap as u64 + 2) as usize,
                    _ => rng.range(1, 70) as usize,
                };
                Op::PollRead(n)
            } else if r < 78 {
                let n = match rng.below(4) {
                    0 => 0,
                    1 => 1,
                    2 => rng.range(1, cap as u64 + 2) as usize,
                    _ => rng.range(1, 70) as usize,
                };
                Op::PollWrite(g.bytes(n))
            } else if r < 84 {
                Op::Flush
            } else if r < 88 {
                Op::Shutdown
            } else if r < 91 {
                Op::DropReader
            } else if r < 94 {
                Op::DropWriter
            } else if with_budget {
                Op::SetBudget(rng.range(1, 6))
            } else {
                Op::Flush
            };
            ops.push(op);
        }
        emit(cap, &ops, &mut w);
    }

    w.finish(&args.out, "cases").unwrap();
    let meta = J::obj(vec![
        ("evaluations", J::I(w.len() as i128)),
        ("distinct_nontrivial", J::I(nontrivial as i128)),
        ("exhaustive_lists", J::I(exhaustive as i128)),
        ("exhaustive_depth", J::I(depth as i128)),
        ("rule", J::s("corpus; every op list to the depth bound over cap in {1,2,3}, request sizes {0,1,2,4}, flush/shutdown/drops; random lists of length 4..60 with cap 1..64 (a third with coop budget changes); non-trivial = a side genuinely parks (Pending, no self-wake) and a later op delivers a wake; distinct by (cap, op list); every poll brings a waker of its own: a wake-up counts for a half only when it reaches the waker of that half's latest poll that really parked (or the waker of the very poll that yields), so a wake-up sent to an older waker of the half is a lost wake-up")),
        ("wakeups_sent_to_a_superseded_waker", J::I(stale_wakes as i128)),
        ("op_kinds", J::counts(&kinds)),
        ("result_kinds", J::counts(&results)),
        ("capacities", J::counts(&caps)),
        ("samples", J::A(samples)),
    ]);
    write_meta(&args.out, "meta.json", &meta);
}
