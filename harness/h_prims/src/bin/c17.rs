//! C17: drives the real `Voter`/`Receiver` single-threaded with op lists
//! `vote i | rescind i | drop i | poll`, recording every result.

use std::collections::BTreeMap;
use std::future::Future;
use std::pin::Pin;
use std::sync::Arc;
use std::task::{Context, Poll, Wake, Waker};

use swimos_runtime::verif_hooks::timeout_coord::{
    agent_timeout_coordinator, downlink_timeout_coordinator, Receiver, VoteResult, Voter,
};
use vcore::*;

#[derive(Clone, Copy, Debug, PartialEq, Eq, PartialOrd, Ord)]
enum Op {
    Vote(usize),
    Rescind(usize),
    Drop(usize),
    Poll,
}

impl Op {
    fn coq(&self) -> String {
        match self {
            Op::Vote(i) => format!("OVote {}", i),
            Op::Rescind(i) => format!("ORescind {}", i),
            Op::Drop(i) => format!("ODrop {}", i),
            Op::Poll => "OPoll".into(),
        }
    }
}

/// The receiver's waker: counts how often it is invoked.
struct Counting(std::sync::atomic::AtomicU64);
impl Wake for Counting {
    fn wake(self: Arc<Self>) {
        self.0.fetch_add(1, std::sync::atomic::Ordering::SeqCst);
    }
}

/// Per operation: its result and whether the receiver's waker was invoked during it.
fn run_impl(n: usize, ops: &[Op]) -> (Vec<String>, Vec<bool>) {
    let (mut voters, mut rx): (Vec<Option<Voter>>, Receiver) = if n == 2 {
        let (a, b, r) = downlink_timeout_coordinator();
        (vec![Some(a), Some(b)], r)
    } else {
        let (a, b, c, r) = agent_timeout_coordinator();
        (vec![Some(a), Some(b), Some(c)], r)
    };
    let counter = Arc::new(Counting(Default::default()));
    let waker = Waker::from(counter.clone());
    let mut cx = Context::from_waker(&waker);
    let mut wakes = vec![];
    let mut seen = 0u64;
    let res = |r: VoteResult| match r {
        VoteResult::Unanimous => "RVote Unanimous".to_string(),
        VoteResult::UnanimityPending => "RVote UnanimityPending".to_string(),
    };
    let mut outs = vec![];
    for op in ops {
        let o = match *op {
            Op::Vote(i) => match &voters[i] {
                Some(v) => res(v.vote()),
                None => "RSkip".into(),
            },
            Op::Rescind(i) => match &voters[i] {
                Some(v) => res(v.rescind()),
                None => "RSkip".into(),
            },
            Op::Drop(i) => match voters[i].take() {
                Some(v) => {
                    drop(v);
                    "RUnit".into()
                }
                None => "RSkip".into(),
            },
            Op::Poll => match Pin::new(&mut rx).poll(&mut cx) {
                Poll::Ready(()) => "RPoll true".into(),
                Poll::Pending => "RPoll false".into(),
            },
        };
        outs.push(o);
        let now = counter.0.load(std::sync::atomic::Ordering::SeqCst);
        wakes.push(now != seen);
        seen = now;
    }
    (outs, wakes)
}

fn all_ops(n: usize) -> Vec<Op> {
    let mut v = vec![Op::Poll];
    for i in 0..n {
        v.push(Op::Vote(i));
        v.push(Op::Rescind(i));
        v.push(Op::Drop(i));
    }
    v
}

fn main() {
    let args = parse_args();
    let mut rng = Rng::new(args.seed);
    let mut w = CaseWriter::new(
        "From SwimV Require Import Model.VoterWake.",
        "wcase",
        &["wcorr_bad", "woracle_bad", "wake_corr_bad", "wake_oracle_bad"],
        args.shards,
    );
    let mut kinds: BTreeMap<String, u64> = BTreeMap::new();
    let mut lens: BTreeMap<usize, u64> = BTreeMap::new();
    let mut distinct = std::collections::BTreeSet::new();
    let mut nontrivial = 0u64;
    let mut samples = vec![];

    let mut emit = |n: usize, ops: &[Op], w: &mut CaseWriter| {
        let (outs, wakes) = run_impl(n, ops);
        let term = format!(
            "({}%nat, {}, {}, {})",
            n,
            coq_list(ops.iter().map(|o| o.coq())),
            coq_list(outs.iter().cloned()),
            coq_list(wakes.iter().map(|b| b.to_string()))
        );
        let human = format!("n={} ops={:?} impl={:?} wakes={:?}", n, ops, outs, wakes);
        if wakes.iter().any(|b| *b) {
            *kinds.entry("lists_with_a_wake".into()).or_default() += 1;
        }
        for o in ops {
            let k = match o {
                Op::Vote(_) => "vote",
                Op::Rescind(_) => "rescind",
                Op::Drop(_) => "drop",
                Op::Poll => "poll",
            };
            *kinds.entry(k.into()).or_default() += 1;
        }
        *lens.entry(ops.len()).or_default() += 1;
        // non-trivial: some rescind happens after a vote of the same party
        let nt = ops.iter().enumerate().any(|(k, o)| {
            matches!(o, Op::Rescind(i) if ops[..k].contains(&Op::Vote(*i)))
        });
        if distinct.insert((n, ops.to_vec())) && nt {
            nontrivial += 1;
        }
        if samples.len() < 4 && nt {
            samples.push(J::s(human.clone()));
        }
        w.push(term, human);
    };

    // 1. corpus of hand-written corner cases (always first)
    let corpus: Vec<(usize, Vec<Op>)> = vec![
        (2, vec![Op::Vote(0), Op::Rescind(0), Op::Rescind(0), Op::Poll]),
        (2, vec![Op::Vote(0), Op::Rescind(0), Op::Vote(1), Op::Rescind(0), Op::Poll]),
        (2, vec![Op::Vote(0), Op::Rescind(0), Op::Drop(0), Op::Vote(1), Op::Poll]),
        (3, vec![Op::Vote(0), Op::Rescind(0), Op::Drop(0), Op::Vote(1), Op::Vote(2), Op::Poll]),
        (3, vec![Op::Vote(0), Op::Vote(1), Op::Vote(2), Op::Rescind(1), Op::Poll]),
        (3, vec![Op::Vote(0), Op::Rescind(0), Op::Rescind(0), Op::Vote(1), Op::Vote(2), Op::Rescind(0), Op::Poll]),
        // the receiver is parked; the last missing vote comes from a voter that is dropped
        (2, vec![Op::Poll, Op::Vote(0), Op::Drop(1), Op::Poll]),
        (2, vec![Op::Vote(0), Op::Poll, Op::Vote(1), Op::Poll]),
        (3, vec![Op::Vote(0), Op::Poll, Op::Vote(1), Op::Vote(2), Op::Rescind(2), Op::Drop(2)]),
        (3, vec![Op::Poll, Op::Vote(0), Op::Vote(1), Op::Rescind(1), Op::Drop(1), Op::Poll, Op::Drop(2), Op::Poll]),
    ];
    for (n, ops) in &corpus {
        emit(*n, ops, &mut w);
    }

    // 2. exhaustive enumeration to a depth bound
    let depth: usize = args
        .extra
        .get("depth")
        .map(|d| d.parse().unwrap())
        .unwrap_or(if args.tier == "thorough" { 6 } else { 4 });
    let mut exhaustive_count = 0u64;
    for n in [2usize, 3] {
        let alphabet = all_ops(n);
        let d = if n == 2 { depth + 1 } else { depth };
        let mut idx = vec![0usize; d];
        'outer: loop {
            let ops: Vec<Op> = idx.iter().map(|&k| alphabet[k]).collect();
            emit(n, &ops, &mut w);
            exhaustive_count += 1;
            let mut p = d;
            loop {
                if p == 0 {
                    break 'outer;
                }
                p -= 1;
                idx[p] += 1;
                if idx[p] < alphabet.len() {
                    break;
                }
                idx[p] = 0;
            }
        }
    }

    // 3. random longer lists
    for _ in 0..args.cases {
        let n = if rng.chance(1, 2) { 2 } else { 3 };
        let len = rng.range(5, 40) as usize;
        let alphabet = all_ops(n);
        let ops: Vec<Op> = (0..len)
            .map(|_| {
                // drops are rare so that histories stay interesting
                loop {
                    let o = *rng.pick(&alphabet);
                    if matches!(o, Op::Drop(_)) && !rng.chance(1, 6) {
                        continue;
                    }
                    break o;
                }
            })
            .collect();
        emit(n, &ops, &mut w);
    }

    w.finish(&args.out, "cases").unwrap();
    let meta = J::obj(vec![
        ("evaluations", J::I(w.len() as i128)),
        ("distinct_nontrivial", J::I(nontrivial as i128)),
        ("exhaustive_lists", J::I(exhaustive_count as i128)),
        ("exhaustive_depth", J::I(depth as i128)),
        ("rule", J::s("corpus, then every op list over {vote i, rescind i, drop i, poll} to the depth bound for 2 and 3 parties (depth+1 for 2), then random lists of length 5..40; the receiver is polled with a counting waker and per operation it is recorded whether that waker was invoked; non-trivial = contains a rescind by a party after a vote by that party; distinct by (n, op list)")),
        ("op_kinds", J::counts(&kinds)),
        ("lengths", J::counts(&lens)),
        ("samples", J::A(samples)),
    ]);
    write_meta(&args.out, "meta.json", &meta);
}
