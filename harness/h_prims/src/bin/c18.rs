//! C18: real `RoutePattern::{parse_str, apply, unapply_str, are_ambiguous}` on generated patterns,
//! parameter maps and URIs.

use std::collections::{BTreeMap, BTreeSet, HashMap};

use percent_encoding::percent_decode_str;
use swimos_route::RoutePattern;
use vcore::*;

fn cstr(s: &str) -> String {
    coq_bytes(s.as_bytes())
}
fn cmap(m: &[(String, String)]) -> String {
    coq_list(m.iter().map(|(k, v)| format!("({}, {})", cstr(k), cstr(v))))
}

enum Query {
    Parse(String),
    Apply(String, Vec<(String, String)>),
    Unapply(String, String),
    Amb(String, String),
}

fn lossy_needed(pat: &str, uri: &str) -> bool {
    let bad = |s: &str| s.split('/').any(|p| percent_decode_str(p).decode_utf8().is_err());
    bad(uri) || bad(pat)
}

impl Query {
    fn coq(&self) -> String {
        match self {
            Query::Parse(s) => format!("QParse {}", cstr(s)),
            Query::Apply(s, m) => format!("QApply {} {}", cstr(s), cmap(m)),
            Query::Unapply(s, u) => format!("QUnapply {} {} {}", cstr(s), cstr(u), lossy_needed(s, u)),
            Query::Amb(s, t) => format!("QAmb {} {}", cstr(s), cstr(t)),
        }
    }
    fn kind(&self) -> &'static str {
        match self {
            Query::Parse(_) => "parse",
            Query::Apply(..) => "apply",
            Query::Unapply(..) => "unapply",
            Query::Amb(..) => "are_ambiguous",
        }
    }
    fn human(&self) -> String {
        match self {
            Query::Parse(s) => format!("parse({:?})", s),
            Query::Apply(s, m) => format!("apply({:?}, {:?})", s, m),
            Query::Unapply(s, u) => format!("unapply({:?}, {:?})", s, u),
            Query::Amb(s, t) => format!("are_ambiguous({:?}, {:?})", s, t),
        }
    }
}

fn unapply_coq(r: Result<HashMap<String, String>, impl std::fmt::Debug>) -> String {
    match r {
        Ok(m) => {
            let mut v: Vec<(String, String)> = m.into_iter().collect();
            v.sort();
            format!("AUnapply (Some {})", cmap(&v))
        }
        Err(_) => "AUnapply None".into(),
    }
}

fn answer(q: &Query) -> String {
    match q {
        Query::Parse(s) => match RoutePattern::parse_str(s) {
            Ok(p) => {
                // observable structure: scheme, absolute, parameters (names in order); the literal
                // segments are observed through Display + apply, here we reconstruct them by
                // applying with marker values is not possible for literals, so we report
                // (is_param, text) from the public API: parameters() plus splitting the pattern.
                let scheme = p.scheme_str().map(|s| s.to_string());
                let abs = p.has_absolute_path();
                let text = p.to_string();
                let body = match &scheme {
                    Some(sc) => &text[sc.len() + 1..],
                    None => &text[..],
                };
                let body = if abs { &body[1..] } else { body };
                let params: Vec<&str> = p.parameters().collect();
                let mut pi = 0;
                let mut segs = vec![];
                for part in body.split('/') {
                    if part.is_empty() {
                        continue;
                    }
                    if pi < params.len() && part.starts_with(':') && &part[1..] == params[pi] {
                        segs.push(format!("(true, {})", cstr(params[pi])));
                        pi += 1;
                    } else {
                        segs.push(format!("(false, {})", cstr(part)));
                    }
                }
                format!(
                    "AParse (inl ({}, {}, {}))",
                    coq_option(scheme.as_deref().map(cstr)),
                    abs,
                    coq_list(segs)
                )
            }
            Err(e) => {
                // ParseError(offset): Display prints the offset
                let msg = e.to_string();
                let off: u64 = msg
                    .trim_end_matches('.')
                    .rsplit(' ')
                    .next()
                    .unwrap()
                    .parse()
                    .unwrap();
                format!("AParse (inr {}%N)", off)
            }
        },
        Query::Apply(s, m) => match RoutePattern::parse_str(s) {
            Ok(p) => {
                let hm: HashMap<String, String> = m.iter().cloned().collect();
                match p.apply(&hm) {
                    Ok(r) => format!("AApply (inl {})", cstr(&r)),
                    Err(e) => {
                        // missing parameter names, in order, from the Display form
                        let msg = e.to_string();
                        let tail = msg.rsplit("missing parameters: ").next().unwrap();
                        let tail = tail.strip_suffix('.').unwrap_or(tail);
                        // names may themselves contain ", ": recompute from the pattern instead
                        let missing: Vec<String> = p
                            .parameters()
                            .filter(|n| hm.get(*n).map(|v| v.is_empty()).unwrap_or(true))
                            .map(|s| s.to_string())
                            .collect();
                        let joined = missing.join(", ");
                        assert_eq!(joined, tail, "unexpected ApplyError rendering");
                        format!("AApply (inr {})", coq_list(missing.iter().map(|s| cstr(s))))
                    }
                }
            }
            Err(_) => "ANoParse".into(),
        },
        Query::Unapply(s, u) => match RoutePattern::parse_str(s) {
            Ok(p) => {
                let a = unapply_coq(p.unapply_str(u));
                let b = unapply_coq(p.unapply_str(u));
                assert_eq!(a, b, "unapply is not a function of (pattern, uri)");
                a
            }
            Err(_) => "ANoParse".into(),
        },
        Query::Amb(s, t) => match (RoutePattern::parse_str(s), RoutePattern::parse_str(t)) {
            (Ok(p), Ok(q)) => format!("AAmb {}", RoutePattern::are_ambiguous(&p, &q)),
            _ => "ANoParse".into(),
        },
    }
}

// ---- generators ----

const LIT_POOL: &[&str] = &[
    "a", "b", "ab", "node", "x1", "%61", "%41", "a%62", "%2F", "%zz", "%", "a-b", "a_b.c~d", "é", "日本", "a b",
    "a:b", "(x)", "$1", "@", "unit", "%C3%A9", "A", "~", "a~", "q?x", "h#1",
];
const NAME_POOL: &[&str] = &["id", "a", "b", "name", "a%62", "%61", "é", "x-y", "p.q", "ab"];
const SCHEME_POOL: &[&str] = &["swim", "warp", "a", "a+b", "a b", "x.y-z", "é"];
const VALUE_POOL: &[&str] = &[
    "1", "a", "ab", "x y", "a/b", "é", "日本", "100%", "%41", "a~b", "~", "-_.", "a:b", "q?x", "h#1", "\u{1F600}",
    "A", "", "a+b", "a&b=c", "\"q\"",
];

struct PatGen;
impl PatGen {
    fn segs(rng: &mut Rng, n: usize, clean: bool) -> Vec<(bool, String)> {
        let mut used = BTreeSet::new();
        (0..n)
            .map(|_| {
                if rng.chance(2, 5) {
                    loop {
                        let name = if clean { *rng.pick(&["id", "a", "b", "name", "ab", "x-y", "p.q"]) } else { *rng.pick(NAME_POOL) };
                        if used.insert(name) || rng.chance(1, 10) {
                            return (true, name.to_string());
                        }
                    }
                } else {
                    let lit = if clean { *rng.pick(&["a", "b", "ab", "node", "x1", "unit", "A", "a-b"]) } else { *rng.pick(LIT_POOL) };
                    (false, lit.to_string())
                }
            })
            .collect()
    }
    fn render(scheme: Option<&str>, abs: bool, segs: &[(bool, String)]) -> String {
        let mut s = String::new();
        if let Some(sc) = scheme {
            s.push_str(sc);
            s.push(':');
        }
        if abs {
            s.push('/');
        }
        let body: Vec<String> = segs
            .iter()
            .map(|(p, t)| if *p { format!(":{}", t) } else { t.clone() })
            .collect();
        s.push_str(&body.join("/"));
        s
    }
    fn pattern(rng: &mut Rng, clean: bool) -> (String, Vec<(bool, String)>) {
        let n = rng.range(1, 4) as usize;
        let segs = Self::segs(rng, n, clean);
        let scheme = if rng.chance(1, 4) {
            Some(if clean { *rng.pick(&["swim", "warp", "a"]) } else { *rng.pick(SCHEME_POOL) })
        } else {
            None
        };
        let abs = rng.chance(3, 4);
        (Self::render(scheme, abs, &segs), segs)
    }
    fn malformed(rng: &mut Rng) -> String {
        let pool = ["", "/", "//", "/a//b", "/:", "/::a", "/a/:", ":", "a:", "swim:", "/a/", "/:a:b", "/:a/:a", "a:/", "/é/:é/:é", "::", "/a/:b/:b/c"];
        if rng.chance(2, 3) {
            rng.pick(&pool).to_string()
        } else {
            let alphabet = ['/', ':', 'a', '%', '4', '1', 'é'];
            (0..rng.range(0, 7)).map(|_| *rng.pick(&alphabet)).collect()
        }
    }
}

/// A URI that should match `segs` (parameters filled from `vals`), rendered with the percent
/// encoding the real `apply` uses, or perturbed.
fn synth_uri(rng: &mut Rng, scheme: Option<&str>, abs: bool, segs: &[(bool, String)]) -> String {
    let mut parts: Vec<String> = segs
        .iter()
        .map(|(p, t)| {
            if *p {
                let v = *rng.pick(VALUE_POOL);
                percent_encoding::utf8_percent_encode(v, percent_encoding::NON_ALPHANUMERIC).to_string()
            } else if rng.chance(1, 4) {
                // an equivalent spelling of the literal: percent-decode it / encode its first char
                let dec = percent_decode_str(t).decode_utf8_lossy().to_string();
                if rng.chance(1, 2) {
                    dec
                } else {
                    percent_encoding::utf8_percent_encode(&dec, percent_encoding::NON_ALPHANUMERIC).to_string()
                }
            } else {
                t.clone()
            }
        })
        .collect();
    match rng.below(12) {
        0 => {
            parts.pop();
        }
        1 => parts.push("extra".into()),
        2 => {
            if !parts.is_empty() {
                let i = rng.usize_below(parts.len());
                parts[i] = String::new();
            }
        }
        3 => {
            if !parts.is_empty() {
                let i = rng.usize_below(parts.len());
                parts[i] = "%FF".into();
            }
        }
        _ => {}
    }
    let mut s = String::new();
    if let Some(sc) = scheme {
        s.push_str(sc);
        s.push(':');
    }
    if abs {
        s.push('/');
    }
    s.push_str(&parts.join("/"));
    s
}

fn main() {
    let args = parse_args();
    let mut rng = Rng::new(args.seed);
    let mut w = CaseWriter::new(
        "From SwimV Require Import Lib.Hex Model.Route Oracle.C18.\nOpen Scope N_scope.",
        "case",
        &["corr_bad", "oracle_bad", "known_hits"],
        args.shards.min(300),
    );
    let mut kinds: BTreeMap<String, u64> = BTreeMap::new();
    let mut answers: BTreeMap<String, u64> = BTreeMap::new();
    let mut distinct = BTreeSet::new();
    let mut nontrivial = 0u64;
    let mut samples = vec![];

    let mut emit = |qs: Vec<Query>, w: &mut CaseWriter| {
        let mut terms = vec![];
        let mut human = vec![];
        let mut nt = false;
        for q in &qs {
            let a = answer(q);
            *kinds.entry(q.kind().into()).or_default() += 1;
            let ak = a.split(|c| c == ' ' || c == '(').next().unwrap().to_string()
                + if a.contains("inr") || a.contains("None") { ":err" } else { "" };
            *answers.entry(ak).or_default() += 1;
            if a.starts_with("AUnapply (Some") && a.contains("hex") {
                nt = true;
            }
            terms.push(format!("({}, {})", q.coq(), a));
            human.push(format!("{} -> {}", q.human(), a));
        }
        let h = human.join(" ; ");
        if distinct.insert(h.clone()) && nt {
            nontrivial += 1;
            if samples.len() < 4 {
                samples.push(J::s(h.clone()));
            }
        }
        w.push(coq_list(terms), h);
    };

    // corpus
    emit(vec![Query::Amb("/%61".into(), "/a".into()), Query::Unapply("/%61".into(), "/a".into()), Query::Unapply("/a".into(), "/a".into())], &mut w);
    emit(vec![Query::Apply("/:a%62".into(), vec![("a%62".into(), "v".into())]), Query::Unapply("/:a%62".into(), "/v".into())], &mut w);
    emit(vec![Query::Apply("/x/:id".into(), vec![("id".into(), "a~b".into())]), Query::Unapply("/x/:id".into(), "/x/a~b".into())], &mut w);
    emit(vec![Query::Apply("/é/:id".into(), vec![("id".into(), "1".into())]), Query::Unapply("/é/:id".into(), "/é/1".into())], &mut w);
    emit(vec![Query::Parse("swim:/a/:b".into()), Query::Parse("/:a/:a".into()), Query::Parse("a:b".into()), Query::Parse("/".into())], &mut w);

    for i in 0..args.cases {
        let clean = i % 3 != 0;
        match rng.below(10) {
            0 => {
                // malformed / arbitrary strings
                let s = PatGen::malformed(&mut rng);
                emit(vec![Query::Parse(s.clone()), Query::Apply(s.clone(), vec![("a".into(), "1".into())]), Query::Unapply(s, "/a".into())], &mut w);
            }
            1..=4 => {
                // round trip: apply then unapply the result (same pattern), plus structure
                let (p, segs) = PatGen::pattern(&mut rng, clean);
                let mut m: Vec<(String, String)> = vec![];
                for (is_p, name) in &segs {
                    if *is_p && !rng.chance(1, 12) {
                        let v = if clean { *rng.pick(&["1", "a", "ab", "x y", "a/b", "é", "日本", "100%", "%41", "a~b", "~", "-_.", "a:b", "\u{1F600}", "a+b"]) } else { *rng.pick(VALUE_POOL) };
                        if !m.iter().any(|(k, _)| k == name) {
                            m.push((name.clone(), v.to_string()));
                        }
                    }
                }
                if rng.chance(1, 6) {
                    m.push(("unused".into(), "zzz".into()));
                }
                let mut qs = vec![Query::Parse(p.clone()), Query::Apply(p.clone(), m.clone())];
                if let Ok(pat) = RoutePattern::parse_str(&p) {
                    let hm: HashMap<String, String> = m.iter().cloned().collect();
                    if let Ok(route) = pat.apply(&hm) {
                        qs.push(Query::Unapply(p.clone(), route));
                    }
                }
                emit(qs, &mut w);
            }
            _ => {
                // pairs of patterns with URIs synthesised from each
                let (p, segs_p) = PatGen::pattern(&mut rng, clean);
                let (q, segs_q) = if rng.chance(1, 2) {
                    // a near copy of p: re-spell one segment
                    let mut s2 = segs_p.clone();
                    let i = rng.usize_below(s2.len());
                    if rng.chance(1, 2) {
                        s2[i] = (true, "zz".into());
                    } else if !s2[i].0 {
                        let dec = percent_decode_str(&s2[i].1).decode_utf8_lossy().to_string();
                        s2[i].1 = if rng.chance(1, 2) { dec } else { percent_encoding::utf8_percent_encode(&dec, percent_encoding::NON_ALPHANUMERIC).to_string() };
                        if s2[i].1.is_empty() { s2[i].1 = "a".into(); }
                    }
                    (PatGen::render(None, true, &s2), s2)
                } else {
                    PatGen::pattern(&mut rng, clean)
                };
                let u1 = synth_uri(&mut rng, None, true, &segs_p);
                let u2 = synth_uri(&mut rng, None, true, &segs_q);
                emit(
                    vec![
                        Query::Amb(p.clone(), q.clone()),
                        Query::Unapply(p.clone(), u1.clone()),
                        Query::Unapply(q.clone(), u1),
                        Query::Unapply(p.clone(), u2.clone()),
                        Query::Unapply(q.clone(), u2),
                    ],
                    &mut w,
                );
            }
        }
    }

    // thorough: exhaustive patterns over a tiny alphabet
    if args.tier == "thorough" {
        let alphabet = ["/", ":", "a", "%41"];
        let maxlen = 6;
        let mut all: Vec<String> = vec![String::new()];
        let mut frontier = vec![String::new()];
        for _ in 0..maxlen {
            let mut next = vec![];
            for s in &frontier {
                for a in alphabet {
                    next.push(format!("{}{}", s, a));
                }
            }
            all.extend(next.iter().cloned());
            frontier = next;
        }
        for chunk in all.chunks(8) {
            let mut qs = vec![];
            for s in chunk {
                qs.push(Query::Parse(s.clone()));
                qs.push(Query::Unapply(s.clone(), "/a/A".into()));
                qs.push(Query::Amb(s.clone(), "/:x/a".into()));
            }
            emit(qs, &mut w);
        }
    }

    w.finish(&args.out, "cases").unwrap();
    let meta = J::obj(vec![
        ("evaluations", J::I(w.len() as i128)),
        ("distinct_nontrivial", J::I(nontrivial as i128)),
        ("rule", J::s("a case is a list of (query, implementation answer); generators: malformed strings (10%), apply-then-unapply round trips on generated patterns (40%, two thirds URI-clean), pattern pairs with URIs synthesised from each incl. re-spelled literals and perturbations (50%); thorough adds every string over {/, :, a, %41} up to 6 symbols; non-trivial = some unapply succeeded with at least one binding; distinct by rendered case")),
        ("query_kinds", J::counts(&kinds)),
        ("answer_kinds", J::counts(&answers)),
        ("samples", J::A(samples)),
    ]);
    write_meta(&args.out, "meta.json", &meta);
}
