//! C19: real `Value::{eq, cmp, hash}` on triples from a boundary-heavy pool.

use std::cmp::Ordering;
use std::collections::{BTreeMap, BTreeSet};
use std::hash::{Hash, Hasher};

use num_bigint::{BigInt, BigUint};
use swimos_model::{Attr, Blob, Item, Text, Value};
use vcore::*;

/// Records everything written to it, with a tag per write call, so that two values hash
/// equally (for every hasher) iff their recordings are equal.
#[derive(Default)]
struct Rec(Vec<u8>);
impl Hasher for Rec {
    fn finish(&self) -> u64 {
        0
    }
    fn write(&mut self, bytes: &[u8]) {
        self.0.push(b'w');
        self.0.extend_from_slice(&(bytes.len() as u64).to_le_bytes());
        self.0.extend_from_slice(bytes);
    }
    fn write_u8(&mut self, i: u8) {
        self.0.push(b'1');
        self.0.push(i);
    }
    fn write_u64(&mut self, i: u64) {
        self.0.push(b'8');
        self.0.extend_from_slice(&i.to_le_bytes());
    }
    fn write_i128(&mut self, i: i128) {
        self.0.push(b'I');
        self.0.extend_from_slice(&i.to_le_bytes());
    }
}

fn hash_rec(v: &Value) -> Vec<u8> {
    let mut r = Rec::default();
    v.hash(&mut r);
    r.0
}

fn coq(v: &Value) -> String {
    match v {
        Value::Extant => "Extant".into(),
        Value::Int32Value(n) => format!("(Int32 {})", coq_z(*n as i128)),
        Value::Int64Value(n) => format!("(Int64 {})", coq_z(*n as i128)),
        Value::UInt32Value(n) => format!("(UInt32 {})", coq_z(*n as i128)),
        Value::UInt64Value(n) => format!("(UInt64 {})", coq_z(*n as i128)),
        Value::Float64Value(x) => format!("(Float64 {})", coq_z(x.to_bits() as i128)),
        Value::BooleanValue(b) => format!("(Boolean {})", b),
        Value::BigInt(b) => format!("(BigInt ({})%Z)", b),
        Value::BigUint(b) => format!("(BigUint ({})%Z)", b),
        Value::Text(t) => format!("(Text {})", coq_bytes(t.as_str().as_bytes())),
        Value::Data(b) => format!("(Data {})", coq_bytes(b.as_ref())),
        Value::Record(attrs, items) => format!(
            "(Record {} {})",
            coq_list(attrs.iter().map(|a| format!("({}, {})", coq_bytes(a.name.as_str().as_bytes()), coq(&a.value)))),
            coq_list(items.iter().map(|i| match i {
                Item::ValueItem(v) => format!("(ValueItem {})", coq(v)),
                Item::Slot(k, v) => format!("(Slot {} {})", coq(k), coq(v)),
            }))
        ),
    }
}

fn scalars() -> Vec<Value> {
    let mut v = vec![Value::Extant, Value::BooleanValue(false), Value::BooleanValue(true)];
    for n in [i32::MIN, -1, 0, 1, 2, i32::MAX] {
        v.push(Value::Int32Value(n));
    }
    for n in [i64::MIN, i32::MIN as i64 - 1, -1, 0, 1, 2, i32::MAX as i64 + 1, 9007199254740992, 9007199254740993, i64::MAX] {
        v.push(Value::Int64Value(n));
    }
    for n in [0u32, 1, 2, i32::MAX as u32 + 1, u32::MAX] {
        v.push(Value::UInt32Value(n));
    }
    for n in [0u64, 1, 2, u32::MAX as u64 + 1, 9007199254740993, i64::MAX as u64, i64::MAX as u64 + 1, u64::MAX] {
        v.push(Value::UInt64Value(n));
    }
    for x in [
        0.0f64, -0.0, 1.0, -1.0, 2.0, 0.5, 1.5, 1.0 + f64::EPSILON / 2.0, 1.0 + f64::EPSILON, 1.0 - f64::EPSILON / 2.0,
        f64::NAN, f64::INFINITY, f64::NEG_INFINITY, 9007199254740992.0, 9007199254740994.0, 9.223372036854775807e18,
        1.8446744073709552e19, -9.223372036854775808e18, 1e300, -1e300, f64::MIN_POSITIVE, 2147483648.0, -2147483649.0,
        3.4028236692093846e38, 1.7014118346046923e38,
    ] {
        v.push(Value::Float64Value(x));
    }
    let two128: BigInt = BigInt::from(1) << 128usize;
    for b in [
        BigInt::from(0), BigInt::from(1), BigInt::from(-1), BigInt::from(2), BigInt::from(i64::MAX) + 1, BigInt::from(i64::MIN) - 1,
        BigInt::from(u64::MAX), BigInt::from(u64::MAX) + 1, (BigInt::from(1) << 127usize) - 1, BigInt::from(1) << 127usize, -(BigInt::from(1) << 127usize) - 1,
        two128.clone(), -two128.clone(), BigInt::from(9007199254740993i64), BigInt::from(1) << 1100usize, -(BigInt::from(1) << 1100usize),
    ] {
        v.push(Value::BigInt(b));
    }
    for b in [
        BigUint::from(0u32), BigUint::from(1u32), BigUint::from(2u32), BigUint::from(u64::MAX), BigUint::from(u64::MAX) + 1u32,
        (BigUint::from(1u32) << 127usize) - 1u32, BigUint::from(1u32) << 127usize, BigUint::from(1u32) << 128usize, BigUint::from(1u32) << 1100usize,
        BigUint::from(9007199254740993u64),
    ] {
        v.push(Value::BigUint(b));
    }
    for t in ["", "a", "ab", "b", "A", "é", "日本", "1", "true"] {
        v.push(Value::Text(Text::new(t)));
    }
    for d in [vec![], vec![0u8], vec![0, 0], vec![1], vec![255], vec![97]] {
        v.push(Value::Data(Blob::from_vec(d)));
    }
    v
}

fn record(rng: &mut Rng, sc: &[Value], depth: u32) -> Value {
    let na = rng.below(3) as usize;
    let ni = rng.below(3) as usize;
    let names = ["a", "b", "", "ab", "é"];
    let pick = |rng: &mut Rng| -> Value {
        if depth > 0 && rng.chance(1, 4) {
            record(rng, sc, depth - 1)
        } else {
            // bias to small numbers in all kinds so that equal-across-kind cases are common
            match rng.below(10) {
                0 => Value::Int32Value(1),
                1 => Value::UInt64Value(1),
                2 => Value::BigInt(BigInt::from(1)),
                3 => Value::Float64Value(1.0),
                _ => rng.pick(sc).clone(),
            }
        }
    };
    let attrs: Vec<Attr> = (0..na).map(|_| Attr::of((*rng.pick(&names), pick(rng)))).collect();
    let items: Vec<Item> = (0..ni)
        .map(|_| {
            if rng.chance(1, 2) {
                Item::ValueItem(pick(rng))
            } else {
                Item::Slot(pick(rng), pick(rng))
            }
        })
        .collect();
    Value::Record(attrs, items)
}

fn code(o: Ordering) -> i128 {
    match o {
        Ordering::Less => -1,
        Ordering::Equal => 0,
        Ordering::Greater => 1,
    }
}

fn main() {
    let args = parse_args();
    let mut rng = Rng::new(args.seed);
    let mut w = CaseWriter::new(
        "From SwimV Require Import Lib.Hex Model.Value.\nFrom Work Require Import prelude.\nOpen Scope Z_scope.",
        "icase",
        &["corr_bad_p pool", "oracle_bad_p pool", "known_hits_p pool"],
        args.shards,
    );
    let sc = scalars();
    let mut pool = sc.clone();
    pool.push(Value::Record(vec![], vec![]));
    pool.push(Value::Record(vec![Attr::of(("a", Value::Extant))], vec![]));
    pool.push(Value::Record(vec![], vec![Item::ValueItem(Value::Extant)]));
    pool.push(Value::Record(vec![], vec![Item::Slot(Value::Int32Value(1), Value::Int32Value(2))]));
    pool.push(Value::Record(vec![], vec![Item::Slot(Value::Int64Value(1), Value::UInt32Value(2))]));
    pool.push(Value::Record(vec![Attr::of(("a", Value::Extant))], vec![Item::ValueItem(Value::Extant)]));
    let nrec = if args.tier == "thorough" { 120 } else { 30 };
    for _ in 0..nrec {
        let r = record(&mut rng, &sc, 2);
        pool.push(r);
    }
    let hashes: Vec<Vec<u8>> = pool.iter().map(hash_rec).collect();
    let mut kinds: BTreeMap<String, u64> = BTreeMap::new();
    let mut nontrivial = 0u64;
    let mut distinct = BTreeSet::new();
    let mut samples = vec![];

    let mut emit = |i: usize, j: usize, k: usize, w: &mut CaseWriter| {
        let (x, y, z) = (&pool[i], &pool[j], &pool[k]);
        let b = |x: bool| if x { "true" } else { "false" };
        let obs = format!(
            "[{}; {}; {}; {}; {}], [{}; {}; {}; {}; {}], [{}; {}; {}]",
            b(x == y), b(y == x), b(y == z), b(x == z), b(x == x),
            coq_z(code(x.cmp(y))), coq_z(code(y.cmp(x))), coq_z(code(y.cmp(z))), coq_z(code(x.cmp(z))), coq_z(code(x.cmp(x))),
            b(hashes[i] == hashes[j]), b(hashes[j] == hashes[k]), b(hashes[i] == hashes[k])
        );
        let term = format!("({}%N, {}%N, {}%N, {})", i, j, k, obs);
        let human = format!("x={:?} y={:?} z={:?} -> {}", x, y, z, obs);
        *kinds.entry(format!("{:?}/{:?}", x.kind(), y.kind())).or_default() += 1;
        // non-trivial: different kinds that compare equal, or equal-but-distinct representations
        let nt = x.kind() != y.kind() && (x == y || x.cmp(y) == Ordering::Equal);
        if distinct.insert((i, j, k)) && nt {
            nontrivial += 1;
            if samples.len() < 4 {
                samples.push(J::s(human.clone()));
            }
        }
        w.push(term, human);
    };

    // every ordered pair of the pool appears as (x, y) at least once; z is drawn at random
    let n = pool.len();
    let all_pairs = true;
    if all_pairs {
        for i in 0..n {
            for j in 0..n {
                let k = rng.usize_below(n);
                emit(i, j, k, &mut w);
            }
        }
    }
    for _ in 0..args.cases {
        let i = rng.usize_below(n);
        // bias towards numerically close triples: neighbours in the pool are related values
        let j = if rng.chance(1, 2) { (i + rng.usize_below(7)) % n } else { rng.usize_below(n) };
        let k = if rng.chance(1, 2) { (j + rng.usize_below(7)) % n } else { rng.usize_below(n) };
        emit(i, j, k, &mut w);
    }
    // the pool is compiled once (prelude.v) and shared by all shards
    std::fs::create_dir_all(&args.out).unwrap();
    std::fs::write(
        args.out.join("prelude.v"),
        format!(
            "From SwimV Require Import Lib.Hex Model.Value.\nOpen Scope Z_scope.\nDefinition pool : list value := {}.\n",
            coq_list(pool.iter().map(coq))
        ),
    )
    .unwrap();
    w.finish(&args.out, "cases").unwrap();
    let meta = J::obj(vec![
        ("evaluations", J::I(w.len() as i128)),
        ("distinct_nontrivial", J::I(nontrivial as i128)),
        ("pool_size", J::I(n as i128)),
        ("all_ordered_pairs", J::B(all_pairs)),
        ("rule", J::s("triples (x, y, z) over a boundary pool: every numeric kind at its limits, the same number in every kind, +-0.0, NaN, infinities, 2^53+-1, 2^63, 2^64, 2^127, 2^128, fractions next to integers, huge big integers, texts, blobs, records (fixed + random nested); every ordered pair appears as (x, y) when the budget allows, plus random triples biased to neighbours; observed: eq, cmp and recorded-hash equality for the pairs of the triple; non-trivial = x, y of different kinds with x == y or cmp Equal; distinct by pool indices")),
        ("kind_pairs", J::I(kinds.len() as i128)),
        ("samples", J::A(samples)),
    ]);
    write_meta(&args.out, "meta.json", &meta);
}
