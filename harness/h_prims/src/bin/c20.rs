//! C20: drives the real `Links` registry with real `UplinkReporter`s / readers.

use std::collections::{BTreeMap, BTreeSet};

use swimos_runtime::agent::reporting::{UplinkReportReader, UplinkReporter};
use swimos_runtime::verif_hooks::agent::task::{Links, TriggerUnlink};
use uuid::Uuid;
use vcore::*;

#[derive(Clone, Debug, PartialEq, Eq, PartialOrd, Ord)]
enum Op {
    RegisterLane(u64, bool),
    Insert(u64, u64),
    Remove(u64, u64),
    RemoveRemote(u64),
    RemoveLane(u64),
    RemoveAll,
    CountSingle(u64),
    CountBroadcast(u64),
    CountCommands(usize, u64),
    Snapshot(usize),
    LinkedFrom(u64),
    LinkedTo(u64),
    IsLinked(u64, u64),
}

impl Op {
    fn coq(&self) -> String {
        match self {
            Op::RegisterLane(l, b) => format!("RegisterLane {} {}", l, b),
            Op::Insert(l, r) => format!("Insert {} {}", l, r),
            Op::Remove(l, r) => format!("Remove {} {}", l, r),
            Op::RemoveRemote(r) => format!("RemoveRemote {}", r),
            Op::RemoveLane(l) => format!("RemoveLane {}", l),
            Op::RemoveAll => "RemoveAll".into(),
            Op::CountSingle(l) => format!("CountSingle {}", l),
            Op::CountBroadcast(l) => format!("CountBroadcast {}", l),
            Op::CountCommands(k, n) => format!("CountCommands {}%nat {}", k, n),
            Op::Snapshot(k) => format!("Snapshot {}%nat", k),
            Op::LinkedFrom(l) => format!("LinkedFrom {}", l),
            Op::LinkedTo(r) => format!("LinkedTo {}", r),
            Op::IsLinked(r, l) => format!("IsLinked {} {}", r, l),
        }
    }
    fn kind(&self) -> &'static str {
        match self {
            Op::RegisterLane(..) => "register_lane",
            Op::Insert(..) => "insert",
            Op::Remove(..) => "remove",
            Op::RemoveRemote(..) => "remove_remote",
            Op::RemoveLane(..) => "remove_lane",
            Op::RemoveAll => "remove_all",
            Op::CountSingle(..) => "count_single",
            Op::CountBroadcast(..) => "count_broadcast",
            Op::CountCommands(..) => "count_commands",
            Op::Snapshot(..) => "snapshot",
            Op::LinkedFrom(..) => "linked_from",
            Op::LinkedTo(..) => "linked_to",
            Op::IsLinked(..) => "is_linked",
        }
    }
}

fn rid(r: u64) -> Uuid {
    Uuid::from_u128(r as u128)
}
fn rnum(u: Uuid) -> u64 {
    u.as_u128() as u64
}

fn run_impl(with_agg: bool, ops: &[Op]) -> Vec<String> {
    // reporters[k] = (clone kept by the "read task", reader kept by introspection, lane)
    let mut clones: Vec<Option<UplinkReporter>> = vec![];
    let mut readers: Vec<UplinkReportReader> = vec![];
    let mut lane_rep: BTreeMap<u64, usize> = BTreeMap::new();
    let agg = if with_agg {
        let r = UplinkReporter::default();
        clones.push(Some(r.clone()));
        readers.push(r.reader());
        Some(r)
    } else {
        None
    };
    let mut links = Links::new(agg);
    let mut outs = vec![];
    let set = |s: Option<Vec<u64>>| match s {
        None => "OSet None".to_string(),
        Some(mut v) => {
            v.sort();
            format!("OSet (Some {})", coq_list(v.iter().map(|x| format!("{}", x))))
        }
    };
    for op in ops {
        let o: String = match op {
            Op::RegisterLane(l, with_rep) => {
                if *with_rep {
                    let r = UplinkReporter::default();
                    let k = readers.len();
                    clones.push(Some(r.clone()));
                    readers.push(r.reader());
                    lane_rep.insert(*l, k);
                    links.register_reporter(*l, r);
                    format!("OReg (Some {}%nat)", k)
                } else {
                    "OReg None".into()
                }
            }
            Op::Insert(l, r) => {
                links.insert(*l, rid(*r));
                "OUnit".into()
            }
            Op::Remove(l, r) => {
                let TriggerUnlink { remote_id, schedule_prune } = links.remove(*l, rid(*r));
                format!("OTrigger {} {}", rnum(remote_id), schedule_prune)
            }
            Op::RemoveRemote(r) => {
                links.remove_remote(rid(*r));
                "OUnit".into()
            }
            Op::RemoveLane(l) => {
                let mut ts: Vec<(u64, bool)> = links
                    .remove_lane(*l)
                    .map(|t| (rnum(t.remote_id), t.schedule_prune))
                    .collect();
                ts.sort();
                // the lane's endpoint (and its reporter clone) goes away with the lane
                if let Some(k) = lane_rep.remove(l) {
                    clones[k] = None;
                }
                format!("OTriggers {}", coq_list(ts.iter().map(|(r, p)| format!("({}, {})", r, p))))
            }
            Op::RemoveAll => {
                let mut ps: Vec<(u64, u64)> = links.remove_all_links().map(|(l, r)| (l, rnum(r))).collect();
                ps.sort();
                format!("OPairs {}", coq_list(ps.iter().map(|(l, r)| format!("({}, {})", l, r))))
            }
            Op::CountSingle(l) => {
                links.count_single(*l);
                "OUnit".into()
            }
            Op::CountBroadcast(l) => {
                links.count_broadcast(*l);
                "OUnit".into()
            }
            Op::CountCommands(k, n) => {
                if let Some(Some(r)) = clones.get(*k) {
                    r.count_commands(*n);
                }
                "OUnit".into()
            }
            Op::Snapshot(k) => match readers.get(*k).and_then(|r| r.snapshot()) {
                Some(s) => format!("OSnap (Some ({}, {}, {}))", s.link_count, s.event_count, s.command_count),
                None => "OSnap None".into(),
            },
            Op::LinkedFrom(l) => set(links.linked_from(*l).map(|s| s.iter().map(|u| rnum(*u)).collect())),
            Op::LinkedTo(r) => set(links.linked_to(rid(*r)).map(|s| s.iter().copied().collect())),
            Op::IsLinked(r, l) => format!("OBool {}", links.is_linked(rid(*r), *l)),
        };
        outs.push(o);
    }
    outs
}

/// Generator state mirrors what the runtime can do: lanes get fresh ids and are registered
/// before use; with an aggregate reporter every lane has a reporter (introspection on),
/// without one no lane has.
struct GenState {
    with_agg: bool,
    next_lane: u64,
    live: Vec<u64>,
    reps: usize,
    lane_rep: BTreeMap<u64, usize>,
}

fn gen_ops(rng: &mut Rng, with_agg: bool, len: usize, n_remotes: u64, max_lanes: u64) -> Vec<Op> {
    let mut g = GenState { with_agg, next_lane: 0, live: vec![], reps: if with_agg { 1 } else { 0 }, lane_rep: BTreeMap::new() };
    let mut ops = vec![];
    while ops.len() < len {
        let r = rng.below(100);
        let need_lane = g.live.is_empty();
        if need_lane || (r < 8 && g.next_lane < max_lanes) {
            let l = g.next_lane;
            g.next_lane += 1;
            g.live.push(l);
            if g.with_agg {
                g.lane_rep.insert(l, g.reps);
                g.reps += 1;
            }
            ops.push(Op::RegisterLane(l, g.with_agg));
            continue;
        }
        if need_lane {
            continue;
        }
        let lane = *rng.pick(&g.live);
        let remote = 1 + rng.below(n_remotes);
        let op = if r < 38 {
            Op::Insert(lane, remote)
        } else if r < 50 {
            Op::Remove(lane, remote)
        } else if r < 58 {
            Op::RemoveRemote(remote)
        } else if r < 61 && g.live.len() > 1 {
            g.live.retain(|x| *x != lane);
            g.lane_rep.remove(&lane);
            Op::RemoveLane(lane)
        } else if r < 63 {
            Op::RemoveAll
        } else if r < 70 {
            Op::CountSingle(lane)
        } else if r < 77 {
            Op::CountBroadcast(lane)
        } else if r < 80 && g.reps > 0 {
            // commands are counted on live reporters only (aggregate or a live lane's)
            let mut live_reps: Vec<usize> = g.lane_rep.values().copied().collect();
            if g.with_agg {
                live_reps.push(0);
            }
            if live_reps.is_empty() {
                continue;
            }
            Op::CountCommands(*rng.pick(&live_reps), 1 + rng.below(5))
        } else if r < 90 && g.reps > 0 {
            Op::Snapshot(rng.usize_below(g.reps))
        } else if r < 93 {
            Op::LinkedFrom(lane)
        } else if r < 96 {
            Op::LinkedTo(remote)
        } else {
            Op::IsLinked(remote, lane)
        };
        ops.push(op);
    }
    // end with a snapshot of every reporter so nothing counted goes unobserved
    for k in 0..g.reps {
        ops.push(Op::Snapshot(k));
    }
    ops
}

fn main() {
    let args = parse_args();
    let mut rng = Rng::new(args.seed);
    let mut w = CaseWriter::new(
        "From SwimV Require Import Model.Links.\nOpen Scope N_scope.",
        "case",
        &["corr_bad", "oracle_bad"],
        args.shards,
    );
    let mut kinds: BTreeMap<String, u64> = BTreeMap::new();
    let mut distinct = BTreeSet::new();
    let mut nontrivial = 0u64;
    let mut samples = vec![];
    let mut emit = |with_agg: bool, ops: &[Op], w: &mut CaseWriter| {
        let outs = run_impl(with_agg, ops);
        let term = format!(
            "({}, {}, {})",
            with_agg,
            coq_list(ops.iter().map(|o| o.coq())),
            coq_list(outs.iter().cloned())
        );
        let human = format!("agg={} ops={:?} impl={:?}", with_agg, ops, outs);
        for o in ops {
            *kinds.entry(o.kind().into()).or_default() += 1;
        }
        // non-trivial: a lane is emptied by remove_remote / remove / remove_all and linked again,
        // with a snapshot afterwards
        let mut emptied = false;
        let mut relinked = false;
        let mut nt = false;
        for o in ops {
            match o {
                Op::RemoveRemote(_) | Op::Remove(..) | Op::RemoveAll => emptied = true,
                Op::Insert(..) if emptied => relinked = true,
                Op::Snapshot(_) if relinked => nt = true,
                _ => {}
            }
        }
        if distinct.insert((with_agg, ops.to_vec())) && nt {
            nontrivial += 1;
            if samples.len() < 3 {
                samples.push(J::s(human.clone()));
            }
        }
        w.push(term, human);
    };

    // corpus
    let corpus: Vec<(bool, Vec<Op>)> = vec![
        (true, vec![Op::RegisterLane(0, true), Op::Insert(0, 1), Op::RemoveRemote(1), Op::Insert(0, 2), Op::Snapshot(1), Op::Snapshot(0)]),
        (true, vec![Op::RegisterLane(0, true), Op::Insert(0, 1), Op::RemoveRemote(1), Op::Insert(0, 2), Op::CountBroadcast(0), Op::CountSingle(0), Op::Snapshot(1), Op::Snapshot(0)]),
        (true, vec![Op::RegisterLane(0, true), Op::RegisterLane(1, true), Op::Insert(0, 1), Op::Insert(1, 1), Op::Insert(0, 2), Op::RemoveAll, Op::Snapshot(0), Op::Snapshot(1), Op::Insert(1, 3), Op::Snapshot(2), Op::Snapshot(0)]),
        (true, vec![Op::RegisterLane(0, true), Op::RegisterLane(1, true), Op::Insert(0, 1), Op::Insert(1, 1), Op::RemoveLane(0), Op::Snapshot(1), Op::Snapshot(2), Op::Snapshot(0), Op::LinkedTo(1)]),
        (false, vec![Op::RegisterLane(0, false), Op::Insert(0, 1), Op::Insert(0, 1), Op::Remove(0, 1), Op::Remove(0, 1), Op::LinkedFrom(0), Op::LinkedTo(1)]),
    ];
    for (a, ops) in &corpus {
        emit(*a, ops, &mut w);
    }
    // small-scope: 2 lanes x 2 remotes, short lists, many of them
    let small = if args.tier == "thorough" { args.cases } else { args.cases / 2 };
    for _ in 0..small {
        let a = rng.chance(3, 4);
        let len = rng.range(3, 10) as usize;
        let ops = gen_ops(&mut rng, a, len, 2, 2);
        emit(a, &ops, &mut w);
    }
    for _ in 0..args.cases {
        let a = rng.chance(3, 4);
        let len = rng.range(8, 50) as usize;
        let ops = gen_ops(&mut rng, a, len, 4, 4);
        emit(a, &ops, &mut w);
    }
    // multi-threaded stress of the real atomic counters: sum of snapshots + remainder = counted
    let mut direct_failures: Vec<J> = vec![];
    let rounds = if args.tier == "thorough" { 20 } else { 4 };
    let per_thread = 20000u64;
    let mut stress_ops = 0u64;
    for round in 0..rounds {
        let reporter = UplinkReporter::default();
        let reader = reporter.reader();
        let stop = std::sync::Arc::new(std::sync::atomic::AtomicBool::new(false));
        let mut handles = vec![];
        for t in 0..4u64 {
            let r = reporter.clone();
            handles.push(std::thread::spawn(move || {
                let mut ev = 0u64;
                let mut cm = 0u64;
                for i in 0..per_thread {
                    let n = 1 + (i + t) % 3;
                    if i % 2 == 0 {
                        r.count_events(n);
                        ev += n;
                    } else {
                        r.count_commands(n);
                        cm += n;
                    }
                }
                (ev, cm)
            }));
        }
        let snap = {
            let reader = reader.clone();
            let stop = stop.clone();
            std::thread::spawn(move || {
                let mut ev = 0u64;
                let mut cm = 0u64;
                let mut n = 0u64;
                while !stop.load(std::sync::atomic::Ordering::SeqCst) {
                    if let Some(s) = reader.snapshot() {
                        ev += s.event_count;
                        cm += s.command_count;
                        n += 1;
                    }
                }
                (ev, cm, n)
            })
        };
        let mut tot_ev = 0u64;
        let mut tot_cm = 0u64;
        for h in handles {
            let (e, c) = h.join().unwrap();
            tot_ev += e;
            tot_cm += c;
        }
        stop.store(true, std::sync::atomic::Ordering::SeqCst);
        let (mut sev, mut scm, nsnaps) = snap.join().unwrap();
        let last = reader.snapshot().unwrap();
        sev += last.event_count;
        scm += last.command_count;
        stress_ops += 4 * per_thread + nsnaps;
        if sev != tot_ev || scm != tot_cm {
            direct_failures.push(J::s(format!(
                "counter stress round {}: counted events={} commands={} but snapshots sum to events={} commands={}",
                round, tot_ev, tot_cm, sev, scm
            )));
        }
    }

    w.finish(&args.out, "cases").unwrap();
    let meta = J::obj(vec![
        ("direct_failures", J::A(direct_failures)),
        ("stress_counter_ops", J::I(stress_ops as i128)),
        ("evaluations", J::I(w.len() as i128)),
        ("distinct_nontrivial", J::I(nontrivial as i128)),
        ("rule", J::s("corpus; random op lists over <=2 lanes x 2 remotes (length 3..10) and <=4 lanes x 4 remotes (length 8..50); lanes get fresh ids and are registered before use, with a reporter iff the agent has an aggregate reporter (as the runtime does); every list ends with a snapshot of every reporter; non-trivial = a lane loses links (remove / remove_remote / remove_all), is linked again and a snapshot follows; distinct by op list")),
        ("op_kinds", J::counts(&kinds)),
        ("samples", J::A(samples)),
    ]);
    write_meta(&args.out, "meta.json", &meta);
}
