//! C09: (a) the text-token layer of Recon against the model: Value::Text printed by the real printers,
//! parse_text_token on literals with arbitrary escapes; (b) whole-pipeline oracles on the real code:
//! print -> parse recovers the value for the three printers, one more cycle is a fixed point, the
//! incremental decoder agrees with the one-shot parser for every cut of the input, nothing panics.

use std::collections::{BTreeMap, BTreeSet};

use bytes::BytesMut;
use num_bigint::{BigInt, BigUint};
use swimos_form::read::RecognizerReadable;
use swimos_model::{Attr, Blob, Item, Text, Value};
use swimos_recon::parser::{parse_recognize, parse_text_token, RecognizerDecoder, Span};
use swimos_recon::WithLenRecognizerDecoder;
use swimos_recon::{print_recon, print_recon_compact, print_recon_pretty};
use tokio_util::codec::Decoder;
use vcore::*;

// derived types whose body is delegated to a text after one or more attributes (the printers put the padding of their
// strategy between the last attribute and the body)
#[derive(swimos_form::Form, Debug, PartialEq, Clone)]
struct Label {
    #[form(body)]
    text: String,
}
#[derive(swimos_form::Form, Debug, PartialEq, Clone)]
struct AttrText {
    #[form(attr)]
    k: i32,
    #[form(body)]
    t: String,
}
#[derive(swimos_form::Form, Debug, PartialEq, Clone)]
struct Holder {
    inner: Label,
    n: i32,
}

fn cps(s: &str) -> String {
    coq_list(s.chars().map(|c| (c as u32).to_string()))
}

const INTERESTING: &[char] = &[
    'a', 'z', 'A', '_', '-', '0', '9', ' ', '\t', '\n', '\r', '\u{8}', '\u{c}', '\u{0}', '\u{1}', '\u{1f}', '"', '\\', 'u', 'n', 't', 'b',
    'f', 'r', '/', '@', '{', '}', ':', ',', '\u{7f}', '\u{b7}', '\u{c0}', '\u{d7}', '\u{f7}', '\u{37e}', '\u{2000}', '\u{200c}', '\u{3000}',
    '\u{3001}', '\u{d7ff}', '\u{e000}', '\u{fffd}', '\u{fffe}', '\u{10000}', '\u{effff}', '\u{f0000}', '\u{10ffff}', 'é', '名',
];

fn gen_text(rng: &mut Rng) -> String {
    match rng.below(8) {
        0 => "true".into(),
        1 => "false".into(),
        2 => String::new(),
        3 => {
            // identifier-like
            let n = rng.range(1, 6);
            (0..n).map(|i| if i == 0 { *rng.pick(&['a', '_', 'Z', 'é', '名']) } else { *rng.pick(&['a', '9', '-', '_', 'é']) }).collect()
        }
        _ => {
            let n = rng.range(0, 8);
            (0..n).map(|_| *rng.pick(INTERESTING)).collect()
        }
    }
}

/// The inside of a string literal with arbitrary (also malformed) escapes.
fn gen_literal_body(rng: &mut Rng) -> String {
    let n = rng.range(0, 8);
    let mut s = String::new();
    for _ in 0..n {
        match rng.below(12) {
            0 => s.push_str("\\n"),
            1 => s.push_str("\\\""),
            2 => s.push_str("\\\\"),
            3 => {
                s.push_str("\\u");
                if rng.below(4) == 0 {
                    s.push('u');
                }
                let digits = *rng.pick(&[0usize, 1, 2, 3, 4, 4, 4, 4, 5]);
                let v = *rng.pick(&[0x41u32, 0x1f, 0x0, 0xd800, 0xdfff, 0xd7ff, 0xe000, 0xffff, 0x2028, 0xabcd]);
                let hex = format!("{:04x}", v);
                let hex = if rng.below(3) == 0 { hex.to_uppercase() } else { hex };
                s.push_str(&hex[..digits.min(4)]);
                if digits > 4 {
                    s.push('0');
                }
            }
            4 => {
                s.push('\\');
                s.push(*rng.pick(&['x', 'q', '0', ' ', 'é', 'b', 'f', 'r', 't', '/']));
            }
            _ => s.push(*rng.pick(&['a', 'b', ' ', 'é', '名', '{', 'u', '0', 'f'])),
        }
    }
    s
}

// ---------------------------------------------------------------------------------------------
fn gen_value(rng: &mut Rng, depth: u32) -> Value {
    let top = if depth == 0 { 11 } else { 14 };
    match rng.below(top) {
        0 => Value::Extant,
        1 => Value::Int32Value(*rng.pick(&[0, 1, -1, i32::MAX, i32::MIN, 42, -1000])),
        2 => Value::Int64Value(*rng.pick(&[0, 1, -1, i64::MAX, i64::MIN, i64::MIN + 1, 1 << 40, -(1 << 40), 2147483648])),
        3 => Value::UInt32Value(*rng.pick(&[0, 1, u32::MAX, 70000])),
        4 => Value::UInt64Value(*rng.pick(&[0, 1, u64::MAX, 1 << 63, (1 << 63) - 1, u32::MAX as u64 + 1])),
        5 => Value::Float64Value(*rng.pick(&[0.0, -0.0, 1.0, -1.5, 1e300, -1e-300, 0.1, 3.0e10, 123456789.125, f64::MAX, f64::MIN_POSITIVE, 5e-324])),
        6 => Value::BooleanValue(rng.below(2) == 0),
        7 => {
            let big: BigInt = BigInt::from(*rng.pick(&[0i64, -1, i64::MIN, i64::MAX])) * BigInt::from(*rng.pick(&[1i64, 3, 1 << 40]));
            Value::BigInt(big)
        }
        8 => Value::BigUint(BigUint::from(*rng.pick(&[0u64, 1, u64::MAX])) * BigUint::from(*rng.pick(&[1u64, 5, 1 << 50]))),
        9 => Value::Text(Text::new(&gen_text(rng))),
        10 => {
            let n = *rng.pick(&[0usize, 1, 2, 3, 4, 7]);
            Value::Data(Blob::from_vec((0..n).map(|_| rng.below(256) as u8).collect()))
        }
        _ => {
            let nattrs = *rng.pick(&[0usize, 0, 1, 1, 2]);
            let nitems = *rng.pick(&[0usize, 0, 1, 1, 2, 3]);
            let attrs = (0..nattrs)
                .map(|_| {
                    let name = if rng.below(4) == 0 { gen_text(rng) } else { rng.pick(&["a", "tag", "update", "b-c"]).to_string() };
                    Attr::of((Text::new(&name), gen_value(rng, depth.saturating_sub(1))))
                })
                .collect();
            let items = (0..nitems)
                .map(|_| {
                    if rng.below(2) == 0 {
                        Item::ValueItem(gen_value(rng, depth.saturating_sub(1)))
                    } else {
                        Item::Slot(gen_value(rng, depth.saturating_sub(1)), gen_value(rng, depth.saturating_sub(1)))
                    }
                })
                .collect();
            Value::Record(attrs, items)
        }
    }
}

/// Known findings C09-F1..F3 (KNOWN_FINDINGS.txt): shapes of values whose printed form does not read
/// back as the same value.
fn known_class(v: &Value) -> Option<&'static str> {
    if let Value::Record(attrs, items) = v {
        if !attrs.is_empty() && items.len() == 1 {
            if let Item::ValueItem(Value::Record(_, _)) = &items[0] {
                return Some("F1");
            }
        }
        for a in attrs {
            if let Value::Record(a2, it2) = &a.value {
                if !a2.is_empty() && !it2.is_empty() {
                    return Some("F2");
                }
            }
            if let Some(c) = known_class(&a.value) {
                return Some(c);
            }
        }
        for it in items {
            match it {
                Item::ValueItem(x) => {
                    if let Some(c) = known_class(x) {
                        return Some(c);
                    }
                }
                Item::Slot(k, x) => {
                    if let Value::Record(a2, _) = k {
                        if !a2.is_empty() {
                            return Some("F3");
                        }
                    }
                    if let Some(c) = known_class(k).or_else(|| known_class(x)) {
                        return Some(c);
                    }
                }
            }
        }
    }
    None
}

/// An independent, verbose rendering of a value as Recon text (always quoted texts, floats in
/// exponent form, record bodies always in braces), used to obtain values *produced by the parser*.
fn render(v: &Value, out: &mut String) {
    match v {
        Value::Extant => {}
        Value::Int32Value(n) => out.push_str(&n.to_string()),
        Value::Int64Value(n) => out.push_str(&n.to_string()),
        Value::UInt32Value(n) => out.push_str(&n.to_string()),
        Value::UInt64Value(n) => out.push_str(&n.to_string()),
        Value::Float64Value(x) => out.push_str(&format!("{:e}", x)),
        Value::BooleanValue(b) => out.push_str(if *b { "true" } else { "false" }),
        Value::BigInt(n) => out.push_str(&n.to_string()),
        Value::BigUint(n) => out.push_str(&n.to_string()),
        Value::Text(t) => render_text(t.as_str(), out),
        Value::Data(b) => {
            out.push('%');
            out.push_str(&base64(b.as_ref()));
        }
        Value::Record(attrs, items) => {
            for a in attrs {
                out.push('@');
                render_text(a.name.as_str(), out);
                if a.value != Value::Extant {
                    out.push('(');
                    render(&a.value, out);
                    out.push(')');
                }
                out.push(' ');
            }
            out.push('{');
            for (i, it) in items.iter().enumerate() {
                if i > 0 {
                    out.push(',');
                }
                match it {
                    Item::ValueItem(x) => render(x, out),
                    Item::Slot(k, x) => {
                        render(k, out);
                        out.push(':');
                        render(x, out);
                    }
                }
            }
            out.push('}');
        }
    }
}
fn render_text(t: &str, out: &mut String) {
    out.push('"');
    for c in t.chars() {
        match c {
            '"' => out.push_str("\\\""),
            '\\' => out.push_str("\\\\"),
            c if (c as u32) < 0x20 => out.push_str(&format!("\\u{:04x}", c as u32)),
            c => out.push(c),
        }
    }
    out.push('"');
}
fn base64(data: &[u8]) -> String {
    const T: &[u8] = b"ABCDEFGHIJKLMNOPQRSTUVWXYZabcdefghijklmnopqrstuvwxyz0123456789+/";
    let mut s = String::new();
    for ch in data.chunks(3) {
        let b = [ch[0], *ch.get(1).unwrap_or(&0), *ch.get(2).unwrap_or(&0)];
        let n = ((b[0] as u32) << 16) | ((b[1] as u32) << 8) | b[2] as u32;
        s.push(T[(n >> 18) as usize & 63] as char);
        s.push(T[(n >> 12) as usize & 63] as char);
        s.push(if ch.len() > 1 { T[(n >> 6) as usize & 63] as char } else { '=' });
        s.push(if ch.len() > 2 { T[n as usize & 63] as char } else { '=' });
    }
    s
}

/// Does printing and parsing fail to reproduce this value exactly?
fn fails(v: &Value, pr: fn(&Value) -> String) -> bool {
    match parse(&pr(v)) {
        Ok(back) => format!("{:?}", back) != format!("{:?}", v),
        Err(_) => true,
    }
}

/// The smallest part of a failing value that still fails (a failure is judged by its smallest witness:
/// only that decides whether it belongs to a known finding).
fn shrink_failing(v: &Value, pr: fn(&Value) -> String) -> Value {
    if let Value::Record(attrs, items) = v {
        let mut parts: Vec<&Value> = attrs.iter().map(|a| &a.value).collect();
        for it in items {
            match it {
                Item::ValueItem(x) => parts.push(x),
                Item::Slot(k, x) => {
                    parts.push(k);
                    parts.push(x);
                }
            }
        }
        for p in parts {
            if fails(p, pr) {
                return shrink_failing(p, pr);
            }
        }
    }
    v.clone()
}

fn parse(s: &str) -> Result<Value, String> {
    parse_recognize::<Value>(Span::new(s), false).map_err(|e| format!("{:?}", e))
}

/// Feed the bytes in the given chunks through the incremental decoder.
fn decode_chunks(bytes: &[u8], cuts: &[usize]) -> Result<Option<Value>, String> {
    let mut dec = RecognizerDecoder::new(Value::make_recognizer());
    let mut buf = BytesMut::new();
    let mut prev = 0;
    for &c in cuts {
        buf.extend_from_slice(&bytes[prev..c]);
        prev = c;
        match dec.decode(&mut buf) {
            Ok(Some(v)) => return Ok(Some(v)),
            Ok(None) => {}
            Err(e) => return Err(format!("{:?}", e)),
        }
    }
    buf.extend_from_slice(&bytes[prev..]);
    match dec.decode_eof(&mut buf) {
        Ok(v) => Ok(v),
        Err(e) => Err(format!("{:?}", e)),
    }
}

fn main() {
    let args = parse_args();
    silence_panics();
    let mut rng = Rng::new(args.seed ^ 0xc09);
    let mut w = CaseWriter::new(
        "From SwimV Require Import Model.ReconText.\nOpen Scope N_scope.",
        "tcase",
        &["rt_corr_bad"],
        args.shards,
    );
    let mut kinds: BTreeMap<String, u64> = BTreeMap::new();
    let mut distinct = BTreeSet::new();
    let mut nontrivial = 0u64;
    let mut samples = vec![];
    let mut failures: Vec<String> = vec![];
    let mut oracle_evals = 0u64;
    let mut known_hits: BTreeMap<&'static str, u64> = BTreeMap::new();

    // ---- (a) text tokens against the model ----
    let mut texts: Vec<String> = vec!["true".into(), "false".into(), "".into(), "a".into(), "\u{1}".into(), "a\"b".into(), "back\\slash".into(), "tab\there".into(), "名前".into()];
    for _ in 0..args.cases {
        texts.push(gen_text(&mut rng));
    }
    for t in &texts {
        let v = Value::Text(Text::new(t));
        let printed = catch(std::panic::AssertUnwindSafe(|| print_recon_compact(&v).to_string()));
        match printed {
            Ok(p) => {
                let term = format!("CasePrint {} {}", cps(t), cps(&p));
                let human = format!("print text {:?} -> {:?}", t, p);
                if distinct.insert(human.clone()) && p.contains('\\') {
                    nontrivial += 1;
                }
                *kinds.entry("print_text".into()).or_default() += 1;
                w.push(term, human);
                // the other two printers agree on a single text value
                for (name, q) in [("print_recon", print_recon(&v).to_string()), ("print_recon_pretty", print_recon_pretty(&v).to_string())] {
                    oracle_evals += 1;
                    if q != p {
                        failures.push(format!("{} prints text {:?} as {:?}, print_recon_compact as {:?}", name, t, q, p));
                    }
                }
            }
            Err(m) => failures.push(format!("printing text {:?} panicked: {}", t, m)),
        }
    }
    let mut literals: Vec<String> = vec!["\"\\ud800\"".into(), "\"\\u0041\"".into(), "\"\\uu0041\"".into(), "\"\\u12\"".into(), "\"\\x\"".into(), "abc".into(), "true".into(), " x ".into(), "\"unterminated".into(), "\"a\"b".into(), "9a".into()];
    for _ in 0..args.cases {
        let body = gen_literal_body(&mut rng);
        literals.push(match rng.below(10) {
            0 => body,                         // not quoted at all
            1 => format!("\"{}", body),       // no closing quote
            2 => format!(" \"{}\"\t", body),  // blanks around
            _ => format!("\"{}\"", body),
        });
    }
    for lit in &literals {
        let r = catch(std::panic::AssertUnwindSafe(|| parse_text_token(Span::new(lit)).ok().map(|c| c.to_string())));
        match r {
            Ok(res) => {
                let term = format!(
                    "CaseParse {} {}",
                    cps(lit),
                    match &res {
                        Some(t) => format!("(Some {})", cps(t)),
                        None => "None".into(),
                    }
                );
                let human = format!("parse_text_token {:?} -> {:?}", lit, res);
                if distinct.insert(human.clone()) && lit.contains("\\u") {
                    nontrivial += 1;
                    if samples.len() < 3 {
                        samples.push(J::s(human.clone()));
                    }
                }
                *kinds.entry("parse_text_token".into()).or_default() += 1;
                w.push(term, human);
            }
            Err(m) => {
                // a panic is a failure of the property itself
                failures.push(format!("parse_text_token({:?}) panicked: {}", lit, m));
                let term = format!("CaseParse {} (Some [0; 0; 0; 0; 0; 0; 0])", cps(lit));
                w.push(term, format!("parse_text_token {:?} -> PANIC {}", lit, m));
            }
        }
    }

    // ---- (b) whole-pipeline oracles on the real code ----
    let nvals = args.cases * 2;
    for i in 0..nvals {
        let v0 = gen_value(&mut rng, if i % 3 == 0 { 3 } else { 2 });
        *kinds.entry("pipeline_value".into()).or_default() += 1;
        let printers: [(&str, fn(&Value) -> String); 3] = [
            ("print_recon", |v| print_recon(v).to_string()),
            ("print_recon_compact", |v| print_recon_compact(v).to_string()),
            ("print_recon_pretty", |v| print_recon_pretty(v).to_string()),
        ];
        // a value produced by the parser (from an independent rendering of v0) must be recovered exactly
        let mut text = String::new();
        render(&v0, &mut text);
        if let Ok(vp) = parse(&text) {
            if format!("{:?}", vp) != format!("{:?}", v0) && vp != v0 {
                *kinds.entry("renderer_reads_differently".into()).or_default() += 1;
            }
            for (name, pr) in printers.iter() {
                oracle_evals += 1;
                let r = catch(std::panic::AssertUnwindSafe(|| {
                    let s = pr(&vp);
                    match parse(&s) {
                        Ok(back) if format!("{:?}", back) == format!("{:?}", vp) => Ok(()),
                        other => Err(format!("{}: the parser produces {:?} from {:?}; printed as {:?} it reads back as {:?}", name, vp, text, s, other)),
                    }
                }));
                match r {
                    Ok(Ok(())) => {}
                    Ok(Err(e)) => {
                        let small = shrink_failing(&vp, *pr);
                        match known_class(&small) {
                            Some(class) => *known_hits.entry(class).or_default() += 1,
                            None => failures.push(format!("{} [smallest failing part: {:?} printed as {:?}]", e, small, pr(&small))),
                        }
                    }
                    Err(m) => failures.push(format!("{} of {:?} panicked: {}", name, vp, m)),
                }
            }
        } else {
            *kinds.entry("renderer_text_rejected".into()).or_default() += 1;
        }
        for (name, pr) in printers.iter() {
            oracle_evals += 1;
            let res = catch(std::panic::AssertUnwindSafe(|| {
                // an arbitrary model value: one print/parse cycle, then a fixed point
                let s1 = pr(&v0);
                let v1 = parse(&s1).map_err(|e| (known_class(&v0), format!("{} output {:?} of {:?} does not parse: {}", name, s1, v0, e)))?;
                // v1 is a value the parser itself produced: it must be recovered exactly
                let s2 = pr(&v1);
                let v2 = parse(&s2).map_err(|e| (known_class(&v1), format!("{} output {:?} of the parsed value {:?} does not parse: {}", name, s2, v1, e)))?;
                if format!("{:?}", v2) != format!("{:?}", v1) {
                    return Err((known_class(&v1), format!("{}: the parsed value {:?} printed as {:?} reads back as {:?}", name, v1, s2, v2)));
                }
                let s3 = pr(&v2);
                if s3 != s2 {
                    return Err((None, format!("{}: printing is not stable: {:?} then {:?}", name, s2, s3)));
                }
                // the incremental decoder agrees with the one-shot parser for every cut
                let bytes = s1.as_bytes();
                let one_shot = format!("{:?}", v1);
                let limit = bytes.len().min(48);
                for cut in 0..=limit {
                    let got = decode_chunks(bytes, &[cut]);
                    match got {
                        Ok(Some(v)) if format!("{:?}", v) == one_shot => {}
                        other => return Err((None, format!("incremental decoding of {:?} cut at byte {} gives {:?}, the one-shot parser {:?}", s1, cut, other, v1))),
                    }
                }
                Ok(())
            }));
            match res {
                Ok(Ok(())) => {}
                Ok(Err((Some(class), _))) => *known_hits.entry(class).or_default() += 1,
                Ok(Err((None, e))) => failures.push(e),
                Err(m) => failures.push(format!("{} / parse of {:?} panicked: {}", name, v0, m)),
            }
        }
    }
    // length-delimited frames (WithLenRecognizerDecoder: 8 bytes of length, then the text, blanks around the value
    // allowed): two frames back to back, fed under every cut of the first 72 bytes, one byte at a time and in random
    // pieces; each value must come out as soon as the last byte of its frame is there, the one-shot parser's value,
    // with nothing left over
    {
        let frame = |text: &str| -> Vec<u8> {
            let mut f = (text.len() as u64).to_be_bytes().to_vec();
            f.extend_from_slice(text.as_bytes());
            f
        };
        let pads = ["", " ", "  ", "   \n", "\t \n "];
        let rounds = (args.cases / 4).max(20);
        for round in 0..rounds {
            let (a, b) = (gen_value(&mut rng, 2), gen_value(&mut rng, 2));
            let (ta, tb) = (print_recon_compact(&a).to_string(), print_recon_compact(&b).to_string());
            // corpus first: the padded record of the decoder's own tests
            let t1 = if round == 0 { "  @attr { a: 1}   ".to_string() } else { format!("{}{}{}", rng.pick(&pads), ta, rng.pick(&pads)) };
            let t2 = if round == 0 { "{b:2, c:3}".to_string() } else { format!("{}{}{}", rng.pick(&pads), tb, rng.pick(&pads)) };
            let (e1, e2) = match (parse(&t1), parse(&t2)) {
                (Ok(x), Ok(y)) => (x, y),
                _ => continue,
            };
            let (f1, f2) = (frame(&t1), frame(&t2));
            let ends = [f1.len(), f1.len() + f2.len()];
            let mut data = f1.clone();
            data.extend_from_slice(&f2);
            *kinds.entry("with_len_frames".into()).or_default() += 1;
            if t1.trim_end().len() != t1.len() {
                *kinds.entry("with_len_frames_with_trailing_blanks".into()).or_default() += 1;
            }
            let mut chunkings: Vec<Vec<usize>> = (1..data.len().min(72)).map(|c| vec![c]).collect();
            chunkings.push((1..data.len()).collect());
            for _ in 0..3 {
                let mut cs = vec![];
                let mut i = 0;
                while i < data.len() {
                    i += rng.range(1, 5) as usize;
                    if i < data.len() {
                        cs.push(i);
                    }
                }
                chunkings.push(cs);
            }
            for cuts in chunkings {
                oracle_evals += 1;
                let r = catch(std::panic::AssertUnwindSafe(|| -> Result<(), String> {
                    let mut dec = WithLenRecognizerDecoder::new(Value::make_recognizer());
                    let mut buf = BytesMut::new();
                    let mut out: Vec<Value> = vec![];
                    let mut prev = 0;
                    let mut bounds = cuts.clone();
                    bounds.push(data.len());
                    for c in bounds {
                        buf.extend_from_slice(&data[prev..c]);
                        prev = c;
                        let mut steps = 0;
                        loop {
                            steps += 1;
                            if steps > 50 {
                                return Err("the decoder does not come to rest".into());
                            }
                            match dec.decode(&mut buf) {
                                Ok(Some(v)) => out.push(v),
                                Ok(None) => break,
                                Err(e) => return Err(format!("error {:?} after {} values", e, out.len())),
                            }
                        }
                        let complete = ends.iter().filter(|e| **e <= c).count();
                        if out.len() != complete {
                            return Err(format!("after {} bytes {} values had come out although {} frames were complete", c, out.len(), complete));
                        }
                    }
                    if out.len() != 2 || format!("{:?}", out[0]) != format!("{:?}", e1) || format!("{:?}", out[1]) != format!("{:?}", e2) || !buf.is_empty() {
                        return Err(format!("decoded {:?} with {} bytes left", out, buf.len()));
                    }
                    Ok(())
                }));
                match r {
                    Ok(Ok(())) => {}
                    Ok(Err(e)) => failures.push(format!("length-delimited frames {:?} / {:?} cut at {:?}: {}", t1, t2, cuts, e)),
                    Err(m) => failures.push(format!("length-delimited frames {:?} / {:?}: the decoder panicked: {}", t1, t2, m)),
                }
            }
        }
    }
    // typed values of built-in types: recovered exactly by reading them back as the same type
    macro_rules! typed {
        ($t:ty, $vals:expr) => {
            for x in $vals {
                let x: $t = x;
                *kinds.entry("pipeline_typed".into()).or_default() += 1;
                for (name, s) in [("print_recon", print_recon(&x).to_string()), ("print_recon_compact", print_recon_compact(&x).to_string()), ("print_recon_pretty", print_recon_pretty(&x).to_string())] {
                    oracle_evals += 1;
                    let r = catch(std::panic::AssertUnwindSafe(|| parse_recognize::<$t>(Span::new(&s), false).map_err(|e| format!("{:?}", e))));
                    match r {
                        Ok(Ok(y)) if y == x => {}
                        Ok(other) => failures.push(format!("{} of the {} {:?} is {:?}, which reads back as {:?}", name, stringify!($t), x, s, other)),
                        Err(m) => failures.push(format!("reading {:?} as {} panicked: {}", s, stringify!($t), m)),
                    }
                    // and through the incremental decoder, cut everywhere
                    for cut in 0..=s.len().min(32) {
                        let mut dec = RecognizerDecoder::new(<$t>::make_recognizer());
                        let mut buf = BytesMut::new();
                        buf.extend_from_slice(&s.as_bytes()[..cut]);
                        let first = dec.decode(&mut buf);
                        let got = match first {
                            Ok(Some(v)) => Ok(Some(v)),
                            Ok(None) => {
                                buf.extend_from_slice(&s.as_bytes()[cut..]);
                                dec.decode_eof(&mut buf)
                            }
                            Err(e) => Err(e),
                        };
                        match got {
                            Ok(Some(y)) if y == x => {}
                            other => failures.push(format!("incremental reading of the {} text {:?} cut at {} gives {:?}", stringify!($t), s, cut, other.map_err(|e| format!("{:?}", e)))),
                        }
                    }
                }
            }
        };
    }
    typed!(i32, [0, 1, -1, i32::MAX, i32::MIN, 42]);
    typed!(i64, [0, -1, i64::MAX, i64::MIN, i64::MIN + 1, 1 << 40]);
    typed!(u32, [0, 1, u32::MAX]);
    typed!(u64, [0, 1, u64::MAX, 1 << 63]);
    typed!(f64, [0.0, 1.0, -1.5, 1e300, 5e-324, f64::MAX, 0.1, 123456789.125]);
    typed!(bool, [true, false]);
    typed!(String, texts.iter().take(60).cloned());
    typed!(Vec<i32>, [vec![], vec![1], vec![1, -2, 3]]);
    typed!(Vec<String>, [vec![], vec!["a".to_string()], vec!["true".to_string(), "".to_string(), "x y".to_string()]]);
    typed!(Option<i32>, [None, Some(0), Some(-5)]);
    typed!(std::collections::HashMap<String, i32>, [std::collections::HashMap::new(), [("a".to_string(), 1)].into_iter().collect(), [("a b".to_string(), 1), ("true".to_string(), -2)].into_iter().collect()]);
    typed!(Value, [Value::Extant, Value::BigInt(BigInt::from(i64::MIN)), Value::Int64Value(i64::MIN)]);
    let body_texts: Vec<String> = ["hello", "_x-1", "a", "true", "two words", "", "é", "x1", "1x", "a.b"].iter().map(|s| s.to_string()).chain(texts.iter().take(20).cloned()).collect();
    typed!(Label, body_texts.iter().map(|t| Label { text: t.clone() }));
    typed!(AttrText, body_texts.iter().enumerate().map(|(i, t)| AttrText { k: i as i32 - 3, t: t.clone() }));
    typed!(Holder, body_texts.iter().enumerate().map(|(i, t)| Holder { inner: Label { text: t.clone() }, n: i as i32 }));

    // malformed and mutated inputs: no panic, incremental and one-shot agree on acceptance
    for _ in 0..args.cases {
        let v = gen_value(&mut rng, 2);
        let mut s: Vec<char> = print_recon_compact(&v).to_string().chars().collect();
        for _ in 0..rng.range(1, 3) {
            let pos = rng.usize_below(s.len() + 1);
            match rng.below(3) {
                0 if !s.is_empty() && pos < s.len() => {
                    s.remove(pos);
                }
                1 => s.insert(pos, *rng.pick(&['@', '{', '}', '(', ')', ':', ',', '"', '\\', '%', '-', '.', 'e', ' ', '#', '\n', '名'])),
                _ if !s.is_empty() && pos < s.len() => s[pos] = *rng.pick(&['@', '{', '}', '"', '\\', '0', 'x', '=']),
                _ => {}
            }
        }
        let text: String = s.into_iter().collect();
        oracle_evals += 1;
        *kinds.entry("pipeline_mutated_text".into()).or_default() += 1;
        let res = catch(std::panic::AssertUnwindSafe(|| {
            let one = parse(&text);
            let bytes = text.as_bytes();
            let cut = if bytes.is_empty() { 0 } else { rng.usize_below(bytes.len() + 1) };
            let inc = decode_chunks(bytes, &[cut]);
            match (&one, &inc) {
                (Ok(a), Ok(Some(b))) if format!("{:?}", a) == format!("{:?}", b) => Ok(()),
                (Err(_), Err(_)) | (Err(_), Ok(None)) => Ok(()),
                _ => Err(format!("on {:?} cut at {}: one-shot parser {:?}, incremental decoder {:?}", text, cut, one, inc)),
            }
        }));
        match res {
            Ok(Ok(())) => {}
            Ok(Err(e)) => failures.push(e),
            Err(m) => failures.push(format!("parsing {:?} panicked: {}", text, m)),
        }
    }

    w.finish(&args.out, "cases").unwrap();
    failures.sort();
    failures.dedup();
    std::fs::write(std::path::Path::new(&args.out).join("failures.txt"), failures.join("\n")).unwrap();
    let meta = J::obj(vec![
        ("evaluations", J::I(w.len() as i128 + oracle_evals as i128)),
        ("distinct_nontrivial", J::I(nontrivial as i128)),
        ("rule", J::s("(a) against the model: Value::Text printed by print_recon_compact for texts over a pool of boundary code points of the identifier ranges, controls, quotes, backslashes, astral characters, and `true` / `false` / empty; parse_text_token on literals with well-formed and malformed escapes (all of \\n \\\" \\\\ \\uXXXX with 0-5 digits, repeated u, upper/lower case hex, surrogates, unknown escapes), unterminated and unquoted inputs, blanks around; non-trivial = an escape is involved. (b) oracles on the real code only: for generated Values (all numeric kinds at their extremes, finite floats incl. subnormals and -0.0, big integers, blobs, texts, records up to depth 3 with attributes and slots) each of the three printers' output parses back to an == value, a further print/parse cycle reproduces the parsed value exactly and the text is stable, the incremental RecognizerDecoder gives the one-shot result for every cut position of the first 48 bytes (inside multi-byte characters too); two length-delimited frames (WithLenRecognizerDecoder) whose texts carry blanks before and after the value, back to back, under every cut of the first 72 bytes, one byte at a time and in random pieces: each value comes out as soon as its frame is complete, equal to the one-shot parse, nothing left over; mutated outputs never panic and are accepted/rejected alike by both parsers")),
        ("structures", J::counts(&kinds)),
        ("samples", J::A(samples)),
        ("direct_failures", J::A(failures.iter().take(40).map(|f| J::s(f.chars().take(600).collect::<String>())).collect())),
        ("direct_failure_count", J::I(failures.len() as i128)),
        ("known_direct_hits", J::I(known_hits.values().sum::<u64>() as i128)),
        ("known_classes_hit", J::s(format!("{:?}", known_hits))),
    ]);
    write_meta(&args.out, "meta.json", &meta);
}
