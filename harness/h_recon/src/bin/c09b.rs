//! C09, blob literals against Model/ReconBlob.v: byte strings printed by the three Recon printers, and literal-like
//! texts parsed as a Value.
use std::collections::BTreeMap;
use swimos_model::{Blob, Value};
use swimos_recon::parser::{parse_recognize, Span};
use swimos_recon::{print_recon, print_recon_compact, print_recon_pretty};
use vcore::*;

fn cps(s: &str) -> String {
    coq_list(s.chars().map(|c| (c as u32).to_string()))
}
fn cbs(b: &[u8]) -> String {
    coq_list(b.iter().map(|x| x.to_string()))
}

fn gen_bytes(rng: &mut Rng) -> Vec<u8> {
    let n = match rng.below(4) {
        0 => rng.below(4) as usize,
        1 => rng.range(3, 9) as usize,
        _ => rng.below(40) as usize,
    };
    (0..n)
        .map(|_| match rng.below(5) {
            0 => 0u8,
            1 => 255,
            2 => *rng.pick(&[0x3fu8, 0x40, 0xfb, 0xfc, 0x03, 0x0f, 0xf0]),
            _ => rng.below(256) as u8,
        })
        .collect()
}

fn main() {
    let args = parse_args();
    silence_panics();
    let mut rng = Rng::new(args.seed ^ 0xc09_b10b);
    let mut w = CaseWriter::new("From SwimV Require Import Model.ReconBlob.\nOpen Scope N_scope.", "bcase", &["blob_corr_bad"], args.shards);
    let mut kinds: BTreeMap<String, u64> = BTreeMap::new();
    let mut failures: Vec<String> = vec![];
    let mut nontrivial = 0u64;

    let mut parse_case = |w: &mut CaseWriter, kinds: &mut BTreeMap<String, u64>, failures: &mut Vec<String>, s: &str, family: &str| {
        match catch(std::panic::AssertUnwindSafe(|| parse_recognize::<Value>(Span::new(s), false))) {
            Ok(Ok(Value::Data(b))) => {
                *kinds.entry(format!("parse:{}:blob", family)).or_default() += 1;
                let bytes: &Vec<u8> = std::borrow::Borrow::borrow(&b);
                w.push(format!("BCaseParse {} (Some {})", cps(s), cbs(bytes)), format!("parse {:?} -> blob {:02x?}", s, bytes));
            }
            Ok(_) => {
                *kinds.entry(format!("parse:{}:not_a_blob", family)).or_default() += 1;
                w.push(format!("BCaseParse {} None", cps(s)), format!("parse {:?} -> not a blob", s));
            }
            Err(m) => failures.push(format!("parsing {:?} panicked: {}", s, m)),
        }
    };

    // ---- writing: every length modulo 3, the extreme bytes, all three printers ----
    let mut pool: Vec<Vec<u8>> = vec![vec![], vec![0], vec![255], vec![0, 0], vec![255, 255], vec![1, 2, 3], vec![0xfb, 0xff], vec![0xfb, 0xef, 0xbe], (0u8..=255).collect()];
    for _ in 0..args.cases {
        pool.push(gen_bytes(&mut rng));
    }
    for bs in &pool {
        let v = Value::Data(Blob::from_vec(bs.clone()));
        for t in [print_recon_compact(&v).to_string(), print_recon(&v).to_string(), print_recon_pretty(&v).to_string()] {
            *kinds.entry(format!("print:len_mod_3={}", bs.len() % 3)).or_default() += 1;
            w.push(format!("BCasePrint {} {}", cbs(bs), cps(&t)), format!("print {:02x?} -> {:?}", bs, t));
        }
    }

    // ---- reading ----
    for s in [
        "%", "% ", " %", "%AQID", "%AQID ", "%AQ==", "%AQI=", "%AQ=", "%AQ", "%A", "%AQI", "%AQIDA", "%AQIDAQ", "%AQIDAQ==", "%QR==", "%QUJ=", "%QUI=", "%QQ==", "%====",
        "%AQ==AQID", "%AQID,1", "%AQID}", "%/w==", "%+/+/", "%-_-_", "%AQ\nID", "%AQ ID", "%%AQID", "AQID", "%AQID=", "%AQ=D", "%=QID", "%AQI", "%AQ==%AQ==",
    ] {
        parse_case(&mut w, &mut kinds, &mut failures, s, "corpus");
    }
    for i in 0..args.cases {
        let bs = gen_bytes(&mut rng);
        let v = Value::Data(Blob::from_vec(bs));
        let mut s = print_recon_compact(&v).to_string();
        match i % 4 {
            0 => {
                // damage it: one character inserted, removed or replaced from the literal's alphabet
                let alphabet = ['A', 'Q', 'z', '0', '9', '+', '/', '=', '%', '-', '_', ' ', ','];
                let mut cs: Vec<char> = s.chars().collect();
                let c = alphabet[rng.usize_below(alphabet.len())];
                match rng.below(3) {
                    0 => {
                        let p = rng.usize_below(cs.len() + 1);
                        cs.insert(p, c);
                    }
                    1 if cs.len() > 1 => {
                        let p = 1 + rng.usize_below(cs.len() - 1);
                        cs.remove(p);
                    }
                    _ if cs.len() > 1 => {
                        let p = 1 + rng.usize_below(cs.len() - 1);
                        cs[p] = c;
                    }
                    _ => {}
                }
                s = cs.into_iter().collect();
                parse_case(&mut w, &mut kinds, &mut failures, &s, "damaged");
            }
            1 => {
                s = format!(" {}\t", s);
                nontrivial += 1;
                parse_case(&mut w, &mut kinds, &mut failures, &s, "padded");
            }
            _ => {
                nontrivial += 1;
                parse_case(&mut w, &mut kinds, &mut failures, &s, "printed");
            }
        }
    }

    w.finish(&args.out, "cases").unwrap();
    let meta = J::obj(vec![
        ("evaluations", J::I(w.len() as i128)),
        ("distinct_nontrivial", J::I(nontrivial as i128)),
        ("rule", J::s("blob literals against Model/ReconBlob.v: byte strings of length 0-40 (every length modulo 3, runs of 0x00 / 0xff, bytes on the 6-bit boundaries, all 256 byte values once) as Value::Data printed by the compact, standard and pretty printers: must be the model's '%' + padded base64; literal-like texts (a corpus with missing / surplus padding, non-canonical trailing bits, url-safe digits, breaks inside the literal; printed literals as they stand, with blanks around, and a quarter damaged by one character of the literal's alphabet) parsed as a Value: a blob exactly when the model reads one at the head of the text, with the same bytes")),
        ("structures", J::counts(&kinds)),
        ("samples", J::A(vec![])),
        ("direct_failures", J::A(failures.iter().take(40).map(|f| J::s(f.chars().take(500).collect::<String>())).collect())),
        ("direct_failure_count", J::I(failures.len() as i128)),
    ]);
    write_meta(&args.out, "meta.json", &meta);
}
