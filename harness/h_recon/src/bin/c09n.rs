//! C09 / C15, integer literals against Model/ReconNum.v: (a) texts over the alphabet of numeric literals parsed as a
//! Value (kind and number, or not an integer); (b) integer Values of every kind printed; (c) pairs of spellings of
//! integers compared and hashed without parsing (compare_recon_values / recon_hash).
use num_bigint::{BigInt, BigUint};
use std::collections::hash_map::DefaultHasher;
use std::collections::BTreeMap;
use std::hash::Hasher;
use swimos_model::Value;
use swimos_recon::parser::{parse_recognize, Span};
use swimos_recon::{compare_recon_values, print_recon, print_recon_compact, recon_hash};
use vcore::*;

fn cps(s: &str) -> String {
    coq_list(s.chars().map(|c| (c as u32).to_string()))
}
fn zb(z: &BigInt) -> String {
    format!("({})%Z", z)
}
fn h(s: &str) -> u64 {
    let mut hasher = DefaultHasher::new();
    recon_hash(s, &mut hasher);
    hasher.finish()
}

/// kind code and number of what a text parses to (6: not an integer value, or not accepted)
fn parsed(s: &str) -> (u8, BigInt) {
    match parse_recognize::<Value>(Span::new(s), false) {
        Ok(Value::Int32Value(n)) => (0, BigInt::from(n)),
        Ok(Value::Int64Value(n)) => (1, BigInt::from(n)),
        Ok(Value::UInt32Value(n)) => (2, BigInt::from(n)),
        Ok(Value::UInt64Value(n)) => (3, BigInt::from(n)),
        Ok(Value::BigInt(n)) => (4, n),
        Ok(Value::BigUint(n)) => (5, BigInt::from(n)),
        _ => (6, BigInt::from(0)),
    }
}

fn boundaries() -> Vec<BigInt> {
    let two = BigInt::from(2);
    let mut v = vec![BigInt::from(0), BigInt::from(1), BigInt::from(9), BigInt::from(10), BigInt::from(99), BigInt::from(100), BigInt::from(255), BigInt::from(256)];
    for e in [7u32, 8, 15, 16, 31, 32, 53, 63, 64, 65, 127, 128, 200] {
        let p = two.pow(e);
        v.push(&p - 1);
        v.push(p.clone());
        v.push(&p + 1);
    }
    let neg: Vec<BigInt> = v.iter().map(|x| -x).collect();
    v.extend(neg);
    v
}

fn random_int(rng: &mut Rng) -> BigInt {
    match rng.below(6) {
        0 => BigInt::from(rng.below(1000) as i64 - 500),
        1 => BigInt::from(rng.next_u64() as i64),
        2 => BigInt::from(rng.next_u64()),
        3 => {
            let mut x = BigInt::from(rng.next_u64());
            for _ in 0..rng.range(1, 3) {
                x = x * BigInt::from(rng.next_u64()) + BigInt::from(rng.next_u64() % 1000);
            }
            if rng.below(2) == 0 {
                -x
            } else {
                x
            }
        }
        4 => {
            // near a power of ten (digit count changes)
            let p = BigInt::from(10).pow(rng.range(1, 40) as u32);
            p + BigInt::from(rng.below(3) as i64 - 1)
        }
        _ => {
            let b = boundaries();
            b[rng.usize_below(b.len())].clone()
        }
    }
}

/// One of the ways of writing the integer z.
fn spell(rng: &mut Rng, z: &BigInt) -> String {
    let neg = z.sign() == num_bigint::Sign::Minus || (*z == BigInt::from(0) && rng.below(6) == 0);
    let mag = z.magnitude();
    let zeros = "0".repeat(if rng.below(3) == 0 { rng.range(1, 3) as usize } else { 0 });
    let body = match rng.below(5) {
        0 => format!("{}{}{}", if rng.below(2) == 0 { "0x" } else { "0X" }, zeros, if rng.below(2) == 0 { format!("{:x}", mag) } else { format!("{:X}", mag) }),
        1 => format!("{}{}{:b}", if rng.below(2) == 0 { "0b" } else { "0B" }, zeros, mag),
        _ => format!("{}{}", zeros, mag),
    };
    let core = format!("{}{}", if neg { "-" } else { "" }, body);
    match rng.below(5) {
        0 => format!(" {}", core),
        1 => format!("{}\t ", core),
        _ => core,
    }
}

fn main() {
    let args = parse_args();
    silence_panics();
    let mut rng = Rng::new(args.seed ^ 0xc09_1171);
    let mut w = CaseWriter::new("From SwimV Require Import Model.ReconNum.\nOpen Scope N_scope.", "ncase", &["n_corr_bad"], args.shards);
    let mut kinds: BTreeMap<String, u64> = BTreeMap::new();
    let mut failures: Vec<String> = vec![];
    let mut nontrivial = 0u64;

    let mut parse_case = |w: &mut CaseWriter, kinds: &mut BTreeMap<String, u64>, failures: &mut Vec<String>, s: &str, family: &str| {
        match catch(std::panic::AssertUnwindSafe(|| parsed(s))) {
            Ok((k, z)) => {
                *kinds.entry(format!("parse:{}:{}", family, ["Int32", "Int64", "UInt32", "UInt64", "BigInt", "BigUint", "not_an_integer"][k as usize])).or_default() += 1;
                w.push(format!("NCaseParse {} {} {}", cps(s), k, zb(&z)), format!("parse {:?} -> kind {} value {}", s, k, z));
            }
            Err(m) => failures.push(format!("parsing {:?} panicked: {}", s, m)),
        }
    };

    // ---- (a) reading ----
    for s in [
        "0", "-0", "00", "-00", "007", "-007", "0x", "0b", "0X", "0B", "0x0", "0b0", "0xg", "0b2", "0b12", "0x1g", "-0x10", "-0b101", "0xFf", "0XfF", "0B11",
        "1e5", "1E5", "1.5", "1.", "-1.0", "0.0", "-", "--1", "- 1", "1 2", "1-2", "+1", "1_000", "0x-1", "x10", "b10", "", " ", "0b", "-0x", "0xx1", "00x1", "0b0b1",
        "2147483647", "2147483648", "-2147483648", "-2147483649", "4294967295", "4294967296", "9223372036854775807", "9223372036854775808",
        "-9223372036854775807", "-9223372036854775808", "-9223372036854775809", "18446744073709551615", "18446744073709551616", "-18446744073709551615",
        "-18446744073709551616", "0xffffffffffffffff", "0x10000000000000000", "-0x8000000000000000", "-0x7fffffffffffffff", "0x7FFFFFFF", "0x80000000",
        "000000000000000000000000000000000000000001", "0x00000000000000000000000001", "340282366920938463463374607431768211456", "-340282366920938463463374607431768211456",
    ] {
        parse_case(&mut w, &mut kinds, &mut failures, s, "corpus");
    }
    for z in boundaries() {
        parse_case(&mut w, &mut kinds, &mut failures, &z.to_string(), "boundary_decimal");
        let s = spell(&mut rng, &z);
        parse_case(&mut w, &mut kinds, &mut failures, &s, "boundary_spelled");
    }
    for i in 0..args.cases {
        let z = random_int(&mut rng);
        let mut s = spell(&mut rng, &z);
        if i % 4 == 0 {
            // damage it: one character inserted, removed or replaced from the alphabet of numeric literals
            let alphabet = ['0', '1', '2', '9', 'a', 'f', 'F', 'g', 'x', 'X', 'b', 'B', '-', '.', 'e', 'E', ' ', '+', '_'];
            let mut cs: Vec<char> = s.chars().collect();
            let c = alphabet[rng.usize_below(alphabet.len())];
            match rng.below(3) {
                0 => {
                    let p = rng.usize_below(cs.len() + 1);
                    cs.insert(p, c);
                }
                1 if !cs.is_empty() => {
                    let p = rng.usize_below(cs.len());
                    cs.remove(p);
                }
                _ if !cs.is_empty() => {
                    let p = rng.usize_below(cs.len());
                    cs[p] = c;
                }
                _ => {}
            }
            s = cs.into_iter().collect();
            parse_case(&mut w, &mut kinds, &mut failures, &s, "damaged");
        } else {
            nontrivial += 1;
            parse_case(&mut w, &mut kinds, &mut failures, &s, "spelled");
        }
    }

    // ---- (b) writing: every kind that holds the number ----
    let mut ints = boundaries();
    for _ in 0..args.cases / 2 {
        ints.push(random_int(&mut rng));
    }
    for z in &ints {
        let mut vals: Vec<Value> = vec![Value::BigInt(z.clone())];
        if let Ok(n) = i32::try_from(z) {
            vals.push(Value::Int32Value(n));
        }
        if let Ok(n) = i64::try_from(z) {
            vals.push(Value::Int64Value(n));
        }
        if let Ok(n) = u32::try_from(z) {
            vals.push(Value::UInt32Value(n));
        }
        if let Ok(n) = u64::try_from(z) {
            vals.push(Value::UInt64Value(n));
        }
        if let Ok(n) = BigUint::try_from(z.clone()) {
            vals.push(Value::BigUint(n));
        }
        for v in vals {
            let texts = [print_recon_compact(&v).to_string(), print_recon(&v).to_string(), v.to_string()];
            for t in texts {
                *kinds.entry("print".into()).or_default() += 1;
                w.push(format!("NCasePrint {} {}", zb(z), cps(&t)), format!("print {:?} -> {:?}", v, t));
            }
        }
    }

    // ---- (c) keys: two spellings compared and hashed without parsing ----
    for _ in 0..args.cases {
        let x = random_int(&mut rng);
        let y = match rng.below(4) {
            0 | 1 => x.clone(),
            2 => &x + BigInt::from(rng.below(3) as i64 - 1),
            _ => random_int(&mut rng),
        };
        let (a, b) = (spell(&mut rng, &x), spell(&mut rng, &y));
        match catch(std::panic::AssertUnwindSafe(|| (compare_recon_values(&a, &b), compare_recon_values(&b, &a), h(&a) == h(&b)))) {
            Ok((eq, eq2, sh)) => {
                if eq != eq2 {
                    failures.push(format!("compare_recon_values is not symmetric on {:?} / {:?}", a, b));
                }
                if x == y {
                    nontrivial += 1;
                }
                *kinds.entry(format!("keys:{}", if x == y { "same_number" } else { "different_numbers" })).or_default() += 1;
                w.push(format!("NCaseKeys {} {} {} {}", cps(&a), cps(&b), eq, sh), format!("keys {:?} {:?} -> equal {} same hash {}", a, b, eq, sh));
            }
            Err(m) => failures.push(format!("comparing keys {:?} and {:?} panicked: {}", a, b, m)),
        }
    }

    w.finish(&args.out, "cases").unwrap();
    let meta = J::obj(vec![
        ("evaluations", J::I(w.len() as i128)),
        ("distinct_nontrivial", J::I(nontrivial as i128)),
        ("rule", J::s("integer literals against Model/ReconNum.v: (a) a corpus of literal-like texts, every boundary of the i32 / u32 / i64 / u64 / i128 ranges and random integers (up to ~250 bits) spelled in decimal, hexadecimal or binary, either case of the prefix and of the hex digits, leading zeros, '-0', blanks around, and a quarter of them damaged by one character of the alphabet of numeric literals, each parsed as a Value: kind and number must be the model's, a text the model does not read as one integer must not come out as an integer; (b) the same integers as a Value of every kind that holds them, printed by the compact printer, the standard printer and Display: must be the model's decimal text; (c) pairs of spellings of equal, adjacent and unrelated integers: compare_recon_values must answer as NumericValue::eq of the model, symmetric, and equal keys must hash alike")),
        ("structures", J::counts(&kinds)),
        ("samples", J::A(vec![])),
        ("direct_failures", J::A(failures.iter().take(40).map(|f| J::s(f.chars().take(500).collect::<String>())).collect())),
        ("direct_failure_count", J::I(failures.len() as i128)),
    ]);
    write_meta(&args.out, "meta.json", &meta);
}
