//! C11 (text envelopes): the real ReconEncoder for request / response messages and the real
//! peel_envelope_header_str against the model, plus a direct round-trip oracle.

use std::collections::{BTreeMap, BTreeSet};

use bytes::{Bytes, BytesMut};
use swimos_api::address::RelativeAddress;
use swimos_messages::protocol::{Notification, Operation, RequestMessage, ResponseMessage};
use swimos_messages::warp::{peel_envelope_header_str, RawEnvelope};
use swimos_remote::verif_hooks::ReconEncoder;
use swimos_utilities::encoding::BytesStr;
use tokio_util::codec::Encoder;
use uuid::Uuid;
use vcore::*;

fn cps(s: &str) -> String {
    coq_list(s.chars().map(|c| (c as u32).to_string()))
}

const KINDS: &[&str] = &["ELink", "ESync", "EUnlink", "ECommand", "ELinked", "ESynced", "EUnlinked", "EEvent"];

fn encode(kind: usize, node: &str, lane: &str, body: &str) -> String {
    let mut enc = ReconEncoder;
    let mut dst = BytesMut::new();
    let path = RelativeAddress::new(BytesStr::from(node), BytesStr::from(lane));
    let origin = Uuid::from_u128(1);
    let b = Bytes::from(body.as_bytes().to_vec());
    match kind {
        0 => enc.encode(RequestMessage { origin, path, envelope: Operation::<Bytes>::Link }, &mut dst),
        1 => enc.encode(RequestMessage { origin, path, envelope: Operation::<Bytes>::Sync }, &mut dst),
        2 => enc.encode(RequestMessage { origin, path, envelope: Operation::<Bytes>::Unlink }, &mut dst),
        3 => enc.encode(RequestMessage { origin, path, envelope: Operation::Command(b) }, &mut dst),
        4 => enc.encode(ResponseMessage { origin, path, envelope: Notification::<Bytes, Bytes>::Linked }, &mut dst),
        5 => enc.encode(ResponseMessage { origin, path, envelope: Notification::<Bytes, Bytes>::Synced }, &mut dst),
        6 => enc.encode(ResponseMessage { origin, path, envelope: Notification::<Bytes, Bytes>::Unlinked(Some(b)) }, &mut dst),
        _ => enc.encode(ResponseMessage { origin, path, envelope: Notification::<Bytes, Bytes>::Event(b) }, &mut dst),
    }
    .expect("encoding failed");
    String::from_utf8(dst.to_vec()).expect("the encoder wrote invalid UTF-8")
}

fn peel(input: &str) -> Option<(usize, String, String, String)> {
    match peel_envelope_header_str(input) {
        Ok(env) => {
            let (k, n, l, b) = match env {
                RawEnvelope::Link { node_uri, lane_uri, body, .. } => (0, node_uri, lane_uri, body),
                RawEnvelope::Sync { node_uri, lane_uri, body, .. } => (1, node_uri, lane_uri, body),
                RawEnvelope::Unlink { node_uri, lane_uri, body } => (2, node_uri, lane_uri, body),
                RawEnvelope::Command { node_uri, lane_uri, body } => (3, node_uri, lane_uri, body),
                RawEnvelope::Linked { node_uri, lane_uri, body, .. } => (4, node_uri, lane_uri, body),
                RawEnvelope::Synced { node_uri, lane_uri, body } => (5, node_uri, lane_uri, body),
                RawEnvelope::Unlinked { node_uri, lane_uri, body } => (6, node_uri, lane_uri, body),
                RawEnvelope::Event { node_uri, lane_uri, body } => (7, node_uri, lane_uri, body),
                _ => return None, // auth / deauth: not modelled
            };
            Some((k, n.to_string(), l.to_string(), (*b).to_string()))
        }
        Err(_) => None,
    }
}

fn main() {
    let args = parse_args();
    silence_panics();
    let mut rng = Rng::new(args.seed ^ 0xc11);
    let mut w = CaseWriter::new(
        "From SwimV Require Import Model.Envelope.\nOpen Scope N_scope.",
        "ecase",
        &["env_corr_bad", "env_oracle_bad"],
        args.shards,
    );
    let mut kinds: BTreeMap<String, u64> = BTreeMap::new();
    let mut distinct = BTreeSet::new();
    let mut nontrivial = 0u64;
    let mut samples = vec![];
    let mut failures: Vec<String> = vec![];

    let names: Vec<String> = vec![
        "/node", "lane", "a", "_x", "a-b", "true", "false", "", "/unit/1", "two words", "quo\"te", "back\\slash", "tab\there", "new\nline", "名前", "/é/ü",
        "x,y", "p)q", "a:b", "@at", "\u{1}", "123", "/a b/\"c\"", "é",
    ]
    .into_iter()
    .map(String::from)
    .collect();
    let bodies: Vec<String> = vec!["", "1", "@a(1)", " x", "{a:1}", "\"q\"", "text", "@update(key:1) 2", "  @b", "\tz", "-5", "%AAEC"].into_iter().map(String::from).collect();

    for i in 0..args.cases {
        let kind = rng.usize_below(8);
        let node = rng.pick(&names).clone();
        let lane = rng.pick(&names).clone();
        let body = if matches!(kind, 3 | 6 | 7) { rng.pick(&bodies).clone() } else { String::new() };
        let r = catch(std::panic::AssertUnwindSafe(|| encode(kind, &node, &lane, &body)));
        let text = match r {
            Ok(t) => t,
            Err(m) => {
                failures.push(format!("encoding {} node {:?} lane {:?} body {:?} panicked: {}", KINDS[kind], node, lane, body, m));
                continue;
            }
        };
        let human = format!("encode {} node {:?} lane {:?} body {:?} -> {:?}", KINDS[kind], node, lane, body, text);
        *kinds.entry("encode".into()).or_default() += 1;
        if distinct.insert(human.clone()) && text.contains('\\') {
            nontrivial += 1;
            if samples.len() < 3 {
                samples.push(J::s(human.clone()));
            }
        }
        w.push(format!("CaseEncode {} {} {} {} {}", KINDS[kind], cps(&node), cps(&lane), cps(&body), cps(&text)), human);

        // oracle on the real code: what was written is read back as what was meant
        match catch(std::panic::AssertUnwindSafe(|| peel(&text))) {
            Ok(Some((k, n, l, b))) => {
                let want_body = body.trim_start_matches([' ', '\t']);
                if k != kind || n != node || l != lane || b != want_body {
                    failures.push(format!("{:?} (written for {} node {:?} lane {:?} body {:?}) is read as {} node {:?} lane {:?} body {:?}", text, KINDS[kind], node, lane, body, KINDS[k], n, l, b));
                }
            }
            Ok(None) => failures.push(format!("{:?} (written for {} node {:?} lane {:?}) is rejected by the reader", text, KINDS[kind], node, lane)),
            Err(m) => failures.push(format!("reading {:?} panicked: {}", text, m)),
        }

        // the reader on that text and on perturbations of it
        let mut inputs = vec![text.clone()];
        let mut t: Vec<char> = text.chars().collect();
        match i % 6 {
            0 => {
                // blanks and another separator
                let s: String = text.replacen(",lane:", " ; lane: ", 1).replacen("(node:", "( node :", 1);
                inputs.push(s);
            }
            1 => {
                // slots swapped
                if let (Some(a), Some(b)) = (text.find("node:"), text.find(",lane:")) {
                    if let Some(end) = text[b..].find(')') {
                        let node_part = &text[a..b];
                        let lane_part = &text[b + 1..b + end];
                        inputs.push(format!("{}{},{}{}", &text[..a], lane_part, node_part, &text[b + end..]));
                    }
                }
            }
            2 => {
                // a slot missing / an unknown slot / rate and prio
                inputs.push(text.replacen(",lane:", ",lan:", 1));
                inputs.push(text.replacen(")", ",rate:0.5,prio:1)", 1));
                inputs.push(text.replacen(")", ",other:1)", 1));
            }
            3 => {
                if !t.is_empty() {
                    let pos = rng.usize_below(t.len());
                    t[pos] = *rng.pick(&['"', '\\', '(', ')', ',', ':', '@', ' ']);
                    inputs.push(t.iter().collect());
                }
            }
            4 => {
                if !t.is_empty() {
                    let pos = rng.usize_below(t.len());
                    t.truncate(pos);
                    inputs.push(t.iter().collect());
                }
            }
            _ => {
                inputs.push(text.replacen("@", "@\"", 1).replacen("(", "\"(", 1));
            }
        }
        for inp in inputs {
            match catch(std::panic::AssertUnwindSafe(|| peel(&inp))) {
                Ok(res) => {
                    let term = format!(
                        "CasePeel {} {}",
                        cps(&inp),
                        match &res {
                            Some((k, n, l, b)) => format!("(Some ({}, {}, {}, {}))", KINDS[*k], cps(n), cps(l), cps(b)),
                            None => "None".into(),
                        }
                    );
                    *kinds.entry("peel".into()).or_default() += 1;
                    w.push(term, format!("peel {:?} -> {:?}", inp, res));
                }
                Err(m) => failures.push(format!("reading {:?} panicked: {}", inp, m)),
            }
        }
    }

    w.finish(&args.out, "cases").unwrap();
    failures.sort();
    failures.dedup();
    std::fs::write(std::path::Path::new(&args.out).join("failures.txt"), failures.join("\n")).unwrap();
    let meta = J::obj(vec![
        ("evaluations", J::I(w.len() as i128)),
        ("distinct_nontrivial", J::I(nontrivial as i128)),
        ("rule", J::s("envelopes of all 8 link-level kinds written by the real ReconEncoder for node and lane names from a pool (identifiers, names needing quotes or escapes, empty, separators and brackets inside, non-ASCII, `true`/`false`) and bodies (empty, bare values, attribute-led, with leading blanks), compared byte for byte with the model; the real peel_envelope_header_str on those texts and on perturbations (blanks and `;` separators, swapped slots, missing / unknown / rate / prio slots, damaged characters, truncation, quoted tag) compared with the model; direct oracle: what the encoder wrote is read back as the same kind, node, lane and body (up to leading blanks of the body); non-trivial = an escape was needed")),
        ("structures", J::counts(&kinds)),
        ("samples", J::A(samples)),
        ("direct_failures", J::A(failures.iter().take(40).map(|f| J::s(f.chars().take(500).collect::<String>())).collect())),
        ("direct_failure_count", J::I(failures.len() as i128)),
    ]);
    write_meta(&args.out, "meta.json", &meta);
}
