//! C11 (dispatch): the real socket task (swimos_remote RemoteTask: registration, incoming and outgoing tasks)
//! over an in-memory web socket.  The harness is the peer on the socket (writes and reads text frames), the
//! plane (answers FindNode with channels to "agents" it holds the other ends of), and the owner of the
//! downlinks it attaches.  After every operation it reads what has arrived at every downlink, every agent and
//! the socket.

use std::collections::{BTreeMap, HashMap};
use std::num::NonZeroUsize;
use std::sync::Arc;
use std::time::Duration;

use bytes::{Bytes, BytesMut};
use futures::{FutureExt, SinkExt, StreamExt};
use parking_lot::Mutex;
use ratchet::{NoExt, Role, WebSocket, WebSocketConfig};
use swimos_api::address::RelativeAddress;
use swimos_messages::protocol::{
    Notification, Operation, RawRequestMessageDecoder, RawRequestMessageEncoder, RawResponseMessageDecoder, RawResponseMessageEncoder,
    RequestMessage, ResponseMessage,
};
use swimos_messages::remote_protocol::{AgentResolutionError, AttachClient, FindNode, NoSuchAgent, NodeConnectionRequest};
use swimos_messages::warp::{peel_envelope_header_str, RawEnvelope};
use swimos_model::Text;
use swimos_remote::verif_hooks::ReconEncoder;
use swimos_remote::RemoteTask;
use swimos_utilities::byte_channel::{byte_channel, ByteReader, ByteWriter};
use swimos_utilities::encoding::BytesStr;
use swimos_utilities::trigger;
use tokio::io::duplex;
use tokio::sync::{mpsc, oneshot};
use tokio_util::codec::{Encoder, FramedRead, FramedWrite};
use uuid::Uuid;
use vcore::*;

const NODES: [&str; 4] = ["/a", "/b", "/c d", "/e"];
const LANES: [&str; 3] = ["x", "y", "z w"];
const BUF: usize = 1 << 16;

#[derive(Clone, Debug, PartialEq)]
struct Req {
    kind: u8, // 0 link 1 sync 2 unlink 3 command
    node: usize,
    lane: usize,
    body: Option<u64>,
}
#[derive(Clone, Debug, PartialEq)]
struct Resp {
    kind: u8, // 0 linked 1 synced 2 unlinked 3 event
    node: usize,
    lane: usize,
    body: Option<u64>,
}
fn on(b: &Option<u64>) -> String {
    match b {
        Some(x) => format!("(Some {})", x),
        None => "None".into(),
    }
}
impl Req {
    fn coq(&self) -> String {
        format!("{{| q_kind := {}; q_node := {}; q_lane := {}; q_body := {} |}}", ["QLink", "QSync", "QUnlink", "QCommand"][self.kind as usize], self.node, self.lane, on(&self.body))
    }
    fn op(&self) -> Operation<Bytes> {
        match self.kind {
            0 => Operation::Link,
            1 => Operation::Sync,
            2 => Operation::Unlink,
            _ => Operation::Command(Bytes::from(self.body.unwrap_or(0).to_string().into_bytes())),
        }
    }
}
impl Resp {
    fn coq(&self) -> String {
        format!("{{| p_kind := {}; p_node := {}; p_lane := {}; p_body := {} |}}", ["PLinked", "PSynced", "PUnlinked", "PEvent"][self.kind as usize], self.node, self.lane, on(&self.body))
    }
    fn note(&self) -> Notification<Bytes, Bytes> {
        let b = |x: u64| Bytes::from(x.to_string().into_bytes());
        match self.kind {
            0 => Notification::Linked,
            1 => Notification::Synced,
            2 => Notification::Unlinked(self.body.map(b)),
            _ => Notification::Event(b(self.body.unwrap_or(0))),
        }
    }
}

#[derive(Clone, Debug)]
enum Op {
    Attach(u64, usize, usize),
    Drop(u64),
    InReq(Req),
    InResp(Resp),
    InBad,
    AgentSend(usize, Resp),
    DlSend(u64, Req),
    /// a send-only client (AttachClient::OneWay)
    AttachSender(u64),
}
impl Op {
    fn coq(&self) -> String {
        match self {
            Op::Attach(d, n, l) => format!("OAttach {} {} {}", d, n, l),
            Op::Drop(d) => format!("ODrop {}", d),
            Op::InReq(q) => format!("OInReq {}", q.coq()),
            Op::InResp(p) => format!("OInResp {}", p.coq()),
            Op::InBad => "OInBad".into(),
            Op::AgentSend(n, p) => format!("OAgentSend {} {}", n, p.coq()),
            Op::DlSend(d, q) => format!("ODlSend {} {}", d, q.coq()),
            Op::AttachSender(d) => format!("OAttachSender {}", d),
        }
    }
}

fn node_ix(s: &str) -> Option<usize> {
    NODES.iter().position(|n| *n == s)
}
fn lane_ix(s: &str) -> Option<usize> {
    LANES.iter().position(|n| *n == s)
}
fn num(b: &[u8]) -> Option<Option<u64>> {
    let s = std::str::from_utf8(b).ok()?.trim();
    if s.is_empty() {
        Some(None)
    } else {
        s.parse().ok().map(Some)
    }
}

fn text_of_req(q: &Req) -> String {
    let mut enc = ReconEncoder;
    let mut dst = BytesMut::new();
    let path = RelativeAddress::new(BytesStr::from(NODES[q.node]), BytesStr::from(LANES[q.lane]));
    enc.encode(RequestMessage { origin: Uuid::from_u128(1), path, envelope: q.op() }, &mut dst).expect("encoding failed");
    String::from_utf8(dst.to_vec()).unwrap()
}
fn text_of_resp(p: &Resp) -> String {
    let mut enc = ReconEncoder;
    let mut dst = BytesMut::new();
    let path = RelativeAddress::new(BytesStr::from(NODES[p.node]), BytesStr::from(LANES[p.lane]));
    enc.encode(ResponseMessage { origin: Uuid::from_u128(1), path, envelope: p.note() }, &mut dst).expect("encoding failed");
    String::from_utf8(dst.to_vec()).unwrap()
}

/// A frame the task wrote to the socket, as a model term.
fn frame_term(text: &str) -> String {
    let bad = || format!("FBad (* {} *)", text.replace("*)", "* )"));
    match peel_envelope_header_str(text) {
        Ok(env) => {
            let mk_q = |k: u8, n: &str, l: &str, b: &str| match (node_ix(n), lane_ix(l), num(b.as_bytes())) {
                (Some(n), Some(l), Some(b)) => format!("FReq {}", Req { kind: k, node: n, lane: l, body: b }.coq()),
                _ => bad(),
            };
            let mk_p = |k: u8, n: &str, l: &str, b: &str| match (node_ix(n), lane_ix(l), num(b.as_bytes())) {
                (Some(n), Some(l), Some(b)) => format!("FResp {}", Resp { kind: k, node: n, lane: l, body: b }.coq()),
                _ => bad(),
            };
            match env {
                RawEnvelope::Link { node_uri, lane_uri, body, .. } => mk_q(0, &node_uri, &lane_uri, &body),
                RawEnvelope::Sync { node_uri, lane_uri, body, .. } => mk_q(1, &node_uri, &lane_uri, &body),
                RawEnvelope::Unlink { node_uri, lane_uri, body } => mk_q(2, &node_uri, &lane_uri, &body),
                RawEnvelope::Command { node_uri, lane_uri, body } => mk_q(3, &node_uri, &lane_uri, &body),
                RawEnvelope::Linked { node_uri, lane_uri, body, .. } => mk_p(0, &node_uri, &lane_uri, &body),
                RawEnvelope::Synced { node_uri, lane_uri, body } => mk_p(1, &node_uri, &lane_uri, &body),
                RawEnvelope::Unlinked { node_uri, lane_uri, body } => {
                    if body.trim() == "@nodeNotFound" || body.trim() == "@laneNotFound" {
                        match (node_ix(&node_uri), lane_ix(&lane_uri)) {
                            (Some(n), Some(l)) => format!("FNotFound {} {}", n, l),
                            _ => bad(),
                        }
                    } else {
                        mk_p(2, &node_uri, &lane_uri, &body)
                    }
                }
                RawEnvelope::Event { node_uri, lane_uri, body } => mk_p(3, &node_uri, &lane_uri, &body),
                _ => bad(),
            }
        }
        Err(_) => bad(),
    }
}

struct Downlink {
    rx: Option<FramedRead<ByteReader, RawResponseMessageDecoder>>,
    tx: Option<FramedWrite<ByteWriter, RawRequestMessageEncoder>>,
    node: usize,
    lane: usize,
}
struct AgentEnds {
    rx: FramedRead<ByteReader, RawRequestMessageDecoder>,
    tx: FramedWrite<ByteWriter, RawResponseMessageEncoder>,
}

async fn settle() {
    for _ in 0..80 {
        tokio::task::yield_now().await;
    }
}

async fn run(plane: &[usize], ops: &[Op]) -> Result<Vec<String>, String> {
    let task_id = Uuid::from_u128(4242);
    let (server, client) = duplex(BUF);
    let config = WebSocketConfig::default();
    let server = WebSocket::from_upgraded(config, server, Some(NoExt), BytesMut::new(), Role::Server);
    // the peer speaks the web socket framing by hand: it sends text messages whole or in fragments, with ping / pong
    // frames between the fragments (as any peer may), and reads the frames of the task
    let (mut raw_rx, mut raw_tx) = tokio::io::split(client);
    let (stop_tx, stop_rx) = trigger::trigger();
    let (attach_tx, attach_rx) = mpsc::channel(16);
    let (find_tx, mut find_rx) = mpsc::channel::<FindNode>(16);
    let task = RemoteTask::new(task_id, stop_rx, server, attach_rx, Some(find_tx), NonZeroUsize::new(16).unwrap(), Duration::from_secs(1));
    let handle = tokio::spawn(task.run());
    // the plane
    let agents: Arc<Mutex<BTreeMap<usize, AgentEnds>>> = Default::default();
    let plane_nodes: Vec<usize> = plane.to_vec();
    let agents2 = agents.clone();
    let problems: Arc<Mutex<Vec<String>>> = Default::default();
    let problems2 = problems.clone();
    tokio::spawn(async move {
        while let Some(FindNode { node, lane, request }) = find_rx.recv().await {
            match request {
                NodeConnectionRequest::Warp { source, promise } => {
                    if source != task_id {
                        problems2.lock().push(format!("FindNode with source {} instead of the socket's id", source));
                    }
                    match node_ix(node.as_str()).filter(|n| plane_nodes.contains(n)) {
                        Some(n) => {
                            let (to_agent_tx, to_agent_rx) = byte_channel(NonZeroUsize::new(BUF).unwrap());
                            let (from_agent_tx, from_agent_rx) = byte_channel(NonZeroUsize::new(BUF).unwrap());
                            if agents2.lock().insert(n, AgentEnds { rx: FramedRead::new(to_agent_rx, Default::default()), tx: FramedWrite::new(from_agent_tx, Default::default()) }).is_some() {
                                problems2.lock().push(format!("a second route was opened to node {}", n));
                            }
                            let _ = promise.send(Ok((to_agent_tx, from_agent_rx)));
                        }
                        None => {
                            let _ = promise.send(Err(AgentResolutionError::NotFound(NoSuchAgent { node, lane })));
                        }
                    }
                }
                NodeConnectionRequest::Http { .. } => problems2.lock().push("an HTTP connection was requested".into()),
            }
        }
    });
    // the peer
    let written: Arc<Mutex<Vec<String>>> = Default::default();
    let written2 = written.clone();
    tokio::spawn(async move {
        use tokio::io::AsyncReadExt;
        let mut buf: Vec<u8> = vec![];
        let mut message: Vec<u8> = vec![];
        let mut chunk = [0u8; 4096];
        'outer: loop {
            // frames of a server are not masked: byte 0 fin + opcode, byte 1 length (126: 16 bits, 127: 64 bits follow)
            loop {
                if buf.len() < 2 {
                    break;
                }
                let (fin, opcode) = (buf[0] & 0x80 != 0, buf[0] & 0x0f);
                let (len, head) = match buf[1] & 0x7f {
                    126 if buf.len() >= 4 => (u16::from_be_bytes([buf[2], buf[3]]) as usize, 4),
                    127 if buf.len() >= 10 => (u64::from_be_bytes(buf[2..10].try_into().unwrap()) as usize, 10),
                    126 | 127 => break,
                    n => (n as usize, 2),
                };
                if buf.len() < head + len {
                    break;
                }
                let payload: Vec<u8> = buf[head..head + len].to_vec();
                buf.drain(..head + len);
                match opcode {
                    0x0 | 0x1 => {
                        message.extend_from_slice(&payload);
                        if fin {
                            written2.lock().push(String::from_utf8_lossy(&message).to_string());
                            message.clear();
                        }
                    }
                    0x8 => break 'outer,
                    _ => {} // pings, pongs, binary
                }
            }
            match raw_rx.read(&mut chunk).await {
                Ok(0) | Err(_) => break,
                Ok(n) => buf.extend_from_slice(&chunk[..n]),
            }
        }
    });
    // one masked frame of a client
    fn client_frame(fin: bool, opcode: u8, payload: &[u8]) -> Vec<u8> {
        let mask = [0x1f, 0x2e, 0x3d, 0x4c];
        let mut frame = vec![if fin { 0x80 | opcode } else { opcode }];
        if payload.len() < 126 {
            frame.push(0x80 | payload.len() as u8);
        } else {
            frame.push(0x80 | 126);
            frame.extend_from_slice(&(payload.len() as u16).to_be_bytes());
        }
        frame.extend_from_slice(&mask);
        frame.extend(payload.iter().enumerate().map(|(i, b)| b ^ mask[i % 4]));
        frame
    }
    // a text message, whole or cut into fragments (at character boundaries) with control frames in between
    let mut sent_texts = 0usize;
    let mut text_frames = |text: &str| -> Vec<u8> {
        sent_texts += 1;
        let bytes = text.as_bytes();
        let cut = |at: usize| {
            let mut p = at.min(bytes.len());
            while !text.is_char_boundary(p) {
                p -= 1;
            }
            p
        };
        let mut out = vec![];
        match sent_texts % 5 {
            1 if bytes.len() >= 2 => {
                let p = cut(bytes.len() / 2);
                out.extend(client_frame(false, 0x1, &bytes[..p]));
                out.extend(client_frame(true, 0x0, &bytes[p..]));
            }
            2 if bytes.len() >= 2 => {
                let p = cut(bytes.len() / 3 + 1);
                out.extend(client_frame(false, 0x1, &bytes[..p]));
                out.extend(client_frame(true, 0x9, b"ping!"));
                out.extend(client_frame(true, 0x0, &bytes[p..]));
            }
            3 if bytes.len() >= 3 => {
                let (p, q) = (cut(bytes.len() / 3), cut(2 * bytes.len() / 3));
                out.extend(client_frame(false, 0x1, &bytes[..p]));
                out.extend(client_frame(true, 0xA, b""));
                out.extend(client_frame(false, 0x0, &bytes[p..q]));
                out.extend(client_frame(true, 0x9, b"x"));
                out.extend(client_frame(true, 0x0, &bytes[q..]));
            }
            4 => {
                out.extend(client_frame(true, 0x9, b"between"));
                out.extend(client_frame(true, 0x1, bytes));
            }
            _ => out.extend(client_frame(true, 0x1, bytes)),
        }
        out
    };
    let mut dls: BTreeMap<u64, Downlink> = BTreeMap::new();
    let mut outs = vec![];
    let mut stopped = false;
    for op in ops {
        if !stopped {
            match op {
                Op::Attach(d, n, l) => {
                    let (resp_tx, resp_rx) = byte_channel(NonZeroUsize::new(BUF).unwrap());
                    let (req_tx, req_rx) = byte_channel(NonZeroUsize::new(BUF).unwrap());
                    let (done_tx, done_rx) = oneshot::channel();
                    let path = RelativeAddress::new(Text::new(NODES[*n]), Text::new(LANES[*l]));
                    attach_tx
                        .send(AttachClient::AttachDownlink { downlink_id: Uuid::from_u128(*d as u128), path, sender: resp_tx, receiver: req_rx, done: done_tx })
                        .await
                        .map_err(|_| "the socket task stopped taking attachments".to_string())?;
                    match tokio::time::timeout(Duration::from_secs(5), done_rx).await {
                        Ok(Ok(Ok(()))) => {}
                        other => return Err(format!("attaching downlink {} failed: {:?}", d, other.map(|r| r.map(|x| x.is_ok())))),
                    }
                    dls.insert(*d, Downlink { rx: Some(FramedRead::new(resp_rx, Default::default())), tx: Some(FramedWrite::new(req_tx, Default::default())), node: *n, lane: *l });
                }
                Op::AttachSender(d) => {
                    let (req_tx, req_rx) = byte_channel(NonZeroUsize::new(BUF).unwrap());
                    let (done_tx, done_rx) = oneshot::channel();
                    attach_tx
                        .send(AttachClient::OneWay { agent_id: Uuid::from_u128(*d as u128), path: None, receiver: req_rx, done: done_tx })
                        .await
                        .map_err(|_| "the socket task stopped taking attachments".to_string())?;
                    match tokio::time::timeout(Duration::from_secs(5), done_rx).await {
                        Ok(Ok(Ok(()))) => {}
                        other => return Err(format!("attaching the send-only client {} failed: {:?}", d, other.map(|r| r.map(|x| x.is_ok())))),
                    }
                    dls.insert(*d, Downlink { rx: None, tx: Some(FramedWrite::new(req_tx, Default::default())), node: 0, lane: 0 });
                }
                Op::Drop(d) => {
                    if let Some(k) = dls.get_mut(d) {
                        k.rx = None;
                        k.tx = None;
                    }
                }
                Op::InReq(q) => {
                    use tokio::io::AsyncWriteExt;
                    let frames = text_frames(&text_of_req(q));
                    raw_tx.write_all(&frames).await.map_err(|e| format!("socket write failed: {:?}", e))?
                }
                Op::InResp(p) => {
                    use tokio::io::AsyncWriteExt;
                    let frames = text_frames(&text_of_resp(p));
                    raw_tx.write_all(&frames).await.map_err(|e| format!("socket write failed: {:?}", e))?
                }
                Op::InBad => {
                    use tokio::io::AsyncWriteExt;
                    raw_tx.write_all(&client_frame(true, 0x1, b"@event(node:\"/a\"")).await.map_err(|e| format!("socket write failed: {:?}", e))?;
                    stopped = true;
                }
                Op::AgentSend(n, p) => {
                    let taken = agents.lock().remove(n);
                    if let Some(mut a) = taken {
                        let path = RelativeAddress::new(NODES[p.node], LANES[p.lane]);
                        let msg: ResponseMessage<&str, Bytes, Bytes> = ResponseMessage { origin: Uuid::from_u128(77), path, envelope: p.note() };
                        let r = a.tx.send(msg).await;
                        agents.lock().insert(*n, a);
                        r.map_err(|e| format!("agent send failed: {:?}", e))?;
                    }
                }
                Op::DlSend(d, q) => {
                    if let Some(Downlink { tx: Some(tx), .. }) = dls.get_mut(d) {
                        let path = RelativeAddress::new(NODES[q.node], LANES[q.lane]);
                        let msg: RequestMessage<&str, Bytes> = RequestMessage { origin: Uuid::from_u128(*d as u128), path, envelope: q.op() };
                        tx.send(msg).await.map_err(|e| format!("downlink send failed: {:?}", e))?;
                    }
                }
            }
        }
        // what has arrived where: downlinks by number, agents by node, the socket; the tasks are given time until
        // two rounds in a row bring nothing new
        let mut got_dl: Vec<String> = vec![];
        let mut got_agent: Vec<String> = vec![];
        let mut got_sock: Vec<String> = vec![];
        let mut quiet = 0;
        while quiet < 2 {
        settle().await;
        let before = got_dl.len() + got_agent.len() + got_sock.len();
        for (d, k) in dls.iter_mut() {
            if let Some(rx) = k.rx.as_mut() {
                while let Some(Some(r)) = rx.next().now_or_never() {
                    let ResponseMessage { origin, path, envelope } = r.map_err(|e| format!("downlink {} got an undecodable message: {:?}", d, e))?;
                    if origin != task_id {
                        problems.lock().push(format!("a response reached downlink {} with origin {}", d, origin));
                    }
                    let (kind, body) = match envelope {
                        Notification::Linked => (0, Some(None)),
                        Notification::Synced => (1, Some(None)),
                        Notification::Unlinked(None) => (2, Some(None)),
                        Notification::Unlinked(Some(b)) => (2, num(b.as_ref())),
                        Notification::Event(b) => (3, num(b.as_ref())),
                    };
                    match (node_ix(path.node.as_str()), lane_ix(path.lane.as_str()), body) {
                        (Some(n), Some(l), Some(b)) => got_dl.push(format!("DResp {} {}", d, Resp { kind, node: n, lane: l, body: b }.coq())),
                        _ => return Err(format!("downlink {} got a message with unknown names or body: {:?}", d, path)),
                    }
                    let _ = (k.node, k.lane);
                }
            }
        }
        {
            let mut guard = agents.lock();
            for (n, a) in guard.iter_mut() {
                while let Some(Some(r)) = a.rx.next().now_or_never() {
                    let RequestMessage { origin, path, envelope } = r.map_err(|e| format!("agent {} got an undecodable message: {:?}", n, e))?;
                    if origin != task_id {
                        problems.lock().push(format!("a request reached agent {} with origin {}", n, origin));
                    }
                    let (kind, body) = match envelope {
                        Operation::Link => (0, Some(None)),
                        Operation::Sync => (1, Some(None)),
                        Operation::Unlink => (2, Some(None)),
                        Operation::Command(b) => (3, num(b.as_ref())),
                    };
                    match (node_ix(path.node.as_str()), lane_ix(path.lane.as_str()), body) {
                        (Some(pn), Some(l), Some(b)) => got_agent.push(format!("DReq {} {}", n, Req { kind, node: pn, lane: l, body: b }.coq())),
                        _ => return Err(format!("agent {} got a message with unknown names or body: {:?}", n, path)),
                    }
                }
            }
        }
        for t in written.lock().drain(..) {
            got_sock.push(format!("DFrame ({})", frame_term(&t)));
        }
        if got_dl.len() + got_agent.len() + got_sock.len() == before {
            quiet += 1;
        } else {
            quiet = 0;
        }
        }
        // downlinks by number (the rounds may have interleaved them), then agents, then the socket
        let mut got: Vec<String> = vec![];
        let mut keyed: Vec<(u64, usize, String)> = got_dl.into_iter().enumerate().map(|(i, s)| (s.split(' ').nth(1).and_then(|x| x.parse().ok()).unwrap_or(0), i, s)).collect();
        keyed.sort();
        got.extend(keyed.into_iter().map(|(_, _, s)| s));
        let mut keyed: Vec<(u64, usize, String)> = got_agent.into_iter().enumerate().map(|(i, s)| (s.split(' ').nth(1).and_then(|x| x.parse().ok()).unwrap_or(0), i, s)).collect();
        keyed.sort();
        got.extend(keyed.into_iter().map(|(_, _, s)| s));
        got.extend(got_sock);
        outs.push(coq_list(got.into_iter()));
    }
    stop_tx.trigger();
    drop(attach_tx);
    let _ = tokio::time::timeout(Duration::from_secs(5), handle).await;
    if let Some(p) = problems.lock().first() {
        return Err(p.clone());
    }
    Ok(outs)
}

fn main() {
    let args = parse_args();
    silence_panics();
    let mut rng = Rng::new(args.seed ^ 0xc115);
    let mut w = CaseWriter::new(
        "From SwimV Require Import Model.SocketDispatch.\nOpen Scope N_scope.",
        "sdcase",
        &["sd_corr_bad", "sd_oracle_bad"],
        args.shards,
    );
    let rt = tokio::runtime::Builder::new_current_thread().enable_all().build().unwrap();
    let mut kinds: BTreeMap<String, u64> = BTreeMap::new();
    let mut failures: Vec<String> = vec![];
    let mut nontrivial = 0u64;
    let mut samples = vec![];
    let mut next_body = 1u64;

    let mut emit = |plane: Vec<usize>, ops: Vec<Op>, w: &mut CaseWriter, failures: &mut Vec<String>| {
        let (p2, o2) = (plane.clone(), ops.clone());
        let outs = match catch(std::panic::AssertUnwindSafe(|| rt.block_on(run(&p2, &o2)))) {
            Ok(Ok(o)) => o,
            Ok(Err(e)) => {
                failures.push(format!("{} (plane {:?} ops {:?})", e, plane, ops));
                return;
            }
            Err(m) => {
                failures.push(format!("panicked: {} (plane {:?} ops {:?})", m, plane, ops));
                return;
            }
        };
        for o in &ops {
            let k = match o {
                Op::Attach(..) => "attach",
                Op::Drop(_) => "drop",
                Op::InReq(_) => "request_in",
                Op::InResp(_) => "response_in",
                Op::InBad => "bad_frame_in",
                Op::AgentSend(..) => "agent_send",
                Op::DlSend(..) => "downlink_send",
                Op::AttachSender(_) => "attach_send_only_client",
            };
            *kinds.entry(k.into()).or_default() += 1;
        }
        // non-trivial: a response arrived for a lane all of whose downlinks had gone while the node had another live lane
        let human = format!("plane {:?} ops {:?} -> {:?}", plane, ops, outs);
        let mut gone: Vec<u64> = vec![];
        let mut addr: HashMap<u64, (usize, usize)> = HashMap::new();
        let mut nt = false;
        for o in &ops {
            match o {
                Op::Attach(d, n, l) => {
                    addr.insert(*d, (*n, *l));
                }
                Op::Drop(d) => gone.push(*d),
                Op::InResp(p) => {
                    let here: Vec<&u64> = addr.iter().filter(|(_, a)| **a == (p.node, p.lane)).map(|(d, _)| d).collect();
                    let sibling = addr.iter().any(|(d, a)| a.0 == p.node && a.1 != p.lane && !gone.contains(d));
                    if !here.is_empty() && here.iter().all(|d| gone.contains(d)) && sibling {
                        nt = true;
                    }
                }
                _ => {}
            }
        }
        if nt {
            nontrivial += 1;
            if samples.len() < 3 {
                samples.push(J::s(human.chars().take(700).collect::<String>()));
            }
        }
        w.push(format!("({}, {}, {})", coq_list(plane.iter().map(|n| n.to_string())), coq_list(ops.iter().map(|o| o.coq())), coq_list(outs.into_iter())), human);
    };

    let ev = |n: usize, l: usize, b: u64| Op::InResp(Resp { kind: 3, node: n, lane: l, body: Some(b) });
    // corpus: a send-only client's commands leave the socket, in order, next to a downlink's
    emit(
        vec![0],
        vec![
            Op::AttachSender(1),
            Op::DlSend(1, Req { kind: 3, node: 1, lane: 0, body: Some(921) }),
            Op::Attach(2, 1, 0),
            Op::DlSend(1, Req { kind: 3, node: 2, lane: 1, body: Some(922) }),
            Op::DlSend(2, Req { kind: 0, node: 1, lane: 0, body: None }),
            ev(1, 0, 923),
            Op::Drop(1),
            Op::DlSend(1, Req { kind: 3, node: 1, lane: 0, body: Some(924) }),
        ],
        &mut w,
        &mut failures,
    );
    // corpus: two lanes of one node; the only downlink of one goes away; an envelope for it; then one for the other
    emit(vec![0], vec![Op::Attach(1, 1, 0), Op::Attach(2, 1, 1), Op::Drop(1), ev(1, 0, 901), ev(1, 1, 902), ev(1, 0, 903)], &mut w, &mut failures);
    emit(vec![0], vec![Op::Attach(1, 1, 0), Op::Attach(2, 1, 0), Op::Attach(3, 2, 0), Op::Drop(1), ev(1, 0, 904), ev(2, 0, 905), Op::Drop(2), ev(1, 0, 906), ev(1, 0, 907), Op::Attach(4, 1, 0), ev(1, 0, 908)], &mut w, &mut failures);
    emit(
        vec![0, 2],
        vec![
            Op::InReq(Req { kind: 0, node: 0, lane: 0, body: None }),
            Op::InReq(Req { kind: 3, node: 0, lane: 1, body: Some(909) }),
            Op::InReq(Req { kind: 1, node: 1, lane: 0, body: None }),
            Op::InReq(Req { kind: 3, node: 1, lane: 0, body: Some(910) }),
            Op::AgentSend(0, Resp { kind: 0, node: 0, lane: 0, body: None }),
            Op::AgentSend(0, Resp { kind: 2, node: 0, lane: 0, body: Some(911) }),
            Op::InResp(Resp { kind: 2, node: 0, lane: 0, body: Some(912) }),
            Op::InBad,
        ],
        &mut w,
        &mut failures,
    );
    emit(vec![], vec![Op::Attach(1, 0, 0), Op::InResp(Resp { kind: 2, node: 0, lane: 0, body: Some(913) }), Op::InResp(Resp { kind: 2, node: 0, lane: 0, body: None })], &mut w, &mut failures);

    for _ in 0..args.cases {
        let plane: Vec<usize> = (0..NODES.len()).filter(|_| rng.below(2) == 0).collect();
        let n = rng.range(4, 24);
        let mut ops = vec![];
        let mut next_dl = 1u64;
        // a case concentrates on one or two nodes so that lanes of one node meet
        let focus: Vec<usize> = (0..rng.range(1, 2)).map(|_| rng.usize_below(NODES.len())).collect();
        for _ in 0..n {
            let node = if rng.below(4) == 0 { rng.usize_below(NODES.len()) } else { *rng.pick(&focus) };
            let lane = rng.usize_below(LANES.len());
            next_body += 1;
            let b = next_body;
            ops.push(match rng.below(20) {
                0..=4 if next_dl <= 6 => {
                    next_dl += 1;
                    Op::Attach(next_dl - 1, node, lane)
                }
                5 if next_dl <= 6 && rng.below(2) == 0 => {
                    next_dl += 1;
                    Op::AttachSender(next_dl - 1)
                }
                5..=6 if next_dl > 1 => Op::Drop(rng.range(1, next_dl - 1)),
                7..=12 => {
                    let kind = *rng.pick(&[0u8, 1, 2, 2, 3, 3, 3]);
                    Op::InResp(Resp { kind, node, lane, body: if kind == 3 || (kind == 2 && rng.below(2) == 0) { Some(b) } else { None } })
                }
                13..=15 => {
                    let kind = *rng.pick(&[0u8, 1, 2, 3, 3]);
                    Op::InReq(Req { kind, node, lane, body: if kind == 3 { Some(b) } else { None } })
                }
                16..=17 => {
                    let kind = *rng.pick(&[0u8, 1, 2, 3, 3]);
                    Op::AgentSend(node, Resp { kind, node, lane, body: if kind == 3 || (kind == 2 && rng.below(2) == 0) { Some(b) } else { None } })
                }
                _ if next_dl > 1 => {
                    let kind = *rng.pick(&[0u8, 1, 2, 3, 3]);
                    Op::DlSend(rng.range(1, next_dl - 1), Req { kind, node, lane, body: if kind == 3 { Some(b) } else { None } })
                }
                _ => Op::InResp(Resp { kind: 3, node, lane, body: Some(b) }),
            });
        }
        if rng.below(8) == 0 {
            ops.push(Op::InBad);
        }
        emit(plane, ops, &mut w, &mut failures);
    }

    w.finish(&args.out, "cases").unwrap();
    failures.sort();
    failures.dedup();
    let meta = J::obj(vec![
        ("evaluations", J::I(w.len() as i128)),
        ("distinct_nontrivial", J::I(nontrivial as i128)),
        ("rule", J::s("the real RemoteTask over an in-memory web socket (ratchet over a tokio duplex): up to 6 downlinks (AttachClient::AttachDownlink) and send-only clients (AttachClient::OneWay) attached, the downlinks to addresses drawn from 4 nodes x 3 lanes (names with spaces included), concentrated on one or two nodes; their readers dropped at generated moments; request and response envelopes of every kind written to the socket as text by the real ReconEncoder, by a peer that frames by hand: whole, in two or three fragments, with ping / pong frames between the fragments or before the message; the harness answers FindNode for the nodes of the case's plane with channels it keeps the far ends of and sends responses through them; downlinks send requests; optionally an invalid frame last; after every operation everything that arrived at each downlink, each agent and the socket is read and compared with Model/SocketDispatch.v (lock step) and with the registration-list specification (oracle); non-trivial = a response arrived for an address all of whose downlinks had gone while another lane of the same node had a live downlink")),
        ("structures", J::counts(&kinds)),
        ("samples", J::A(samples)),
        ("direct_failures", J::A(failures.iter().take(40).map(|f| J::s(f.chars().take(600).collect::<String>())).collect())),
        ("direct_failure_count", J::I(failures.len() as i128)),
    ]);
    write_meta(&args.out, "meta.json", &meta);
}
