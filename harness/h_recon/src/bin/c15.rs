//! C15: compare_recon_values / recon_hash on Recon text against comparing the parsed values.
//! (exploration harness: oracle on the real code; the model evaluation is attached separately)

use std::collections::hash_map::DefaultHasher;
use std::collections::{BTreeMap, BTreeSet};
use std::hash::Hasher;

use num_bigint::{BigInt, BigUint};
use swimos_model::{Attr, Blob, Item, Text, Value};
use swimos_recon::parser::{parse_recognize, Span};
use swimos_recon::{compare_recon_values, print_recon, print_recon_compact, print_recon_pretty, recon_hash};
use swimos_form::read::{ReadError, ReadEvent, Recognizer, RecognizerReadable};
use vcore::*;

#[path = "../frozen_comparator.rs"]
mod frozen_comparator;

// ---- the parse events of a text (used only to classify a failure into the known class) ----
pub struct Log(pub Vec<ReadEvent<'static>>);
pub struct LogRec(Vec<ReadEvent<'static>>);
impl Recognizer for LogRec {
    type Target = Log;
    fn feed_event(&mut self, input: ReadEvent<'_>) -> Option<Result<Log, ReadError>> {
        self.0.push(match input {
            ReadEvent::TextValue(t) => ReadEvent::TextValue(std::borrow::Cow::Owned(t.into_owned())),
            ReadEvent::StartAttribute(t) => ReadEvent::StartAttribute(std::borrow::Cow::Owned(t.into_owned())),
            ReadEvent::Extant => ReadEvent::Extant,
            ReadEvent::Number(n) => ReadEvent::Number(n),
            ReadEvent::Boolean(b) => ReadEvent::Boolean(b),
            ReadEvent::Blob(b) => ReadEvent::Blob(b),
            ReadEvent::EndAttribute => ReadEvent::EndAttribute,
            ReadEvent::StartBody => ReadEvent::StartBody,
            ReadEvent::Slot => ReadEvent::Slot,
            ReadEvent::EndRecord => ReadEvent::EndRecord,
        });
        None
    }
    fn try_flush(&mut self) -> Option<Result<Log, ReadError>> {
        Some(Ok(Log(std::mem::take(&mut self.0))))
    }
    fn reset(&mut self) {
        self.0.clear()
    }
}
impl RecognizerReadable for Log {
    type Rec = LogRec;
    type AttrRec = LogRec;
    type BodyRec = LogRec;
    fn make_recognizer() -> LogRec {
        LogRec(vec![])
    }
    fn make_attr_recognizer() -> LogRec {
        LogRec(vec![])
    }
    fn make_body_recognizer() -> LogRec {
        LogRec(vec![])
    }
}

/// All the parse events of a text.
fn all_events(s: &str) -> Option<Vec<ReadEvent<'static>>> {
    parse_recognize::<Log>(Span::new(s), false).ok().map(|l| l.0)
}

/// The events of a text with every StartBody / EndRecord removed.
fn events_without_braces(s: &str) -> Option<Vec<ReadEvent<'static>>> {
    parse_recognize::<Log>(Span::new(s), false)
        .ok()
        .map(|l| l.0.into_iter().filter(|e| *e != ReadEvent::StartBody && *e != ReadEvent::EndRecord).collect())
}

// ---- a small value language spelled by hand, so that every legal way of writing it is reachable ----
#[derive(Clone, Debug)]
enum Sv {
    Int(i64),
    Num(String),
    Str(String),
    /// a blob (base64 text after %) or a boolean: one spelling each
    Lit(String),
    Rec(Vec<(String, Option<Sv>)>, Vec<Si>),
}
#[derive(Clone, Debug)]
enum Si {
    V(Sv),
    S(Sv, Sv),
}

fn gen_sv(rng: &mut Rng, depth: u32) -> Sv {
    let top = if depth == 0 { 2 } else { 4 };
    match rng.below(top) {
        0 if rng.below(5) == 0 => Sv::Lit(rng.pick(&["%AAAA", "%AQID", "%", "%AA==", "true", "false"]).to_string()),
        0 => Sv::Int(*rng.pick(&[0, 1, 2, 3, -1, 10])),
        1 if rng.below(4) == 0 => Sv::Num(rng.pick(&["0.0", "-0.0", "-0", "1.5", "1e1", "10.0", "0x10", "16"]).to_string()),
        1 => Sv::Str(rng.pick(&["a", "b", "x)y", "p,q", "u;v", "m:n", "{", "}", "(", "two words", "q\"r", "@z", "l\nm", ""]).to_string()),
        _ => {
            let nattrs = *rng.pick(&[0usize, 0, 1, 1, 2]);
            let nitems = *rng.pick(&[0usize, 1, 2, 2, 3]);
            let attrs = (0..nattrs)
                .map(|_| {
                    let body = if rng.below(4) == 0 { None } else { Some(gen_sv(rng, depth - 1)) };
                    (rng.pick(&["a", "b", "tag"]).to_string(), body)
                })
                .collect();
            let items = (0..nitems)
                .map(|_| if rng.below(3) == 0 { Si::S(gen_sv(rng, 0), gen_sv(rng, depth - 1)) } else { Si::V(gen_sv(rng, depth - 1)) })
                .collect();
            Sv::Rec(attrs, items)
        }
    }
}

fn spell_str(rng: &mut Rng, t: &str) -> String {
    if swimos_model::identifier::is_identifier(t) && rng.below(2) == 0 {
        return t.to_string();
    }
    let mut s = String::from("\"");
    for c in t.chars() {
        match c {
            '"' | '\\' => {
                s.push('\\');
                s.push(c);
            }
            '\n' => s.push_str("\\n"),
            _ => s.push(c),
        }
    }
    s.push('"');
    s
}

fn sep(rng: &mut Rng) -> &'static str {
    *rng.pick(&[",", ",", ", ", ";", "; ", "\n", " \n ", ",\n", "\n\n"])
}

fn spell_items(rng: &mut Rng, items: &[Si]) -> String {
    let mut out = String::new();
    for (i, it) in items.iter().enumerate() {
        if i > 0 {
            out.push_str(sep(rng));
        }
        match it {
            Si::V(v) => out.push_str(&spell_sv(rng, v)),
            Si::S(k, v) => {
                out.push_str(&spell_sv(rng, k));
                out.push_str(*rng.pick(&[":", ": ", " : "]));
                out.push_str(&spell_sv(rng, v));
            }
        }
    }
    out
}

fn spell_sv(rng: &mut Rng, v: &Sv) -> String {
    match v {
        Sv::Int(n) => n.to_string(),
        Sv::Num(t) => match (t.as_str(), rng.below(3)) {
            ("0.0", 0) => "-0.0".to_string(),
            ("-0.0", 0) => "0e0".to_string(),
            ("-0", 0) => "0".to_string(),
            ("16", 0) => "0x10".to_string(),
            ("10.0", 0) => "1e1".to_string(),
            _ => t.clone(),
        },
        Sv::Str(t) => spell_str(rng, t),
        Sv::Lit(t) => t.clone(),
        Sv::Rec(attrs, items) => {
            let mut out = String::new();
            for (name, body) in attrs {
                out.push('@');
                out.push_str(name);
                match body {
                    None => {
                        if rng.below(3) == 0 {
                            out.push_str("()");
                        }
                    }
                    Some(b) => {
                        out.push('(');
                        if rng.below(3) == 0 {
                            out.push_str(*rng.pick(&[" ", "\n"]));
                        }
                        match b {
                            // a record without attributes may be written without its braces
                            Sv::Rec(a, its) if a.is_empty() && !its.is_empty() && rng.below(3) != 0 => out.push_str(&spell_items(rng, its)),
                            _ => out.push_str(&spell_sv(rng, b)),
                        }
                        if rng.below(3) == 0 {
                            out.push_str(*rng.pick(&[" ", "\n"]));
                        }
                        out.push(')');
                    }
                }
                if rng.below(3) == 0 {
                    out.push(' ');
                }
            }
            if attrs.is_empty() || !items.is_empty() {
                out.push('{');
                if rng.below(4) == 0 {
                    out.push_str(*rng.pick(&[" ", "\n"]));
                }
                out.push_str(&spell_items(rng, items));
                if rng.below(4) == 0 {
                    out.push_str(*rng.pick(&[" ", "\n"]));
                }
                out.push('}');
            }
            out
        }
    }
}

/// Another value made of the same leaves in the same order with the braces placed differently.
fn regroup(rng: &mut Rng, v: &Sv) -> Sv {
    match v {
        Sv::Rec(attrs, items) if items.len() >= 2 && rng.below(2) == 0 => {
            let k = 1 + rng.usize_below(items.len() - 1);
            let (l, r) = items.split_at(k);
            let mut out = vec![];
            match rng.below(3) {
                0 => {
                    out.push(Si::V(Sv::Rec(vec![], l.to_vec())));
                    out.extend(r.iter().cloned());
                }
                1 => {
                    out.extend(l.iter().cloned());
                    out.push(Si::V(Sv::Rec(vec![], r.to_vec())));
                }
                _ => out.push(Si::V(Sv::Rec(vec![], items.clone()))),
            }
            Sv::Rec(attrs.clone(), out)
        }
        Sv::Rec(attrs, items) if items.len() == 1 && rng.below(2) == 0 => match &items[0] {
            // {{x, y}} -> {x, {y}} and the like
            Si::V(Sv::Rec(a, inner)) if a.is_empty() && inner.len() >= 2 => {
                let k = 1 + rng.usize_below(inner.len() - 1);
                let (l, r) = inner.split_at(k);
                let mut out: Vec<Si> = l.to_vec();
                out.push(Si::V(Sv::Rec(vec![], r.to_vec())));
                Sv::Rec(attrs.clone(), out)
            }
            _ => v.clone(),
        },
        Sv::Rec(attrs, items) => {
            // go into an attribute body or an item
            let mut attrs = attrs.clone();
            let mut items = items.clone();
            if !attrs.is_empty() && rng.below(2) == 0 {
                let i = rng.usize_below(attrs.len());
                if let Some(b) = &attrs[i].1 {
                    attrs[i].1 = Some(regroup(rng, b));
                }
            } else if !items.is_empty() {
                let i = rng.usize_below(items.len());
                items[i] = match &items[i] {
                    Si::V(x) => Si::V(regroup(rng, x)),
                    Si::S(k, x) => Si::S(k.clone(), regroup(rng, x)),
                };
            }
            Sv::Rec(attrs, items)
        }
        ow => ow.clone(),
    }
}

fn gen_text(rng: &mut Rng) -> String {
    match rng.below(6) {
        0 => "true".into(),
        1 => "".into(),
        2 => rng.pick(&["a", "b", "name", "_x", "a-b"]).to_string(),
        _ => {
            let n = rng.range(0, 4);
            (0..n).map(|_| *rng.pick(&['a', 'b', ' ', '"', '\\', '\n', 'é', '1', '{', ':'])).collect()
        }
    }
}

fn gen_value(rng: &mut Rng, depth: u32) -> Value {
    let top = if depth == 0 { 9 } else { 12 };
    match rng.below(top) {
        0 => Value::Extant,
        1 => Value::Int32Value(*rng.pick(&[0, 1, -1, 2, 10, 16, 100, i32::MAX, i32::MIN])),
        2 => Value::Int64Value(*rng.pick(&[0, 1, -1, 16, i64::MAX, i64::MIN, 1 << 40])),
        3 => Value::UInt64Value(*rng.pick(&[0, 1, 16, u64::MAX, 1 << 63])),
        4 => Value::Float64Value(*rng.pick(&[0.0, -0.0, 1.0, -1.5, 100.0, 0.5, 1e10, 16.0, -16.0])),
        5 => Value::BooleanValue(rng.below(2) == 0),
        6 => Value::BigInt(BigInt::from(*rng.pick(&[0i64, -1, 16, i64::MIN])) * BigInt::from(*rng.pick(&[1i64, 1 << 40]))),
        7 => Value::Text(Text::new(&gen_text(rng))),
        8 => Value::Data(Blob::from_vec((0..*rng.pick(&[0usize, 1, 3])).map(|_| rng.below(256) as u8).collect())),
        _ => {
            let nattrs = *rng.pick(&[0usize, 0, 1, 1, 2]);
            let nitems = *rng.pick(&[0usize, 1, 1, 2, 3]);
            let attrs = (0..nattrs).map(|_| Attr::of((Text::new(*rng.pick(&["a", "b", "tag"])), gen_value(rng, depth - 1)))).collect();
            let items = (0..nitems)
                .map(|_| {
                    if rng.below(2) == 0 {
                        Item::ValueItem(gen_value(rng, depth - 1))
                    } else {
                        Item::Slot(gen_value(rng, depth - 1), gen_value(rng, depth - 1))
                    }
                })
                .collect();
            Value::Record(attrs, items)
        }
    }
}

/// Change one thing in a value.
fn mutate(rng: &mut Rng, v: &Value) -> Value {
    match v {
        Value::Record(attrs, items) if rng.below(3) != 0 => {
            let mut attrs = attrs.clone();
            let mut items = items.clone();
            match rng.below(6) {
                0 if !items.is_empty() => {
                    let i = rng.usize_below(items.len());
                    items.remove(i);
                }
                1 => items.push(Item::ValueItem(gen_value(rng, 0))),
                2 if !attrs.is_empty() => {
                    let i = rng.usize_below(attrs.len());
                    attrs[i] = Attr::of((attrs[i].name.clone(), mutate(rng, &attrs[i].value)));
                }
                3 if !items.is_empty() => {
                    let i = rng.usize_below(items.len());
                    items[i] = match &items[i] {
                        Item::ValueItem(x) => Item::ValueItem(mutate(rng, x)),
                        Item::Slot(k, x) => {
                            if rng.below(2) == 0 {
                                Item::Slot(mutate(rng, k), x.clone())
                            } else {
                                Item::Slot(k.clone(), mutate(rng, x))
                            }
                        }
                    };
                }
                4 if items.len() >= 2 => items.swap(0, 1),
                _ => attrs.push(Attr::of((Text::new("z"), Value::Extant))),
            }
            Value::Record(attrs, items)
        }
        _ => gen_value(rng, 1),
    }
}

/// Another spelling of the same Recon text.
fn respell(rng: &mut Rng, s: &str) -> String {
    let mut out = String::new();
    let mut in_string = false;
    let mut prev_backslash = false;
    for c in s.chars() {
        if in_string {
            out.push(c);
            if c == '"' && !prev_backslash {
                in_string = false;
            }
            prev_backslash = c == '\\' && !prev_backslash;
            continue;
        }
        match c {
            '"' => {
                in_string = true;
                out.push(c);
            }
            ',' if rng.below(3) == 0 => out.push(';'),
            '{' | '}' | ',' | ':' | '(' | ')' if rng.below(3) == 0 => {
                if c != '(' && rng.below(2) == 0 {
                    out.push(' ');
                }
                out.push(c);
                if c != ')' || true {
                    out.push(' ');
                }
            }
            _ => out.push(c),
        }
    }
    out
}

fn h(s: &str) -> u64 {
    let mut hasher = DefaultHasher::new();
    recon_hash(s, &mut hasher);
    hasher.finish()
}

fn parse(s: &str) -> Option<Value> {
    parse_recognize::<Value>(Span::new(s), false).ok()
}

fn main() {
    let args = parse_args();
    silence_panics();
    let mut rng = Rng::new(args.seed ^ 0xc15);
    let mut kinds: BTreeMap<String, u64> = BTreeMap::new();
    let mut failures: Vec<String> = vec![];
    let mut evals = 0u64;
    let mut nontrivial = 0u64;
    let mut distinct = BTreeSet::new();

    let frozen_differs = std::cell::Cell::new(0u64);
    let mut check = |a: &str, b: &str, kind: &str, failures: &mut Vec<String>| {
        evals += 1;
        *kinds.entry(kind.into()).or_default() += 1;
        let res = catch(std::panic::AssertUnwindSafe(|| {
            let got = compare_recon_values(a, b);
            let (va, vb) = (parse(a), parse(b));
            let expected = match (&va, &vb) {
                (Some(x), Some(y)) => x == y,
                _ => a == b,
            };
            if va.is_some() && vb.is_some() {
                // information only: does the comparator still answer as the frozen copy of it does?
                if let (Some(fa), Some(fb)) = (all_events(a), all_events(b)) {
                    if frozen_comparator::frozen_compare(fa, fb) != Some(got) {
                        frozen_differs.set(frozen_differs.get() + 1);
                    }
                }
            }
            if got != expected {
                // the known class C15-F1: two valid texts with different values whose event streams differ only in
                // where record bodies start and end, reported as equal
                // ... and only where the comparator as it was when the finding was recorded (frozen copy) gives this
                // very answer on the two event streams: a comparator changed to be wrong on more pairs is a violation
                let known = got && va.is_some() && vb.is_some() && {
                    let (ea, eb) = (events_without_braces(a), events_without_braces(b));
                    ea.is_some() && ea == eb
                } && match (all_events(a), all_events(b)) {
                    (Some(fa), Some(fb)) => frozen_comparator::frozen_compare(fa, fb) == Some(true),
                    _ => false,
                };
                return Err(format!("{}compare_recon_values({:?}, {:?}) = {} but the parsed values {:?} / {:?} say {}", if known { "KNOWN-F1 " } else { "" }, a, b, got, va, vb, expected));
            }
            if compare_recon_values(b, a) != got {
                return Err(format!("compare_recon_values is not symmetric on {:?} / {:?}", a, b));
            }
            if got && h(a) != h(b) {
                return Err(format!("{:?} and {:?} compare equal but hash differently", a, b));
            }
            Ok(got)
        }));
        match res {
            Ok(Ok(eq)) => {
                if distinct.insert((a.to_string(), b.to_string())) && eq && a != b {
                    nontrivial += 1;
                }
            }
            Ok(Err(e)) => failures.push(e),
            Err(m) => failures.push(format!("comparing {:?} and {:?} panicked: {}", a, b, m)),
        }
    };

    // corpus of spellings
    for (a, b) in [
        ("a", "\"a\""), ("1", "1"), ("1", " 1 "), ("{1,2}", "{ 1; 2 }"), ("@a(1)", "@a({1})"), ("@a(1)", "@a( 1 )"), ("@a", "@a()"), ("@a {}", "@a"),
        ("{a:1}", "{\"a\":1}"), ("16", "0x10"), ("1.0", "1"), ("1e2", "100.0"), ("{}", "{ }"), ("@a{1}", "@a {1}"), ("@a(b:1)", "@a({b:1})"),
        ("%AAEC", "%AAEC"), ("true", "\"true\""), ("-0", "0"), ("{1}", "1"), ("@a 1", "@a {1}"), ("@a(1,2)", "@a({1,2})"), ("\"a\\u0062\"", "ab"),
        ("@attr(1;2)", "@attr(1,2)"), ("@attr(1;2)", "@attr({1,2})"), ("@id(@inner(1;2), 3)", "@id({@inner({1,2}), 3})"), ("@name(3; {a: 1, b: 2})", "@name({3, {a: 1, b: 2}})"),
        ("{1,{2}}", "{{1,2}}"), ("{b,{b}}", "{{b,b}}"), ("@a(1\n2)", "@a(1,2)"), ("@a(\"x)y\",2)", "@a({\"x)y\",2})"), ("{1\n2}", "{1,2}"), ("@a(\"x,y\")", "@a({\"x,y\"})"),
        ("0.0", "-0.0"), ("{a:0.0}", "{a:-0.0}"), ("-0", "0"), ("0", "-0"), ("-0x0", "0"), ("0e0", "-0.0"), ("@a(-0.0)", "@a(0.0)"), ("1e400", "2e400"), ("-1e400", "1e400"),
        ("{", "{"), ("{", "{ "), ("@", "@"), ("", ""), ("", " "), ("{a:}", "{a:}"), ("{:1}", "{: 1}"),
        // brace shifts next to absent items and empty records (pointed out by the seeding agent of round thirteen)
        ("{,{1}}", "{{,1}}"), ("{1,{,}}", "{{1,,}}"), ("{@a{{}}}", "{{@a}}"), ("@a { , { : } }", "@a { { , : } }"),
    ] {
        check(a, b, "corpus", &mut failures);
    }

    for _ in 0..args.cases {
        let v = gen_value(&mut rng, 2);
        let forms = [print_recon(&v).to_string(), print_recon_compact(&v).to_string(), print_recon_pretty(&v).to_string()];
        // same value, different spellings
        for i in 0..3 {
            for j in 0..3 {
                check(&forms[i], &forms[j], "same_value_printers", &mut failures);
            }
            let r = respell(&mut rng, &forms[1]);
            check(&forms[i], &r, "same_value_respelled", &mut failures);
        }
        // a nearby different value
        let v2 = mutate(&mut rng, &v);
        check(&forms[1], &print_recon_compact(&v2).to_string(), "mutated_value", &mut failures);
        check(&forms[0], &print_recon_pretty(&v2).to_string(), "mutated_value", &mut failures);
        // the same text with braces put around or taken away from something (usually another value)
        for _ in 0..2 {
            let base: Vec<char> = forms[1].chars().collect();
            let mut t = base.clone();
            match rng.below(3) {
                0 if !t.is_empty() => {
                    let i = rng.usize_below(t.len());
                    let j = i + rng.usize_below(t.len() - i + 1);
                    t.insert(j, '}');
                    t.insert(i, '{');
                }
                1 => {
                    if let Some(i) = t.iter().position(|c| *c == '{') {
                        if let Some(j) = t.iter().rposition(|c| *c == '}') {
                            if j > i {
                                t.remove(j);
                                t.remove(i);
                            }
                        }
                    }
                }
                _ => {
                    if let Some(i) = t.iter().position(|c| *c == '(') {
                        t.insert(i + 1, '{');
                        if let Some(j) = t.iter().rposition(|c| *c == ')') {
                            t.insert(j, '}');
                        }
                    }
                }
            }
            let other: String = t.into_iter().collect();
            check(&forms[1], &other, "rebraced", &mut failures);
        }
        // an unrelated value
        let v3 = gen_value(&mut rng, 2);
        check(&forms[1], &print_recon_compact(&v3).to_string(), "unrelated_value", &mut failures);
        // damaged text
        let mut chars: Vec<char> = forms[1].chars().collect();
        if !chars.is_empty() {
            let pos = rng.usize_below(chars.len());
            chars[pos] = *rng.pick(&['{', '}', '@', '"', ':', ',', ' ']);
        }
        let damaged: String = chars.into_iter().collect();
        check(&forms[1], &damaged, "damaged", &mut failures);
        check(&damaged, &damaged, "damaged", &mut failures);
        let _ = BigUint::from(0u8);
    }

    // ---- hand-spelled values: every separator, implicit / explicit attribute bodies, delimiters inside strings ----
    for _ in 0..args.cases {
        let v = gen_sv(&mut rng, 3);
        let a = spell_sv(&mut rng, &v);
        let b = spell_sv(&mut rng, &v);
        check(&a, &b, "spelled_twice", &mut failures);
        let w = regroup(&mut rng, &v);
        let c = spell_sv(&mut rng, &w);
        check(&a, &c, "regrouped", &mut failures);
        let canon = parse(&a).map(|x| print_recon_compact(&x).to_string());
        if let Some(canon) = canon {
            check(&a, &canon, "spelled_vs_printed", &mut failures);
        }
    }

    // ---- attribute bodies of two or three leaves of every kind, with and without their braces ----
    for (a, b) in [
        ("@tile(%AAAA, 3)", "@tile({%AAAA, 3})"),
        ("@a(true,false)", "@a({true,false})"),
        ("@a(%AQID,%AAAA)", "@a({%AQID;%AAAA})"),
        ("@a(1,%AA==)", "@a({1, %AA==})"),
        ("@a(\"x\",%)", "@a({x,%})"),
    ] {
        check(a, b, "attr_body_leaves", &mut failures);
    }
    for _ in 0..args.cases {
        let n = rng.range(2, 3) as usize;
        let leaves: Vec<Sv> = (0..n)
            .map(|_| match rng.below(4) {
                0 => Sv::Lit(rng.pick(&["%AAAA", "%AQID", "%", "%AA==", "true", "false"]).to_string()),
                1 => Sv::Int(*rng.pick(&[0, 1, 2, -1])),
                2 => Sv::Str(rng.pick(&["a", "b", "x)y", "p,q", "two words", ""]).to_string()),
                _ => Sv::Num(rng.pick(&["0.0", "1.5", "1e1", "16"]).to_string()),
            })
            .collect();
        let items: Vec<Si> = leaves.into_iter().map(Si::V).collect();
        let inner = spell_items(&mut rng, &items);
        let inner2 = spell_items(&mut rng, &items);
        let tag = *rng.pick(&["a", "tile", "tag"]);
        let bare = format!("@{}({})", tag, inner);
        let braced = format!("@{}({{{}}})", tag, inner2);
        check(&bare, &braced, "attr_body_leaves", &mut failures);
        let nested = format!("{{1,@{}({})}}", tag, inner);
        let nested2 = format!("{{1, @{}({{{}}})}}", tag, inner2);
        check(&nested, &nested2, "attr_body_leaves", &mut failures);
    }

    // ---- one sequence of leaves under different bracketings (empty records included): texts whose tokens agree
    //      and that differ only in where records start and end denote different values unless the bracketing is
    //      the same up to the implicit record of an attribute body ----
    fn bracket(rng: &mut Rng, leaves: &[&str], depth: u32) -> String {
        // the items of one record body over these leaves
        let mut items: Vec<String> = vec![];
        let mut i = 0;
        while i < leaves.len() || (depth < 3 && rng.below(6) == 0) {
            if depth < 3 && rng.below(3) == 0 {
                let k = rng.below((leaves.len() - i) as u64 + 1) as usize;
                let sub = format!("{{{}}}", bracket(rng, &leaves[i..i + k], depth + 1));
                // after an attribute a record may follow without a separator: it is then that attribute's record
                match items.last_mut() {
                    Some(prev) if prev.starts_with('@') && !prev.ends_with('}') && rng.below(2) == 0 => prev.push_str(&sub),
                    _ => items.push(sub),
                }
                i += k;
            } else if i < leaves.len() {
                items.push(leaves[i].to_string());
                i += 1;
            } else {
                break;
            }
        }
        items.join(",")
    }
    let pools: Vec<Vec<&str>> = vec![
        vec!["b"], vec!["b", "b"], vec!["1", "2"], vec!["@a"], vec!["@a()"], vec!["@a", "@b"], vec!["@a", "b"],
        vec!["b", "@a"], vec!["@a(1)", "2"], vec!["a:1", "b"], vec![], vec!["@a(b)", "@a(b)"], vec!["\"x\"", "1", "@t"],
    ];
    let alphabet = ["b", "1", "@a", "@a()", "@b(1)", "k:2", "\"two words\"", "true", "%AA=="];
    let rounds = pools.len() + args.cases / 20;
    for round in 0..rounds {
        let leaves: Vec<&str> = if round < pools.len() {
            pools[round].clone()
        } else {
            (0..rng.range(1, 3)).map(|_| *rng.pick(&alphabet)).collect()
        };
        let mut texts: Vec<String> = vec![];
        for _ in 0..7 {
            let body = bracket(&mut rng, &leaves, 0);
            // the whole as one record, or (when it starts with attributes) as it stands
            let t = if body.starts_with('@') && rng.below(2) == 0 && !body.contains(',') { body } else { format!("{{{}}}", body) };
            if !texts.contains(&t) {
                texts.push(t);
            }
        }
        for i in 0..texts.len() {
            for j in (i + 1)..texts.len() {
                check(&texts[i], &texts[j], "bracketings_of_one_leaf_sequence", &mut failures);
            }
        }
    }

    // ---- text / boolean keys against the model ----
    let mut w = CaseWriter::new(
        "From SwimV Require Import Model.ReconText.\nOpen Scope N_scope.",
        "kcase",
        &["key_corr_bad"],
        args.shards,
    );
    let cps = |s: &str| coq_list(s.chars().map(|c| (c as u32).to_string()));
    let spell = |rng: &mut Rng, t: &str| -> String {
        let bare_ok = swimos_model::identifier::is_identifier(t) || t == "true" || t == "false";
        match rng.below(6) {
            0 if bare_ok => t.to_string(),
            1 if bare_ok => format!(" {}\t", t),
            2 => {
                // every character as a \u escape where that is possible
                let mut s = String::from("\"");
                for c in t.chars() {
                    if (c as u32) < 0x10000 && rng.below(2) == 0 {
                        s.push_str(&format!("\\u{:04x}", c as u32));
                    } else if c == '"' || c == '\\' {
                        s.push('\\');
                        s.push(c);
                    } else if (c as u32) < 0x20 {
                        s.push_str(&format!("\\u{:04X}", c as u32));
                    } else {
                        s.push(c);
                    }
                }
                s.push('"');
                s
            }
            3 => {
                // damaged: a bad escape or no closing quote
                let mut s = String::from("\"");
                s.push_str(&t.replace('"', "").replace('\\', ""));
                s.push_str(*rng.pick(&["\\x\"", "\\ud800\"", "", "\\u12\""]));
                s
            }
            _ => print_recon_compact(&Value::Text(Text::new(t))).to_string(),
        }
    };
    let pool: Vec<String> = vec!["a", "b", "ab", "true", "false", "", "a b", "é", "a\"b", "back\\slash", "x\ny", "名", "_id", "a-b", "1a", "\u{1}"]
        .into_iter()
        .map(String::from)
        .collect();
    for _ in 0..args.cases * 2 {
        let t1 = rng.pick(&pool).clone();
        let t2 = if rng.below(2) == 0 { t1.clone() } else { rng.pick(&pool).clone() };
        let a = spell(&mut rng, &t1);
        let b = spell(&mut rng, &t2);
        let r = catch(std::panic::AssertUnwindSafe(|| (compare_recon_values(&a, &b), h(&a) == h(&b))));
        match r {
            Ok((eq, sh)) => {
                let human = format!("keys {:?} / {:?} -> equal={} same_hash={}", a, b, eq, sh);
                if distinct.insert((a.clone(), b.clone())) && eq && a != b {
                    nontrivial += 1;
                }
                *kinds.entry("text_keys".into()).or_default() += 1;
                w.push(format!("CaseKeys {} {} {} {}", cps(&a), cps(&b), eq, sh), human);
            }
            Err(m) => failures.push(format!("comparing keys {:?} and {:?} panicked: {}", a, b, m)),
        }
    }
    w.finish(&args.out, "cases").unwrap();

    failures.sort();
    failures.dedup();
    let known: Vec<String> = failures.iter().filter(|f| f.starts_with("KNOWN-F1 ")).cloned().collect();
    failures.retain(|f| !f.starts_with("KNOWN-F1 "));
    std::fs::write(std::path::Path::new(&args.out).join("known.txt"), known.join("\n")).unwrap();
    std::fs::write(std::path::Path::new(&args.out).join("failures.txt"), failures.join("\n")).unwrap();
    let meta = J::obj(vec![
        ("evaluations", J::I(evals as i128 + w.len() as i128)),
        ("distinct_nontrivial", J::I(nontrivial as i128)),
        ("rule", J::s("pairs of Recon texts: the three printers' output of one generated value against each other and against a respelling (separators, blanks), a mutated value, an unrelated value, damaged text, and a corpus of spellings (quoted/bare identifiers, numeric formats, attribute body forms); expected = equality of the parsed values when both parse, string equality otherwise; symmetry; equal texts hash equally")),
        ("structures", J::counts(&kinds)),
        ("samples", J::A(vec![])),
        ("direct_failures", J::A(failures.iter().take(40).map(|f| J::s(f.chars().take(500).collect::<String>())).collect())),
        ("direct_failure_count", J::I(failures.len() as i128)),
        ("known_f1_hits", J::I(known.len() as i128)),
        ("pairs_on_which_the_comparator_differs_from_its_frozen_copy", J::I(frozen_differs.get() as i128)),
    ]);
    write_meta(&args.out, "meta.json", &meta);
}
