//! C16 (exploration): MessagePack and Recon reading paths of Form types on the real code.

use std::collections::{BTreeMap, HashMap};
use std::fmt::Debug;

use bytes::{BufMut, BytesMut};
use num_bigint::{BigInt, BigUint};
use swimos_form::write::StructuralWritable;
use swimos_form::read::StructuralReadable;
use swimos_form::Form;
use swimos_model::{Attr, Blob, Item, Text, Value};
use swimos_msgpack::{read_from_msg_pack, MsgPackInterpreter};
use swimos_recon::parser::{parse_recognize, Span};
use swimos_recon::print_recon_compact;
use vcore::*;

fn to_msgpack<T: StructuralWritable>(v: &T) -> Result<Vec<u8>, String> {
    let mut buffer = BytesMut::new();
    let mut writer = (&mut buffer).writer();
    v.write_with(MsgPackInterpreter::new(&mut writer)).map_err(|e| format!("{:?}", e))?;
    Ok(buffer.to_vec())
}

fn from_msgpack<T: StructuralReadable>(bytes: &[u8]) -> Result<T, String> {
    let mut b = bytes::Bytes::from(bytes.to_vec());
    read_from_msg_pack::<T, _>(&mut b).map_err(|e| format!("{:?}", e))
}

fn gen_value(rng: &mut Rng, depth: u32) -> Value {
    let top = if depth == 0 { 11 } else { 14 };
    match rng.below(top) {
        0 => Value::Extant,
        1 => Value::Int32Value(*rng.pick(&[0, 1, -1, 127, 128, -32, -33, 255, 256, 65535, 65536, i32::MAX, i32::MIN])),
        2 => Value::Int64Value(*rng.pick(&[0, -1, i64::MAX, i64::MIN, 1 << 32, -(1 << 31) - 1, u32::MAX as i64])),
        3 => Value::UInt32Value(*rng.pick(&[0, 1, u32::MAX, 70000])),
        4 => Value::UInt64Value(*rng.pick(&[0, 1, u64::MAX, 1 << 63, (1 << 63) - 1])),
        5 => Value::Float64Value(*rng.pick(&[0.0, -0.0, 1.0, -1.5, 1e300, 5e-324, 0.1])),
        6 => Value::BooleanValue(rng.below(2) == 0),
        7 => Value::BigInt(BigInt::from(*rng.pick(&[0i64, 1, 5, -1, -5, i64::MIN, i64::MAX])) * BigInt::from(*rng.pick(&[1i64, 1 << 40, 1 << 62]))),
        8 => Value::BigUint(BigUint::from(*rng.pick(&[0u64, 1, 255, 256, u64::MAX])) * BigUint::from(*rng.pick(&[1u64, 1 << 50]))),
        9 => {
            let n = *rng.pick(&[0usize, 1, 5, 31, 32, 255, 256, 300]);
            Value::Text(Text::new(&(0..n).map(|i| if i % 7 == 3 { 'é' } else { 'a' }).collect::<String>()))
        }
        10 => {
            let n = *rng.pick(&[0usize, 1, 3, 255, 256]);
            Value::Data(Blob::from_vec((0..n).map(|_| rng.below(256) as u8).collect()))
        }
        _ => {
            let nattrs = *rng.pick(&[0usize, 0, 1, 2, 16]);
            let nitems = *rng.pick(&[0usize, 1, 2, 3, 16]);
            let kind = rng.below(3);
            let attrs = (0..nattrs).map(|i| Attr::of((Text::new(&format!("a{}", i)), gen_value(rng, depth.saturating_sub(1))))).collect();
            let items = (0..nitems)
                .map(|_| {
                    let slot = match kind {
                        0 => false,
                        1 => true,
                        _ => rng.below(2) == 0,
                    };
                    if slot {
                        Item::Slot(gen_value(rng, depth.saturating_sub(1)), gen_value(rng, depth.saturating_sub(1)))
                    } else {
                        Item::ValueItem(gen_value(rng, depth.saturating_sub(1)))
                    }
                })
                .collect();
            Value::Record(attrs, items)
        }
    }
}

fn main() {
    let args = parse_args();
    silence_panics();
    let mut rng = Rng::new(args.seed ^ 0xc16);
    let mut kinds: BTreeMap<String, u64> = BTreeMap::new();
    let mut failures: Vec<String> = vec![];
    let mut evals = 0u64;

    macro_rules! typed {
        ($t:ty, $vals:expr) => {
            for x in $vals {
                let x: $t = x;
                evals += 1;
                *kinds.entry(format!("typed:{}", stringify!($t))).or_default() += 1;
                let r = catch(std::panic::AssertUnwindSafe(|| {
                    // model and back
                    let model = x.structure();
                    let back = <$t as Form>::try_from_value(&model).map_err(|e| format!("{:?}", e));
                    if back.as_ref().ok() != Some(&x) {
                        return Err(format!("{} {:?}: model {:?} converts back to {:?}", stringify!($t), x, model, back));
                    }
                    // msgpack and back
                    let bytes = to_msgpack(&x)?;
                    let back: Result<$t, String> = from_msgpack(&bytes);
                    if back.as_ref().ok() != Some(&x) {
                        return Err(format!("{} {:?}: MessagePack {:02x?} reads back as {:?}", stringify!($t), x, bytes, back));
                    }
                    // recon: direct vs via the model
                    let text = print_recon_compact(&x).to_string();
                    let direct = parse_recognize::<$t>(Span::new(&text), false).map_err(|e| format!("{:?}", e));
                    let via_model = parse_recognize::<Value>(Span::new(&text), false)
                        .map_err(|e| format!("{:?}", e))
                        .and_then(|v| <$t as Form>::try_from_value(&v).map_err(|e| format!("{:?}", e)));
                    if direct.as_ref().ok() != Some(&x) || via_model.as_ref().ok() != Some(&x) {
                        return Err(format!("{} {:?}: Recon {:?} reads directly as {:?}, through the model as {:?}", stringify!($t), x, text, direct, via_model));
                    }
                    Ok(())
                }));
                match r {
                    Ok(Ok(())) => {}
                    Ok(Err(e)) => failures.push(e),
                    Err(m) => failures.push(format!("{} {:?} panicked: {}", stringify!($t), x, m)),
                }
            }
        };
    }
    typed!(i32, [0, 1, -1, 127, 128, -32, -33, i32::MAX, i32::MIN]);
    typed!(i64, [0, -1, i64::MAX, i64::MIN, 1 << 40, i32::MAX as i64 + 1]);
    typed!(u32, [0, 1, u32::MAX, 65536]);
    typed!(u64, [0, 1, u64::MAX, 1 << 63, u32::MAX as u64 + 1]);
    typed!(f64, [0.0, 1.0, -1.5, 1e300, 5e-324, 0.1, 3.0]);
    typed!(bool, [true, false]);
    typed!(String, ["".to_string(), "a".to_string(), "two words".to_string(), "é名".to_string(), "true".to_string(), "x".repeat(300)]);
    typed!(BigInt, [BigInt::from(0), BigInt::from(5), BigInt::from(-5), BigInt::from(i64::MAX) * BigInt::from(4), BigInt::from(i64::MIN) * BigInt::from(4)]);
    typed!(BigUint, [BigUint::from(0u8), BigUint::from(7u8), BigUint::from(u64::MAX) * BigUint::from(3u8)]);
    typed!(Vec<i32>, [vec![], vec![1], vec![1, -2, 3], (0..20).collect::<Vec<i32>>()]);
    typed!(Vec<String>, [vec![], vec!["a".to_string(), "".to_string()]]);
    typed!(Option<i32>, [None, Some(0), Some(-5)]);
    typed!(HashMap<String, i32>, [HashMap::new(), [("a".to_string(), 1)].into_iter().collect(), [("a b".to_string(), 1), ("true".to_string(), -2)].into_iter().collect()]);
    typed!(HashMap<i32, String>, [HashMap::new(), [(1, "x".to_string()), (-2, "".to_string())].into_iter().collect()]);
    typed!(Blob, [Blob::from_vec(vec![]), Blob::from_vec(vec![0, 1, 255])]);

    // model values through MessagePack
    for i in 0..args.cases {
        let v = gen_value(&mut rng, if i % 3 == 0 { 3 } else { 2 });
        evals += 1;
        *kinds.entry("value_msgpack".into()).or_default() += 1;
        let r = catch(std::panic::AssertUnwindSafe(|| {
            let bytes = to_msgpack(&v)?;
            let back: Result<Value, String> = from_msgpack(&bytes);
            match &back {
                Ok(b) if *b == v => {}
                _ => return Err(format!("value {:?}: MessagePack {:02x?} reads back as {:?}", v, &bytes[..bytes.len().min(60)], back)),
            }
            // truncations never panic and are never accepted as a different value
            for cut in 0..bytes.len().min(80) {
                let t: Result<Value, String> = from_msgpack(&bytes[..cut]);
                if let Ok(tv) = t {
                    return Err(format!("value {:?}: the first {} of {} MessagePack bytes are accepted as {:?}", v, cut, bytes.len(), tv));
                }
            }
            Ok(())
        }));
        match r {
            Ok(Ok(())) => {}
            Ok(Err(e)) => failures.push(e),
            Err(m) => failures.push(format!("value {:?}: MessagePack round trip panicked: {}", v, m)),
        }
    }
    // random bytes: no panic
    for _ in 0..args.cases {
        let n = rng.range(0, 24) as usize;
        let bytes: Vec<u8> = (0..n).map(|_| *rng.pick(&[0u8, 1, 0x80, 0x81, 0x90, 0x91, 0xa1, 0xc0, 0xc4, 0xc5, 0xc6, 0xc7, 0xc8, 0xc9, 0xca, 0xcb, 0xcc, 0xcf, 0xd0, 0xd4, 0xd5, 0xd8, 0xd9, 0xda, 0xdb, 0xdc, 0xdd, 0xde, 0xdf, 0xff, 0x61, 0x05])).collect();
        evals += 1;
        *kinds.entry("random_msgpack".into()).or_default() += 1;
        if let Err(m) = catch(std::panic::AssertUnwindSafe(|| {
            let _: Result<Value, String> = from_msgpack(&bytes);
            let _: Result<i32, String> = from_msgpack(&bytes);
            let _: Result<Vec<String>, String> = from_msgpack(&bytes);
        })) {
            failures.push(format!("reading the bytes {:02x?} as MessagePack panicked: {}", bytes, m));
        }
    }

    failures.sort();
    failures.dedup();
    std::fs::write(std::path::Path::new(&args.out).join("failures.txt"), failures.join("\n")).unwrap();
    let meta = J::obj(vec![
        ("evaluations", J::I(evals as i128)),
        ("distinct_nontrivial", J::I(0)),
        ("rule", J::s("exploration")),
        ("structures", J::counts(&kinds)),
        ("samples", J::A(vec![])),
        ("direct_failures", J::A(failures.iter().take(40).map(|f| J::s(f.chars().take(500).collect::<String>())).collect())),
        ("direct_failure_count", J::I(failures.len() as i128)),
    ]);
    write_meta(&args.out, "meta.json", &meta);
}
